package triage

import (
	"fmt"
	"os"
	"testing"

	"github.com/holiman/uint256"
	ctypes "github.com/rigochain/rigo-go/ctrlers/types"
	"github.com/rigochain/rigo-go/ledger"
	"github.com/rigochain/rigo-go/libs/web3"
	rtypes "github.com/rigochain/rigo-go/types"
	"github.com/rigochain/rigo-go/types/xerrors"
	abci "github.com/tendermint/tendermint/abci/types"
)

func catch(f func()) (r interface{}) {
	defer func() { r = recover() }()
	f()
	return nil
}

// D1: undecodable tx in DeliverTx
func TestD1(t *testing.T) {
	e := newEnv(t, 3, ctypes.Test1GovParams(), 1)
	e.begin(nil, nil)
	r := catch(func() { e.app.DeliverTx(abci.RequestDeliverTx{Tx: []byte{0xff, 0xff, 0xff}}) })
	fmt.Println("D1 DeliverTx garbage panic:", r)
	r = catch(func() { e.app.CheckTx(abci.RequestCheckTx{Tx: []byte{0xff, 0xff, 0xff}}) })
	fmt.Println("D1 CheckTx garbage panic:", r)
	// unknown sender
	w := web3.NewWallet(nil)
	tx := web3.NewTrxTransfer(w.Address(), e.usrs[0].Address(), 0, 10, uint256.NewInt(10), uint256.NewInt(1))
	bz := sign(t, w, tx)
	r = catch(func() { e.app.DeliverTx(abci.RequestDeliverTx{Tx: bz}) })
	fmt.Println("D1 DeliverTx unknown sender panic:", r)
}

// D2: vm_call query short data
func TestD2(t *testing.T) {
	e := newEnv(t, 3, ctypes.Test1GovParams(), 1)
	e.block()
	r := catch(func() { e.app.Query(abci.RequestQuery{Path: "vm_call", Data: []byte{1, 2, 3}}) })
	fmt.Println("D2 vm_call short data panic:", r)
	r = catch(func() { e.app.Query(abci.RequestQuery{Path: "vm_call", Data: make([]byte, 44)}) })
	fmt.Println("D2 vm_call 44 bytes panic:", r)
	for _, p := range []string{"account", "stakes", "delegatee", "reward", "proposal", "gov_params", "stakes/total_power", "stakes/voting_power", "xx"} {
		for _, h := range []int64{0, 1, 5, -1} {
			for _, d := range [][]byte{nil, {1}, make([]byte, 20), make([]byte, 50)} {
				r = catch(func() { e.app.Query(abci.RequestQuery{Path: p, Data: d, Height: h}) })
				if r != nil {
					fmt.Println("D2 query panic:", p, h, len(d), r)
				}
			}
		}
	}
}

type item struct {
	k ledger.LedgerKey
	v int
}

func (i *item) Key() ledger.LedgerKey            { return i.k }
func (i *item) Encode() ([]byte, xerrors.XError) { return append(i.k[:], byte(i.v)), nil }
func (i *item) Decode(b []byte) xerrors.XError   { copy(i.k[:], b[:32]); i.v = int(b[32]); return nil }

// D3: del -> set -> get
func TestD3(t *testing.T) {
	dir, _ := os.MkdirTemp("", "led")
	l, err := ledger.NewFinalityLedger[*item]("x", dir, 10, func() *item { return &item{} })
	if err != nil {
		t.Fatal(err)
	}
	a := &item{v: 1}
	a.k[0] = 1
	l.SetFinality(a)
	l.Commit()
	_, xerr := l.DelFinality(a.k)
	fmt.Println("D3 del:", xerr)
	b := &item{k: a.k, v: 2}
	l.SetFinality(b)
	got, xerr := l.GetFinality(a.k)
	fmt.Println("D3 get after del+set:", got, xerr)
	l.Commit()
	got, xerr = l.GetFinality(a.k)
	fmt.Println("D3 get after commit:", got, xerr)
	// mempool overlay
	l.Del(a.k)
	l.Set(&item{k: a.k, v: 3})
	got, xerr = l.Get(a.k)
	fmt.Println("D3 mempool get after del+set:", got, xerr)
}

// D4: CheckTx staking changes limiter -> DeliverTx result
func TestD4(t *testing.T) {
	run := func(withCheck bool) []uint32 {
		e := newEnv(t, 4, ctypes.Test1GovParams(), 1000)
		e.block()
		e.block()
		gp := e.gp
		u := e.usrs[0]
		v := e.vals[1]
		mk := func(nonce uint64) []byte {
			tx := web3.NewTrxStaking(u.Address(), v.Address(), nonce, gp.MinTrxGas(), gp.GasPrice(), coins(10))
			return sign(t, u, tx)
		}
		e.begin(nil, nil)
		if withCheck {
			r := e.app.CheckTx(abci.RequestCheckTx{Tx: mk(0)})
			fmt.Println("  check code", r.Code, r.Log)
		}
		r1 := e.app.DeliverTx(abci.RequestDeliverTx{Tx: mk(0)})
		fmt.Println("  deliver code", r1.Code, r1.Log)
		_, c := e.end()
		fmt.Printf("  apphash %X\n", c.Data)
		return []uint32{r1.Code}
	}
	a := run(false)
	b := run(true)
	fmt.Println("D4 quiet:", a, " with CheckTx:", b)
}

// D5: restart -> validator updates differ / IsValidator
func TestD5(t *testing.T) {
	run := func(restart bool) {
		e := newEnv(t, 4, ctypes.Test1GovParams(), 1000)
		e.block()
		e.block()
		if restart {
			e.reopen()
		}
		gp := e.gp
		v := e.vals[1]
		tx := web3.NewTrxProposal(v.Address(), rtypes.ZeroAddress(), 0, gp.MinTrxGas(), gp.GasPrice(), "m", e.h+5, 10, e.h+5+10+10, 0x0101, []byte(`{"gasPrice":"20"}`))
		rs, eb, c := e.block(sign(t, v, tx))
		fmt.Printf("D5 restart=%v deliver=%d %q valupdates=%d apphash=%X\n", restart, rs[0].Code, rs[0].Log, len(eb.ValidatorUpdates), c.Data)
	}
	run(false)
	run(true)
}

// D6: two genesis validators unstake their genesis stake (txhash zero) -> frozen key collision
func TestD6(t *testing.T) {
	gp := ctypes.Test6GovParams_NoStakeLimiter()
	e := newEnv(t, 4, gp, 1000)
	e.block()
	zero := make([]byte, 32)
	var txs [][]byte
	for i := 0; i < 2; i++ {
		v := e.vals[i]
		tx := web3.NewTrxUnstaking(v.Address(), v.Address(), 0, gp.MinTrxGas(), gp.GasPrice(), zero)
		txs = append(txs, sign(t, v, tx))
	}
	rs, _, _ := e.block(txs...)
	for _, r := range rs {
		fmt.Println("D6 unstake code", r.Code, r.Log)
	}
	e.block()
	q := e.app.Query(abci.RequestQuery{Path: "stakes/total_power"})
	fmt.Println("D6 total power after:", string(q.Value))
	// frozen: no query path; run until refund (lazyRewardBlocks=30)
	bal := func(i int) string {
		q := e.app.Query(abci.RequestQuery{Path: "account", Data: e.vals[i].Address()})
		return string(q.Value)
	}
	fmt.Println("D6 before refund", bal(0), bal(1))
	for i := 0; i < 35; i++ {
		e.block()
	}
	fmt.Println("D6 after refund", bal(0), bal(1))
}
