package triage

import (
	"fmt"
	"os"
	"os/exec"
	"path/filepath"
	"testing"

	"github.com/holiman/uint256"
	cfg "github.com/rigochain/rigo-go/cmd/config"
	ctypes "github.com/rigochain/rigo-go/ctrlers/types"
	"github.com/rigochain/rigo-go/libs/web3"
	"github.com/rigochain/rigo-go/node"
	abci "github.com/tendermint/tendermint/abci/types"
	"github.com/tendermint/tendermint/libs/log"
)

func cp(src, dst string) { exec.Command("cp", "-r", src, dst).Run() }

// T1: crash between gov commit and account commit of block 3
func TestT1(t *testing.T) {
	e := newEnv(t, 4, ctypes.Test1GovParams(), 1000)
	e.block()
	e.block()
	s2, _ := os.MkdirTemp("", "s2")
	cp(e.dir+"/.", s2)
	gp := e.gp
	u := e.usrs[0]
	tx := web3.NewTrxTransfer(u.Address(), e.usrs[1].Address(), 0, gp.MinTrxGas(), gp.GasPrice(), uint256.NewInt(5))
	txbz := sign(t, u, tx)
	_, _, c3 := e.block(txbz)
	s3, _ := os.MkdirTemp("", "s3")
	cp(e.dir+"/.", s3)
	ents, _ := os.ReadDir(filepath.Join(s3, "data"))
	var names []string
	for _, x := range ents {
		names = append(names, x.Name())
	}
	fmt.Println("stores:", names)
	try := func(label string, fromS3 []string) {
		mix, _ := os.MkdirTemp("", "mix")
		cp(s2+"/.", mix)
		for _, n := range fromS3 {
			os.RemoveAll(filepath.Join(mix, "data", n))
			cp(filepath.Join(s3, "data", n), filepath.Join(mix, "data", n))
		}
		conf := cfg.DefaultConfig()
		conf.SetRoot(mix)
		r := catch(func() {
			app := node.NewRigoApp(conf, log.NewNopLogger())
			info := app.Info(abci.RequestInfo{})
			e2 := &env{app: app, dir: mix, vals: e.vals, usrs: e.usrs, h: info.LastBlockHeight, gp: gp, conf: conf}
			_, _, c := e2.block(txbz)
			fmt.Printf("  %s: info.h=%d replay apphash=%X (continuous %X)\n", label, info.LastBlockHeight, c.Data, c3.Data)
		})
		if r != nil {
			fmt.Printf("  %s: PANIC %v\n", label, r)
		}
	}
	try("no crash (all S2, replay 3)", nil)
	try("crash after gov ledgers", []string{"gov_params.db", "proposal.db", "frozen_proposal.db"})
	try("crash after gov+accounts", []string{"gov_params.db", "proposal.db", "frozen_proposal.db", "accounts.db"})
	try("crash before meta only", []string{"gov_params.db", "proposal.db", "frozen_proposal.db", "accounts.db", "delegatees.db", "frozen.db", "rewards.db", "rigo_app_rwd_hash.db", "heightRootHash.db"})
}

// T4: failing tx to fresh address: app hash vs empty block
func TestT4(t *testing.T) {
	run := func(withFail bool) {
		e := newEnv(t, 4, ctypes.Test1GovParams(), 1000)
		e.block()
		gp := e.gp
		u := e.usrs[0]
		fresh := web3.NewWallet(nil)
		// wrong nonce -> fails in validation
		tx := web3.NewTrxTransfer(u.Address(), fresh.Address(), 7, gp.MinTrxGas(), gp.GasPrice(), uint256.NewInt(5))
		var txs [][]byte
		if withFail {
			txs = append(txs, sign(t, u, tx))
		}
		rs, _, c := e.block(txs...)
		for _, r := range rs {
			fmt.Println("  code", r.Code)
		}
		fmt.Printf("T4 withFail=%v apphash=%X\n", withFail, c.Data)
	}
	run(false)
	run(true)
}
