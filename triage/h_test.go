package triage

import (
	"fmt"
	"os"
	"os/exec"
	"testing"
	"time"

	"github.com/holiman/uint256"
	cfg "github.com/rigochain/rigo-go/cmd/config"
	ctypes "github.com/rigochain/rigo-go/ctrlers/types"
	"github.com/rigochain/rigo-go/genesis"
	"github.com/rigochain/rigo-go/ledger"
	"github.com/rigochain/rigo-go/libs/web3"
	"github.com/rigochain/rigo-go/node"
	rtypes "github.com/rigochain/rigo-go/types"
	abci "github.com/tendermint/tendermint/abci/types"
	tmjson "github.com/tendermint/tendermint/libs/json"
	"github.com/tendermint/tendermint/libs/log"
	tmcrypto "github.com/tendermint/tendermint/proto/tendermint/crypto"
	tmproto "github.com/tendermint/tendermint/proto/tendermint/types"
)

type env struct {
	app  *node.RigoApp
	dir  string
	vals []*web3.Wallet
	usrs []*web3.Wallet
	h    int64
	gp   *ctypes.GovParams
	conf *cfg.Config
}

const chainID = "triage"

func newEnv(t *testing.T, nvals int, gp *ctypes.GovParams, valPower int64) *env {
	dir, _ := os.MkdirTemp("", "triage")
	conf := cfg.DefaultConfig()
	conf.SetRoot(dir)
	os.MkdirAll(conf.DBDir(), 0o755)
	e := &env{dir: dir, gp: gp, conf: conf}
	e.app = node.NewRigoApp(conf, log.NewNopLogger())
	e.app.Info(abci.RequestInfo{})
	var holders []*genesis.GenesisAssetHolder
	var vups []abci.ValidatorUpdate
	for i := 0; i < nvals; i++ {
		w := web3.NewWallet(nil)
		e.vals = append(e.vals, w)
		holders = append(holders, &genesis.GenesisAssetHolder{Address: w.Address(), Balance: uint256.MustFromDecimal("100000000000000000000000000")})
		vups = append(vups, abci.ValidatorUpdate{PubKey: tmcrypto.PublicKey{Sum: &tmcrypto.PublicKey_Secp256K1{Secp256K1: w.GetPubKey()}}, Power: valPower})
	}
	for i := 0; i < 4; i++ {
		w := web3.NewWallet(nil)
		e.usrs = append(e.usrs, w)
		holders = append(holders, &genesis.GenesisAssetHolder{Address: w.Address(), Balance: uint256.MustFromDecimal("100000000000000000000000000")})
	}
	as := genesis.GenesisAppState{AssetHolders: holders, GovParams: gp}
	bz, err := tmjson.Marshal(as)
	if err != nil {
		t.Fatal(err)
	}
	e.app.InitChain(abci.RequestInitChain{ChainId: chainID, Validators: vups, AppStateBytes: bz})
	return e
}

func (e *env) reopen() {
	nd, _ := os.MkdirTemp("", "triage")
	exec.Command("cp", "-r", e.dir+"/.", nd).Run()
	conf := cfg.DefaultConfig()
	conf.SetRoot(nd)
	e.conf = conf
	e.dir = nd
	e.app = node.NewRigoApp(e.conf, log.NewNopLogger())
	fmt.Printf("  reopened info: %+v\n", e.app.Info(abci.RequestInfo{}))
}

func (e *env) begin(votes []abci.VoteInfo, evs []abci.Evidence) {
	e.h++
	e.app.BeginBlock(abci.RequestBeginBlock{Header: tmproto.Header{Height: e.h, Time: time.Unix(1700000000+e.h, 0), ProposerAddress: e.vals[0].Address()}, LastCommitInfo: abci.LastCommitInfo{Votes: votes}, ByzantineValidators: evs})
}
func (e *env) end() (abci.ResponseEndBlock, abci.ResponseCommit) {
	r := e.app.EndBlock(abci.RequestEndBlock{Height: e.h})
	c := e.app.Commit()
	return r, c
}
func (e *env) block(txs ...[]byte) ([]abci.ResponseDeliverTx, abci.ResponseEndBlock, abci.ResponseCommit) {
	e.begin(nil, nil)
	var rs []abci.ResponseDeliverTx
	for _, tx := range txs {
		rs = append(rs, e.app.DeliverTx(abci.RequestDeliverTx{Tx: tx}))
	}
	r, c := e.end()
	return rs, r, c
}

func sign(t *testing.T, w *web3.Wallet, tx *ctypes.Trx) []byte {
	if _, _, err := w.SignTrxRLP(tx, chainID); err != nil {
		t.Fatal(err)
	}
	bz, xerr := tx.Encode()
	if xerr != nil {
		t.Fatal(xerr)
	}
	return bz
}

func coins(n uint64) *uint256.Int { return rtypes.ToFons(n) }

var _ = fmt.Sprint
var _ = ledger.ToLedgerKey
