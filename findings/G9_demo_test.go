// place at: ctrlers/gov/proposal/zz_g9_test.go
package proposal_test

import (
	"fmt"
	"os"
	"path/filepath"
	"testing"

	"github.com/holiman/uint256"
	cfg "github.com/rigochain/rigo-go/cmd/config"
	"github.com/rigochain/rigo-go/ctrlers/gov"
	"github.com/rigochain/rigo-go/ctrlers/gov/proposal"
	ctrlertypes "github.com/rigochain/rigo-go/ctrlers/types"
	"github.com/rigochain/rigo-go/genesis"
	"github.com/rigochain/rigo-go/libs/web3"
	"github.com/rigochain/rigo-go/types"
	abytes "github.com/rigochain/rigo-go/types/bytes"
	abcitypes "github.com/tendermint/tendermint/abci/types"
	tmlog "github.com/tendermint/tendermint/libs/log"
	tmtypes "github.com/tendermint/tendermint/types"
)

// g9Stake is a fixed validator set (the stake controller is not under test here).
type g9Stake struct {
	addrs  []types.Address
	powers []int64
}

func (s *g9Stake) Validators() ([]*abcitypes.Validator, int64) {
	var vals []*abcitypes.Validator
	total := int64(0)
	for i, a := range s.addrs {
		vals = append(vals, &abcitypes.Validator{Address: a, Power: s.powers[i]})
		total += s.powers[i]
	}
	return vals, total
}
func (s *g9Stake) IsValidator(addr types.Address) bool {
	for _, a := range s.addrs {
		if abytes.Compare(a, addr) == 0 {
			return true
		}
	}
	return false
}
func (s *g9Stake) TotalPowerOf(addr types.Address) int64 {
	for i, a := range s.addrs {
		if abytes.Compare(a, addr) == 0 {
			return s.powers[i]
		}
	}
	return 0
}
func (s *g9Stake) SelfPowerOf(addr types.Address) int64      { return s.TotalPowerOf(addr) }
func (s *g9Stake) DelegatedPowerOf(addr types.Address) int64 { return 0 }

var _ ctrlertypes.IStakeHandler = (*g9Stake)(nil)

type g9Chain struct {
	t      *testing.T
	ctrler *gov.GovCtrler
	stake  *g9Stake
	height int64 // last committed height
	nonce  uint64
}

// deliver runs one gov transaction through ValidateTrx/ExecuteTrx as DeliverTx of block `height` does.
func (c *g9Chain) deliver(tx *ctrlertypes.Trx, height int64) (abytes.HexBytes, error) {
	txbz, xerr := tx.Encode()
	if xerr != nil {
		c.t.Fatal(xerr)
	}
	ctx := &ctrlertypes.TrxContext{
		Height:       height,
		TxHash:       tmtypes.Tx(txbz).Hash(),
		Tx:           tx,
		Exec:         true,
		GovHandler:   c.ctrler,
		StakeHandler: c.stake,
	}
	if xerr := c.ctrler.ValidateTrx(ctx); xerr != nil {
		return ctx.TxHash, xerr
	}
	if xerr := c.ctrler.ExecuteTrx(ctx); xerr != nil {
		return ctx.TxHash, xerr
	}
	return ctx.TxHash, nil
}

// block executes the block `c.height+1` with the given transactions and commits it.
func (c *g9Chain) block(txs ...func(height int64)) {
	h := c.height + 1
	bctx := ctrlertypes.NewBlockContext(abcitypes.RequestBeginBlock{}, c.ctrler, nil, c.stake)
	bctx.SetHeight(h)
	if _, xerr := c.ctrler.BeginBlock(bctx); xerr != nil {
		c.t.Fatal(xerr)
	}
	for _, fn := range txs {
		fn(h)
	}
	if _, xerr := c.ctrler.EndBlock(bctx); xerr != nil {
		// RigoApp.EndBlock panics on this error: every node that executes the block halts
		c.t.Fatalf("height %d: GovCtrler.EndBlock failed (RigoApp.EndBlock panics on it): %v", h, xerr)
	}
	if _, _, xerr := c.ctrler.Commit(); xerr != nil {
		c.t.Fatal(xerr)
	}
	c.height = h
}

func (c *g9Chain) vote(voter types.Address, propHash abytes.HexBytes, choice int32) func(int64) {
	return func(h int64) {
		c.nonce++
		tx := web3.NewTrxVoting(voter, types.ZeroAddress(), c.nonce, 10, uint256.NewInt(10), propHash, choice)
		if _, err := c.deliver(tx, h); err != nil {
			c.t.Fatalf("height %d: vote of %v rejected: %v", h, voter, err)
		}
	}
}


// G9 — a parameter proposal whose winning option leaves its last parameter empty
// ("" means "not set" to GovParams.UnmarshalJSON, and ValidateTrx accepts it) must be
// applied like any other. Before the fix the hotfix in applyProposals rewrote the
// accepted text into invalid JSON, EndBlock failed at the applying height and
// RigoApp.EndBlock panicked on every node.
func TestG9_AcceptedOptionEndingInEmptyStringIsApplied(t *testing.T) {
	config := cfg.DefaultConfig()
	config.DBPath = filepath.Join(os.TempDir(), "g9-gov-demo")
	_ = os.RemoveAll(config.DBPath)
	if err := os.MkdirAll(config.DBPath, 0700); err != nil {
		t.Fatal(err)
	}
	defer os.RemoveAll(config.DBPath)
	ctrler, err := gov.NewGovCtrler(config, tmlog.NewNopLogger())
	if err != nil {
		t.Fatal(err)
	}
	defer ctrler.Close()
	if xerr := ctrler.InitLedger(&genesis.GenesisAppState{GovParams: ctrlertypes.Test1GovParams()}); xerr != nil {
		t.Fatal(xerr)
	}
	stake := &g9Stake{
		addrs:  []types.Address{types.RandAddress(), types.RandAddress(), types.RandAddress()},
		powers: []int64{100, 100, 100},
	}
	c := &g9Chain{t: t, ctrler: ctrler, stake: stake}
	c.block() // 1
	opt0 := []byte(`{"slashRatio":"77","gasPrice":""}`)
	var hashA abytes.HexBytes
	c.block(func(h int64) {
		txA := web3.NewTrxProposal(stake.addrs[1], types.ZeroAddress(), 1, 10, uint256.NewInt(10),
			"proposal A", 5, 10, 25, proposal.PROPOSAL_GOVPARAMS, opt0)
		var err error
		if hashA, err = c.deliver(txA, h); err != nil {
			t.Fatalf("proposal A rejected: %v", err)
		}
	})
	c.block() // 3
	c.block() // 4
	c.block(c.vote(stake.addrs[0], hashA, 0), c.vote(stake.addrs[1], hashA, 0), c.vote(stake.addrs[2], hashA, 0)) // 5
	for c.height < 27 {
		c.block()
	}
	gp := ctrler.GetGovParams()
	if got := gp.SlashRatio(); got != 77 {
		t.Errorf("the unanimously accepted option was not applied: slashRatio = %d, want 77", got)
	}
	_ = fmt.Sprint()
}
