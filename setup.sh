#!/bin/sh
# Builds the checker offline from files on disk (module cache: golang.org/x/tools v0.29.0).
set -e
cd "$(dirname "$0")/tool"
export GOFLAGS=-mod=mod GOPROXY=off GOSUMDB=off GOTOOLCHAIN=local GOWORK=off
mkdir -p ../bin ../evidence
go build -o ../bin/rigocheck .
echo "built $(cd .. && pwd)/bin/rigocheck"
