#!/bin/sh
# usage: check.sh <property id> <quick|thorough>
# Decides one property by static analysis of /repo's current working tree.
# exit 0 = all obligations ok (known findings printed as KNOWN-FINDING lines);
# exit 1 = VIOLATION line(s) printed.
here="$(cd "$(dirname "$0")" && pwd)"
export GOFLAGS=-mod=mod GOPROXY=off GOSUMDB=off GOTOOLCHAIN=local GOWORK=off
if [ ! -x "$here/bin/rigocheck" ] || [ -n "$(find "$here/tool" -name '*.go' -newer "$here/bin/rigocheck" 2>/dev/null | head -1)" ]; then
  sh "$here/setup.sh" >/dev/null || { echo "VIOLATION property=$1 replay=$here/evidence/violations/$1-build.json"; exit 1; }
fi
exec "$here/bin/rigocheck" -verif "$here" -repo "${RIGO_REPO:-/repo}" -prop "$1" -tier "${2:-quick}"
