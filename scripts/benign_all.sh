#!/bin/sh
# usage: benign_all.sh <listfile> <outdir>   (list lines: "<name> <patch>")
# Runs every behaviour-preserving refactoring of the list through all checks on
# scratch copies (6 in parallel) and prints the ones that raise a new alarm.
cd /verif
list="$1"; out="$2"; mkdir -p "$out"; rm -f "$out"/*.txt
cat "$list" | xargs -P 6 -L 1 sh -c 'scripts/seedcheck.sh $1 > '"$out"'/$0.txt 2>&1'
n=0; bad=0
for f in "$out"/*.txt; do n=$((n+1)); c=$(grep '^count=' $f); if [ "$c" != "count=0" ]; then bad=$((bad+1)); echo "$(basename $f .txt) $c"; fi; done
echo "refactorings=$n alarming=$bad"
cat "$out"/*.txt | grep "BAD" | sed 's/^ *BAD property=\(C..\) status=\([a-z]*\) key=\([A-Za-z]*-[0-9a-z]*\):.*/\1 \3 \2/' | sort | uniq -c | sort -rn
