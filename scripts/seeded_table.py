#!/usr/bin/env python3
"""Regenerates the table between <!-- SEEDED-TABLE --> and <!-- /SEEDED-TABLE --> in DESIGN.md
from seeded/*/meta.json."""
import json, glob, os, re
rows = []
for d in sorted(glob.glob("/verif/seeded/*/")):
    m = json.load(open(d + "meta.json"))
    name = os.path.basename(d.rstrip("/"))
    own = [re.sub(r"^(violated|undecided) ", "", k) for k in m.get("caught_by_own_property_check", []) if not k.endswith(":floor")]
    own = sorted(set(k.split(":table:")[0] + (":table:…" if ":table:" in k else "") for k in own))
    others = sorted(set(re.sub(r"^property=(C\d+) .*", r"\1", k) for k in m.get("caught_by_other_checks", [])))
    note = m.get("first_missed", "")
    rows.append("| `seeded/%s` | %s | %s | %s | %s |" % (name, m["title"].replace("|", "/"), "<br>".join("`%s`" % k for k in own[:4]) or "—", ", ".join(others) or "—", note or "caught as delivered"))
hdr = ["| change | what it does | reported by the property's own check | also reported by | history |", "|---|---|---|---|---|"]
table = "\n".join(hdr + rows)
s = open("/verif/DESIGN.md").read()
if "<!-- /SEEDED-TABLE -->" in s:
    s = re.sub(r"<!-- SEEDED-TABLE -->.*?<!-- /SEEDED-TABLE -->", "<!-- SEEDED-TABLE -->\n" + table + "\n<!-- /SEEDED-TABLE -->", s, flags=re.S)
else:
    s = s.replace("<!-- SEEDED-TABLE -->", "<!-- SEEDED-TABLE -->\n" + table + "\n<!-- /SEEDED-TABLE -->")
open("/verif/DESIGN.md", "w").write(s)
print(len(rows), "rows")
