#!/usr/bin/env python3
"""Generates /verif/MANIFEST.json from the table below (single source of truth)."""
import json, os
V = "/verif"
CLAIMED = {
 # id: (clause text, technique, level_note, design_ref)
 "C05": ("Decides the structural mechanism of atomicity for every failing transaction at once: validation precedes execution; nothing reachable from validateTrx mutates a ledger item, an overlay or controller state (the stake limiter, consulted as the last validation step and fail-clean, is the one checked exception); in every execution function no error exit is reachable while an effect is in force — an effect/typestate analysis over all paths that retracts effects on a fail-clean callee's own error edge (computed recursively), on dead error edges of always-nil callees and by the registered compensations (refund of the same amount, CancelSet of the object), with two exceptions whose structural side conditions are checked (the fee debit is pre-checked with the same fee expression; the deleted delegatee key is the one just read); EVM failures revert to the pre-transaction snapshot before syncing out; the fee is added only on success. It does not evaluate that compensations restore exact values.",
         "path-sensitive effect/typestate analysis with recursive fail-clean summaries + purity (who-may-write) check of the validation call tree + pairing rules on the EVM snapshot/revert/finish protocol",
         "trusted: go/ssa, call graph; role tables of item mutators and overlay mutators (tool/c05.go, tool/execctx.go)", "DESIGN.md §3 C05"),
 "C16": ("Decides the structural fee/gas mechanisms for every transaction and block at once: the gas-price equality and minimum-fee guards (and the intrinsic-gas guard for contracts) lie on every success path of validation and use the node's governance controller; the routing decision table shows every natively executed transaction is debited exactly gas-limit x price once and reports GasUsed = gas limit; on the EVM route gas limit, governance price and amount reach the message unchanged and GasUsed is the result's UsedGas; deliverTxSync adds GasToFee(GasUsed, governance price) only on the success branch and on every success; the fee sum has a closed set of writers, starts at zero in a context created afresh per block, and EndBlock credits exactly SumFee() to the header's proposer in the consensus overlay. Numeric sums and go-ethereum's gas accounting are not covered.",
         "guard dominance on every success path + exhaustive routing decision table over the CFGs + who-may-write/who-may-call + argument data-flow checks on the EVM route and the proposer credit",
         "trusted: go/ssa, call graph, go-ethereum gas accounting, uint256", "DESIGN.md §3 C16"),
 "C04": ("Decides the structural mechanisms of nonce handling for every account and history at once: CheckNonce is a pure equality guard applied to the sender and the tx nonce before any controller runs; Account.Nonce has a closed set of writers (+1 primitive, EVM write-back, decode) with closed sets of callers; a decision table over (tx type x receiver-has-code x exec), evaluated exhaustively on the CFGs of runTrx and postRunTrx, shows that exactly the natively executed transactions consume exactly one nonce of ctx.Sender (followed by marking the account) on every success path and EVM-routed ones none; on the EVM route the transaction's own nonce reaches the message with nonce checking enabled and Finish writes the EVM's nonce back. The arithmetic consequence over a history is not computed.",
         "who-may-write / who-may-call rules over the call graph + guard dominance + exhaustive abstract evaluation (decision table) of the routing CFGs",
         "trusted: go/ssa, call graph, go-ethereum's nonce check; client-side packages (libs/web3, sfeeder, cmd) are outside the who-may-call scope", "DESIGN.md §3 C04"),
 "C18": ("Decides, exhaustively over a finite abstract domain, that the ledger package's code implements an overlayed map for every operation sequence on one key: the SSA of the ledger methods and all memItems helpers is evaluated by an abstract interpreter (one tracked key; items as value tags; containers as has-key/tag; removed-key list as occurrence count; tree as absent/tag) and every sequence of Set/Get/Del on both overlays, Read and Commit is explored to closure against the reference model (reads, commit net effect, overlay clearing, mempool isolation from consensus). Plus: the IAVL tree is mutated only in Commit (removals before updates), tree iterators do not consult overlays, no version is ever deleted, ImmutableLedgerAt(n) loads exactly n into a fresh tree with fresh overlays. Reopen and Cancel* are not covered.",
         "abstract interpretation of the package's SSA over a finite one-key domain, explored to closure against a reference model + who-may-call / ordering rules on the IAVL API",
         "trusted: go/ssa, iavl, the per-key independence of Go maps and list membership; the interpreter answers 'undecided' (check fails) if the code leaves the abstract domain", "DESIGN.md §3 C18"),
 "C19": ("Decides the structural clause of read-only, height-exact queries for every request at once: nothing reachable from Query calls an overlay method of a live ledger (tree reads and ImmutableLedgerAt only), reaches a durable-write API of tm-db/iavl/go-ethereum, writes in-memory controller state or touches the live EVM state; the vm_call state is the scratch wrapper of ImmutableStateAt with the immutable account handler; every handler opens its immutable ledger / state at a height data-dependent on the request height and reads the committed tree; height 0 maps to the last committed height; dispatch tables of RigoApp.Query and the controllers agree; no tree version is ever deleted or overwritten in the module. It does not decide the returned bytes.",
         "call-graph reachability with who-may-call tables (durable-write APIs, ledger overlay vocabulary) + data-dependence of the height argument + sibling agreement of dispatch tables",
         "trusted: go/ssa, call graph; on the query path the StateDBWrapper's IAccountHandler is resolved to ImmuAcctCtrler, justified by the checked construction in ImmutableStateAt (Q-1e)", "DESIGN.md §3 C19"),
 "C06": ("Decides the structural mechanism of isolation for all interleavings at ABCI-call granularity: an exec-context analysis labels every program point of every function reachable from an ABCI entry with the set of contexts (consensus T / CheckTx F / Query Q) it can run in, refined by dominating tests of the exec flag; consensus-overlay ledger methods are called only at T points and mempool-overlay methods never at T points (both arms of the method-value idiom, same ledger); every value bound to an exec parameter or stored as the flag is the flag itself or a constant that agrees with the calling context; no in-memory controller state is written outside T; the live EVM state is touched only at T; every successful ledger commit resets the mempool overlay. It does not decide sub-call races.",
         "interprocedural exec-context (typestate-like) dataflow over SSA + repaired VTA call graph; who-may-write rule on controller-state fields; must-pass-through on FinalityLedger.Commit",
         "trusted: go/ssa, call graph (closures take the context of their creation point; go-ethereum's callbacks into StateDBWrapper are modelled at every ApplyMessage site); the query-side StateDBWrapper is the scratch one (C17 E-5)", "DESIGN.md §3 C06"),
 "C03": ("Decides the structural mechanisms behind signature authorisation for every transaction at once: verification (for the context's tx and the node's chain id) dominates execution on the exec=true path with no bypass; the recovered address is compared in full with the sender; the signed pre-image is prefix(chainId,len) ++ RLP(tx) and its encoder covers every field of Trx and of every payload, with only widening integer conversions, full 256-bit values and single RLP items (so the encoding is injective in the executed fields); the wire decoder fills every executed field and reader/writer tables agree. It does not decide cryptographic strength.",
         "SSA guard/dominance rules on the validation chain + AST/type field-coverage of the RLP encoders and proto decoders + conversion-width lint + sibling-table agreement (fromProto / DecodeRLP / Type())",
         "trusted: go-ethereum rlp and SigToPub, SHA-256, protobuf; structural clause only (level other)", "DESIGN.md §3 C03"),
 "C09": ("Decides a necessary structural clause of 'no input can crash the node' for every path at once: over all module functions reachable from CheckTx/DeliverTx/Query, every explicit panic / Must* helper is a listed construct with its invariant; every payload type assertion without comma-ok sits where the tx-type dataflow admits only the payload type Trx.fromProto allocates; every slice/index on a slice has a dominating length bound or clamp; no result of a nil-with-error / may-return-nil function is dereferenced on the error branch or without a nil test, nor parked in a struct field while the function can still succeed; every integer division by a non-constant is guarded or carries a listed invariant. Panics inside dependencies are not covered.",
         "SSA dominance/guard analysis + interprocedural tx-type constant propagation + nil-with-error summaries over the repaired VTA call graph",
         "trusted: go/ssa, VTA call graph (closures of unreachable functions pruned), dependency code; exception tables in tool/c09.go, one resolved construct each with its invariant", "DESIGN.md §3 C09"),
 "C20": ("Decides, for all inputs at once, the structural mechanisms that make the signer safe: CheckHRS is evaluated exhaustively on the 108 sign/nil abstractions of its inputs (it touches them only through comparisons) against the lexicographic reference; sign is unreachable after a CheckHRS error or on sameHRS; the stored signature is re-released only under the same-message tests; saveSigned with the checked/signed values dominates every release and every success return; the save path reaches an atomic write and panics on error; the loader restores the saved state. It does not decide atomicity of the file write itself.",
         "exhaustive abstract evaluation of CheckHRS's CFG + SSA dominance / must-pass-through rules on signVote, signProposal, saveSigned, Save, loadSFilePV",
         "trusted: go/ssa, tendermint tempfile.WriteFileAtomic, tmjson, secp256k1; structural clause only (level other)", "DESIGN.md §3 C20"),
}
NOT_YET = {}
props = [json.loads(l) for l in open(os.path.join(V, "properties.jsonl"))]
checks, na = [], []
for p in props:
    i = p["id"]
    if i in CLAIMED:
        text, tech, note, ref = CLAIMED[i]
        checks.append({
            "property_id": i,
            "quick_cmd": "./check.sh %s quick" % i,
            "thorough_cmd": "./check.sh %s thorough" % i,
            "evidence_file": "/verif/evidence/%s.json" % i,
            "replay_cmd_template": "./bin/rigocheck -explain {path}",
            "engine": "rigocheck",
            "level_claimed": {"category": "other", "text": text, "design_ref": ref},
            "level_note": note,
            "technique": "static analysis: " + tech,
        })
    else:
        na.append({"property_id": i, "reason": NOT_YET.get(i, "no sound static rule set implemented for this property in the current build; see DESIGN.md §3 %s for the planned structural clause" % i)})
m = {
 "version": 1,
 "setup_cmd": "sh ./setup.sh",
 "hooks": {"guard": "verif", "enable": "none needed: the checks read /repo's sources; no instrumentation is compiled in", "baseline_off_cmd": "cd /repo && GOFLAGS=-mod=mod go test -vet=off -count=1 ./...", "source_commits": [], "add_only": True},
 "engines": [{"name": "rigocheck", "path": "/verif/tool", "serves_properties": sorted(CLAIMED), "kind_free_text": "repository-specific static analyser over go/packages + go/ssa + repaired VTA call graph (golang.org/x/tools v0.29.0); one obligation list per property"}],
 "checks": checks,
 "not_applicable": na,
 "notes": "All checks are static analysis of /repo's current working tree (nothing under test is executed). Level 'other': each check decides a named structural clause that is a necessary condition of the property; DESIGN.md §3 lists per property what is and is not covered. Genuine defects found: 4 repaired by fix: commits in /repo, the others listed in known_findings.txt.",
}
json.dump(m, open(os.path.join(V, "MANIFEST.json"), "w"), indent=1)
print("claimed:", sorted(CLAIMED), "n/a:", len(na))
