#!/bin/sh
# usage: confirm_seed.sh <id> <patch> <demo_test.go> <outdir>
# Confirms an independently seeded change in a fresh scratch worktree of /repo
# (outside /repo and /verif, removed afterwards):
#   1. the demonstration passes on the unchanged code,
#   2. the change applies and the module builds,
#   3. the demonstration fails with the change,
#   4. the existing test suite (without the demonstration) passes with the change.
# Writes <outdir>/confirm.log and prints CONFIRMED or the step that failed.
id="$1"; patch="$2"; demo="$3"; out="$4"
export GOFLAGS=-mod=mod GOPROXY=off GOSUMDB=off GOTOOLCHAIN=local GOWORK=off
wt="/tmp/seedconf/$id"
mkdir -p /tmp/seedconf "$out"
log="$out/confirm.log"; : > "$log"
git -C /repo worktree remove --force "$wt" >/dev/null 2>&1
rm -rf "$wt"
git -C /repo worktree add --detach "$wt" HEAD >>"$log" 2>&1 || { echo "$id: worktree failed"; exit 2; }
export TMPDIR="/tmp/seedconf/$id.tmp"; rm -rf "$TMPDIR"; mkdir -p "$TMPDIR"
cleanup() { git -C /repo worktree remove --force "$wt" >/dev/null 2>&1; rm -rf "$wt" "$TMPDIR"; }
pkgdir="$(head -1 "$demo" | sed -n 's,^// package-dir: *,,p')"
[ -n "$pkgdir" ] || { echo "$id: demo has no package-dir line"; cleanup; exit 2; }
run="$(grep -o '^func Test[A-Za-z0-9_]*' "$demo" | sed 's/^func //' | paste -sd'|')"
cd "$wt" || exit 2
cp "$demo" "$pkgdir/zz_seed_demo_test.go"
echo "== step 1: demonstration on the unchanged code: go test -vet=off -count=1 -run '^($run)\$' ./$pkgdir/" >>"$log"
if ! go test -vet=off -count=1 -run "^($run)\$" "./$pkgdir/" >>"$log" 2>&1; then echo "$id: FAILED step 1 (demo fails on the unchanged code)"; cleanup; exit 1; fi
echo "== step 2: git apply + go build ./..." >>"$log"
git apply "$patch" >>"$log" 2>&1 || { echo "$id: FAILED step 2 (patch does not apply)"; cleanup; exit 1; }
go build ./... >>"$log" 2>&1 || { echo "$id: FAILED step 2 (does not build)"; cleanup; exit 1; }
echo "== step 3: demonstration with the change (must fail)" >>"$log"
if go test -vet=off -count=1 -run "^($run)\$" "./$pkgdir/" >>"$log" 2>&1; then echo "$id: FAILED step 3 (demo passes with the change)"; cleanup; exit 1; fi
rm -f "$pkgdir/zz_seed_demo_test.go"
echo "== step 4: existing suite with the change" >>"$log"
pk="$(go list ./... | grep -v -e '/test$' -e 'rigo-go/sfeeder$' -e 'rigo-go/ctrlers/gov$')"
ok=0
for try in 1 2 3; do
  if go test -vet=off -count=1 -timeout 25m $pk >"$out/suite.$try.log" 2>&1; then ok=1; cat "$out/suite.$try.log" >>"$log"; rm -f "$out"/suite.*.log; break; fi
  echo "-- suite attempt $try had failures:" >>"$log"; grep -E '^(FAIL|--- FAIL|ok )' "$out/suite.$try.log" >>"$log"
done
rm -f "$out"/suite.*.log
cleanup
if [ "$ok" = 1 ]; then echo "$id: CONFIRMED"; exit 0; fi
echo "$id: FAILED step 4 (existing suite fails with the change)"; exit 1
