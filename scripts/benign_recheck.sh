#!/bin/sh
# Re-runs the checks on the behaviour-preserving refactorings in /tmp/wt/B?.out that
# still raise alarms (per /tmp/benign2/<name>.txt), only for the properties that alarmed.
cd /verif
ls /tmp/benign2/*.txt | while read f; do
  n=$(basename $f .txt); g=${n%_*}; k=${n#*_}
  props=$(grep "BAD" $f | sed 's/.*property=\(C..\).*/\1/' | sort -u | paste -sd,)
  [ -n "$props" ] && echo "$n $g $k $props"
done > /tmp/benign2/todo.lst
cat /tmp/benign2/todo.lst | xargs -P 6 -L 1 sh -c 'scripts/seedcheck.sh /tmp/wt/$1.out/refactor_$2.patch $3 > /tmp/benign2/$0.txt 2>&1'
for f in /tmp/benign2/R*.txt; do c=$(grep '^count=' $f); [ "$c" != "count=0" ] && echo "$(basename $f .txt) $c"; done
cat /tmp/benign2/R*.txt | grep "BAD" | sed 's/^ *BAD property=\(C..\) status=\([a-z]*\) key=\([A-Za-z]*-[0-9a-z]*\):.*/\1 \3 \2/' | sort | uniq -c | sort -rn
