#!/usr/bin/env python3
"""mkmut.py PROP NAME EXPECT WHAT FILE OLD NEW [FILE OLD NEW ...]
Writes /verif/mutants/PROP/NAME.diff: a unified diff (a/ b/ prefixes) that replaces
the unique occurrence of OLD by NEW in /repo/FILE. OLD must occur exactly once
(append @@N to FILE to pick the N-th occurrence, 1-based)."""
import sys, os, difflib
prop, name, expect, what = sys.argv[1:5]
rest = sys.argv[5:]
assert len(rest) % 3 == 0 and rest
out = ["# expect: %s\n" % expect, "# what: %s\n" % what]
files = {}
for i in range(0, len(rest), 3):
    f, old, new = rest[i:i+3]
    nth = None
    if "@@" in f:
        f, n = f.split("@@"); nth = int(n)
    old = old.encode().decode("unicode_escape"); new = new.encode().decode("unicode_escape")
    src = files.get(f) or open(os.path.join("/repo", f)).read()
    if f not in files: files[f] = src; files[f+"#orig"] = src
    cnt = src.count(old)
    if nth is None:
        assert cnt == 1, "%s: OLD occurs %d times in %s" % (name, cnt, f)
        src = src.replace(old, new)
    else:
        assert cnt >= nth, "%s: only %d occurrences" % (name, cnt)
        idx = -1
        for _ in range(nth): idx = src.index(old, idx+1)
        src = src[:idx] + new + src[idx+len(old):]
    files[f] = src
for f in [k for k in files if not k.endswith("#orig")]:
    a = files[f+"#orig"].splitlines(True); b = files[f].splitlines(True)
    out += list(difflib.unified_diff(a, b, "a/"+f, "b/"+f, n=3))
d = os.path.join("/verif/mutants", prop); os.makedirs(d, exist_ok=True)
open(os.path.join(d, name + ".diff"), "w").write("".join(out))
print("wrote", os.path.join(d, name + ".diff"))
