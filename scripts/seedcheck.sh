#!/bin/sh
# usage: seedcheck.sh <patch.diff> [prop,prop,...]
# Applies a seeded change to a scratch copy of /repo (never to /repo itself), runs
# the checks on the copy and prints the obligations that are bad there and not
# bad on the unchanged tree. The scratch copy is removed afterwards.
set -e
here="$(cd "$(dirname "$0")/.." && pwd)"
patch="$1"; props="${2:-all}"
export GOFLAGS=-mod=mod GOPROXY=off GOSUMDB=off GOTOOLCHAIN=local GOWORK=off
tmp="$(mktemp -d /tmp/seedcheck-XXXXXX)"
trap 'rm -rf "$tmp"' EXIT
rsync -a --exclude .git /repo/ "$tmp/"
( cd "$tmp" && patch -p1 -s --no-backup-if-mismatch < "$patch" ) || { echo "PATCH DOES NOT APPLY"; exit 2; }
( cd "$tmp" && go build ./... ) || { echo "DOES NOT BUILD"; exit 2; }
"$here/bin/rigocheck" -repo /repo -prop "$props" -noevidence 2>/dev/null | grep '^BAD ' | sed 's/ detail=.*//' | sort > "$tmp/.base" || true
"$here/bin/rigocheck" -repo "$tmp" -prop "$props" -noevidence 2>/dev/null | grep '^BAD ' | sed 's/ detail=.*//' | sort > "$tmp/.new" || true
echo "new bad obligations with the change:"
comm -13 "$tmp/.base" "$tmp/.new" | sed 's/^/  /'
n=$(comm -13 "$tmp/.base" "$tmp/.new" | wc -l)
echo "count=$n"
