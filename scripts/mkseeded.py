#!/usr/bin/env python3
"""mkseeded.py ID ROUND TITLE NEEDS — assemble /verif/seeded/<ID>[-ROUND]/ from the
files an independent sub-agent left in /tmp/wt (ID.patch, ID.demo_test.go,
ID.meta.txt), the confirmation log (/tmp/seedout/ID/confirm.log) and the check
results on the change (/tmp/seedout/caught/ID.txt)."""
import sys, os, json, shutil, re
sid, rnd, title, needs = sys.argv[1:5]
src = sys.argv[5] if len(sys.argv) > 5 else sid
name = sid if rnd in ("", "1") else "%s-r%s" % (sid, rnd)
d = "/verif/seeded/" + name
os.makedirs(d, exist_ok=True)
shutil.copy("/tmp/wt/%s.patch" % src, d + "/patch.diff")
demo = open("/tmp/wt/%s.demo_test.go" % src).read()
open(d + "/zz_seed_demo_test.go", "w").write(demo)
pkgdir = re.match(r"// package-dir:\s*(\S+)", demo).group(1)
shutil.copy("/tmp/wt/%s.meta.txt" % src, d + "/agent_notes.txt")
log = open("/tmp/seedout/%s/confirm.log" % src).read()
steps = [l for l in log.splitlines() if l.startswith("== step") or l.startswith("-- suite")]
caught = [l.strip()[4:] for l in open("/tmp/seedout/caught/%s.txt" % src) if l.strip().startswith("BAD ")]
own = [c for c in caught if ("property=%s " % sid) in c]
meta = {
    "property": sid,
    "title": title,
    "needs_to_manifest": needs,
    "origin": "written by a fresh sub-agent that saw only the property text and its own scratch worktree of /repo (nothing from /verif)",
    "demo": {"file": "zz_seed_demo_test.go", "place_at": pkgdir + "/zz_seed_demo_test.go"},
    "confirmed": {
        "how": "scripts/confirm_seed.sh in a fresh scratch worktree (/tmp/seedconf/%s, removed afterwards) with a private TMPDIR" % src,
        "steps": ["1. demo on the unchanged code: PASS", "2. git apply patch.diff; go build ./...: OK", "3. demo with the change: FAIL", "4. existing suite (go test -vet=off -count=1 over all packages except /test, sfeeder, ctrlers/gov) with the change and without the demo: PASS"],
        "log_headlines": steps,
        "result": "CONFIRMED",
    },
    "checks_run": "scripts/seedcheck.sh patch.diff (all 20 properties, on a scratch copy of /repo with the change applied; obligations bad there and not bad on the unchanged tree)",
    "caught_by_own_property_check": [re.sub(r"^property=\S+ status=(\S+) key=", r"\1 ", c) for c in own],
    "caught_by_other_checks": sorted(set(re.sub(r" status=\S+ key=", " ", c) for c in caught if c not in own)),
    "detected": bool(own),
}
json.dump(meta, open(d + "/meta.json", "w"), indent=1)
print(name, "own:", len(own), "other:", len(caught) - len(own))
