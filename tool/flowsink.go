package main

// flowsink.go — interprocedural "must reach a sink" for a value.
//
// mustSink(fn, v, from) decides: on every path from instruction `from` to a
// successful exit of fn, value v (or, for a slice, every element taken from it)
// is handed to a sink. A sink is
//   - a call the rule's predicate accepts for that argument,
//   - a call of a module function that (recursively) must-sinks the parameter,
//   - a call through a function-typed parameter of fn: then the obligation moves
//     to fn's call sites, whose argument must itself be a sink function.
// Elements of a slice are followed through range / index loops; inside a loop the
// back edge counts as an exit, so every iteration must sink its own element.
//
// Moving statements into helpers, passing the setter as a function value, or
// renaming locals does not change the verdict.

import (
	"fmt"
	"go/token"
	"go/types"

	"golang.org/x/tools/go/ssa"
)

type sinkSpec struct {
	// direct sink: the call consumes its argument #arg as required
	isSink func(c ssa.CallInstruction, arg int) bool
	// isSinkFunc: a function value (method value, closure, phi of them) that is a sink for its argument #0
	isSinkFunc func(v ssa.Value) bool
	memo       map[string]*sinkResult
}

type sinkResult struct {
	ok         bool
	why        string
	funcParams []int // parameters of the function that must be sink functions at every call site
}

func argIndexOf(c *ssa.CallCommon, v ssa.Value) []int {
	var out []int
	for i, a := range c.Args {
		a = stripConv(a)
		if mi, ok := a.(*ssa.MakeInterface); ok {
			a = stripConv(mi.X)
		}
		if a == v {
			out = append(out, i)
		}
	}
	return out
}

// mustSinkParam: fn must-sinks its parameter #idx on every successful path.
func (w *World) mustSinkParam(fn *ssa.Function, idx int, spec *sinkSpec, depth int) *sinkResult {
	if o := fn.Origin(); o != nil {
		fn = o
	}
	key := fmt.Sprintf("%s#%d", w.FName(fn), idx)
	if spec.memo == nil {
		spec.memo = map[string]*sinkResult{}
	}
	if r, ok := spec.memo[key]; ok {
		return r
	}
	spec.memo[key] = &sinkResult{ok: false, why: "recursion"}
	var res *sinkResult
	if fn.Blocks == nil || idx >= len(fn.Params) || depth > 3 {
		res = &sinkResult{ok: false, why: "no body / too deep"}
	} else {
		res = w.mustSink(fn, fn.Params[idx], nil, spec, depth)
	}
	spec.memo[key] = res
	return res
}

// mustSink: see the file comment. from == nil means the function entry.
func (w *World) mustSink(fn *ssa.Function, v ssa.Value, from ssa.Instruction, spec *sinkSpec, depth int) *sinkResult {
	res := &sinkResult{ok: true}
	// consuming instructions of v
	consumes := map[ssa.Instruction]bool{}
	type useOf struct {
		ref ssa.Instruction
		val ssa.Value
	}
	var uses []useOf
	for _, vv := range append([]ssa.Value{v}, w.sinkAliases[v]...) {
		if vv.Referrers() != nil {
			for _, ref := range *vv.Referrers() {
				uses = append(uses, useOf{ref, vv})
			}
		}
	}
	{
		for _, u := range uses {
			ref, v := u.ref, u.val
			c, ok := ref.(ssa.CallInstruction)
			if !ok {
				continue
			}
			cc := c.Common()
			for _, ai := range argIndexOf(cc, v) {
				switch {
				case spec.isSink(c, ai):
					consumes[c] = true
				case isParamFuncCall(fn, cc) >= 0 && ai == 0:
					consumes[c] = true
					res.funcParams = appendUnique(res.funcParams, isParamFuncCall(fn, cc))
				case spec.isSinkFunc != nil && cc.StaticCallee() == nil && !cc.IsInvoke() && ai == 0 && spec.isSinkFunc(cc.Value):
					consumes[c] = true
				default:
					if cal := cc.StaticCallee(); cal != nil && w.InModule(cal) && cal.Blocks != nil {
						sub := w.mustSinkParam(cal, ai, spec, depth+1)
						if !sub.ok {
							continue
						}
						// function-typed parameters of the callee: our arguments must be sink functions
						good := true
						for _, fp := range sub.funcParams {
							if fp >= len(cc.Args) {
								good = false
								continue
							}
							a := cc.Args[fp]
							if pi := paramIndexIn(fn, a); pi >= 0 {
								res.funcParams = appendUnique(res.funcParams, pi)
							} else if spec.isSinkFunc == nil || !spec.isSinkFunc(a) {
								good = false
							}
						}
						if good {
							consumes[c] = true
						}
					}
				}
			}
		}
	}
	// the value travels on inside another value: stored into a fresh list literal,
	// appended to a list, merged at a join, or handed back by a helper that returns
	// its argument. The step counts as handing over when the carrier, from there
	// on, is itself handed over on every successful path.
	phiEdgeSunk := map[[2]*ssa.BasicBlock]bool{}
	if depth <= 3 {
		if w.sinkCarrier == nil {
			w.sinkCarrier = map[ssa.Value]bool{}
		}
		carried := func(carrier ssa.Value, at ssa.Instruction) bool {
			if w.sinkCarrier[carrier] {
				return false // a cycle of carriers (a loop-carried list) proves nothing
			}
			w.sinkCarrier[carrier] = true
			defer delete(w.sinkCarrier, carrier)
			sub := w.mustSink(fn, carrier, at, spec, depth+1)
			if sub.ok {
				res.funcParams = appendUniqueAll(res.funcParams, sub.funcParams)
			}
			return sub.ok
		}
		// a carrier built before `from` already holds the value there: it is the
		// carrier that has to be handed over from `from` on
		held := false
		hold := func(carrier ssa.Value, made ssa.Instruction) bool {
			if from != nil && made.Block() != nil && instrDominates(made, from) && carried(carrier, from) {
				held = true
			}
			return held
		}
		for _, u := range uses {
			if held {
				break
			}
			switch x := u.ref.(type) {
			case *ssa.Store:
				// `[]*T{v}`: the element of a fresh array that is sliced as a whole
				if stripConv(x.Val) != u.val {
					continue
				}
				ia, ok := x.Addr.(*ssa.IndexAddr)
				if !ok {
					continue
				}
				arr, ok := ia.X.(*ssa.Alloc)
				if !ok || arr.Referrers() == nil {
					continue
				}
				var sl *ssa.Slice
				clean := true
				for _, r2 := range *arr.Referrers() {
					switch y := r2.(type) {
					case *ssa.IndexAddr:
					case *ssa.Slice:
						if sl != nil || y.Low != nil || y.High != nil {
							clean = false
						}
						sl = y
					default:
						clean = false
					}
				}
				if clean && sl != nil && sl.Block() == x.Block() && instrDominates(x, sl) {
					if hold(sl, sl) {
						continue
					}
					if carried(sl, sl) {
						consumes[x] = true
					}
				}
			case *ssa.Call:
				cc := x.Common()
				if b, isB := cc.Value.(*ssa.Builtin); isB && b.Name() == "append" {
					if len(argIndexOf(cc, u.val)) > 0 && carried(x, x) {
						consumes[x] = true
					}
					continue
				}
				// a helper that hands its argument back (`s.frozenUntil(h)` returns s)
				if cal := cc.StaticCallee(); cal != nil && w.InModule(cal) && cal.Blocks != nil && !consumes[x] {
					for _, ai := range argIndexOf(cc, u.val) {
						if returnsParam(cal, ai) && carried(x, x) {
							consumes[x] = true
						}
					}
				}
			case *ssa.Phi:
				if !carried(x, x) {
					continue
				}
				for i, e := range x.Edges {
					if stripConv(e) == u.val && i < len(x.Block().Preds) {
						phiEdgeSunk[[2]*ssa.BasicBlock{x.Block().Preds[i], x.Block()}] = true
					}
				}
			}
		}
		if held {
			return res
		}
	}
	// elements of a slice value
	type elemLoop struct {
		elem ssa.Value
		at   ssa.Instruction
		hdr  *ssa.BasicBlock
	}
	var loops []elemLoop
	if _, isSlice := v.Type().Underlying().(*types.Slice); isSlice && v.Referrers() != nil {
		for _, ref := range *v.Referrers() {
			switch x := ref.(type) {
			case *ssa.IndexAddr:
				if x.X != v || x.Referrers() == nil {
					continue
				}
				for _, r2 := range *x.Referrers() {
					if ld, ok := r2.(*ssa.UnOp); ok && ld.Op == token.MUL {
						// `s[i]` written several times in one iteration is one element: the
						// load that dominates the others stands for all of them
						hdr := loopHeaderOf(ld.Block())
						merged := false
						for k := range loops {
							fst, isLd := loops[k].elem.(*ssa.UnOp)
							if !isLd || loops[k].hdr != hdr || hdr == nil {
								continue
							}
							fa, isIA := fst.X.(*ssa.IndexAddr)
							if !isIA || fa.X != x.X || fa.Index != x.Index {
								continue
							}
							switch {
							case instrDominates(fst, ld):
								w.addSinkAlias(fst, ld)
								merged = true
							case instrDominates(ld, fst):
								w.addSinkAlias(ld, fst)
								for _, a := range w.sinkAliases[fst] {
									w.addSinkAlias(ld, a)
								}
								loops[k] = elemLoop{ld, ld, hdr}
								merged = true
							}
							if merged {
								break
							}
						}
						if !merged {
							loops = append(loops, elemLoop{ld, ld, hdr})
						}
					}
				}
			case *ssa.Range:
				// for _, e := range v  (go/ssa lowers slice ranges to index loops; kept for maps/strings)
			}
		}
	}
	for _, lp := range loops {
		sub := w.mustSink(fn, lp.elem, lp.at, spec, depth)
		if sub.ok && lp.hdr != nil {
			// iteration-precise: reaching the loop header again without a sink fails
			if !w.sinksBeforeBackEdge(fn, lp.elem, lp.at, lp.hdr, spec, depth) {
				sub = &sinkResult{ok: false, why: "an iteration can finish without handing its element over"}
			}
		}
		if !sub.ok {
			return &sinkResult{ok: false, why: "element of the list: " + sub.why}
		}
		res.funcParams = appendUniqueAll(res.funcParams, sub.funcParams)
	}
	if len(loops) > 0 && len(consumes) == 0 {
		return res // a list is sunk through its elements
	}
	if len(consumes) == 0 && len(phiEdgeSunk) == 0 {
		return &sinkResult{ok: false, why: "the value is never handed to the destination in " + w.FName(fn)}
	}
	start := ipos{fn.Blocks[0], 0}
	if from != nil {
		start = posOf(from)
		start.i++
	}
	// the value may be nil-tested: edges on which it is nil carry nothing
	edgeOK := func(a, b *ssa.BasicBlock) bool {
		if phiEdgeSunk[[2]*ssa.BasicBlock{a, b}] {
			return false // the value goes on inside the merged value, which is handed over
		}
		ifi, ok := lastInstr(a).(*ssa.If)
		if !ok {
			return true
		}
		bo, ok := ifi.Cond.(*ssa.BinOp)
		if !ok || (bo.Op != token.EQL && bo.Op != token.NEQ) {
			return true
		}
		isNilC := func(x ssa.Value) bool { c, ok := x.(*ssa.Const); return ok && c.IsNil() }
		var other ssa.Value
		if isNilC(bo.Y) {
			other = bo.X
		} else if isNilC(bo.X) {
			other = bo.Y
		} else {
			return true
		}
		if stripConv(other) != v {
			return true
		}
		nilEdge := 0
		if bo.Op == token.NEQ {
			nilEdge = 1
		}
		return a.Succs[nilEdge] != b
	}
	for _, ex := range exitsAvoiding(start, func(in ssa.Instruction) bool { return consumes[in] }, edgeOK) {
		ret, ok := ex.(*ssa.Return)
		if !ok {
			continue
		}
		if errResultIndex(fn) >= 0 && w.errState(ret) == triNonNil {
			continue
		}
		// the exit may be reachable in the flow graph only: walked path by path (nil
		// tests a path passed are remembered, one error variable shared by several
		// steps is followed) every successful path hands the value over
		if w.sinkOnPaths(fn, from, consumes) {
			continue
		}
		return &sinkResult{ok: false, why: fmt.Sprintf("%s can return successfully at %s without handing the value over", w.FName(fn), w.InstrPos(ret))}
	}
	return res
}

// returnsParam: every return of the single-result function cal hands back its
// parameter #idx unchanged.
func returnsParam(cal *ssa.Function, idx int) bool {
	if cal.Signature.Results().Len() != 1 || idx >= len(cal.Params) {
		return false
	}
	n := 0
	for _, b := range cal.Blocks {
		rt, ok := lastInstr(b).(*ssa.Return)
		if !ok || b == cal.Recover {
			continue
		}
		if stripConv(retResult(rt, 0)) != ssa.Value(cal.Params[idx]) {
			return false
		}
		n++
	}
	return n > 0
}

// sinkOnPaths: on every successful path of fn that passes `from` (the entry when
// nil), a consuming instruction follows it.
func (w *World) sinkOnPaths(fn *ssa.Function, from ssa.Instruction, consumes map[ssa.Instruction]bool) bool {
	if w.inSinkOnPaths {
		return false
	}
	w.inSinkOnPaths = true
	defer func() { w.inSinkOnPaths = false }()
	ev := func(in ssa.Instruction) string {
		switch {
		case from != nil && in == from:
			return "FROM"
		case consumes[in]:
			return "SINK"
		}
		return ""
	}
	savedDepth := w.enumDepth
	w.enumDepth = 1 // events are instructions of fn itself
	saved := w.branchMarkers
	w.branchMarkers = false
	paths, complete := w.enumPaths(fn, func(ssa.Value) (bool, bool) { return false, false }, ev, 4000)
	w.branchMarkers = saved
	w.enumDepth = savedDepth
	if !complete {
		return false
	}
	n := 0
	for _, p := range paths {
		if p.Term != "ok" && p.Term != "unknown" {
			continue
		}
		started := from == nil
		sunk := false
		for _, e := range p.Events {
			switch e {
			case "FROM":
				started, sunk = true, false
			case "SINK":
				if started {
					sunk = true
				}
			}
		}
		if started {
			n++
			if !sunk {
				return false
			}
		}
	}
	return n > 0
}

// sinksBeforeBackEdge: from `at`, no path reaches the loop header hdr again
// without passing a consuming instruction of elem.
func (w *World) sinksBeforeBackEdge(fn *ssa.Function, elem ssa.Value, at ssa.Instruction, hdr *ssa.BasicBlock, spec *sinkSpec, depth int) bool {
	consumes := map[ssa.Instruction]bool{}
	for _, ev := range append([]ssa.Value{elem}, w.sinkAliases[elem]...) {
		if ev.Referrers() != nil {
			for _, ref := range *ev.Referrers() {
				if c, ok := ref.(ssa.CallInstruction); ok && len(argIndexOf(c.Common(), ev)) > 0 {
					consumes[c] = true // which of them are sinks was established by mustSink
				}
			}
		}
	}
	seen := map[*ssa.BasicBlock]bool{}
	escaped := false
	var walk func(b *ssa.BasicBlock, i int)
	walk = func(b *ssa.BasicBlock, i int) {
		for ; i < len(b.Instrs); i++ {
			if consumes[b.Instrs[i]] {
				return
			}
		}
		for _, s := range b.Succs {
			if s == hdr {
				escaped = true
				return
			}
			if !seen[s] {
				seen[s] = true
				walk(s, 0)
			}
		}
	}
	p := posOf(at)
	walk(p.b, p.i+1)
	return !escaped
}

// loopHeaderOf: the innermost loop header whose loop contains b (a block that
// dominates b and is reachable from b), or nil.
func loopHeaderOf(b *ssa.BasicBlock) *ssa.BasicBlock {
	var best *ssa.BasicBlock
	for _, h := range b.Parent().Blocks {
		if h.Dominates(b) && reachesWithin(b, h) && (h != b || len(h.Preds) > 1) {
			if best == nil || best.Dominates(h) {
				best = h
			}
		}
	}
	return best
}

// reachesWithin: h is reachable from b along blocks that h dominates (b belongs
// to the natural loop of h, not merely to a loop further out that re-enters h).
func reachesWithin(b, h *ssa.BasicBlock) bool {
	seen := map[*ssa.BasicBlock]bool{}
	var walk func(x *ssa.BasicBlock) bool
	walk = func(x *ssa.BasicBlock) bool {
		for _, s := range x.Succs {
			if s == h {
				return true
			}
			if seen[s] || !h.Dominates(s) {
				continue
			}
			seen[s] = true
			if walk(s) {
				return true
			}
		}
		return false
	}
	return walk(b)
}

func isParamFuncCall(fn *ssa.Function, cc *ssa.CallCommon) int {
	if cc.IsInvoke() || cc.StaticCallee() != nil {
		return -1
	}
	return paramIndexIn(fn, cc.Value)
}

func paramIndexIn(fn *ssa.Function, v ssa.Value) int {
	p, ok := stripConv(v).(*ssa.Parameter)
	if !ok {
		return -1
	}
	for i, q := range fn.Params {
		if q == p {
			return i
		}
	}
	return -1
}

func appendUnique(xs []int, x int) []int {
	for _, y := range xs {
		if y == x {
			return xs
		}
	}
	return append(xs, x)
}

func appendUniqueAll(xs []int, ys []int) []int {
	for _, y := range ys {
		xs = appendUnique(xs, y)
	}
	return xs
}

func (w *World) addSinkAlias(v, alias ssa.Value) {
	if w.sinkAliases == nil {
		w.sinkAliases = map[ssa.Value][]ssa.Value{}
	}
	for _, a := range w.sinkAliases[v] {
		if a == alias {
			return
		}
	}
	w.sinkAliases[v] = append(w.sinkAliases[v], alias)
}
