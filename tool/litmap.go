package main

// litmap.go — dispatch tables written as map literals.
//
// A handler chosen by `table[key]` (a package-level map literal, or a map a
// small constructor function builds from a literal) is the same construct as a
// switch over the key: the keys are compile-time constants and each maps to one
// function value. literalMap recovers the table from the SSA form (it is only
// accepted when nothing else in the module can change the map), and the path
// enumerator forks a lookup into one continuation per entry plus the miss.

import (
	"go/constant"
	"go/token"
	"go/types"
	"strings"
	"sync"

	"golang.org/x/tools/go/ssa"
)

type litEntry struct {
	Key ssa.Value // *ssa.Const
	Val ssa.Value // in the frame of litMap.Frame
}

type litMap struct {
	Entries []litEntry
	Frame   *ssa.Function // the function whose values the entries are (package init, or the constructor)
	Make    *ssa.MakeMap
}

var litMapMemo sync.Map // ssa.Value (global or constructor function) -> *litMap (nil = not a literal map)

// keyString: a printable form of a constant key.
func keyString(k ssa.Value) string {
	c, ok := k.(*ssa.Const)
	if !ok || c.Value == nil {
		return "?"
	}
	if c.Value.Kind() == constant.String {
		return constant.StringVal(c.Value)
	}
	return c.Value.ExactString()
}

// literalMap: the table a looked-up map value stands for, or nil.
func (w *World) literalMap(v ssa.Value) *litMap {
	switch x := v.(type) {
	case *ssa.UnOp:
		if g, ok := x.X.(*ssa.Global); ok && x.Op == token.MUL {
			return w.literalMapGlobal(g)
		}
	case *ssa.Call:
		if f := x.Common().StaticCallee(); f != nil && w.InModule(f) && f.Blocks != nil && len(f.Params) == len(x.Common().Args) {
			lm := w.literalMapCtor(f)
			if lm == nil {
				return nil
			}
			// the constructor's parameters must be what the caller calls them (its
			// receiver handed on as receiver), so that the entries print and resolve
			// like the caller's own values
			for i, p := range f.Params {
				if w.Canon(p) != w.Canon(x.Common().Args[i]) {
					return nil
				}
			}
			return lm
		}
	}
	return nil
}

func collectLiteral(fn *ssa.Function, m *ssa.MakeMap) *litMap {
	lm := &litMap{Frame: fn, Make: m}
	refs := m.Referrers()
	if refs == nil {
		return nil
	}
	seen := map[string]bool{}
	for _, r := range *refs {
		switch y := r.(type) {
		case *ssa.MapUpdate:
			if y.Map != ssa.Value(m) {
				return nil
			}
			c, ok := y.Key.(*ssa.Const)
			if !ok || c.Value == nil || seen[keyString(c)] {
				return nil
			}
			seen[keyString(c)] = true
			lm.Entries = append(lm.Entries, litEntry{y.Key, y.Value})
		case *ssa.Store:
			if y.Val != ssa.Value(m) {
				return nil
			}
			if _, isG := y.Addr.(*ssa.Global); !isG {
				return nil
			}
		case *ssa.Return, *ssa.DebugRef:
		default:
			return nil
		}
	}
	if len(lm.Entries) == 0 {
		return nil
	}
	return lm
}

func (w *World) literalMapGlobal(g *ssa.Global) *litMap {
	if v, ok := litMapMemo.Load(g); ok {
		lm, _ := v.(*litMap)
		return lm
	}
	var lm *litMap
	defer func() { litMapMemo.Store(g, lm) }()
	if _, isMap := deref(g.Type()).Underlying().(*types.Map); !isMap || g.Pkg == nil {
		return nil
	}
	init := g.Pkg.Func("init")
	if init == nil {
		return nil
	}
	var mk *ssa.MakeMap
	for _, b := range init.Blocks {
		for _, in := range b.Instrs {
			if st, ok := in.(*ssa.Store); ok && st.Addr == ssa.Value(g) {
				m, isM := st.Val.(*ssa.MakeMap)
				if !isM || mk != nil {
					return nil
				}
				mk = m
			}
		}
	}
	if mk == nil {
		return nil
	}
	cand := collectLiteral(init, mk)
	if cand == nil {
		return nil
	}
	// nothing else may change the map: every other use of the variable is a load
	// that is only looked up, ranged over or measured
	for f := range w.allFuncs {
		if f.Blocks == nil || f == init || !w.InModule(f) {
			continue
		}
		for _, b := range f.Blocks {
			for _, in := range b.Instrs {
				for _, op := range in.Operands(nil) {
					if op == nil || *op != ssa.Value(g) {
						continue
					}
					ld, ok := in.(*ssa.UnOp)
					if !ok || ld.Op != token.MUL {
						return nil
					}
					if refs := ld.Referrers(); refs != nil {
						for _, r := range *refs {
							switch y := r.(type) {
							case *ssa.Lookup:
								if y.X != ssa.Value(ld) {
									return nil
								}
							case *ssa.Range, *ssa.DebugRef:
							case *ssa.Call:
								if bi, isB := y.Common().Value.(*ssa.Builtin); !isB || bi.Name() != "len" {
									return nil
								}
							default:
								return nil
							}
						}
					}
				}
			}
		}
	}
	lm = cand
	return lm
}

// literalMapCtor: f does nothing but build a map from a literal and return it.
func (w *World) literalMapCtor(f *ssa.Function) *litMap {
	if v, ok := litMapMemo.Load(f); ok {
		lm, _ := v.(*litMap)
		return lm
	}
	var lm *litMap
	defer func() { litMapMemo.Store(f, lm) }()
	if len(f.Blocks) != 1 || f.Signature.Results().Len() != 1 {
		return nil
	}
	var mk *ssa.MakeMap
	for _, in := range f.Blocks[0].Instrs {
		switch y := in.(type) {
		case *ssa.MakeMap:
			if mk != nil {
				return nil
			}
			mk = y
		case *ssa.Call, *ssa.Store, *ssa.Go, *ssa.Defer, *ssa.Send, *ssa.Panic:
			return nil
		case *ssa.Return:
			if len(y.Results) != 1 || y.Results[0] != ssa.Value(mk) {
				return nil
			}
		}
	}
	if mk == nil {
		return nil
	}
	lm = collectLiteral(f, mk)
	return lm
}

// lookupBinding: what a table lookup yields on the path being enumerated.
type lookupBinding struct {
	Val ssa.Value // nil on a miss
	Key ssa.Value // the entry's key constant; nil on a miss
	Hit bool
}

// thunkTarget: the method a method-expression thunk (`(*T).m` used as a function
// value) calls, or nil.
func thunkTarget(f *ssa.Function) *ssa.Function {
	if f == nil || !strings.HasPrefix(f.Synthetic, "thunk") {
		return nil
	}
	var tgt *ssa.Function
	for _, b := range f.Blocks {
		for _, in := range b.Instrs {
			if c, ok := in.(ssa.CallInstruction); ok {
				m := c.Common().StaticCallee()
				if m == nil || tgt != nil {
					return nil
				}
				tgt = m
			}
		}
	}
	return tgt
}
