package main

// C18 — versioned ledger store behaves as an overlayed map with immutable
// history (DESIGN §3 C18, L-1 … L-3).

import (
	"fmt"
	"go/token"
	"go/types"
	"os"
	"sort"
	"strings"

	"golang.org/x/tools/go/ssa"
)

func init() { register("C18", checkC18) }

// reference model of one key: an overlay holds at most a pending tombstone and a
// pending write; the write wins while it is there, and cancelling it reveals the
// tombstone (or the committed value) again.
type refOv struct {
	kind int // 0 none, 1 set, 2 deleted (tombstone only), 3 set on top of a tombstone
	tag  int
}
type refState struct {
	committed int // -1 absent
	fin, mem  refOv
}

type opResult struct {
	found bool
	tag   int
	err   bool
}

func (o opResult) String() string {
	if o.err {
		return "error"
	}
	if !o.found {
		return "not-found"
	}
	return fmt.Sprintf("item#%d", o.tag)
}

func refGet(committed int, o refOv) opResult {
	switch o.kind {
	case 1, 3:
		return opResult{found: true, tag: o.tag}
	case 2:
		return opResult{}
	}
	if committed >= 0 {
		return opResult{found: true, tag: committed}
	}
	return opResult{}
}

// refApply applies op to the reference state. newTag is the tag of a freshly set item.
func refApply(s refState, op string, newTag int) (refState, opResult) {
	switch op {
	case "F.Set":
		s.fin = refSet(s.fin, newTag)
		return s, opResult{found: true, tag: newTag}
	case "M.Set":
		s.mem = refSet(s.mem, newTag)
		return s, opResult{found: true, tag: newTag}
	case "F.Cancel":
		s.fin = refCancel(s.fin)
		return s, opResult{}
	case "M.Cancel":
		s.mem = refCancel(s.mem)
		return s, opResult{}
	case "F.Get":
		return s, refGet(s.committed, s.fin)
	case "M.Get":
		return s, refGet(s.committed, s.mem)
	case "Read":
		return s, refGet(s.committed, refOv{})
	case "M.Del":
		r := refGet(s.committed, s.mem)
		if r.found {
			s.mem = refOv{2, 0}
		}
		return s, r
	case "F.Del":
		// a consensus delete also tombstones the key in the mempool view (deliberate: DESIGN §3 C18 (1))
		if refGet(s.committed, s.mem).found {
			s.mem = refOv{2, 0}
		}
		r := refGet(s.committed, s.fin)
		if r.found {
			s.fin = refOv{2, 0}
		}
		return s, r
	case "Commit":
		switch s.fin.kind {
		case 1, 3:
			s.committed = s.fin.tag
		case 2:
			s.committed = -1
		}
		s.fin, s.mem = refOv{}, refOv{}
		return s, opResult{found: s.committed >= 0, tag: s.committed}
	}
	return s, opResult{err: true}
}

func refSet(o refOv, tag int) refOv {
	if o.kind == 2 || o.kind == 3 {
		return refOv{3, tag}
	}
	return refOv{1, tag}
}

// refCancel withdraws the overlay's pending write of the key.
func refCancel(o refOv) refOv {
	switch o.kind {
	case 1:
		return refOv{}
	case 3:
		return refOv{2, 0}
	}
	return o
}

// operations applied to a key other than the tracked one ("~"): they must leave
// the tracked key's reads and commits as the reference says
var ledgerOpsAll = append(append([]string(nil), ledgerOps...), "F.Set~", "F.Get~", "F.Del~", "F.Cancel~", "M.Set~", "M.Get~", "M.Del~", "M.Cancel~", "Read~")

var ledgerOps = []string{"F.Set", "F.Get", "F.Del", "F.Cancel", "M.Set", "M.Get", "M.Del", "M.Cancel", "Read", "Commit"}

// canonical renaming of tags so that the explored space is finite
func canonPair(i ledgerState, r refState) (ledgerState, refState) {
	ren := map[int]int{}
	next := 0
	mapTag := func(t int) int {
		if t < 0 {
			return t
		}
		if v, ok := ren[t]; ok {
			return v
		}
		ren[t] = next
		next++
		return ren[t]
	}
	i.tree = mapTag(i.tree)
	i.fin.got, i.fin.upd = mapTag(i.fin.got), mapTag(i.fin.upd)
	i.mem.got, i.mem.upd = mapTag(i.mem.got), mapTag(i.mem.upd)
	r.committed = mapTag(r.committed)
	if r.fin.kind == 1 || r.fin.kind == 3 {
		r.fin.tag = mapTag(r.fin.tag)
	}
	if r.mem.kind == 1 || r.mem.kind == 3 {
		r.mem.tag = mapTag(r.mem.tag)
	}
	return i, r
}

func maxTag(i ledgerState, r refState) int {
	m := -1
	for _, t := range []int{i.tree, i.fin.got, i.fin.upd, i.mem.got, i.mem.upd, r.committed, r.fin.tag, r.mem.tag} {
		if t > m {
			m = t
		}
	}
	return m
}

func checkC18(w *World, r *Report) {
	r.Explanation = "Structural clause of C18: (L-1) the SSA of the ledger package (generic origins of SetFinality/GetFinality/DelFinality/Commit, Set/Get/Del/Read and everything they call, including every memItems helper) is evaluated by an abstract interpreter over the finite abstract state of ONE key — per overlay: cached tag, updated tag, occurrences in the removed-key list; tree: absent or tag — and all operation sequences are explored to closure against the reference (a map with a consensus overlay and a mempool overlay of pending writes/tombstones): every read returns what the reference returns (a write wins over the overlay's own earlier tombstone while it is pending; cancelling the write reveals the tombstone or the committed value again), a commit leaves the tree equal to the consensus overlay's net effect and empties both overlays' pending state, mempool operations never change what consensus reads or commits; (L-2) the IAVL tree is mutated only inside FinalityLedger.Commit, removals before updates; tree iterators read the tree only; (L-3) no version is ever deleted or overwritten in the module and ImmutableLedgerAt(n) loads exactly version n into a fresh tree with fresh overlays, FinalityLedger.ImmutableLedgerAt delegating to it on every path; (L-4) a key buffer handed to tree.Set / tree.Remove inside a loop is allocated inside that loop (the tree keeps the bytes); (L-5) every module function whose error result is compared by identity with a sentinel (ErrNotFoundResult, ErrUnknownTrxType) hands back the sentinel itself, never a wrapped copy. (L-8) the removed-key list is a multiset: appendRemovedKey appends on every path and delRemovedKey takes back at most one entry per call (the cancel-delete operations are not run by the interpreter of L-1). L-2 also closes the callers of FinalityLedger.Commit: the three controllers' Commit methods."
	r.NotCovered = "iavl itself; reopen after close (needs the store); interaction between different keys beyond the per-key independence of maps and list membership; concurrency inside the ledger."

	l1(w, r)
	l2(w, r)
	l3(w, r)
	l5(w, r)
	l6(w, r)
	l7(w, r)
	l8(w, r)
	r.Floor("L-8", 1, "removed-key pairing")
	r.Floor("L-7", 2, "snapshot / commit exclusion")
	r.Floor("L-6", 1, "what marks an item for the next commit")
	r.Floor("L-5", 1, "sentinel errors compared by identity")
	r.Floor("L-1", 3, "exploration + positive controls")
	r.Floor("L-2", 3, "tree ownership")
	r.Floor("L-3", 3, "history")
}

// l5: "not found" is an answer of the store, and the controllers recognise it by
// identity (`xerr == xerrors.ErrNotFoundResult`: a missing record is created, any
// other error refuses the transaction). Every module function whose error result
// reaches such a comparison must hand back the sentinel itself — a wrapped copy
// (`ErrX.Wrapf(…)`) is a different object and is taken for a failure.
// L-6: only a write marks an item for the next commit. The overlay's read cache
// survives commits while a restart empties it, and an iavl leaf carries the
// version it was last written in: if a mere read (a cache miss filled from the
// tree) put the item among the updated ones, Commit would rewrite an unchanged
// value exactly on the nodes whose cache had been emptied — same values, different
// root hash. The insertions into `updatedItems` are therefore reachable, within the
// package, only from Set / SetFinality.
func l6(w *World, r *Report) {
	markers := map[*ssa.Function]ssa.Instruction{}
	for _, fn := range w.ModuleFuncs() {
		if !inLedgerPkg(w, fn) {
			continue
		}
		for _, b := range fn.Blocks {
			for _, in := range b.Instrs {
				isMarker := false
				if mu, ok := in.(*ssa.MapUpdate); ok && w.isFieldLoad(mu.Map, "", "updatedItems") {
					isMarker = true
				}
				// the table handed to a helper of the package that inserts into it (`t.put(item)`)
				if c, ok := in.(ssa.CallInstruction); ok {

					if cal := c.Common().StaticCallee(); cal != nil && inLedgerPkg(w, cal) && len(cal.Params) == len(c.Common().Args) {
						for ai, a := range c.Common().Args {
							if !w.isFieldLoad(a, "", "updatedItems") {
								continue
							}
							// an instantiation wrapper stands for the generic function it calls
							body := cal
							if o := cal.Origin(); o != nil && len(o.Params) == len(cal.Params) {
								body = o
							}
							for _, cb := range body.Blocks {
								for _, cin := range cb.Instrs {
									if mu, isMU := cin.(*ssa.MapUpdate); isMU {
										mv := stripConv(mu.Map)
										// a value receiver is spilled into a local first
										if ld, isLd := mv.(*ssa.UnOp); isLd && ld.Op == token.MUL {
											if al, isA := ld.X.(*ssa.Alloc); isA {
												if sv := singleStore(al); sv != nil {
													mv = stripConv(sv)
												}
											}
										}
										if mv == ssa.Value(body.Params[ai]) {
											isMarker = true
										}
									}
								}
							}
						}
					}
				}
				if isMarker {
					f := fn
					if o := f.Origin(); o != nil {
						f = o
					}
					markers[f] = in
				}
			}
		}
	}
	if len(markers) == 0 {
		r.Undecided("L-6", "markers", "no insertion into memItems.updatedItems found in the ledger package")
		return
	}
	allowed := map[string]string{"ledger.(*SimpleLedger).Set": "a write through the mempool overlay", "ledger.(*FinalityLedger).SetFinality": "a write through the consensus overlay"}
	var fns []*ssa.Function
	for f := range markers {
		fns = append(fns, f)
	}
	sort.Slice(fns, func(i, j int) bool { return w.FName(fns[i]) < w.FName(fns[j]) })
	for _, f := range fns {
		key := "marks-for-commit:" + w.FName(f)
		if _, ok := allowed[w.FName(f)]; ok {
			r.OK("L-6", key, "a write marks the item", site(w, markers[f]))
			continue
		}
		// every caller chain inside the package ends in Set / SetFinality
		bad := ""
		seen := map[*ssa.Function]bool{}
		var climb func(g *ssa.Function, d int)
		climb = func(g *ssa.Function, d int) {
			if seen[g] || d > 5 || bad != "" {
				return
			}
			seen[g] = true
			cs := w.nodeCallers(g)
			if len(cs) == 0 && d > 0 {
				return
			}
			for _, c := range cs {
				name := w.FName(c.Caller)
				if _, ok := allowed[name]; ok {
					continue
				}
				if !inLedgerPkg(w, c.Caller) || (c.Caller.Object() != nil && c.Caller.Object().Exported()) {
					bad = name
					return
				}
				climb(c.Caller, d+1)
			}
		}
		climb(f, 0)
		r.Check(bad == "", "L-6", key, "reached only from Set / SetFinality", "an item is put among the updated ones by "+bad+", which is not a write: a read then makes Commit rewrite an unchanged value, but only on a node whose read cache is empty (after a restart) — the root hashes diverge", site(w, markers[f]))
	}
}

// L-7: opening a historical tree and committing a version exclude each other.
// iavl opens a tree by reading its storage-version record and then its latest root
// version as two separate reads, while SaveVersion writes both in one batch; a
// snapshot built across that batch takes the fast-node index for stale and
// rewrites it from the (old) version it was asked for. The finality ledger
// serialises the two with its own mutex: Commit takes it for writing,
// ImmutableLedgerAt at least for reading, each before anything else and until it
// returns (deferred release). The embedded SimpleLedger has a mutex of its own
// that Commit does not take, so the inner lock is not a substitute.
func l7(w *World, r *Report) {
	for _, m := range []struct {
		name  string
		write bool
	}{{"Commit", true}, {"ImmutableLedgerAt", false}} {
		fn := needFn(r, "L-7", w, fref{pkgLedger, "FinalityLedger", m.name})
		if fn == nil || len(fn.Blocks) == 0 {
			continue
		}
		ownMtx := func(v ssa.Value) bool {
			fa, ok := v.(*ssa.FieldAddr)
			if !ok || fa.X != ssa.Value(fn.Params[0]) {
				return false
			}
			n, f := fieldOf(fa.X.Type(), fa.Field)
			return n != nil && f != nil && n.Obj().Name() == "FinalityLedger" && strings.HasSuffix(typeStr(f.Type()), "RWMutex")
		}
		acquired, released, why := false, false, "the method does not start by taking the finality ledger's own mutex"
	scan:
		for _, in := range fn.Blocks[0].Instrs {
			switch c := in.(type) {
			case *ssa.Call:
				cal := c.Common().StaticCallee()
				if cal != nil && w.FuncPkgPath(cal) == "sync" && len(c.Common().Args) == 1 && ownMtx(c.Common().Args[0]) && (cal.Name() == "Lock" || (cal.Name() == "RLock" && !m.write)) {
					acquired = true
					continue
				}
				// before the lock only calls that cannot touch the ledger (logging, formatting)
				if !acquired && (cal == nil || w.InModule(cal) || strings.Contains(w.FuncPkgPath(cal), "iavl") || strings.Contains(w.FuncPkgPath(cal), "tm-db")) {
					why = "a call that can reach the ledger precedes the acquisition of the finality ledger's mutex (" + site(w, in) + ")"
					break scan
				}
			case *ssa.Defer:
				cal := c.Common().StaticCallee()
				if acquired && cal != nil && w.FuncPkgPath(cal) == "sync" && len(c.Common().Args) == 1 && ownMtx(c.Common().Args[0]) && (cal.Name() == "Unlock" || cal.Name() == "RUnlock") {
					released = true
				}
			}
		}
		if acquired && !released {
			why = "the mutex is not held until the method returns (no deferred release)"
		}
		r.Check(acquired && released, "L-7", "exclusion:FinalityLedger."+m.name, "holds the finality ledger's own mutex from its first call until it returns", "building a historical tree is not serialised with committing a version on the same database: "+why, fnSite(w, fn))
	}
}

func l5(w *World, r *Report) {
	isSentinel := func(v ssa.Value) *ssa.Global {
		ld, ok := stripConv(v).(*ssa.UnOp)
		if !ok || ld.Op != token.MUL {
			return nil
		}
		g, ok := ld.X.(*ssa.Global)
		if !ok || !strings.HasPrefix(g.Name(), "Err") || !isErrorType(ld.Type()) {
			return nil
		}
		return g
	}
	// producers: functions whose error result is compared with the sentinel
	producers := map[*ssa.Global]map[*ssa.Function]bool{}
	nComp := 0
	for _, fn := range w.nodeFuncs() {
		for _, b := range fn.Blocks {
			for _, in := range b.Instrs {
				bo, ok := in.(*ssa.BinOp)
				if !ok || (bo.Op != token.EQL && bo.Op != token.NEQ) {
					continue
				}
				for _, pr := range [][2]ssa.Value{{bo.X, bo.Y}, {bo.Y, bo.X}} {
					g := isSentinel(pr[1])
					if g == nil {
						continue
					}
					nComp++
					// the tested value: the error result of a call (through phis)
					var visit func(v ssa.Value, d int)
					seen := map[ssa.Value]bool{}
					visit = func(v ssa.Value, d int) {
						v = stripConv(v)
						if seen[v] || d > 4 {
							return
						}
						seen[v] = true
						var call *ssa.Call
						switch y := v.(type) {
						case *ssa.Phi:
							for _, e := range y.Edges {
								visit(e, d+1)
							}
						case *ssa.Parameter:
							// the comparison sits in a helper (`isNotFound(xerr)`): what its callers pass
							if pf := y.Parent(); pf != nil {
								for pi, p := range pf.Params {
									if p != y {
										continue
									}
									for _, cs := range w.nodeCallers(pf) {
										if cs.Site != nil && !cs.Site.Common().IsInvoke() && pi < len(cs.Site.Common().Args) {
											visit(cs.Site.Common().Args[pi], d+1)
										}
									}
								}
							}
						case *ssa.Call:
							call = y
						case *ssa.Extract:
							call, _ = y.Tuple.(*ssa.Call)
						}
						if call == nil {
							return
						}
						for _, cal := range w.Callees(call) {
							if tgt := boundTarget(cal); tgt != nil {
								cal = tgt
							}
							if !w.InModule(cal) {
								continue
							}
							if producers[g] == nil {
								producers[g] = map[*ssa.Function]bool{}
							}
							producers[g][cal] = true
						}
					}
					visit(pr[0], 0)
				}
			}
		}
	}
	if nComp == 0 {
		r.Undecided("L-5", "comparisons", "no identity comparison with a sentinel error found (the controllers' not-found tests are expected)")
		return
	}
	var gs []*ssa.Global
	for g := range producers {
		gs = append(gs, g)
	}
	sort.Slice(gs, func(i, j int) bool { return gs[i].Name() < gs[j].Name() })
	for _, g := range gs {
		bad := ""
		nFn := 0
		seenFn := map[*ssa.Function]bool{}
		var fns []*ssa.Function
		for f := range producers[g] {
			fns = append(fns, f)
		}
		sort.Slice(fns, func(i, j int) bool { return w.FName(fns[i]) < w.FName(fns[j]) })
		for _, f := range fns {
			for _, h := range w.withModuleCallees(f, 3) {
				if o := h.Origin(); o != nil {
					h = o
				}
				if seenFn[h] {
					continue
				}
				seenFn[h] = true
				nFn++
				for _, c := range CallsIn(h) {
					call, isCall := c.(*ssa.Call)
					if !isCall || !isErrorType(call.Type()) {
						continue
					}
					if call.Common().IsInvoke() {
						if isSentinel(call.Common().Value) != g {
							continue
						}
					} else if cal := call.Common().StaticCallee(); cal == nil || cal.Signature.Recv() == nil || len(call.Common().Args) == 0 || isSentinel(call.Common().Args[0]) != g {
						continue
					}
					// derived from the sentinel: returned (directly or through a phi)?
					if refs := call.Referrers(); refs != nil {
						for _, ref := range *refs {
							switch ref.(type) {
							case *ssa.Return, *ssa.Phi, *ssa.Store, *ssa.MakeInterface:
								bad = w.FName(h) + " hands back " + w.canonCall(call.Common(), 0) + " (" + site(w, c) + ")"
							}
						}
					}
				}
			}
		}
		key := "sentinel-identity:" + g.Name()
		if bad != "" {
			r.Violate("L-5", key, "callers recognise this answer by identity ("+g.Name()+" == the result), but "+bad+": a wrapped copy is another object, so the answer is taken for a failure", nil)
		} else {
			r.OK("L-5", key, fmt.Sprintf("the %d module functions whose error result is compared with %s by identity hand back the sentinel itself, never a wrapped copy", nFn, g.Name()))
		}
	}
}

// boundTarget: the method a bound-method wrapper (`x.m` used as a value) calls.
func boundTarget(f *ssa.Function) *ssa.Function {
	if f == nil || !strings.HasSuffix(f.Name(), "$bound") {
		return nil
	}
	for _, b := range f.Blocks {
		for _, in := range b.Instrs {
			if c, ok := in.(ssa.CallInstruction); ok {
				if m := c.Common().StaticCallee(); m != nil {
					return m
				}
			}
		}
	}
	return nil
}

func structOf(n *types.Named) *types.Struct {
	if n == nil {
		return nil
	}
	s, _ := n.Underlying().(*types.Struct)
	return s
}

type ledgerFns struct {
	fl, sl, mi *types.Struct
	fn         map[string]*ssa.Function
}

func (w *World) ledgerFunctions(r *Report) *ledgerFns {
	lf := &ledgerFns{fn: map[string]*ssa.Function{}}
	lf.fl = structOf(w.Named(pkgLedger, "FinalityLedger"))
	lf.sl = structOf(w.Named(pkgLedger, "SimpleLedger"))
	lf.mi = structOf(w.Named(pkgLedger, "memItems"))
	if lf.fl == nil || lf.sl == nil || lf.mi == nil {
		r.Undecided("L-1", "types", "FinalityLedger / SimpleLedger / memItems not found")
		return nil
	}
	for op, ref := range map[string]fref{
		"F.Set": {pkgLedger, "FinalityLedger", "SetFinality"}, "F.Get": {pkgLedger, "FinalityLedger", "GetFinality"},
		"F.Del": {pkgLedger, "FinalityLedger", "DelFinality"}, "Commit": {pkgLedger, "FinalityLedger", "Commit"},
		"M.Set": {pkgLedger, "SimpleLedger", "Set"}, "M.Get": {pkgLedger, "SimpleLedger", "Get"},
		"M.Del": {pkgLedger, "SimpleLedger", "Del"}, "Read": {pkgLedger, "SimpleLedger", "Read"},
		"F.Cancel": {pkgLedger, "FinalityLedger", "CancelSetFinality"}, "M.Cancel": {pkgLedger, "SimpleLedger", "CancelSet"},
	} {
		f := needFn(r, "L-1", w, ref)
		if f == nil {
			return nil
		}
		lf.fn[op] = f
	}
	return lf
}

type implOutcome struct {
	st      ledgerState
	res     opResult
	choices []bool
}

// applyImplAll evaluates one operation for every answer to the nondeterministic
// choices it meets (presence of an untracked key, container-size comparisons).
// An operation name ending in "~" is applied to a key OTHER than the tracked one.
func (w *World) applyImplAll(lf *ledgerFns, s ledgerState, op string, newTag int) ([]implOutcome, string) {
	var out []implOutcome
	work := [][]bool{nil}
	for len(work) > 0 {
		or := work[len(work)-1]
		work = work[:len(work)-1]
		ns, res, und, used := w.applyImpl(lf, s, op, newTag, or)
		if und != "" {
			return out, und
		}
		full := append([]bool(nil), or...)
		for len(full) < used {
			full = append(full, false)
		}
		out = append(out, implOutcome{ns, res, full})
		for j := len(or); j < used; j++ {
			alt := append(append([]bool(nil), full[:j]...), true)
			work = append(work, alt)
		}
		if len(out) > 256 {
			return out, "more than 256 nondeterministic outcomes of one operation"
		}
	}
	return out, ""
}

// applyImpl evaluates one operation of the implementation on abstract state s.
func (w *World) applyImpl(lf *ledgerFns, s ledgerState, opName string, newTag int, oracle []bool) (ledgerState, opResult, string, int) {
	ns, res, und, m := w.applyImpl1(lf, s, opName, newTag, oracle)
	used := 0
	if m != nil {
		used = m.used
	}
	return ns, res, und, used
}

func (w *World) applyImpl1(lf *ledgerFns, s ledgerState, opName string, newTag int, oracle []bool) (ledgerState, opResult, string, *machine) {
	m, err := newMachine(w, s, lf.fl, lf.sl, lf.mi)
	if err != nil {
		return s, opResult{}, err.Error(), nil
	}
	m.oracle = oracle
	other := strings.HasSuffix(opName, "~")
	op := strings.TrimSuffix(opName, "~")
	fn := lf.fn[op]
	var recv aval = m.ledger
	if strings.HasPrefix(op, "M.") || op == "Read" {
		recv = m.sl
	}
	var args []aval
	switch op {
	case "F.Set", "M.Set":
		if other {
			newTag = otherBase
		}
		args = []aval{recv, &aitem{tag: newTag}}
	case "Commit":
		args = []aval{recv}
	default:
		args = []aval{recv, aKey{valid: true, other: other}}
	}
	res := m.run(fn, args, 0)
	if m.undec != "" {
		return s, opResult{}, m.undec, m
	}
	ns, e := m.state()
	if e != nil {
		return s, opResult{}, e.Error(), m
	}
	// object identity: callers mutate ledger items in place, so an item object
	// must never be held by both overlays
	if a := m.sharedObject(); a != "" {
		return ns, opResult{err: true, tag: -77}, "ALIAS:" + a, m
	}
	var out opResult
	if other {
		return ns, out, "", m // what an operation answers for another key is not constrained here
	}
	switch op {
	case "F.Set", "M.Set":
		if len(res) != 1 {
			return s, out, "unexpected result arity", m
		}
		if !isNilA(res[0]) {
			out.err = true
		} else {
			out = opResult{found: true, tag: newTag}
		}
	case "F.Cancel", "M.Cancel":
		if len(res) != 1 {
			return s, out, "unexpected result arity", m
		}
		if !isNilA(res[0]) {
			out.err = true
		}
	case "Commit":
		if len(res) != 3 {
			return s, out, "unexpected result arity", m
		}
		if !isNilA(res[2]) {
			out.err = true
		} else {
			out = opResult{found: ns.tree >= 0, tag: ns.tree}
		}
	default:
		if len(res) != 2 {
			return s, out, "unexpected result arity", m
		}
		if e, isErr := res[1].(aErr); isErr {
			if e.kind != "notfound" {
				out.err = true
			}
		} else if !isNilA(res[1]) {
			return s, out, fmt.Sprintf("error result outside the domain: %T", res[1]), m
		} else {
			it, ok := res[0].(*aitem)
			if !ok {
				return s, out, fmt.Sprintf("nil error with a %T item", res[0]), m
			}
			out = opResult{found: true, tag: it.tag}
		}
	}
	return ns, out, "", m
}

type pairState struct {
	i ledgerState
	r refState
}

func l1(w *World, r *Report) {
	lf := w.ledgerFunctions(r)
	if lf == nil {
		return
	}
	type node struct {
		p     pairState
		trace []string
	}
	var queue []node
	seen := map[pairState]bool{}
	for _, t := range []int{-1, 0} {
		i := ledgerState{fin: overlay{-1, -1, 0}, mem: overlay{-1, -1, 0}, tree: t}
		rf := refState{committed: t}
		p := pairState{i, rf}
		seen[p] = true
		queue = append(queue, node{p, nil})
	}
	transitions, nStates, nOther := 0, 0, 0
	var sampleTraces [][]string
	for len(queue) > 0 {
		n := queue[0]
		queue = queue[1:]
		nStates++
		if nStates > 200000 {
			r.Undecided("L-1", "exploration", "abstract state space does not close within 200000 states")
			return
		}
		for _, op := range ledgerOpsAll {
			nt := maxTag(n.p.i, n.p.r) + 1
			outs, und := w.applyImplAll(lf, n.p.i, op, nt)
			if strings.HasPrefix(und, "ALIAS:") {
				trace := append(append([]string(nil), n.trace...), op)
				r.Violate("L-1", "overlay-object-sharing", fmt.Sprintf("after %v the consensus overlay and the mempool overlay hold the SAME item object (%s): controllers mutate items in place, so a CheckTx would change what block execution commits (and vice versa)", trace, strings.TrimPrefix(und, "ALIAS:")), map[string]interface{}{"trace": trace}, fnSite(w, lf.fn[strings.TrimSuffix(op, "~")]))
				return
			}
			if und != "" {
				trace := append(append([]string(nil), n.trace...), op)
				r.Undecided("L-1", "exploration", fmt.Sprintf("the ledger code left the abstract domain after %v: %s", trace, und), fnSite(w, lf.fn[strings.TrimSuffix(op, "~")]))
				return
			}
			for _, oc := range outs {
				ni, ires := oc.st, oc.res
				opLabel := op
				if len(oc.choices) > 0 {
					opLabel = fmt.Sprintf("%s%v", op, oc.choices)
				}
				trace := append(append([]string(nil), n.trace...), opLabel)
				op := strings.TrimSuffix(op, "~")
				if strings.HasSuffix(opLabel, "~") || strings.Contains(opLabel, "~[") {
					// an operation on ANOTHER key: the reference state of the tracked key is
					// unchanged; whatever the implementation did to the tracked key's
					// abstract state is explored further
					nOther++
					ci, cr := canonPair(ni, n.p.r)
					p := pairState{ci, cr}
					if !seen[p] {
						seen[p] = true
						queue = append(queue, node{p, trace})
					}
					continue
				}
				nr, rres := refApply(n.p.r, op, nt)
				transitions++
				if ires != rres {
					r.Violate("L-1", "overlay-semantics", fmt.Sprintf("after %v the ledger answers %s where an overlayed map answers %s (abstract state before the last operation: %s)", trace, ires, rres, n.p.i), map[string]interface{}{"trace": trace, "impl": ires.String(), "reference": rres.String()}, fnSite(w, lf.fn[op]))
					return
				}
				if op == "Commit" {
					if ni.tree != nr.committed {
						r.Violate("L-1", "commit-net-effect", fmt.Sprintf("after %v the tree holds %d where the consensus overlay's net effect is %d", trace, ni.tree, nr.committed), map[string]interface{}{"trace": trace}, fnSite(w, lf.fn[op]))
						return
					}
					if ni.mem != (overlay{-1, -1, 0}) || ni.fin.upd != -1 || ni.fin.rem != 0 {
						r.Violate("L-1", "commit-clears-overlays", fmt.Sprintf("after %v pending overlay state survives the commit: %s", trace, ni), map[string]interface{}{"trace": trace}, fnSite(w, lf.fn[op]))
						return
					}
				}
				ci, cr := canonPair(ni, nr)
				p := pairState{ci, cr}
				if !seen[p] {
					seen[p] = true
					queue = append(queue, node{p, trace})
					if len(sampleTraces) < 12 && len(trace) >= 3 {
						sampleTraces = append(sampleTraces, trace)
					}
				}
			}
		}
	}
	r.Extra["l1_other_key_transitions"] = nOther
	r.Extra["l1_abstract_states"] = nStates
	r.Extra["l1_transitions"] = transitions
	r.Extra["l1_sample_traces"] = sampleTraces
	r.Extra["exhaustive_over_abstract_domain"] = true
	r.OK("L-1", "overlay-semantics", fmt.Sprintf("all %d reachable abstract states x %d operations (%d transitions) agree with the overlayed-map reference: reads, commit net effect, overlay clearing, mempool isolation; %d further transitions apply the operations to a key other than the tracked one (present or absent in each container, container sizes unconstrained) and leave the tracked key's answers as the reference says", nStates, len(ledgerOps), transitions, nOther), "ledger/finality_ledger.go", "ledger/simple_ledger.go", "ledger/mem_items.go")
	if nStates < 20 {
		r.Undecided("L-1", "exploration-size", fmt.Sprintf("only %d abstract states explored (floor 20): the exploration is vacuous", nStates))
	} else {
		r.OK("L-1", "exploration-size", fmt.Sprintf("%d abstract states", nStates), "ledger/mem_items.go")
	}
	// positive control: the reference must distinguish a known-bad trace, i.e. the
	// comparison is able to fail: [F.Set, Commit, F.Del, F.Set, F.Get] must be found.
	rs := refState{committed: -1}
	var last opResult
	for k, op := range []string{"F.Set", "Commit", "F.Del", "F.Set", "F.Get"} {
		rs, last = refApply(rs, op, k)
	}
	r.Check(last.found && last.tag == 3, "L-1", "reference-control", "reference model answers the re-created item for Set;Commit;Del;Set;Get", "reference model is broken", "tool/c18.go")
}

func l2(w *World, r *Report) {
	writers := map[string][]string{}
	var all []string
	for _, fn := range w.ModuleFuncs() {
		for _, c := range CallsIn(fn) {
			obj := calleeObj(c.Common())
			if obj == nil || obj.Pkg() == nil || obj.Pkg().Path() != "github.com/cosmos/iavl" {
				continue
			}
			switch obj.Name() {
			case "Set", "Remove", "SaveVersion", "SaveVersionForce", "Load", "LoadVersion":
				if obj.Name() == "Load" || obj.Name() == "LoadVersion" {
					continue
				}
				writers[w.FName(fn)] = append(writers[w.FName(fn)], obj.Name()+"@"+site(w, c))
				all = append(all, site(w, c))
				// L-4: the tree keeps the key bytes it is handed (iavl indexes pending
				// removals and fast nodes by the caller's memory): a key buffer must not
				// be shared between the iterations of the loop the call sits in
				if obj.Name() == "Set" || obj.Name() == "Remove" {
					_, args := callRecvArgs(c.Common())
					if len(args) >= 1 {
						okBuf, why := true, "not inside a loop"
						if hdr := loopHeaderOf(c.Block()); hdr != nil {
							why = "the key's backing array is allocated inside the loop, once per iteration"
							if sl, isSl := stripConv(args[0]).(*ssa.Slice); isSl {
								if al, isA := sl.X.(*ssa.Alloc); isA {
									if !loopBlocks(hdr)[al.Block()] {
										okBuf, why = false, "the key is a slice of a buffer allocated outside the loop ("+site(w, al)+"): every iteration overwrites the bytes the tree kept for the previous key"
									}
								}
							}
						}
						r.Check(okBuf, "L-4", "tree-key-buffer:"+w.FName(fn)+":"+obj.Name(), "the key bytes handed to the tree are not reused: "+why, why, site(w, c))
					}
				}
			}
		}
	}
	// every writer is Commit itself or a helper that only Commit reaches
	okOwner := len(all) >= 3
	for name := range writers {
		if name == "ledger.(*FinalityLedger).Commit" {
			continue
		}
		var wf *ssa.Function
		for _, fn := range w.ModuleFuncs() {
			if w.FName(fn) == name {
				wf = fn
			}
		}
		if _, ok := w.onlyReachedFrom(wf, map[string]string{"ledger.(*FinalityLedger).Commit": ""}, 0, map[*ssa.Function]bool{}); !ok {
			okOwner = false
		}
	}
	var ws []string
	for k, v := range writers {
		ws = append(ws, k+": "+strings.Join(v, " "))
	}
	if okOwner {
		r.OK("L-2", "tree-writers", "the IAVL tree is mutated only inside FinalityLedger.Commit, so between commits the working tree equals the last version", all...)
	} else {
		r.Violate("L-2", "tree-writers", "the IAVL tree is written outside FinalityLedger.Commit (reads between commits would see uncommitted data): "+strings.Join(ws, "; "), nil, all...)
	}
	// a version is created by the consensus commit and by nothing else: the only
	// callers of FinalityLedger.Commit are the controllers' own Commit methods (a
	// Close that flushes pending work, a start-up repair or a query would persist a
	// partially executed block under a version number nobody committed)
	w.checkCallers(r, "L-2", fref{pkgLedger, "FinalityLedger", "Commit"}, map[string]string{
		"account.(*AcctCtrler).Commit": "the account controller's commit",
		"gov.(*GovCtrler).Commit":      "the governance controller's commit",
		"stake.(*StakeCtrler).Commit":  "the stake controller's commit",
	}, 3)
	cm := needFn(r, "L-2", w, fref{pkgLedger, "FinalityLedger", "Commit"})
	if cm != nil {
		// on every path through Commit (helpers expanded) no removal follows an update
		var sets, removes []ssa.Instruction
		ev := func(in ssa.Instruction) string {
			c, ok := in.(ssa.CallInstruction)
			if !ok {
				return ""
			}
			obj := calleeObj(c.Common())
			if obj == nil || obj.Pkg() == nil || obj.Pkg().Path() != "github.com/cosmos/iavl" {
				return ""
			}
			switch obj.Name() {
			case "Set":
				sets = append(sets, c)
				return "Set"
			case "Remove":
				removes = append(removes, c)
				return "Remove"
			case "SaveVersion":
				return "Save"
			}
			return ""
		}
		paths, complete := w.enumPaths(cm, func(ssa.Value) (bool, bool) { return false, false }, ev, 4000)
		bad := !complete
		for _, p := range paths {
			seenSet := false
			for _, e := range p.Events {
				if e == "Set" {
					seenSet = true
				}
				if e == "Remove" && seenSet {
					bad = true
				}
			}
		}
		r.Check(len(sets) > 0 && len(removes) > 0 && !bad, "L-2", "removals-before-updates", "no tree.Remove can follow a tree.Set within one commit (issue #58: a re-created key survives)", "a removal can be applied after an update within one commit (a key deleted and re-created in the block would vanish)", fmtSites(w, append(removes, sets...)...)...)
		// SaveVersion exactly once on every successful path, after every update
		okSave := complete
		if os.Getenv("RIGOCHECK_DEBUG") == "l2" {
			for _, p := range paths {
				fmt.Fprintln(os.Stderr, "L2 path", p.Term, p.Events, func() string {
					if p.Ret != nil {
						return w.InstrPos(p.Ret)
					}
					return "-"
				}())
			}
		}
		nOK := 0
		for _, p := range paths {
			if p.Term != "ok" && p.Term != "unknown" {
				continue
			}
			nOK++
			n, last := 0, ""
			for _, e := range p.Events {
				if e == "Save" {
					n++
				}
				last = e
			}
			if n != 1 || last != "Save" {
				okSave = false
			}
		}
		okSave = okSave && nOK > 0
		var saves []ssa.Instruction
		r.Check(okSave, "L-2", "save-after-updates", "SaveVersion follows the updates", "SaveVersion is not after the tree updates", fmtSites(w, saves...)...)
	}
	// iterators read the tree only
	for _, ref := range []fref{{pkgLedger, "SimpleLedger", "IterateReadAllItems"}, {pkgLedger, "FinalityLedger", "IterateReadAllFinalityItems"}, {pkgLedger, "SimpleLedger", "read"}} {
		fn := needFn(r, "L-2", w, ref)
		if fn == nil {
			continue
		}
		bad := ""
		var visit func(f *ssa.Function, d int)
		visit = func(f *ssa.Function, d int) {
			if d > 3 {
				return
			}
			for _, b := range f.Blocks {
				for _, in := range b.Instrs {
					if fa, ok := in.(*ssa.FieldAddr); ok {
						n, fl := fieldOf(fa.X.Type(), fa.Field)
						if n != nil && fl != nil && (n.Obj().Name() == "memItems" || fl.Name() == "cachedItems" || fl.Name() == "finalityItems") {
							bad = site(w, in)
						}
					}
				}
			}
			for _, a := range f.AnonFuncs {
				visit(a, d+1)
			}
			for _, c := range CallsIn(f) {
				if cal := c.Common().StaticCallee(); cal != nil && w.FuncPkgPath(cal) == absPkg(pkgLedger) {
					if o := cal.Origin(); o != nil {
						cal = o
					}
					if cal != f {
						visit(cal, d+1)
					}
				}
			}
		}
		visit(fn, 0)
		r.Check(bad == "", "L-2", "tree-read-only:"+refStr(ref), "reads the committed tree without consulting an overlay", "a tree read consults an overlay container: "+bad, fnSite(w, fn))
	}
}

func l3(w *World, r *Report) {
	q4rep := NewReport("C18", "quick")
	q4(w, q4rep)
	for _, o := range q4rep.Obs {
		o.Rule = "L-3"
		o.Key = "L-3:" + strings.TrimPrefix(o.Key, "Q-4:")
		r.Obs = append(r.Obs, o)
	}
	fn := needFn(r, "L-3", w, fref{pkgLedger, "SimpleLedger", "ImmutableLedgerAt"})
	if fn == nil {
		return
	}
	nt := w.callsTo(fn, fref{"github.com/cosmos/iavl", "", "NewMutableTree"}, fref{"github.com/cosmos/iavl", "", "NewMutableTreeWithOpts"})
	ld := w.callsTo(fn, fref{"github.com/cosmos/iavl", "MutableTree", "LazyLoadVersion"}, fref{"github.com/cosmos/iavl", "MutableTree", "LoadVersion"})
	ok := len(nt) == 1 && len(ld) == 1
	if ok {
		ok = w.Canon(nt[0].Common().Args[0]) == "recv.db" && ld[0].Common().Args[1] == ssa.Value(fn.Params[1]) && sameValue(ld[0].Common().Args[0], extractOf(callValue(nt[0]), 0))
	}
	r.Check(ok, "L-3", "ImmutableLedgerAt:loads-exactly-n", "a fresh tree on the same database loads exactly the requested version", "ImmutableLedgerAt does not load exactly version n into a fresh tree on the ledger's database", fnSite(w, fn))
	// load error returned; result has fresh overlays and that tree
	guard := false
	for _, g := range w.Guards(fn) {
		if len(ld) == 1 {
			if ev := extractOf(callValue(ld[0]), 1); ev != nil {
				if bo, isB := g.If.Cond.(*ssa.BinOp); isB && (sameValue(bo.X, ev) || sameValue(bo.Y, ev)) {
					guard = true
				}
			}
		}
	}
	r.Check(guard, "L-3", "ImmutableLedgerAt:missing-version-is-an-error", "a version that does not exist yields an error", "the error of loading the requested version is ignored (another version would be served)", fnSite(w, fn))
	fresh, tree := false, false
	for _, fs := range w.fieldStores(fn) {
		if !baseFresh(fs.Addr) {
			continue
		}
		switch fs.Field.Name() {
		case "cachedItems":
			fresh = strings.HasPrefix(w.Canon(fs.Val), "ledger.newMemItems(")
		case "tree":
			tree = len(nt) == 1 && sameValue(fs.Val, extractOf(callValue(nt[0]), 0))
		}
	}
	r.Check(fresh, "L-3", "ImmutableLedgerAt:fresh-overlay", "the returned ledger has its own empty overlay", "the returned ledger does not get a fresh overlay of its own", fnSite(w, fn))
	// every other ImmutableLedgerAt of the package (the finality ledger's wrapper) answers
	// only through that one: no successful return avoids it
	for _, tn := range []string{"FinalityLedger", "MemLedger"} {
		wf := w.Method(pkgLedger, tn, "ImmutableLedgerAt")
		if wf == nil || wf.Blocks == nil {
			continue
		}
		var del ssa.CallInstruction
		for _, c := range CallsIn(wf) {
			if cal := c.Common().StaticCallee(); cal != nil {
				if o := cal.Origin(); o != nil {
					cal = o
				}
				if cal == fn || (cal.Name() == "ImmutableLedgerAt" && cal != wf && inLedgerPkg(w, cal)) {
					del = c
				}
			}
		}
		okW := del != nil
		if okW {
			// called with the requested version
			args := del.Common().Args
			okW = len(args) >= 2 && args[1] == ssa.Value(wf.Params[1])
			for _, ex := range exitsAvoiding(ipos{wf.Blocks[0], 0}, func(in ssa.Instruction) bool { return in == ssa.Instruction(del.(ssa.Instruction)) }, nil) {
				if ret, isRet := ex.(*ssa.Return); isRet && ret.Block() != wf.Recover && w.errState(ret) != triNonNil {
					okW = false
				}
			}
		}
		r.Check(okW, "L-3", tn+".ImmutableLedgerAt:delegates", "every successful answer comes from SimpleLedger.ImmutableLedgerAt for the requested version", tn+".ImmutableLedgerAt can answer without loading the requested version (a version that is not saved yet would be served from the working tree)", fnSite(w, wf))
	}
	r.Check(tree, "L-3", "ImmutableLedgerAt:own-tree", "the returned ledger wraps the tree object created for this request", "the returned ledger wraps a tree object that was not created for this request (a shared or cached iavl tree keeps the 'latest version' it saw when it was opened and serves later state for an old height)", fnSite(w, fn))
}

// l8 — the removed-key list is a multiset: every successful delete of an overlay
// adds one entry (also for a key that is already listed: delete, re-create, delete)
// and CancelDel / CancelDelFinality take back exactly one. The abstract
// interpreter of L-1 does not run the cancel-delete operations, so the pairing is
// decided structurally: appendRemovedKey appends on every path, delRemovedKey
// removes at most one entry per call.
func l8(w *World, r *Report) {
	ap := w.Method(pkgLedger, "memItems", "appendRemovedKey")
	dl := w.Method(pkgLedger, "memItems", "delRemovedKey")
	if ap == nil || dl == nil {
		r.Undecided("L-8", "removed-keys", "memItems.appendRemovedKey / delRemovedKey not found")
		return
	}
	var app *ssa.Store
	for _, st := range w.storesTo(ap, "recv.removedKeys") {
		if strings.HasPrefix(w.Canon(st.Val), "append(recv.removedKeys, ") {
			app = st
		}
	}
	bad := ""
	if app == nil {
		bad = "no append to the removed-key list"
	} else {
		for _, b := range ap.Blocks {
			if ret, isR := lastInstr(b).(*ssa.Return); isR && b != ap.Recover && !instrDominates(app, ret) {
				bad = "the return at " + w.InstrPos(ret) + " is reached without recording the delete"
			}
		}
	}
	r.Check(bad == "", "L-8", "appendRemovedKey:every-delete-recorded", "every call records one entry, also for a key that is already listed", "a delete is not always recorded in the removed-key list (delete, re-create, delete leaves one entry, and cancelling the second delete wipes out both: reads fall through to the committed value and the commit keeps the key): "+bad, fnSite(w, ap))
	// at most one entry removed per call: the removing store is followed by a return
	// without passing the loop head again
	okOne := true
	nRm := 0
	for _, st := range w.storesTo(dl, "recv.removedKeys") {
		nRm++
		hdr := loopHeaderOf(st.Block())
		if hdr == nil {
			continue
		}
		seen := map[*ssa.BasicBlock]bool{}
		var walk func(b *ssa.BasicBlock)
		walk = func(b *ssa.BasicBlock) {
			for _, sc := range b.Succs {
				if sc == hdr {
					okOne = false
					return
				}
				if !seen[sc] {
					seen[sc] = true
					walk(sc)
				}
			}
		}
		walk(st.Block())
	}
	r.Check(okOne && nRm >= 1, "L-8", "delRemovedKey:takes-back-one", "a cancelled delete takes back exactly one entry", "delRemovedKey can remove more than one entry (or none): a cancelled delete would cancel earlier deletes of the key as well", fnSite(w, dl))
}
