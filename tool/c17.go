package main

// C17 — contract execution is standard EVM semantics over the native account
// ledger: only the wrapper's synchronisation protocol is claimed (DESIGN §3 C17, E-1 … E-5).

import (
	"fmt"
	"go/token"
	"go/types"
	"os"
	"regexp"
	"strings"

	"golang.org/x/tools/go/ssa"
)

func init() { register("C17", checkC17) }

const pkgEVM = "ctrlers/vm/evm"

func checkC17(w *World, r *Report) {
	r.Explanation = "Structural clause of C17 (the synchronisation protocol between go-ethereum's StateDB and the native account ledger; equivalence with the reference EVM over all programs is out of reach): (E-0) every vm.StateDB method of the wrapper delegates to the same-named method of the embedded StateDB with its arguments in order, and the block context's CanTransfer/Transfer are balance >= amount / debit sender + credit recipient of the same amount; (E-1) every way an address enters the access list (AddAddressToAccessList, PrepareAccessList for sender, destination, precompiles and listed addresses; Prepare for sender and receiver) first copies nonce and balance from the native account (FindOrNewAccount(addr, exec)) into the state object and records the address with the current snapshot + 1; (E-2) Finish writes balance and nonce of every recorded address back and marks the account, then forgets the addresses; RevertToSnapshot forgets the addresses recorded after that snapshot before delegating; Snapshot records and returns the id; (E-3) failures revert to the pre-transaction snapshot (C05 A-4); (E-4) contract transactions and transfers to accounts with code are routed to the EVM (decision table); (E-5) the read-only call runs on a scratch state at the requested height with the immutable account handler and cannot reach a durable write; the per-block wrapper is built on the last committed root with the block's account handler; (E-7) the block's gas pool is filled once, when it is created, and after that only go-ethereum's message application takes from it or gives back to it; (E-6) the native (precompiled) contracts the module registers never write through their input: the interpreter hands them a window of the calling contract's memory. (E-8) every successful return of ExecuteTrx behind the message application has read the state's logs of this transaction (they are reported as the evm event)."
	r.NotCovered = "equivalence with the reference EVM for all programs; go-ethereum internals; accounts the EVM touches without adding them to the access list (pre-Berlin rules are not active)."
	e0(w, r)
	e1(w, r)
	e2(w, r)
	// E-3
	rep := NewReport("C17", "quick")
	a4(w, rep)
	for _, o := range rep.Obs {
		o.Rule = "E-3"
		o.Key = "E-3:" + strings.TrimPrefix(o.Key, "A-4:")
		r.Obs = append(r.Obs, o)
	}
	// E-4
	rep = NewReport("C17", "quick")
	routingTable(w, rep, "E-4")
	for _, o := range rep.Obs {
		if strings.Contains(o.Key, "type=6,") || strings.Contains(o.Key, "type=1,receiverHasCode=true") {
			r.Obs = append(r.Obs, o)
		}
	}
	e5(w, r)
	e6(w, r)
	e7(w, r)
	e8(w, r)
	r.Floor("E-8", 1, "logs reported")
	r.Floor("E-0", 24, "delegating methods")
	r.Floor("E-1", 6, "sync-in")
	r.Floor("E-2", 5, "sync-out")
	r.Floor("E-3", 3, "revert pairing")
	r.Floor("E-4", 6, "routing rows")
	r.Floor("E-5", 5, "read-only call and per-block wrapper")
	r.Floor("E-6", 1, "native contracts")
	r.Floor("E-7", 1, "gas pool")
}

var delegating = []string{"CreateAccount", "SubBalance", "AddBalance", "GetBalance", "GetNonce", "SetNonce", "GetCodeHash", "GetCode", "SetCode", "GetCodeSize",
	"AddRefund", "SubRefund", "GetRefund", "GetCommittedState", "GetState", "SetState", "Suicide", "HasSuicided", "Exist", "Empty",
	"AddressInAccessList", "SlotInAccessList", "AddSlotToAccessList", "AddLog", "AddPreimage", "ForEachStorage"}

func e0(w *World, r *Report) {
	// the wrapper implements vm.StateDB; every interface method is either delegating or one of the protocol methods
	n := w.Named(pkgEVM, "StateDBWrapper")
	if n == nil {
		r.Undecided("E-0", "StateDBWrapper", "type not found")
		return
	}
	proto := map[string]bool{"PrepareAccessList": true, "AddAddressToAccessList": true, "RevertToSnapshot": true, "Snapshot": true}
	isDeleg := map[string]bool{}
	for _, m := range delegating {
		isDeleg[m] = true
	}
	if vmPkg := w.ByPath["github.com/ethereum/go-ethereum/core/vm"]; vmPkg != nil {
		if obj := vmPkg.Types.Scope().Lookup("StateDB"); obj != nil {
			if it, ok := obj.Type().Underlying().(*types.Interface); ok {
				for i := 0; i < it.NumMethods(); i++ {
					m := it.Method(i).Name()
					if !isDeleg[m] && !proto[m] {
						r.Undecided("E-0", "vm.StateDB:"+m, "interface method neither in the delegating set nor a protocol method")
					}
				}
			}
		}
	}
	for _, m := range delegating {
		fn := w.Method(pkgEVM, "StateDBWrapper", m)
		if fn == nil {
			r.OK("E-0", "delegate:"+m, "the wrapper has no own "+m+": the embedded StateDB's method is promoted, which is the same delegation", w.posOfNamed(n))
			continue
		}
		var args []string
		for i := range fn.Params[1:] {
			args = append(args, fmt.Sprintf("p%d", i))
		}
		want := "recv.StateDB." + m + "(" + strings.Join(args, ", ") + ")"
		calls := 0
		ok := false
		for _, c := range CallsIn(fn) {
			// the embedded state reached through a one-line accessor of the wrapper is the
			// same delegation: the accessor is looked through and does not count as a call
			if cal := c.Common().StaticCallee(); cal != nil && w.InModule(cal) && isFieldGetter(cal) {
				continue
			}
			calls++
			if w.canonCall(c.Common(), 0) == want || w.canonCallI(c.Common()) == want {
				ok = true
			}
		}
		if ok && fn.Signature.Results().Len() > 0 {
			for _, b := range fn.Blocks {
				if ret, isR := lastInstr(b).(*ssa.Return); isR {
					if !strings.HasPrefix(w.Canon(ret.Results[0]), want) && !strings.HasPrefix(w.CanonI(ret.Results[0]), want) {
						ok = false
					}
				}
			}
		}
		r.Check(ok && calls == 1, "E-0", "delegate:"+m, "delegates to the embedded StateDB's "+m+" with the same arguments", "StateDBWrapper."+m+" is not a plain delegation to StateDB."+m+" (the EVM would see other state than it wrote)", fnSite(w, fn))
	}
	ct := needFn(r, "E-0", w, fref{pkgEVM, "", "CanTransfer"})
	if ct != nil {
		ok := false
		for _, b := range ct.Blocks {
			if ret, isR := lastInstr(b).(*ssa.Return); isR {
				ok = w.Canon(ret.Results[0]) == "(p0.GetBalance(p1).Cmp(p2) >= 0)"
			}
		}
		if !ok {
			// the same test with an early exit: no `true` is returned when the balance
			// is below the amount, no `false` when it is not
			okT, whyT := w.runUnderBool(ct, A("p0.GetBalance(p1)", "<", "p2"), false)
			okF, whyF := w.runUnderBool(ct, A("p0.GetBalance(p1)", ">=", "p2"), true)
			ok = okT && okF
			_ = whyT + whyF
		}
		r.Check(ok, "E-0", "CanTransfer", "balance >= amount", "CanTransfer is not `balance >= amount`", fnSite(w, ct))
	}
	tf := needFn(r, "E-0", w, fref{pkgEVM, "", "Transfer"})
	if tf != nil {
		s := w.findCall(tf, "p0.SubBalance(p1, p3)")
		a := w.findCall(tf, "p0.AddBalance(p2, p3)")
		r.Check(s != nil && a != nil && len(CallsIn(tf)) == 2, "E-0", "Transfer", "debit the sender and credit the recipient with the same amount", "the EVM's Transfer is not `sub(sender, amt); add(recipient, amt)`", fnSite(w, tf))
	}
	bc := needFn(r, "E-0", w, fref{pkgEVM, "", "evmBlockContext"})
	if bc != nil {
		ok := 0
		// a fresh big integer holding the given parameter: big.NewInt(p) or new(big.Int).SetInt64(p)
		freshBigOf := func(v ssa.Value, p string) bool {
			c, isC := stripConv(v).(*ssa.Call)
			if !isC {
				return false
			}
			cal := c.Common().StaticCallee()
			if cal == nil || cal.Pkg == nil || cal.Pkg.Pkg.Path() != "math/big" {
				return false
			}
			a := c.Common().Args
			switch {
			case cal.Name() == "NewInt" && len(a) == 1:
				return w.Canon(a[0]) == p
			case cal.Name() == "SetInt64" && len(a) == 2:
				_, fresh := stripConv(a[0]).(*ssa.Alloc)
				return fresh && w.Canon(a[1]) == p
			}
			return false
		}
		// the context may be started by a helper (the callbacks) and completed here
		var stores []fieldStore
		for _, g := range w.withModuleCallees(bc, 1) {
			if g != bc && len(g.Params) != 0 {
				continue // a helper with parameters: its stores are not in evmBlockContext's terms
			}
			stores = append(stores, w.fieldStores(g)...)
		}
		seenF := map[string]bool{}
		for _, fs := range stores {
			good := false
			switch fs.Field.Name() {
			case "CanTransfer":
				good = w.Canon(fs.Val) == "evm.CanTransfer"
			case "Transfer":
				good = w.Canon(fs.Val) == "evm.Transfer"
			case "BlockNumber":
				good = freshBigOf(fs.Val, "p1")
			case "Time":
				good = freshBigOf(fs.Val, "p2")
			default:
				continue
			}
			if good && !seenF[fs.Field.Name()] {
				seenF[fs.Field.Name()] = true
				ok++
			} else if !good {
				ok = -100 // one of the four fields also gets another value
			}
		}
		r.Check(ok == 4, "E-0", "evmBlockContext", "the EVM's block context uses these transfer functions and the block's number and time", "evmBlockContext does not install CanTransfer/Transfer and the block's number/time", fnSite(w, bc))
	}
}

func e1(w *World, r *Report) {
	add := needFn(r, "E-1", w, fref{pkgEVM, "StateDBWrapper", "addAccessedObjAddr"})
	if add != nil {
		so := "recv.StateDB.GetOrNewStateObject(p0)"
		ac := "recv.acctHandler.FindOrNewAccount(p0[:], recv.exec)"
		sn := w.findCall(add, so+".SetNonce("+ac+".Nonce)")
		sb := w.findCall(add, so+".SetBalance("+ac+".Balance.ToBig())")
		var mu *ssa.MapUpdate
		// in addAccessedObjAddr or in a helper of the record it hands the address and the mark to
		for _, g := range w.withModuleCallees(add, 1) {
			for _, b := range g.Blocks {
				for _, in := range b.Instrs {
					m, ok := in.(*ssa.MapUpdate)
					if !ok {
						continue
					}
					if w.inCallerTerms(add, g, func() bool {
						return w.Canon(m.Map) == "recv.accessedObjAddrs" && w.Canon(m.Key) == "p0" && w.Canon(m.Value) == "(recv.snapshot + 1)"
					}) {
						mu = m
					}
				}
			}
		}
		r.Check(sn != nil && sb != nil, "E-1", "addAccessedObjAddr:copies-native-state", "nonce and balance of the native account (exec-selected overlay) are copied into the EVM state object", "sync-in does not copy the native account's nonce and balance into the EVM state object", fnSite(w, add))
		r.Check(mu != nil && sn != nil && sb != nil, "E-1", "addAccessedObjAddr:records-address", "the address is recorded with snapshot + 1 so that a revert to the snapshot forgets it", "the synced address is not recorded with the current snapshot + 1", fnSite(w, add))
		// only when not yet recorded
		ok := sn != nil && w.condCanonHolds(sn.Block(), "recv.accessedObjAddrs[p0]#1", -1)
		r.Check(ok, "E-1", "addAccessedObjAddr:once", "an address already synced in this transaction is not overwritten (the EVM's own changes survive)", "an already synced address is synced again (EVM-side changes of this transaction would be overwritten)", fnSite(w, add))
	}
	aa := needFn(r, "E-1", w, fref{pkgEVM, "StateDBWrapper", "AddAddressToAccessList"})
	if aa != nil {
		s := w.findCall(aa, "recv.addAccessedObjAddr(p0)")
		d := w.findCall(aa, "recv.StateDB.AddAddressToAccessList(p0)")
		// on EVERY path (the wrapper's own bookkeeping decides whether there is anything to
		// copy: go-ethereum's access list is reset at another moment than the wrapper's record)
		always := s != nil
		if s != nil {
			for _, ex := range exitsAvoiding(ipos{aa.Blocks[0], 0}, func(in ssa.Instruction) bool { return in == ssa.Instruction(s.(ssa.Instruction)) }, nil) {
				if _, isRet := ex.(*ssa.Return); isRet {
					always = false
				}
			}
		}
		r.Check(s != nil && d != nil && instrDominates(s, d) && always, "E-1", "AddAddressToAccessList", "syncs the address in on every path, before adding it to the access list", "AddAddressToAccessList does not sync the address in first on every path (it may return without consulting the wrapper's own record of synchronised addresses)", fnSite(w, aa))
	}
	pa := needFn(r, "E-1", w, fref{pkgEVM, "StateDBWrapper", "PrepareAccessList"})
	if pa != nil {
		// every element: the range form or an index loop from 0
		e := `\[(\(phi\(\(φ \+ 1\)\|-1\) \+ 1\)|phi\(0\|\(φ \+ 1\)\)|phi\(\(φ \+ 1\)\|0\))\]`
		// the call in PrepareAccessList that matches — itself, or the call of a helper of
		// the wrapper in which the matching call sits (printed in PrepareAccessList's terms)
		find := func(re *regexp.Regexp) ssa.Instruction {
			for _, c := range CallsIn(pa) {
				if re.MatchString(w.canonCall(c.Common(), 0)) || re.MatchString(w.canonCallI(c.Common())) {
					return c
				}
			}
			for _, hc := range CallsIn(pa) {
				g := hc.Common().StaticCallee()
				if g == nil || !w.InModule(g) || g.Blocks == nil || g.Name() == "addAccessedObjAddr" {
					continue
				}
				for _, c2 := range CallsIn(g) {
					c2 := c2
					if w.inCallerTerms(pa, g, func() bool { return re.MatchString(w.canonCall(c2.Common(), 0)) }) {
						return hc
					}
				}
			}
			return nil
		}
		d := find(mustRe(`^recv\.StateDB\.PrepareAccessList\(p0, p1, p2, p3\)$`))
		ok := d != nil
		for _, want := range []string{`^recv\.addAccessedObjAddr\(p0\)$`, `^recv\.addAccessedObjAddr\(p1\)$`, `^recv\.addAccessedObjAddr\(p2` + e + `\)$`, `^recv\.addAccessedObjAddr\(p3` + e + `\.Address\)$`} {
			c := find(mustRe(want))
			if c == nil || d == nil || !instrReaches(c, d) {
				ok = false
			}
		}
		r.Check(ok, "E-1", "PrepareAccessList", "sender, destination, every precompile and every listed address are synced in before the access list is prepared", "PrepareAccessList does not sync every address it adds", fnSite(w, pa))
	}
	pr := needFn(r, "E-1", w, fref{pkgEVM, "StateDBWrapper", "Prepare"})
	if pr != nil {
		f := w.findCall(pr, "recv.AddAddressToAccessList(p2.Array20())")
		t := w.findCall(pr, "recv.AddAddressToAccessList(p3.Array20())")
		se := w.findStore(pr, "recv.exec", "p5")
		ss := w.findStore(pr, "recv.snapshot", "p4")
		ok := f != nil && t != nil && se != nil && ss != nil && instrDominates(se, f) && instrDominates(ss, f) && w.condCanonHolds(t.Block(), "types.IsZeroAddress(p3)", -1)
		r.Check(ok, "E-1", "Prepare", "the exec flag and the snapshot id are installed before sender and (non-zero) receiver are synced in", "Prepare does not install exec/snapshot before syncing sender and receiver in", fnSite(w, pr))
	}
	ex := needFn(r, "E-1", w, fref{pkgEVM, "EVMCtrler", "ExecuteTrx"})
	if ex != nil {
		c := w.findCall(ex, "recv.stateDBWrapper.Prepare(p0.TxHash, p0.TxIdx, p0.Tx.From, p0.Tx.To, recv.stateDBWrapper.Snapshot(), p0.Exec)")
		r.Check(c != nil, "E-1", "ExecuteTrx:Prepare-args", "Prepare receives the transaction's hash, index, sender, receiver, the fresh snapshot and the exec flag", "ExecuteTrx does not prepare the wrapper with this transaction's sender/receiver/snapshot/exec", fnSite(w, ex))
	}
}

func e2(w *World, r *Report) {
	fin := needFn(r, "E-2", w, fref{pkgEVM, "StateDBWrapper", "Finish"})
	if fin != nil {
		okB, okN, why := w.finishWriteBack(fin)
		r.Check(okB && okN, "E-2", "Finish:write-back", "for every recorded address the EVM's balance and nonce are written to the native account (exec-selected overlay), which is then marked", "Finish does not write balance and nonce of every recorded address back and mark the account: "+why, fnSite(w, fin))
		st := false
		for _, s := range w.storesTo(fin, "recv.accessedObjAddrs") {
			if _, isM := s.Val.(*ssa.MakeMap); isM {
				st = true
				for _, b := range fin.Blocks {
					if ret, isR := lastInstr(b).(*ssa.Return); isR && !instrDominates(s, ret) {
						st = false
					}
				}
			}
		}
		r.Check(st, "E-2", "Finish:forgets-addresses", "the recorded addresses are forgotten after the write-back (issue #68)", "Finish keeps the recorded addresses (the next transaction would not re-read native balances)", fnSite(w, fin))
	}
	rv := needFn(r, "E-2", w, fref{pkgEVM, "StateDBWrapper", "RevertToSnapshot"})
	if rv != nil {
		a := w.findCall(rv, "recv.revertAccessedObjAddr(p0)")
		d := w.findCall(rv, "recv.StateDB.RevertToSnapshot(p0)")
		r.Check(a != nil && d != nil && instrDominates(a, d), "E-2", "RevertToSnapshot", "addresses synced after the snapshot are forgotten, then the EVM state is reverted to that snapshot", "RevertToSnapshot does not un-sync the addresses recorded after the snapshot before reverting", fnSite(w, rv))
	}
	ra := needFn(r, "E-2", w, fref{pkgEVM, "StateDBWrapper", "revertAccessedObjAddr"})
	if ra != nil {
		// the set of forgotten addresses is exactly { k : target < mark(k) }: the
		// only data-dependent branch compares the target snapshot with the mark,
		// and the key is deleted (directly, or collected and deleted afterwards) on
		// the edge where target < mark holds
		ok, why := w.revertsExactly(ra)
		r.Check(ok, "E-2", "revertAccessedObjAddr", "exactly the addresses recorded with a snapshot number above the target are forgotten", "revertAccessedObjAddr does not forget exactly the addresses recorded after the target snapshot: "+why, fnSite(w, ra))
	}
	sn := needFn(r, "E-2", w, fref{pkgEVM, "StateDBWrapper", "Snapshot"})
	if sn != nil {
		st := w.findStore(sn, "recv.snapshot", "recv.StateDB.Snapshot()")
		ok := st != nil
		for _, b := range sn.Blocks {
			if ret, isR := lastInstr(b).(*ssa.Return); isR {
				c := w.Canon(ret.Results[0])
				ok = ok && (c == "recv.snapshot" || c == "recv.StateDB.Snapshot()")
			}
		}
		r.Check(ok, "E-2", "Snapshot", "the snapshot id is recorded and returned", "Snapshot does not record and return the EVM's snapshot id", fnSite(w, sn))
	}
}

// addrOf: canonical name of the range key variable in Finish (the loop's address).
func addrOf(w *World, fin *ssa.Function) string {
	for _, b := range fin.Blocks {
		for _, in := range b.Instrs {
			if st, ok := in.(*ssa.Store); ok {
				if strings.HasPrefix(w.Canon(st.Val), "next(range(recv.accessedObjAddrs))#1") {
					return w.Canon(st.Addr)
				}
			}
		}
	}
	return "next(range(recv.accessedObjAddrs))#1"
}

func e5(w *World, r *Report) {
	rep := NewReport("C17", "quick")
	reach := w.queryReach()
	q1(w, rep, reach, reach.ModuleFuncs())
	for _, o := range rep.Obs {
		if strings.Contains(o.Key, "ImmutableStateAt:") || strings.Contains(o.Key, "callVM:") || o.Status != stOK && (strings.Contains(o.Key, "evm.") || strings.Contains(o.Key, "durable-write")) {
			o.Rule = "E-5"
			o.Key = "E-5:" + strings.TrimPrefix(o.Key, "Q-1:")
			r.Obs = append(r.Obs, o)
		}
	}
	cv := needFn(r, "E-5", w, fref{pkgEVM, "EVMCtrler", "callVM"})
	if cv != nil {
		ok := false
		n := 0
		// in callVM or in a helper that builds the message for it
		for _, g := range w.withModuleCallees(cv, 2) {
			for _, c := range w.callsTo(g, fref{pkgEVM, "", "evmMessage"}) {
				n++
				fake, isC := constBool(c.Common().Args[7])
				if isC && fake {
					ok = true
					continue
				}
				all := g != cv
				if all {
					forms := w.CanonAtCallers(g, c.Common().Args[7])
					for _, f := range forms {
						if f != "true" {
							all = false
						}
					}
					all = all && len(forms) > 0
				}
				if !all {
					ok = false
					n = -100
				}
			}
		}
		ok = ok && n > 0
		r.Check(ok, "E-5", "callVM:fake-message", "the read-only call uses a fake message (no nonce check, no gas purchase)", "the read-only call no longer uses a fake message", fnSite(w, cv))
	}
	bb := needFn(r, "E-5", w, fref{pkgEVM, "EVMCtrler", "BeginBlock"})
	if bb != nil {
		// in BeginBlock or in a helper it calls (written in BeginBlock's terms)
		ok := false
		reNew := mustRe(`^evm\.NewStateDBWrapper\(recv\.ethDB, recv\.lastRootHash, p0\.AcctHandler, [^()]*\)#0$`)
		for _, hf := range w.withModuleCallees(bb, 2) {
			for _, fs := range w.fieldStores(hf) {
				if fs.Field.Name() == "stateDBWrapper" && w.inCallerTerms(bb, hf, func() bool {
					return w.Canon(fs.Addr) == "recv.stateDBWrapper" && reNew.MatchString(w.CanonDeep(fs.Val))
				}) {
					ok = true
				}
			}
		}
		r.Check(ok, "E-5", "BeginBlock:wrapper-on-last-root", "each block's EVM state is opened at the last committed root with the block's account handler", "the per-block EVM state is not opened at the last committed root with the block's account handler", fnSite(w, bb))
		vm := false
		for _, hf := range w.withModuleCallees(bb, 2) {
			for _, c := range CallsIn(hf) {
				if callName(c.Common()) == "NewEVM" && len(c.Common().Args) >= 3 && w.inCallerTerms(bb, hf, func() bool { return w.CanonDeep(c.Common().Args[2]) == "recv.stateDBWrapper" }) {
					// the EVM built is the one the controller keeps
					vm = true
				}
			}
		}
		r.Check(vm, "E-5", "BeginBlock:evm-on-wrapper", "the block's EVM runs on the wrapper (not on the bare StateDB)", "the block's EVM is not built on the wrapper", fnSite(w, bb))
	}
	ev := needFn(r, "E-5", w, fref{pkgEVM, "EVMCtrler", "execVM"})
	if ev != nil {
		rs := w.findCallMatch(ev, mustRe(`^recv\.vmevm\.Reset\(core\.NewEVMTxContext\(.+\), recv\.stateDBWrapper\)$`))
		if len(rs) != 1 {
			// through accessors of the controller's fields
			rs = w.findCallMatchI(ev, mustRe(`^recv\.vmevm\.Reset\(core\.NewEVMTxContext\(.+\), recv\.stateDBWrapper\)$`))
		}
		if len(rs) != 1 {
			// in the helper that builds and applies the message for ExecuteTrx
			if ex := w.Method(pkgEVM, "EVMCtrler", "ExecuteTrx"); ex != nil {
				if deep := w.evmMessageDeep(ex); deep != nil {
					rs = w.findCallMatch(deep.Fn, mustRe(`^recv\.vmevm\.Reset\(core\.NewEVMTxContext\(.+\), recv\.stateDBWrapper\)$`))
				}
			}
		}
		r.Check(len(rs) == 1, "E-5", "execVM:reset-on-wrapper", "each transaction resets the EVM onto the wrapper", "execVM does not reset the EVM onto the wrapper", fnSite(w, ev))
	}
	nw := needFn(r, "E-5", w, fref{pkgEVM, "", "NewStateDBWrapper"})
	if nw != nil {
		okS, okH := false, false
		for _, fs := range w.fieldStores(nw) {
			switch fs.Field.Name() {
			case "StateDB":
				okS = strings.HasPrefix(w.Canon(fs.Val), "state.New(p1.Array32(), state.NewDatabase(p0), nil)#0")
			case "acctHandler":
				okH = w.Canon(fs.Val) == "p2"
			}
		}
		r.Check(okS && okH, "E-5", "NewStateDBWrapper", "wraps a state at the given root over the given database with the given account handler", "NewStateDBWrapper does not wrap (root, db, handler) as given", fnSite(w, nw))
	}
}

func (w *World) posOfNamed(n *types.Named) string {
	if n == nil {
		return "-"
	}
	return w.Pos(n.Obj().Pos())
}

// revertsExactly decides the E-2 obligation on revertAccessedObjAddr.
func (w *World) revertsExactly(ra *ssa.Function) (bool, string) {
	if len(ra.Params) < 2 {
		return false, "unexpected signature"
	}
	target := ssa.Value(ra.Params[1])
	// the walk over the recorded addresses may sit in a helper that is handed the
	// record (as receiver or argument) and the target snapshot: analyse it there,
	// in the caller's terms
	hasRange := func(f *ssa.Function) bool {
		for _, b := range f.Blocks {
			for _, in := range b.Instrs {
				if _, ok := in.(*ssa.Range); ok {
					return true
				}
			}
		}
		return false
	}
	if !hasRange(ra) {
		for _, c := range CallsIn(ra) {
			g := c.Common().StaticCallee()
			if g == nil || !w.InModule(g) || g.Blocks == nil || !hasRange(g) || len(g.Params) != len(c.Common().Args) {
				continue
			}
			ti := -1
			for i, a := range c.Common().Args {
				if stripConv(a) == target || (i > 0 && w.Canon(a) == w.Canon(target)) {
					ti = i
				}
			}
			if ti < 0 {
				continue
			}
			env := map[*ssa.Parameter]string{}
			for i, p := range g.Params {
				env[p] = w.Canon(c.Common().Args[i])
			}
			w.inlineEnv = append(w.inlineEnv, env)
			ok, why := w.revertsExactlyIn(g, g.Params[ti])
			w.inlineEnv = w.inlineEnv[:len(w.inlineEnv)-1]
			// the helper only collects the addresses recorded after the target; the caller
			// deletes exactly what it is handed back
			if !ok && why == "collected-only" && g.Signature.Results().Len() == 1 {
				if cv := callValue(c); cv != nil && w.onlyDeletedFrom(ra, cv, "recv.accessedObjAddrs", nil, 0) {
					return true, ""
				}
				why = "the addresses collected by " + w.FName(g) + " are not (only) deleted from the record"
			}
			return ok, why
		}
	}
	ok, why := w.revertsExactlyIn(ra, target)
	if why == "collected-only" {
		why = "the addresses recorded after the target snapshot are collected but never deleted"
	}
	return ok, why
}

func (w *World) revertsExactlyIn(ra *ssa.Function, target ssa.Value) (bool, string) {
	isMark := func(v ssa.Value) bool {
		ex, ok := stripConv(v).(*ssa.Extract)
		if !ok || ex.Index != 2 {
			return false
		}
		nx, ok := ex.Tuple.(*ssa.Next)
		if !ok {
			return false
		}
		rg, ok := nx.Iter.(*ssa.Range)
		return ok && w.Canon(rg.X) == "recv.accessedObjAddrs"
	}
	isKey := func(v ssa.Value) bool {
		return strings.HasPrefix(w.Canon(v), "next(range(recv.accessedObjAddrs))#1")
	}
	// classify every If: loop test, or the mark comparison (edge on which target < mark)
	holdsEdge := map[*ssa.If]int{} // 1 = true edge, 2 = false edge
	for _, b := range ra.Blocks {
		ifi, ok := lastInstr(b).(*ssa.If)
		if !ok {
			continue
		}
		switch c := ifi.Cond.(type) {
		case *ssa.Extract: // `ok` of a map/slice range
			if _, isNext := c.Tuple.(*ssa.Next); isNext && c.Index == 0 {
				continue
			}
		case *ssa.BinOp:
			x, y := stripConv(c.X), stripConv(c.Y)
			switch {
			case c.Op == token.LSS && x == target && isMark(y), c.Op == token.GTR && isMark(x) && y == target:
				holdsEdge[ifi] = 1
				continue
			case c.Op == token.GEQ && x == target && isMark(y), c.Op == token.LEQ && isMark(x) && y == target:
				holdsEdge[ifi] = 2
				continue
			}
			// index loop over the collected slice: i < len(s)
			if c.Op == token.LSS {
				if call, isCall := y.(*ssa.Call); isCall {
					if bi, isB := call.Common().Value.(*ssa.Builtin); isB && bi.Name() == "len" {
						continue
					}
				}
			}
		}
		return false, "a branch other than the loop tests and the comparison target < mark decides what is forgotten (" + w.Canon(ifi.Cond) + ")"
	}
	if len(holdsEdge) != 1 {
		return false, fmt.Sprintf("%d comparisons of the target snapshot with the recorded mark (want 1: target < mark)", len(holdsEdge))
	}
	var cmp *ssa.If
	for i := range holdsEdge {
		cmp = i
	}
	onHolds := func(b *ssa.BasicBlock) bool {
		e := condEdge(cmp, b)
		return e != 0 && ((e == 1) == (holdsEdge[cmp] == 1))
	}
	// the action under the comparison: delete(map, key) or append(slice, key)
	direct, collected, delAny := false, false, false
	for _, c := range CallsIn(ra) {
		bi, isB := c.Common().Value.(*ssa.Builtin)
		if !isB {
			continue
		}
		args := c.Common().Args
		switch bi.Name() {
		case "delete":
			if w.Canon(args[0]) != "recv.accessedObjAddrs" {
				continue
			}
			delAny = true
			if isKey(args[1]) {
				if !onHolds(c.Block()) {
					return false, "an address is deleted where target < mark does not hold"
				}
				direct = true
			}
		case "append":
			if onHolds(c.Block()) {
				collected = true
			}
		}
	}
	if direct || (collected && delAny) {
		return true, ""
	}
	if collected {
		return false, "collected-only"
	}
	return false, "no deletion of the range key (directly or via a collected slice) on the edge where target < mark holds"
}

// finishWriteBack evaluates StateDBWrapper.Finish on its paths (helpers
// expanded): in every iteration over the recorded addresses the account obtained
// with FindOrNewAccount(addr, exec) receives the EVM's balance and nonce for that
// address and is then marked in the exec-selected overlay.
func (w *World) finishWriteBack(fin *ssa.Function) (okBalance, okNonce bool, why string) {
	K := regexp.QuoteMeta("next(range(recv.accessedObjAddrs))#1")
	acct := `recv\.acctHandler\.FindOrNewAccount\(` + K + `\[:\], recv\.exec\)`
	reSB := regexp.MustCompile(`^` + acct + `\.SetBalance\(uint256\.MustFromBig\(recv\.StateDB\.GetBalance\(` + K + `\)\)\)$`)
	reSN := regexp.MustCompile(`^` + acct + `\.SetNonce\(recv\.StateDB\.GetNonce\(` + K + `\)\)$`)
	reMK := regexp.MustCompile(`^recv\.acctHandler\.SetAccountCommittable\(` + acct + `, recv\.exec\)$`)
	event := func(in ssa.Instruction) string {
		c, ok := in.(ssa.CallInstruction)
		if !ok {
			return ""
		}
		s := w.canonCall(c.Common(), 0)
		switch {
		case reSB.MatchString(s):
			return "SB"
		case reSN.MatchString(s):
			return "SN"
		case reMK.MatchString(s):
			return "MK"
		}
		nm := callName(c.Common())
		if nm == "SetBalance" || nm == "SetNonce" || nm == "SetAccountCommittable" {
			return "?" + s
		}
		return ""
	}
	paths, complete := w.enumPaths(fin, func(ssa.Value) (bool, bool) { return false, false }, event, 2000)
	if !complete {
		return false, false, "path enumeration incomplete"
	}
	okBalance, okNonce = true, true
	marks := 0
	for _, p := range paths {
		if os.Getenv("RIGOCHECK_DEBUG") == "e2" {
			fmt.Fprintln(os.Stderr, "E2", p.Term, p.Events)
		}
		sb, sn := false, false
		for _, e := range p.Events {
			switch {
			case e == "SB":
				sb = true
			case e == "SN":
				sn = true
			case e == "MK":
				marks++
				if !sb {
					okBalance = false
					why = "an account is marked without the EVM balance having been written to it"
				}
				if !sn {
					okNonce = false
					why = "an account is marked without the EVM nonce having been written to it"
				}
				sb, sn = false, false
			case strings.HasPrefix(e, "?"):
				okBalance, okNonce = false, false
				why = "a write-back call with other operands: " + e[1:]
			}
		}
		if sb || sn {
			okBalance, okNonce = false, false
			why = "balance/nonce written to an account that is not marked afterwards"
		}
	}
	if marks == 0 {
		return false, false, "no iteration writes balance and nonce back and marks the account"
	}
	return okBalance, okNonce, why
}

// E-6: the native contracts of the module leave their input alone. For CALL and
// STATICCALL go-ethereum's interpreter passes Memory.GetPtr — a sub-slice of the
// calling contract's memory whose capacity runs to the end of that memory — so an
// append to (a slice of) the input, a copy into it or an element store changes the
// caller's memory, which the reference EVM never does.
func e6(w *World, r *Report) {
	n := 0
	for _, fn := range w.ModuleFuncs() {
		if fn.Name() != "Run" || fn.Signature.Recv() == nil || fn.Blocks == nil || len(fn.Params) != 2 || w.FuncPkgPath(fn) != absPkg(pkgEVM) {
			continue
		}
		if sl, ok := fn.Params[1].Type().Underlying().(*types.Slice); !ok || typeStr(sl.Elem()) != "byte" && typeStr(sl.Elem()) != "uint8" {
			continue
		}
		rn, _ := types.Unalias(deref(fn.Signature.Recv().Type())).(*types.Named)
		if rn == nil || methodOfNamed(w, rn, "RequiredGas") == nil {
			continue
		}
		n++
		bad := w.writesThroughSlice(fn, fn.Params[1], 0)
		r.Check(bad == "", "E-6", "native-contract-input-read-only:"+w.FName(fn), "the native contract only reads its input (the window of the caller's memory it is handed)", "the native contract can write into the calling contract's memory: "+bad, fnSite(w, fn))
	}
	if n == 0 {
		r.Undecided("E-6", "native-contracts", "no native contract (Run/RequiredGas) found in the EVM package although init registers one")
	}
}

// writesThroughSlice: some instruction of fn may write into the backing array of the
// slice parameter p: append to it or to a slice of it (capacity permitting, append
// writes in place), copy into it, an element store, or handing it to a module
// function that does one of these. What a library call returns for a derived
// argument counts as derived (RightPadBytes returns its argument when long enough).
func (w *World) writesThroughSlice(fn *ssa.Function, p ssa.Value, depth int) string {
	derived := map[ssa.Value]bool{p: true}
	isSl := func(v ssa.Value) bool {
		_, ok := v.Type().Underlying().(*types.Slice)
		return ok
	}
	for changed := true; changed; {
		changed = false
		for _, b := range fn.Blocks {
			for _, in := range b.Instrs {
				v, isV := in.(ssa.Value)
				if !isV || derived[v] {
					continue
				}
				hit := false
				switch x := in.(type) {
				case *ssa.Slice:
					// a full slice expression caps the capacity: appends to it reallocate
					hit = derived[x.X] && x.Max == nil
				case *ssa.Phi:
					for _, e := range x.Edges {
						if derived[e] {
							hit = true
						}
					}
				case *ssa.ChangeType:
					hit = derived[x.X]
				case *ssa.Call:
					if _, isB := x.Common().Value.(*ssa.Builtin); isB {
						break
					}
					if cal := x.Common().StaticCallee(); cal != nil && isSl(x) {
						for _, a := range x.Common().Args {
							if derived[a] {
								hit = true
							}
						}
					}
				}
				if hit {
					derived[v] = true
					changed = true
				}
			}
		}
	}
	for _, b := range fn.Blocks {
		for _, in := range b.Instrs {
			switch x := in.(type) {
			case *ssa.Store:
				if ia, ok := x.Addr.(*ssa.IndexAddr); ok && derived[ia.X] {
					return "element store at " + w.InstrPos(in)
				}
			case *ssa.Call:
				if bi, isB := x.Common().Value.(*ssa.Builtin); isB {
					if (bi.Name() == "append" || bi.Name() == "copy") && len(x.Common().Args) > 0 && derived[x.Common().Args[0]] {
						return bi.Name() + " into (a slice of) the input at " + w.InstrPos(in)
					}
					continue
				}
				if cal := x.Common().StaticCallee(); cal != nil && w.InModule(cal) && cal.Blocks != nil && depth < 2 && len(cal.Params) == len(x.Common().Args) {
					for i, a := range x.Common().Args {
						if derived[a] {
							if why := w.writesThroughSlice(cal, cal.Params[i], depth+1); why != "" {
								return why
							}
						}
					}
				}
			}
		}
	}
	return ""
}

// E-7: the block gas pool belongs to go-ethereum's state transition. It is created
// with the block gas limit (what GASLIMIT reports) and from then on ApplyMessage
// subtracts a message's gas and returns what was not used; some of ApplyMessage's
// errors occur before the subtraction, so module code that "gives back" on an error
// enlarges the pool beyond the limit. Every call of a GasPool mutator in the module
// has a freshly allocated pool as its receiver.
func e7(w *World, r *Report) {
	n := 0
	for _, fn := range w.nodeFuncs() {
		for _, c := range CallsIn(fn) {
			cal := c.Common().StaticCallee()
			if cal == nil || cal.Signature.Recv() == nil || !strings.HasSuffix(typeStr(cal.Signature.Recv().Type()), "core.GasPool") {
				continue
			}
			switch cal.Name() {
			case "AddGas", "SubGas", "SetGas":
			default:
				continue
			}
			n++
			rcv, _ := callRecvArgs(c.Common())
			fresh := false
			if rcv != nil {
				_, fresh = stripConv(rcv).(*ssa.Alloc)
			}
			key := "gas-pool:" + w.FName(fn) + ":" + cal.Name()
			r.Check(fresh, "E-7", key, "fills a pool it has just created", "the gas pool of a block is changed by module code outside go-ethereum's message application ("+w.canonCall(c.Common(), 0)+"): what ApplyMessage did to the pool on an error depends on the error", site(w, c))
		}
	}
	if n == 0 {
		r.Undecided("E-7", "gas-pool", "no creation of a gas pool found (BeginBlock is expected to fill a fresh one with the block gas limit)")
	}
}

// isFieldGetter: a method whose whole body is `return recv.f` (one block, no call, no store).
func isFieldGetter(fn *ssa.Function) bool {
	if fn == nil || len(fn.Blocks) != 1 || fn.Signature.Recv() == nil || len(fn.Params) != 1 {
		return false
	}
	for _, in := range fn.Blocks[0].Instrs {
		switch x := in.(type) {
		case *ssa.FieldAddr:
			if x.X != ssa.Value(fn.Params[0]) {
				return false
			}
		case *ssa.UnOp, *ssa.DebugRef:
		case *ssa.Return:
			if len(x.Results) != 1 {
				return false
			}
		default:
			return false
		}
	}
	return true
}

// e8 — what a contract execution logged is reported with the transaction: the
// conversion of the state's logs of this transaction into the `evm` event is the
// only way they leave the node. Every successful return of ExecuteTrx that lies
// behind the message application has passed GetLogs for this transaction's hash
// (a deployment's constructor logs included).
func e8(w *World, r *Report) {
	fn := needFn(r, "E-8", w, fref{pkgEVM, "EVMCtrler", "ExecuteTrx"})
	if fn == nil {
		return
	}
	var ex, gl ssa.CallInstruction
	for _, c := range CallsIn(fn) {
		switch callName(c.Common()) {
		case "execVM":
			ex = c
		case "GetLogs":
			if cs := w.canonCall(c.Common(), 0); strings.HasPrefix(cs, "recv.stateDBWrapper.") && strings.Contains(cs, "GetLogs(p0.TxHash") {
				gl = c
			}
		}
	}
	if ex == nil {
		// whatever the helper that builds and applies the message is called
		if deep := w.evmMessageDeep(fn); deep != nil {
			for _, c := range CallsIn(fn) {
				if cal := c.Common().StaticCallee(); cal != nil && w.InModule(cal) {
					for _, g := range w.withModuleCallees(cal, 2) {
						if g == deep.Fn {
							ex = c
						}
					}
				}
			}
		}
	}
	if gl == nil {
		// the conversion in a helper ExecuteTrx calls: the helper's call stands for it
		for _, hc := range CallsIn(fn) {
			g := hc.Common().StaticCallee()
			if g == nil || !w.InModule(g) || g.Blocks == nil || g.Name() == "execVM" {
				continue
			}
			for _, c2 := range CallsIn(g) {
				c2 := c2
				if callName(c2.Common()) == "GetLogs" && w.inCallerTerms(fn, g, func() bool {
					cs := w.canonCall(c2.Common(), 0)
					return strings.Contains(cs, "stateDBWrapper.") && strings.Contains(cs, "GetLogs(p0.TxHash")
				}) {
					gl = hc
				}
			}
		}
	}
	if ex == nil {
		r.Undecided("E-8", "ExecuteTrx:logs-reported", "the message application (execVM) was not found in ExecuteTrx")
		return
	}
	bad := ""
	if gl == nil {
		bad = "the logs of this transaction are never read"
	} else {
		start := posOf(ex.(ssa.Instruction))
		start.i++
		for _, e := range exitsAvoiding(start, func(in ssa.Instruction) bool { return in == ssa.Instruction(gl.(ssa.Instruction)) }, nil) {
			if ret, isR := e.(*ssa.Return); isR && w.errState(ret) != triNonNil {
				bad = "the successful return at " + w.InstrPos(ret) + " does not pass the conversion of the transaction's logs"
			}
		}
	}
	r.Check(bad == "", "E-8", "ExecuteTrx:logs-reported", "every successful return behind the message application has read the state's logs of this transaction (they become the evm event)", "a successful contract execution can return without reporting its logs (the reference EVM produces them; state, gas and balances still agree): "+bad, fnSite(w, fn))
}
