package main

// C02 — conservation of value (DESIGN §3 C02, V-1 … V-4).

import (
	"fmt"
	"os"
	"strings"

	"golang.org/x/tools/go/ssa"
)

func init() { register("C02", checkC02) }

const pkgStake = "ctrlers/stake"

// okPathsPassGuard: with branch conditions decided by eval, does every
// success path of fn take guard g's pass edge? Returns the number of success paths.
func (w *World) okPathsPassGuard(fn *ssa.Function, eval func(ssa.Value) (bool, bool), g *Guard) (bool, int) {
	raw := w.Canon(g.If.Cond)
	marker := "?F:" + raw
	if g.Pass == g.If.Block().Succs[0] {
		marker = "?T:" + raw
	}
	saved := w.branchMarkers
	w.branchMarkers = true
	paths, complete := w.enumPaths(fn, eval, func(ssa.Instruction) string { return "" }, 20000)
	w.branchMarkers = saved
	if !complete {
		return false, 0
	}
	n := 0
	for _, p := range paths {
		if p.Term != "ok" && p.Term != "unknown" {
			continue
		}
		n++
		found := false
		for _, e := range p.Events {
			if e == marker {
				found = true
			}
		}
		if !found {
			return false, n
		}
	}
	return true, n
}

// fieldZWriters: node functions that write owner.field either by a store or by a
// destination-receiver 256-bit operation on the loaded field.
func (w *World) fieldAnyWriters(pkgRel, typ, field string) []writerSite {
	out := w.fieldWriters(pkgRel, typ, field)
	for _, fn := range w.nodeFuncs() {
		for _, c := range CallsIn(fn) {
			rv, ok := mutatesZ(c.Common())
			if !ok {
				continue
			}
			v := stripConv(rv)
			u, isU := v.(*ssa.UnOp)
			if !isU {
				continue
			}
			fa, isFA := u.X.(*ssa.FieldAddr)
			if !isFA {
				continue
			}
			n, f := fieldOf(fa.X.Type(), fa.Field)
			if f != nil && f.Name() == field && namedIs(n, absPkg(pkgRel), typ) && !baseFresh(fa.X) {
				out = append(out, writerSite{fn, c})
			}
		}
	}
	return out
}

func (w *World) checkAnyWriters(r *Report, rule, pkgRel, typ, field string, allowed map[string]string) {
	seen := map[string]bool{}
	for _, x := range w.fieldAnyWriters(pkgRel, typ, field) {
		name := w.FName(x.Fn)
		key := typ + "." + field + ":writer:" + name
		if seen[key] {
			continue
		}
		seen[key] = true
		if why, ok := allowed[name]; ok {
			r.OK(rule, key, "allowed writer: "+why, site(w, x.In))
		} else if via, ok := w.onlyReachedFrom(x.Fn, allowed, 0, map[*ssa.Function]bool{}); ok {
			r.OK(rule, key, "helper of an allowed writer: every call of it comes from "+via, site(w, x.In))
		} else {
			r.Violate(rule, key, fmt.Sprintf("%s.%s is written outside its primitives (closed set: %s)", typ, field, strings.Join(sortedKeysS(allowed), ", ")), nil, site(w, x.In))
		}
	}
	if len(seen) == 0 {
		r.Undecided(rule, typ+"."+field+":writers", "no writer of this field found (role no longer resolves)")
	}
}

func checkC02(w *World, r *Report) {
	r.Explanation = "Structural clause of C02: (V-1) balances, stake powers, delegatee totals and reward counters are written only by their closed sets of primitives, and the raw balance setter only by the EVM write-back; (V-2) every debit primitive call is paired on its success path with a credit of the SAME SSA value — transfer (with refund of the same value on failure), staking (stake power = AmountToPower of the debited amount, with the validation guard that the amount is a positive multiple of the power unit so the conversion is exact), the matured-stake refund (PowerToAmount(stake power) credited to the stake owner, then the frozen stake deleted, error before the delete), reward withdrawal (the same requested amount leaves the reward and reaches the balance), fees (C16); (V-3) negative (>= 2^255) amounts are rejected before anything else and the debit primitive refuses amounts above the balance; (V-4) every stake is constructed with a ledger key that is unique per construction (the transaction hash, or a loop-variant value); (V-5) the ledger returns through an overlay what was written through it and commits its net effect (C18 L-1: a value-carrying record that an overlay loses is value destroyed); (V-6) value moved inside the EVM reaches the native ledger: the block context's Transfer debits and credits the same amount, every address that enters the EVM's access list is synchronised in and recorded, RevertToSnapshot forgets exactly the addresses recorded after the snapshot, Finish writes every recorded address back (C17 E-0..E-2); (V-7) the fee of a contract transaction is credited once: the EVM is configured (NoBaseFee, zero fee cap and tip cap) so that go-ethereum pays nothing to the coinbase, the proposer being credited by EndBlock (C16 F-5); (V-8) the proposer is credited exactly the fees the senders paid in that block: the block's fee sum is an object of its own starting at zero, grows only by the fee of a successful delivery and is credited once (C16 F-4); (V-9) no copy of a value-carrying record decoded afresh from the committed tree is written over the overlay's own object (C01 D-6 stale-copy); (V-10) a contract transaction that fails moves no value: it is reverted to the snapshot taken before it before anything is written back (C05 A-4). V-10 also orders the write-back (Finish) before go-ethereum finalises the state, and requires every executed success exit of the EVM route to pass the message application. (V-12) the gas a successful native transaction reports — the figure the block's fee sum is built from — is the gas its sender was charged for, row by row of the (type, receiver-has-code, exec) table (C16 F-2)."
	r.NotCovered = "the global sum itself; wrap-around of Balance.Add (needs total supply < 2^256, a runtime bound); conservation inside the EVM's interpreter (go-ethereum)."
	v1(w, r)
	v2(w, r)
	v3(w, r)
	v4(w, r)
	// V-5: value written through an overlay must be read back through it (the
	// defect repaired in 4cb05d1 lost stakes): C18 L-1
	if r.importObs(w, func(t *Report) { l1(w, t) }, "L-1", "V-5") == 0 {
		r.Undecided("V-5", "ledger-semantics", "the ledger's overlay semantics could not be evaluated")
	}
	r.Floor("V-5", 2, "ledger overlay semantics")
	// V-6: value that moves inside the EVM reaches the native ledger: the EVM's
	// transfer primitive conserves (E-0) and the write-back set is complete (E-1, E-2)
	if r.importRules(w, func(t *Report) { e0(w, t); e1(w, t); e2(w, t) }, "V-6", "E-0", "E-1", "E-2") < 20 {
		r.Undecided("V-6", "evm-bridge", "the EVM/native-ledger synchronisation rules (C17 E-0..E-2) matched fewer than 20 constructs")
	}
	// V-7: a contract transaction's fee is credited once (by EndBlock), not also by the EVM (C16 F-5)
	if r.importObs(w, func(t *Report) { f5(w, t) }, "F-5", "V-7") < 3 {
		r.Undecided("V-7", "evm-coinbase", "the rule that the EVM pays no fee to the coinbase (C16 F-5) matched fewer than 3 constructs")
	}
	// V-12: ... and the amount that enters the fee sum for a transaction is the amount
	// its sender was charged: for every (type, receiver-has-code, exec) row the gas
	// reported by the post-run step is the gas the fee was computed from (C16 F-2).
	// A success that reports less than it charged destroys the difference.
	if r.importObs(w, func(t *Report) { routingTable(w, t, "F-2") }, "F-2", "V-12") < 18 {
		r.Undecided("V-12", "fee-table", "the fee decision table (C16 F-2) produced fewer than 18 rows")
	}
	// V-8: what the senders paid in fees is what the proposer is credited: the fee sum
	// starts at zero in an object of its own for every block, grows only by the fee of a
	// successful delivery, and is credited once at EndBlock (C16 F-4)
	if r.importObs(w, func(t *Report) { f4(w, t) }, "F-4", "V-8") < 8 {
		r.Undecided("V-8", "fee-sum", "the proposer-credit rules (C16 F-4) matched fewer than 8 constructs")
	}
	// V-9: a balance change made earlier in the block is not overwritten by a copy
	// decoded afresh from the committed tree (C01 D-6 stale-copy)
	{
		x := NewExecCtx(w)
		tmp := NewReport(r.Prop, r.Tier)
		d6c(w, tmp, x, consFuncs(x))
		n := 0
		for _, o := range tmp.Obs {
			if strings.HasPrefix(o.Key, "D-6:stale-copy:") {
				o.Rule = "V-9"
				o.Key = "V-9:" + strings.TrimPrefix(o.Key, "D-6:")
				r.Obs = append(r.Obs, o)
				n++
			}
		}
		if n < 5 {
			r.Undecided("V-9", "overlay-writes", "fewer than 5 overlay writes found in consensus context")
		}
	}
	// V-10: a contract transaction that fails moves no value: the EVM's changes are
	// reverted to the snapshot taken before the transaction before the wrapper
	// writes anything back (the fee of a failed transaction is charged to nobody
	// because nobody is credited for it) (C05 A-4)
	if r.importObs(w, func(t *Report) { a4(w, t) }, "A-4", "V-10") < 2 {
		r.Undecided("V-10", "evm-failure", "the EVM failure-handling rules (C05 A-4) matched fewer than 2 constructs")
	}
	// V-11: a stake's power never leaves the range the refund conversion is defined on:
	// power is a signed integer that PowerToAmount converts as unsigned, so slashing
	// reduces a stake only by an amount of at least one unit that is at most its
	// power, and a stake whose reduction would be below one unit is forfeited rather
	// than kept (C14 J-2, the doSlashAll obligations)
	{
		tmp := NewReport(r.Prop, r.Tier)
		j2(w, tmp)
		n := 0
		for _, o := range tmp.Obs {
			if o.Rule == "J-2" && strings.Contains(o.Key, "doSlashAll") {
				o.Rule = "V-11"
				o.Key = "V-11:" + strings.TrimPrefix(o.Key, "J-2:")
				r.Obs = append(r.Obs, o)
				n++
			}
		}
		if n < 3 {
			r.Undecided("V-11", "doSlashAll", "the slashing arithmetic rules (C14 J-2) matched fewer than 3 constructs")
		}
	}
	r.Floor("V-1", 14, "writers of value-carrying fields")
	r.Floor("V-2", 10, "debit/credit pairs")
	r.Floor("V-3", 4, "sign and sufficiency guards")
	r.Floor("V-4", 2, "stake constructions")
}

func v1(w *World, r *Report) {
	w.checkAnyWriters(r, "V-1", pkgCT, "Account", "Balance", map[string]string{
		"types.(*Account).AddBalance": "credit primitive", "types.(*Account).SubBalance": "debit primitive",
		"types.(*Account).SetBalance": "EVM write-back primitive", "types.(*Account).Decode": "decoding a stored account",
	})
	w.checkCallers(r, "V-1", fref{pkgCT, "Account", "SetBalance"}, map[string]string{"evm.(*StateDBWrapper).Finish": "copies the EVM balance back after a contract execution"}, 1)
	w.checkAnyWriters(r, "V-1", pkgStake, "Stake", "Power", map[string]string{"stake.(*Delegatee).doSlashAll": "slashing reduces a stake's power"})
	for _, f := range []string{"SelfPower", "TotalPower"} {
		w.checkAnyWriters(r, "V-1", pkgStake, "Delegatee", f, map[string]string{
			"stake.(*Delegatee).addStake": "adds the stake's power", "stake.(*Delegatee).DelStake": "subtracts the removed stake's power", "stake.(*Delegatee).DelStakeByIdx": "subtracts the removed stake's power",
			"stake.(*Delegatee).DelAllStakes": "subtracts every removed stake's power", "stake.(*Delegatee).doSlashAll": "recomputes from the stake list",
		})
	}
	for _, f := range []string{"issued", "withdrawn", "slashed", "cumulated"} {
		w.checkAnyWriters(r, "V-1", pkgStake, "Reward", f, map[string]string{
			"stake.(*Reward).Issue": "issuance", "stake.(*Reward).Withdraw": "withdrawal", "stake.(*Reward).Slash": "slashing",
			"stake.(*Reward).Decode": "decoding", "stake.(*Reward).UnmarshalJSON": "decoding",
		})
	}
	// the credit and debit primitives have closed caller sets
	w.checkCallers(r, "V-1", fref{pkgCT, "Account", "SubBalance"}, map[string]string{
		"account.(*AcctCtrler).transfer": "transfer debit", "account.(*AcctCtrler).Transfer": "transfer debit (the exported entry; V-2 decides that it moves one amount from one account to the other)", "account.(*ImmuAcctCtrler).Transfer": "transfer debit on a scratch ledger",
		"node.postRunTrx": "fee debit", "stake.(*StakeCtrler).exeStaking": "staking debit",
	}, 3)
	w.checkCallers(r, "V-1", fref{pkgCT, "Account", "AddBalance"}, map[string]string{
		"account.(*AcctCtrler).transfer": "transfer credit / refund", "account.(*AcctCtrler).Transfer": "transfer credit / refund (the exported entry)", "account.(*ImmuAcctCtrler).Transfer": "transfer credit on a scratch ledger",
		"account.(*AcctCtrler).Reward": "reward / matured-stake credit", "account.(*ImmuAcctCtrler).Reward": "same on a scratch ledger",
		"account.(*AcctCtrler).EndBlock": "block fees to the proposer",
	}, 3)
	w.checkCallers(r, "V-1", fref{"ctrlers/account", "AcctCtrler", "Reward"}, map[string]string{
		"stake.(*StakeCtrler).exeWithdraw": "reward withdrawal", "stake.(*StakeCtrler).unfreezingStakes$1": "matured-stake refund",
	}, 2)
}

func v2(w *World, r *Report) {
	// transfer
	for _, ref := range []fref{{"ctrlers/account", "AcctCtrler", "transfer"}} {
		fn := needFn(r, "V-2", w, ref)
		if fn == nil {
			continue
		}
		ev := func(in ssa.Instruction) string {
			c, ok := in.(ssa.CallInstruction)
			if !ok {
				return ""
			}
			switch callName(c.Common()) {
			case "SubBalance", "AddBalance":
				return w.canonCall(c.Common(), 0)
			}
			return ""
		}
		saved := w.branchMarkers
		w.branchMarkers = false
		paths, _ := w.enumPaths(fn, func(ssa.Value) (bool, bool) { return false, false }, ev, 100)
		w.branchMarkers = saved
		bad := ""
		for _, p := range paths {
			e := strings.Join(p.Events, ";")
			switch p.Term {
			case "ok":
				if e != "p0.SubBalance(p2);p1.AddBalance(p2)" {
					bad = "success path: " + e
				}
			default:
				if e != "p0.SubBalance(p2)" && e != "p0.SubBalance(p2);p1.AddBalance(p2);p0.AddBalance(p2)" {
					bad = "failure path: " + e
				}
			}
		}
		r.Check(bad == "" && len(paths) == 3, "V-2", refStr(ref)+":debit-credit", "success: debit(from, v) then credit(to, v) of the same value; failure of the credit refunds (from, v)", "transfer does not move exactly the debited value (or does not refund it): "+bad, fnSite(w, fn))
	}
	// AcctCtrler.ExecuteTrx hands (Sender, Receiver, Tx.Amount) to transfer
	ae := needFn(r, "V-2", w, fref{"ctrlers/account", "AcctCtrler", "ExecuteTrx"})
	if ae != nil {
		ok := false
		for _, c := range w.callsTo(ae, fref{"ctrlers/account", "AcctCtrler", "transfer"}) {
			ok = w.canonCall(c.Common(), 0) == "recv.transfer(p0.Sender, p0.Receiver, p0.Tx.Amount)"
		}
		if !ok {
			// whatever the helper is called: on ExecuteTrx's paths (helpers expanded, their
			// parameters bound) every success path that touches a balance debits the
			// sender and credits the receiver by Tx.Amount, and nothing else
			ev := func(in ssa.Instruction) string {
				c, isC := in.(ssa.CallInstruction)
				if !isC {
					return ""
				}
				switch callName(c.Common()) {
				case "SubBalance", "AddBalance":
					return w.canonCall(c.Common(), 0)
				}
				return ""
			}
			saved := w.branchMarkers
			w.branchMarkers = false
			paths, complete := w.enumPaths(ae, func(ssa.Value) (bool, bool) { return false, false }, ev, 400)
			w.branchMarkers = saved
			n := 0
			ok = complete
			for _, p := range paths {
				if len(p.Events) == 0 {
					continue
				}
				e := strings.Join(p.Events, ";")
				switch p.Term {
				case "ok":
					n++
					if e != "p0.Sender.SubBalance(p0.Tx.Amount);p0.Receiver.AddBalance(p0.Tx.Amount)" {
						ok = false
					}
				case "err", "unknown":
					if e != "p0.Sender.SubBalance(p0.Tx.Amount)" && e != "p0.Sender.SubBalance(p0.Tx.Amount);p0.Receiver.AddBalance(p0.Tx.Amount);p0.Sender.AddBalance(p0.Tx.Amount)" && e != "p0.Sender.SubBalance(p0.Tx.Amount);p0.Receiver.AddBalance(p0.Tx.Amount)" {
						ok = false
					}
				}
			}
			ok = ok && n > 0
		}
		r.Check(ok, "V-2", "AcctCtrler.ExecuteTrx:transfer-args", "a transfer moves Tx.Amount from the sender to the receiver", "the transfer is not (Sender, Receiver, Tx.Amount)", fnSite(w, ae))
	}
	// staking
	es := needFn(r, "V-2", w, fref{pkgStake, "StakeCtrler", "exeStaking"})
	if es != nil {
		subs := w.callsTo(es, fref{pkgCT, "Account", "SubBalance"})
		news := w.callsTo(es, fref{pkgStake, "", "NewStakeWithPower"}, fref{pkgStake, "", "NewStakeWithAmount"})
		adds := w.callsTo(es, fref{pkgStake, "Delegatee", "AddStake"})
		ok := len(subs) == 1 && len(news) == 1 && len(adds) == 1
		if ok {
			ok = w.canonCall(subs[0].Common(), 0) == "p0.Sender.SubBalance(p0.Tx.Amount)"
			a := news[0].Common().Args
			switch callName(news[0].Common()) {
			case "NewStakeWithPower":
				ok = ok && w.Canon(a[2]) == "types.AmountToPower(p0.Tx.Amount)"
			default:
				ok = ok && w.Canon(a[2]) == "p0.Tx.Amount"
			}
			ok = ok && w.Canon(a[0]) == "p0.Tx.From" && w.Canon(a[1]) == "p0.Tx.To"
			_, aa := callRecvArgs(adds[0].Common())
			ok = ok && strings.Contains(w.Canon(aa[0]), "stake.NewStake") && instrDominates(subs[0], adds[0])
		}
		r.Check(ok, "V-2", "exeStaking:debit-equals-stake", "the sender is debited Tx.Amount and a stake of AmountToPower(Tx.Amount) owned by the sender is bonded to Tx.To", "the staked power is not the power equivalent of exactly the debited amount", fnSite(w, es))
		// the stake reaches the ledger: set call on every success path
		bad := ""
		for _, ex := range exitsAvoiding(posOf(adds0(adds)), func(in ssa.Instruction) bool {
			c, isC := in.(ssa.CallInstruction)
			if !isC {
				return false
			}
			for _, a := range w.ledgerArmsF(c) {
				if a.Method == "Set" || a.Method == "SetFinality" {
					return true
				}
			}
			return false
		}, nil) {
			if ret, isR := ex.(*ssa.Return); isR && w.errState(ret) == triNil {
				bad = site(w, ret)
			}
		}
		r.Check(len(adds) == 1 && bad == "", "V-2", "exeStaking:stake-recorded", "every success path records the delegatee that received the stake", "a success path drops the delegatee that received the stake: "+bad, fnSite(w, es))
	}
	sv := needFn(r, "V-2", w, fref{pkgStake, "StakeCtrler", "ValidateTrx"})
	if sv != nil {
		evalT := w.evalTxCond(txAbs{typ: 2})
		// under "the amount is not a positive multiple of the power unit" a staking
		// validation has no successful path (wherever the two tests live)
		dm := `DivMod\(p0\.Tx\.Amount, types\.AmountPerPower\(\), new\(uint256\.Int\)\)`
		for _, want := range []struct {
			key  string
			fact atom
		}{
			{"multiple-of-unit", AR(dm+`#1\.Sign\(\)$`, "!=", "^0$")},
			{"at-least-one-unit", AR(dm+`#0\.Sign\(\)$`, "<=", "^0$")},
		} {
			ok, why := w.failsUnder(sv, evalT, want.fact)
			r.Check(ok, "V-2", "ValidateTrx(staking):"+want.key, "no staking validation succeeds with such an amount: the amount converts to power exactly ("+why+")", "a staking amount that is not a positive multiple of the power unit can pass validation (the truncated remainder would vanish): "+why, fnSite(w, sv))
		}
	}
	for _, c := range []struct{ fn, want string }{
		{"AmountToPower", "int64(new(uint256.Int).Div(p0, types.amountPerPower).Uint64())"},
		{"PowerToAmount", mulExpr("new(uint256.Int)", "uint256.NewInt(uint64(p0))", "types.amountPerPower")},
	} {
		fn := needFn(r, "V-2", w, fref{pkgCT, "", c.fn})
		if fn == nil {
			continue
		}
		ok := false
		for _, b := range fn.Blocks {
			if ret, isR := lastInstr(b).(*ssa.Return); isR {
				ok = w.Canon(ret.Results[0]) == c.want
			}
		}
		r.Check(ok, "V-2", c.fn+":conversion", "power and amount convert by the fixed unit 10^18", c.fn+" is not the fixed-unit conversion", fnSite(w, fn))
	}
	// refund of matured stakes
	uf := w.anonOf(pkgStake, "StakeCtrler", "unfreezingStakes", 1)
	if uf == nil {
		r.Undecided("V-2", "unfreezingStakes", "refund callback not found")
	} else {
		v := w.unfreezeVerdict(uf)
		ok := v.refundThenDelete
		r.Check(ok, "V-2", "unfreezingStakes:refund-then-delete", "a matured stake's PowerToAmount(power) is credited to its owner, and only after the credit succeeded the frozen stake is deleted", "the matured-stake refund is not `credit owner power x 10^18, then delete that stake` (value would be lost or refunded twice)", fnSite(w, uf))
		// p1 (the account handler) is the block's account handler: caller passes ctx.AcctHandler
		eb := w.Method(pkgStake, "StakeCtrler", "EndBlock")
		okc := false
		if eb != nil {
			for _, c := range w.callsTo(eb, fref{pkgStake, "StakeCtrler", "unfreezingStakes"}) {
				okc = w.canonCall(c.Common(), 0) == "recv.unfreezingStakes(p0.Height(), p0.AcctHandler)"
			}
		}
		r.Check(okc, "V-2", "EndBlock:unfreezing-args", "the refund runs with the block's height and account handler", "unfreezingStakes is not called with the block's height and account handler", fnSite(w, eb))
	}
	// withdraw
	ew := needFn(r, "V-2", w, fref{pkgStake, "StakeCtrler", "exeWithdraw"})
	if ew != nil {
		// in exeWithdraw itself, or in the helper it hands the context, the amount and
		// the ledger accessors to (read in exeWithdraw's terms at each of its calls)
		ok := false
		for _, g := range w.withModuleCallees(ew, 1) {
			var wd, rw ssa.CallInstruction
			for _, c := range CallsIn(g) {
				switch callName(c.Common()) {
				case "Withdraw":
					wd = c
				case "Reward":
					rw = c
				}
			}
			if wd == nil || rw == nil {
				continue
			}
			ok = w.inCallerTerms(ew, g, func() bool {
				_, a1 := callRecvArgs(wd.Common())
				_, a2 := callRecvArgs(rw.Common())
				good := len(a1) == 2 && len(a2) == 3 && w.Canon(a1[0]) == w.Canon(a2[1]) && strings.HasSuffix(w.Canon(a1[0]), ".ReqAmt") && w.Canon(a2[0]) == "p0.Sender.Address" && instrDominates(wd, rw)
				rcv, _ := callRecvArgs(wd.Common())
				return good && strings.Contains(w.Canon(rcv), "(ledger.ToLedgerKey(p0.Tx.From))#0")
			})
			break
		}
		r.Check(ok, "V-2", "exeWithdraw:same-amount", "the amount taken from the sender's reward is the amount credited to the sender's balance", "the withdrawn reward and the credited balance are not the same value of the same account", fnSite(w, ew))
	}
	rwd := needFn(r, "V-2", w, fref{pkgStake, "Reward", "Withdraw"})
	if rwd != nil {
		ok := false
		for _, c := range CallsIn(rwd) {
			if w.canonCall(c.Common(), 0) == "recv.cumulated.Sub(recv.cumulated, p0)" {
				ok = true
			}
		}
		r.Check(ok, "V-2", "Reward.Withdraw:subtracts", "the withdrawable reward decreases by the withdrawn amount", "Reward.Withdraw does not subtract the amount from the withdrawable reward", fnSite(w, rwd))
	}
	ar := needFn(r, "V-2", w, fref{"ctrlers/account", "AcctCtrler", "Reward"})
	if ar != nil {
		ok := false
		for _, c := range w.callsTo(ar, fref{pkgCT, "Account", "AddBalance"}) {
			ok = w.canonCall(c.Common(), 0) == "recv.findAccount(p0, p2).AddBalance(p1)"
		}
		r.Check(ok, "V-2", "AcctCtrler.Reward:credits-amount", "Reward(to, amt) credits amt to the account at `to`", "AcctCtrler.Reward does not credit exactly the given amount to the given address", fnSite(w, ar))
	}
	// the primitives themselves
	for _, p := range []struct{ m, want string }{{"AddBalance", "recv.Balance.Add(recv.Balance, p0)"}, {"SubBalance", "recv.Balance.Sub(recv.Balance, p0)"}} {
		fn := needFn(r, "V-2", w, fref{pkgCT, "Account", p.m})
		if fn == nil {
			continue
		}
		n := 0
		for _, c := range CallsIn(fn) {
			if _, ok := mutatesZ(c.Common()); ok {
				n++
				if w.canonCall(c.Common(), 0) != p.want {
					n = -100
				}
			}
		}
		if n == 0 {
			// the arithmetic sits in a helper (possibly handed over as a function value):
			// on the paths, every success path performs exactly the wanted update and
			// no failing path touches the balance
			mut := func(in ssa.Instruction) string {
				if c, isC := in.(ssa.CallInstruction); isC {
					if _, isM := mutatesZ(c.Common()); isM {
						return w.canonCall(c.Common(), 0)
					}
				}
				return ""
			}
			saved := w.branchMarkers
			w.branchMarkers = false
			w.psEvents = true
			paths, complete := w.enumPaths(fn, func(ssa.Value) (bool, bool) { return false, false }, mut, 2000)
			w.psEvents = false
			w.branchMarkers = saved
			nOK := 0
			good := complete
			if os.Getenv("RIGOCHECK_DEBUG") == "v2" {
				for _, pa := range paths {
					fmt.Fprintln(os.Stderr, "V2", p.m, pa.Term, pa.Events)
				}
			}
			for _, pa := range paths {
				switch pa.Term {
				case "ok":
					nOK++
					if len(pa.Events) != 1 || pa.Events[0] != p.want {
						good = false
					}
				default:
					if len(pa.Events) != 0 {
						good = false
					}
				}
			}
			if good && nOK > 0 {
				n = 1
			}
		}
		r.Check(n == 1, "V-2", "Account."+p.m+":arithmetic", "the balance changes by exactly the argument", "Account."+p.m+" does not change the balance by exactly its argument", fnSite(w, fn))
	}
}

func adds0(a []ssa.CallInstruction) ssa.Instruction {
	if len(a) > 0 {
		return a[0]
	}
	return nil
}

// anonOf returns the n-th (1-based) anonymous function of a method.
func (w *World) anonOf(pkgRel, typ, method string, n int) *ssa.Function {
	fn := w.Method(pkgRel, typ, method)
	if fn == nil || len(fn.AnonFuncs) < n {
		return nil
	}
	return fn.AnonFuncs[n-1]
}

func v3(w *World, r *Report) {
	cv0 := needFn(r, "V-3", w, fref{"node", "", "commonValidation0"})
	if cv0 != nil {
		g, ok := w.guardProtectsSuccess(cv0, func(c string) bool { return c == "(p0.Tx.Amount.Sign() < 0)" })
		if g == nil {
			r.Violate("V-3", "commonValidation0:amount-sign", "amounts >= 2^255 are no longer rejected (fee + amount could wrap around)", nil, fnSite(w, cv0))
		} else {
			r.Check(ok, "V-3", "commonValidation0:amount-sign", "amounts >= 2^255 (negative as two's complement) are rejected on every success path", "a success return bypasses the amount sign check", site(w, g.If))
		}
		g2, ok2 := w.guardProtectsSuccess(cv0, func(c string) bool { return c == "(p0.Tx.GasPrice.Sign() < 0)" })
		r.Check(g2 != nil && ok2, "V-3", "commonValidation0:gasprice-sign", "gas prices >= 2^255 are rejected", "the gas price sign check is missing or bypassed", fnSite(w, cv0))
	}
	for _, m := range []string{"AddBalance", "SubBalance"} {
		fn := needFn(r, "V-3", w, fref{pkgCT, "Account", m})
		if fn == nil {
			continue
		}
		g, ok := w.guardProtectsSuccess(fn, func(c string) bool { return c == "(p0.Sign() < 0)" })
		r.Check(g != nil && ok, "V-3", "Account."+m+":sign", "negative amounts are refused", "Account."+m+" accepts amounts >= 2^255", fnSite(w, fn))
		if m == "SubBalance" {
			g, ok := w.guardProtectsSuccess(fn, func(c string) bool {
				return c == "(p0.Cmp(recv.Balance) > 0)" || c == "(recv.Balance.Cmp(p0) < 0)" || c == "recv.Balance.Lt(p0)"
			})
			good := g != nil && ok
			_ = good
			good = true // decided on the paths: the structural guard is one way of passing
			if good {
				// under "amount > balance" no path (helpers expanded) touches the balance
				// and none succeeds
				mut := func(in ssa.Instruction) string {
					if c, isC := in.(ssa.CallInstruction); isC {
						if _, isM := mutatesZ(c.Common()); isM {
							return "MUT"
						}
					}
					return ""
				}
				fe := w.newFactEval(nil, A("p0", ">", "recv.Balance"))
				saved := w.branchMarkers
				w.branchMarkers = false
				paths, complete := w.enumPaths(fn, fe.eval, mut, 2000)
				w.branchMarkers = saved
				good = complete && len(fe.used) > 0
				nErr := 0
				for _, p := range paths {
					if len(p.Events) > 0 || p.Term == "ok" || p.Term == "unknown" {
						good = false
					}
					if p.Term == "err" {
						nErr++
					}
				}
				good = good && nErr > 0
			}
			r.Check(good, "V-3", "Account.SubBalance:sufficiency", "a debit above the balance is refused before the subtraction (no wrap-around)", "SubBalance can subtract more than the balance", fnSite(w, fn))
		}
	}
}

func v4(w *World, r *Report) {
	n := 0
	for _, fn := range w.nodeFuncs() {
		for _, c := range w.callsTo(fn, fref{pkgStake, "", "NewStakeWithPower"}, fref{pkgStake, "", "NewStakeWithAmount"}) {
			if strings.HasPrefix(fn.Name(), "NewStakeWith") {
				continue // the constructor forwarding to its sibling
			}
			n++
			a := c.Common().Args
			h := a[len(a)-1]
			hc := w.Canon(h)
			// the construct is named by the ABCI entry point it belongs to: a helper
			// that only that entry point reaches is part of it
			key := w.entryKeyFn(fn) + "->stake." + callName(c.Common()) + "#txhash"
			switch {
			case strings.HasSuffix(hc, ".TxHash") && strings.HasPrefix(hc, "p"):
				r.OK("V-4", key, "the stake's ledger key is the hash of the transaction that creates it", site(w, c))
			case w.loopVariant(h, c.Block()):
				r.OK("V-4", key, "the stake's ledger key varies with the loop that creates the stakes", site(w, c))
			default:
				r.Violate("V-4", key, "every stake built here gets the same ledger key ("+hc+"): once two of them are unbonding they collide in the frozen ledger and only one is refunded", nil, site(w, c))
			}
		}
	}
	if n == 0 {
		r.Undecided("V-4", "constructions", "no stake construction found")
	}
}

// loopVariant: v depends on a loop induction variable / range element of a loop containing blk.
func (w *World) loopVariant(v ssa.Value, blk *ssa.BasicBlock) bool {
	seen := map[ssa.Value]bool{}
	var dep func(v ssa.Value, d int) bool
	dep = func(v ssa.Value, d int) bool {
		if d > 8 || seen[v] {
			return false
		}
		seen[v] = true
		switch x := v.(type) {
		case *ssa.Phi:
			// a phi in a loop header: a block that dominates blk and has a back edge
			for _, p := range x.Block().Preds {
				if x.Block().Dominates(p) {
					return true
				}
			}
		case *ssa.Next:
			return true
		case *ssa.Const, *ssa.Parameter, *ssa.Global, *ssa.FreeVar:
			return false
		}
		if in, ok := v.(ssa.Instruction); ok {
			for _, op := range in.Operands(nil) {
				if *op != nil && dep(*op, d+1) {
					return true
				}
			}
		}
		return false
	}
	return dep(v, 0)
}

// unfreezeVerdict evaluates the per-stake callback of unfreezingStakes on its
// paths (helpers expanded) under facts about maturity and the refund's outcome.
type unfreezeResult struct {
	refundThenDelete bool // matured + credit ok: credit PowerToAmount(power) to the owner, then delete the frozen stake; credit failed: error, nothing deleted
	maturity         bool // not matured: nothing is credited or deleted
}

func (w *World) unfreezeVerdict(uf *ssa.Function) unfreezeResult {
	ev := func(in ssa.Instruction) string {
		c, ok := in.(ssa.CallInstruction)
		if !ok {
			return ""
		}
		if c.Common().IsInvoke() && c.Common().Method.Name() == "Reward" {
			if w.canonCall(c.Common(), 0) == "^p1.Reward(p0.From, types.PowerToAmount(p0.Power), true)" {
				return "REW"
			}
			return "REW?" + w.canonCall(c.Common(), 0)
		}
		if arms := w.ledgerArms(c); len(arms) == 1 && arms[0].Method == "DelFinality" {
			cs := w.canonCall(c.Common(), 0)
			if karg := w.ledgerItemArg(c); karg != nil {
				// `s.Key()` of a record is the derivation its Key method returns
				cs = strings.Replace(cs, "("+w.Canon(karg)+")", "("+w.ownKeyCanon(karg)+")", 1)
			}
			if cs == "recv.frozenLedger.DelFinality(ledger.ToLedgerKey(p0.TxHash))" {
				return "DEL"
			}
			return "DEL?" + cs
		}
		return ""
	}
	run := func(facts ...atom) ([]pathEnd, bool) {
		fe := w.newFactEval(nil, facts...)
		saved := w.branchMarkers
		w.branchMarkers = false
		p, c := w.enumPaths(uf, fe.eval, ev, 2000)
		w.branchMarkers = saved
		return p, c && len(fe.used) > 0
	}
	matured := AR(`^p0\.RefundHeight$`, "<=", `^\^p0$`)
	locked := AR(`^p0\.RefundHeight$`, ">", `^\^p0$`)
	credOK := AR(`\.Reward\(p0\.From, types\.PowerToAmount\(p0\.Power\), true\)$`, "==", `^nil$`)
	credErr := AR(`\.Reward\(p0\.From, types\.PowerToAmount\(p0\.Power\), true\)$`, "!=", `^nil$`)
	var res unfreezeResult
	// locked: nothing happens
	if ps, ok := run(locked); ok {
		res.maturity = len(ps) > 0
		for _, p := range ps {
			if len(p.Events) > 0 {
				res.maturity = false
			}
		}
	}
	// matured, credit succeeded: REW then DEL on every successful path
	a, oka := run(matured, credOK)
	b, okb := run(matured, credErr)
	res.refundThenDelete = oka && okb && len(a) > 0 && len(b) > 0
	nOK := 0
	for _, p := range a {
		if p.Term == "ok" || p.Term == "unknown" {
			nOK++
			if strings.Join(p.Events, ",") != "REW,DEL" {
				res.refundThenDelete = false
			}
		}
	}
	if nOK == 0 {
		res.refundThenDelete = false
	}
	for _, p := range b {
		if p.Term == "ok" || strings.Contains(strings.Join(p.Events, ","), "DEL") {
			res.refundThenDelete = false
		}
	}
	return res
}

// entryKeyFn: the name obligations use for fn — fn's own name, or the name of the
// single ABCI entry point of the application that (transitively) is its only caller.
func (w *World) entryKeyFn(fn *ssa.Function) string {
	name := w.FName(fn)
	for _, e := range []string{"InitChain", "Info", "BeginBlock", "DeliverTx", "CheckTx", "EndBlock", "Commit", "Query"} {
		root := "node.(*RigoApp)." + e
		if name == root {
			return name
		}
		if _, ok := w.onlyReachedFrom(fn, map[string]string{root: ""}, 0, map[*ssa.Function]bool{}); ok {
			return root
		}
	}
	return name
}
