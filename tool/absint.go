package main

// absint.go — a small abstract interpreter for the SSA of the `ledger` package,
// used by C18 (rule L-1). It evaluates the package's generic origin functions
// over a finite abstract domain: ONE tracked key, items and encoded bytes
// abstracted to value tags, containers abstracted to "has the key / which tag",
// the removed-key list to the number of occurrences of the key, the IAVL tree to
// "absent / tag". Control flow is followed exactly because every branch
// condition of the ledger code is a function of these abstractions; anything
// else makes the evaluation answer "undecided". No ledger code is executed.

import (
	"fmt"
	"go/constant"
	"go/token"
	"go/types"
	"strings"

	"golang.org/x/tools/go/ssa"
)

type aval interface{}

type (
	aNil     struct{}
	aKey     struct{ valid, other bool } // other: a key different from the tracked one
	aLen     struct{ min int64 }         // len of a container that also holds untracked keys: any value >= min
	aBytes   struct{ tag int }
	aErr     struct{ kind string }
	aUnknown struct{ why string }
	aTuple   []aval
	aSlice   struct{ elems []aval }
	aKeySl   struct{ c *acell } // k[:] of a key cell
	aTree    struct{}
	aFunc    struct{ name string }
	aIter    struct {
		m    *amap
		done bool
	}
)

type aitem struct{ tag int } // pointer identity = object

type acell struct {
	v     aval
	isKey bool // the cell is a [32]byte key variable (k[:] yields the key bytes)
}

type amap struct {
	has bool
	v   aval
}

type astruct struct {
	name   string
	fields []*acell
}

// ledgerState: abstract state of one key.
type overlay struct {
	got, upd int // -1 absent, else tag
	rem      int // occurrences of the key in removedKeys (0,1,2 saturating)
}
type ledgerState struct {
	fin, mem overlay
	tree     int // -1 absent, else tag
}

func (s ledgerState) String() string {
	return fmt.Sprintf("fin{got:%d upd:%d rem:%d} mem{got:%d upd:%d rem:%d} tree:%d", s.fin.got, s.fin.upd, s.fin.rem, s.mem.got, s.mem.upd, s.mem.rem, s.tree)
}

// otherBase: item / byte tags at or above it belong to a key other than the tracked one.
const otherBase = 1000

type machine struct {
	w      *World
	tree   *int
	steps  int
	undec  string
	oracle []bool   // answers for nondeterministic choices, in order of occurrence
	used   int      // choices consumed by this run
	ledger *astruct // FinalityLedger object
	finMI  *astruct
	memMI  *astruct
	sl     *astruct // embedded SimpleLedger
}

func tagItem(t int) aval {
	if t < 0 {
		return aNil{}
	}
	return &aitem{tag: t}
}

// remIsSet: the memItems type keeps its removed keys as a set (map) instead of a list.
var remIsSet bool

func newMemItems(o overlay) *astruct {
	mk := func(t int) *amap {
		if t < 0 {
			return &amap{}
		}
		return &amap{has: true, v: &aitem{tag: t}}
	}
	var rem []aval
	for i := 0; i < o.rem; i++ {
		rem = append(rem, aKey{valid: true})
	}
	if remIsSet {
		set := &amap{}
		if o.rem > 0 {
			set = &amap{has: true, v: aKey{valid: true}}
		}
		return &astruct{name: "memItems", fields: []*acell{{v: mk(o.got)}, {v: mk(o.upd)}, {v: set}}}
	}
	return &astruct{name: "memItems", fields: []*acell{{v: mk(o.got)}, {v: mk(o.upd)}, {v: aSlice{rem}}}}
}

func readMemItems(s *astruct) (overlay, error) {
	tagOf := func(v aval) (int, error) {
		m, ok := v.(*amap)
		if !ok {
			return 0, fmt.Errorf("container replaced by %T", v)
		}
		if !m.has {
			return -1, nil
		}
		it, ok := m.v.(*aitem)
		if !ok {
			return 0, fmt.Errorf("container holds %T", m.v)
		}
		return it.tag, nil
	}
	var o overlay
	var err error
	if o.got, err = tagOf(s.fields[0].v); err != nil {
		return o, err
	}
	if o.upd, err = tagOf(s.fields[1].v); err != nil {
		return o, err
	}
	switch r := s.fields[2].v.(type) {
	case *amap:
		if r.has {
			o.rem = 1
		}
	case aSlice:
		for _, e := range r.elems {
			if k, isK := e.(aKey); !isK || !k.other {
				o.rem++ // occurrences of the tracked key only
			}
		}
	case aNil:
		o.rem = 0
	default:
		return o, fmt.Errorf("removedKeys replaced by %T", r)
	}
	if o.rem > 2 {
		o.rem = 2
	}
	return o, nil
}

// newMachine materialises the abstract state as an object graph laid out like
// FinalityLedger{SimpleLedger{db,tree,cachedItems,getNewItem,mtx}, finalityItems, mtx}.
func newMachine(w *World, s ledgerState, fl, sl, mi *types.Struct) (*machine, error) {
	m := &machine{w: w}
	t := s.tree
	m.tree = &t
	m.finMI = newMemItems(s.fin)
	m.memMI = newMemItems(s.mem)
	idx := func(st *types.Struct, name string) int {
		for i := 0; i < st.NumFields(); i++ {
			if st.Field(i).Name() == name {
				return i
			}
		}
		return -1
	}
	if idx(mi, "gotItems") != 0 || idx(mi, "updatedItems") != 1 || idx(mi, "removedKeys") != 2 || mi.NumFields() != 3 {
		return nil, fmt.Errorf("memItems layout changed")
	}
	_, isMap := mi.Field(2).Type().Underlying().(*types.Map)
	if isMap != remIsSet {
		remIsSet = isMap
		m.finMI = newMemItems(s.fin)
		m.memMI = newMemItems(s.mem)
	}
	slo := &astruct{name: "SimpleLedger", fields: make([]*acell, sl.NumFields())}
	for i := range slo.fields {
		slo.fields[i] = &acell{v: aUnknown{"field " + sl.Field(i).Name()}}
	}
	for _, need := range []string{"tree", "cachedItems", "getNewItem"} {
		if idx(sl, need) < 0 {
			return nil, fmt.Errorf("SimpleLedger has no field %s", need)
		}
	}
	slo.fields[idx(sl, "tree")].v = aTree{}
	slo.fields[idx(sl, "cachedItems")].v = m.memMI
	slo.fields[idx(sl, "getNewItem")].v = aFunc{"getNewItem"}
	flo := &astruct{name: "FinalityLedger", fields: make([]*acell, fl.NumFields())}
	for i := range flo.fields {
		flo.fields[i] = &acell{v: aUnknown{"field " + fl.Field(i).Name()}}
	}
	if idx(fl, "SimpleLedger") < 0 || idx(fl, "finalityItems") < 0 {
		return nil, fmt.Errorf("FinalityLedger layout changed")
	}
	flo.fields[idx(fl, "SimpleLedger")].v = slo
	flo.fields[idx(fl, "finalityItems")].v = m.finMI
	m.ledger, m.sl = flo, slo
	return m, nil
}

func (m *machine) state() (ledgerState, error) {
	var s ledgerState
	var err error
	if s.fin, err = readMemItems(m.finMI); err != nil {
		return s, err
	}
	if s.mem, err = readMemItems(m.memMI); err != nil {
		return s, err
	}
	s.tree = *m.tree
	return s, nil
}

type frame struct {
	fn  *ssa.Function
	env map[ssa.Value]aval
}

func (m *machine) fail(format string, a ...interface{}) aval {
	if m.undec == "" {
		m.undec = fmt.Sprintf(format, a...)
	}
	return aUnknown{m.undec}
}

func (m *machine) get(f *frame, v ssa.Value) aval {
	switch x := v.(type) {
	case *ssa.Const:
		if x.Value == nil {
			// zero value: nil for pointers/interfaces/slices/maps, zero key for arrays
			if _, ok := x.Type().Underlying().(*types.Array); ok {
				return aKey{}
			}
			return aNil{}
		}
		switch x.Value.Kind() {
		case constant.Bool:
			return constant.BoolVal(x.Value)
		case constant.Int:
			return x.Int64()
		case constant.String:
			return constant.StringVal(x.Value)
		}
		return aUnknown{"const"}
	case *ssa.Function:
		return aFunc{x.Name()}
	case *ssa.Global:
		if isErrorType(deref(x.Type())) {
			if strings.Contains(x.Name(), "NotFound") {
				return &acell{v: aErr{"notfound"}}
			}
			return &acell{v: aErr{"other"}}
		}
		return &acell{v: aUnknown{"global " + x.Name()}}
	case *ssa.Builtin:
		return aFunc{x.Name()}
	}
	if r, ok := f.env[v]; ok {
		return r
	}
	return m.fail("value %s used before definition in %s", v.Name(), f.fn.Name())
}

func isNilA(v aval) bool { _, ok := v.(aNil); return ok }

// choose answers a nondeterministic choice (presence of an untracked key in a
// container, a comparison with the size of a container). The driver re-runs the
// operation with every answer vector.
func (m *machine) choose() bool {
	v := false
	if m.used < len(m.oracle) {
		v = m.oracle[m.used]
	}
	m.used++
	return v
}

func isOtherKey(v aval) bool {
	switch k := v.(type) {
	case aKey:
		return k.other
	case aKeySl:
		if kk, ok := k.c.v.(aKey); ok {
			return kk.other
		}
	}
	return false
}

// otherElem: what a container holds for an untracked key that is present.
func otherElem(mapType types.Type) aval {
	if mt, ok := mapType.Underlying().(*types.Map); ok {
		switch e := mt.Elem().Underlying().(type) {
		case *types.Basic:
			if e.Kind() == types.Bool {
				return true
			}
		case *types.Struct:
			return aNil{}
		case *types.Array:
			return aKey{valid: true, other: true}
		}
	}
	return &aitem{tag: otherBase}
}

// run interprets fn with args and returns its results.
func (m *machine) run(fn *ssa.Function, args []aval, depth int) []aval {
	if depth > 8 || fn.Blocks == nil {
		m.fail("cannot interpret %s", fn.Name())
		return nil
	}
	f := &frame{fn: fn, env: map[ssa.Value]aval{}}
	for i, p := range fn.Params {
		if i < len(args) {
			f.env[p] = args[i]
		}
	}
	b := fn.Blocks[0]
	var prev *ssa.BasicBlock
	for {
		for _, in := range b.Instrs {
			m.steps++
			if m.steps > 20000 || m.undec != "" {
				if m.undec == "" {
					m.fail("evaluation of %s does not terminate", fn.Name())
				}
				return nil
			}
			switch x := in.(type) {
			case *ssa.Phi:
				for i, p := range b.Preds {
					if p == prev {
						f.env[x] = m.get(f, x.Edges[i])
					}
				}
			case *ssa.Alloc:
				t := deref(x.Type())
				if arr, ok := t.Underlying().(*types.Array); ok {
					if bt, isB := arr.Elem().Underlying().(*types.Basic); isB && bt.Kind() == types.Uint8 {
						f.env[x] = &acell{v: aKey{}, isKey: true}
					} else {
						f.env[x] = &acell{v: aNil{}} // one-element varargs backing array
					}
				} else if st, ok := t.Underlying().(*types.Struct); ok {
					// a local record (results carried between helpers): one cell per field
					so := &astruct{name: "local:" + t.String()}
					for i := 0; i < st.NumFields(); i++ {
						so.fields = append(so.fields, &acell{v: aNil{}})
					}
					f.env[x] = so
				} else {
					f.env[x] = &acell{v: aNil{}}
				}
			case *ssa.Field:
				so, ok := m.get(f, x.X).(*astruct)
				if !ok || x.Field >= len(so.fields) {
					m.fail("field of non-struct value %T at %s", m.get(f, x.X), m.w.InstrPos(in))
					return nil
				}
				f.env[x] = so.fields[x.Field].v
			case *ssa.FieldAddr:
				base := m.get(f, x.X)
				so, ok := base.(*astruct)
				if !ok {
					m.fail("field of non-struct %T at %s", base, m.w.InstrPos(in))
					return nil
				}
				c := so.fields[x.Field]
				if inner, ok := c.v.(*astruct); ok && isStructField(x) {
					// embedded struct value: its address is the nested object
					f.env[x] = inner
				} else {
					f.env[x] = c
				}
			case *ssa.UnOp:
				switch x.Op {
				case token.MUL:
					p := m.get(f, x.X)
					switch c := p.(type) {
					case *acell:
						f.env[x] = c.v
					case *astruct:
						if strings.HasPrefix(c.name, "local:") {
							// the value of a local record: a copy as of now
							cp := &astruct{name: c.name}
							for _, fc := range c.fields {
								cp.fields = append(cp.fields, &acell{v: fc.v, isKey: fc.isKey})
							}
							f.env[x] = cp
						} else {
							f.env[x] = c
						}
					default:
						m.fail("load through %T at %s", p, m.w.InstrPos(in))
						return nil
					}
				case token.NOT:
					bv, ok := m.get(f, x.X).(bool)
					if !ok {
						m.fail("negation of a non-boolean at %s", m.w.InstrPos(in))
						return nil
					}
					f.env[x] = !bv
				default:
					f.env[x] = aUnknown{"unop"}
				}
			case *ssa.Store:
				p := m.get(f, x.Addr)
				if dst, isS := p.(*astruct); isS {
					// a local record assigned as a whole: field by field
					if src, ok := m.get(f, x.Val).(*astruct); ok && len(src.fields) == len(dst.fields) {
						for i := range dst.fields {
							dst.fields[i].v = src.fields[i].v
						}
						continue
					}
				}
				c, ok := p.(*acell)
				if !ok {
					m.fail("store through %T at %s", p, m.w.InstrPos(in))
					return nil
				}
				c.v = m.get(f, x.Val)
			case *ssa.IndexAddr:
				base := m.get(f, x.X)
				i, _ := m.get(f, x.Index).(int64)
				switch s := base.(type) {
				case aSlice:
					if int(i) < 0 || int(i) >= len(s.elems) {
						m.fail("index out of range at %s", m.w.InstrPos(in))
						return nil
					}
					// &keys[i] of a key list is a key cell (keys[i][:] yields the key bytes)
					_, isArr := deref(x.Type()).Underlying().(*types.Array)
					f.env[x] = &acell{v: s.elems[i], isKey: isArr}
				case *acell:
					// &arr[i] of a local array (varargs): one-element backing store
					f.env[x] = s
				default:
					m.fail("index of %T at %s", base, m.w.InstrPos(in))
					return nil
				}
			case *ssa.Slice:
				base := m.get(f, x.X)
				switch s := base.(type) {
				case *acell:
					if s.isKey {
						f.env[x] = aKeySl{s}
					} else {
						// slice of a varargs array: its single element
						f.env[x] = aSlice{[]aval{s.v}}
					}
				case aSlice:
					lo, hi := 0, len(s.elems)
					if x.Low != nil {
						l, _ := m.get(f, x.Low).(int64)
						lo = int(l)
					}
					if x.High != nil {
						h, _ := m.get(f, x.High).(int64)
						hi = int(h)
					}
					if lo < 0 || hi > len(s.elems) || lo > hi {
						m.fail("slice bounds out of range at %s", m.w.InstrPos(in))
						return nil
					}
					f.env[x] = aSlice{append([]aval(nil), s.elems[lo:hi]...)}
				case aNil:
					f.env[x] = aSlice{}
				default:
					m.fail("slice of %T at %s", base, m.w.InstrPos(in))
					return nil
				}
			case *ssa.BinOp:
				f.env[x] = m.binop(x, m.get(f, x.X), m.get(f, x.Y))
			case *ssa.Extract:
				t, ok := m.get(f, x.Tuple).(aTuple)
				if !ok || x.Index >= len(t) {
					m.fail("extract from non-tuple at %s", m.w.InstrPos(in))
					return nil
				}
				f.env[x] = t[x.Index]
			case *ssa.Lookup:
				mp, ok := m.get(f, x.X).(*amap)
				if !ok {
					m.fail("lookup in %T at %s", m.get(f, x.X), m.w.InstrPos(in))
					return nil
				}
				var v aval = aNil{}
				has := mp.has
				if isOtherKey(m.get(f, x.Index)) {
					// an untracked key: present or not
					if has = m.choose(); has {
						v = otherElem(x.X.Type())
					}
				} else if mp.has {
					v = mp.v
				}
				if x.CommaOk {
					f.env[x] = aTuple{v, has}
				} else {
					f.env[x] = v
				}
			case *ssa.MapUpdate:
				mp, ok := m.get(f, x.Map).(*amap)
				if !ok {
					m.fail("map update on %T at %s", m.get(f, x.Map), m.w.InstrPos(in))
					return nil
				}
				if isOtherKey(m.get(f, x.Key)) {
					break // an untracked entry: the tracked one is untouched
				}
				mp.has, mp.v = true, m.get(f, x.Value)
			case *ssa.MakeMap:
				f.env[x] = &amap{}
			case *ssa.MakeSlice:
				// make([]T, 0, cap): an empty list (the capacity is not observable)
				if n, ok := m.get(f, x.Len).(int64); ok && n == 0 {
					f.env[x] = aSlice{}
				} else {
					m.fail("make of a slice with a length that is not the constant 0 at %s", m.w.InstrPos(in))
					return nil
				}
			case *ssa.MakeInterface:
				f.env[x] = m.get(f, x.X)
			case *ssa.ChangeType:
				f.env[x] = m.get(f, x.X)
			case *ssa.ChangeInterface:
				f.env[x] = m.get(f, x.X)
			case *ssa.Convert:
				f.env[x] = m.get(f, x.X)
			case *ssa.Range:
				mp, ok := m.get(f, x.X).(*amap)
				if !ok {
					m.fail("range over %T at %s", m.get(f, x.X), m.w.InstrPos(in))
					return nil
				}
				f.env[x] = &aIter{m: mp}
			case *ssa.Next:
				it, ok := m.get(f, x.Iter).(*aIter)
				if !ok {
					m.fail("next on a non-iterator at %s", m.w.InstrPos(in))
					return nil
				}
				if it.done || !it.m.has {
					f.env[x] = aTuple{false, aKey{}, aNil{}}
				} else {
					it.done = true
					f.env[x] = aTuple{true, aKey{valid: true}, it.m.v}
				}
			case *ssa.Defer, *ssa.RunDefers, *ssa.DebugRef:
				if d, ok := in.(*ssa.Defer); ok {
					if nm := callName(d.Common()); nm != "Unlock" && nm != "RUnlock" {
						m.fail("deferred call %s at %s", nm, m.w.InstrPos(in))
						return nil
					}
				}
			case *ssa.Call:
				f.env[x] = m.call(f, x, depth)
			case *ssa.Jump:
				prev, b = b, b.Succs[0]
				goto next
			case *ssa.If:
				c, ok := m.get(f, x.Cond).(bool)
				if !ok {
					m.fail("branch on a value outside the abstract domain (%s) at %s", m.w.Canon(x.Cond), m.w.InstrPos(in))
					return nil
				}
				if c {
					prev, b = b, b.Succs[0]
				} else {
					prev, b = b, b.Succs[1]
				}
				goto next
			case *ssa.Return:
				var out []aval
				for _, r := range x.Results {
					out = append(out, m.get(f, r))
				}
				return out
			case *ssa.Panic:
				m.fail("panic reached at %s", m.w.InstrPos(in))
				return nil
			default:
				m.fail("unsupported instruction %T at %s", in, m.w.InstrPos(in))
				return nil
			}
		}
		m.fail("block without terminator in %s", fn.Name())
		return nil
	next:
	}
}

func isStructField(fa *ssa.FieldAddr) bool {
	_, f := fieldOf(fa.X.Type(), fa.Field)
	if f == nil {
		return false
	}
	_, ok := f.Type().Underlying().(*types.Struct)
	return ok
}

// cmpLen decides `n op c` for an unknown n >= min; where both answers are
// possible the choice is nondeterministic.
func (m *machine) cmpLen(min int64, op token.Token, c int64) aval {
	switch op {
	case token.GEQ:
		if c <= min {
			return true
		}
	case token.GTR:
		if c < min {
			return true
		}
	case token.LSS:
		if c <= min {
			return false
		}
	case token.LEQ:
		if c < min {
			return false
		}
	case token.EQL:
		if c < min {
			return false
		}
	case token.NEQ:
		if c < min {
			return true
		}
	default:
		return aUnknown{"arithmetic on a container size"}
	}
	return m.choose()
}

func flipCmp(op token.Token) token.Token {
	switch op {
	case token.LSS:
		return token.GTR
	case token.GTR:
		return token.LSS
	case token.LEQ:
		return token.GEQ
	case token.GEQ:
		return token.LEQ
	}
	return op
}

func (m *machine) binop(x *ssa.BinOp, a, b aval) aval {
	if al, ok := a.(aLen); ok {
		if c, ok := b.(int64); ok {
			return m.cmpLen(al.min, x.Op, c)
		}
		return aUnknown{"container size"}
	}
	if bl, ok := b.(aLen); ok {
		if c, ok := a.(int64); ok {
			return m.cmpLen(bl.min, flipCmp(x.Op), c)
		}
		return aUnknown{"container size"}
	}
	switch av := a.(type) {
	case int64:
		bv, ok := b.(int64)
		if !ok {
			break
		}
		switch x.Op {
		case token.ADD:
			return av + bv
		case token.SUB:
			return av - bv
		case token.LSS:
			return av < bv
		case token.LEQ:
			return av <= bv
		case token.GTR:
			return av > bv
		case token.GEQ:
			return av >= bv
		case token.EQL:
			return av == bv
		case token.NEQ:
			return av != bv
		}
	case bool:
		if bv, ok := b.(bool); ok {
			switch x.Op {
			case token.EQL:
				return av == bv
			case token.NEQ:
				return av != bv
			}
		}
	case aKey:
		if bk, ok := b.(aKey); ok {
			eq := av.valid == bk.valid && av.other == bk.other
			if x.Op == token.EQL {
				return eq
			}
			if x.Op == token.NEQ {
				return !eq
			}
		}
	}
	// nil comparisons and error identity
	if x.Op == token.EQL || x.Op == token.NEQ {
		an, bn := isNilA(a), isNilA(b)
		if an || bn {
			if _, unk := a.(aUnknown); unk {
				return m.fail("comparison of an unknown value with nil at %s", m.w.InstrPos(x))
			}
			if _, unk := b.(aUnknown); unk {
				return m.fail("comparison of an unknown value with nil at %s", m.w.InstrPos(x))
			}
			eq := an && bn
			if x.Op == token.EQL {
				return eq
			}
			return !eq
		}
		if ae, ok := a.(aErr); ok {
			if be, ok := b.(aErr); ok {
				eq := ae.kind == be.kind
				if x.Op == token.EQL {
					return eq
				}
				return !eq
			}
		}
	}
	return aUnknown{"binop " + x.Op.String()}
}

func (m *machine) call(f *frame, c *ssa.Call, depth int) aval {
	cc := c.Common()
	var args []aval
	for _, a := range cc.Args {
		args = append(args, m.get(f, a))
	}
	if cc.IsInvoke() {
		recv := m.get(f, cc.Value)
		it, _ := recv.(*aitem)
		switch cc.Method.Name() {
		case "Key":
			if it == nil {
				return m.fail("Key() on %T at %s", recv, m.w.InstrPos(c))
			}
			return aKey{valid: it.tag >= 0, other: it.tag >= otherBase}
		case "Encode":
			if it == nil {
				return m.fail("Encode() on %T at %s", recv, m.w.InstrPos(c))
			}
			return aTuple{aBytes{it.tag}, aNil{}}
		case "Decode":
			bz, ok := args[0].(aBytes)
			if it == nil || !ok {
				return m.fail("Decode() of %T at %s", args[0], m.w.InstrPos(c))
			}
			it.tag = bz.tag
			return aNil{}
		case "Error":
			return "error"
		}
		return m.fail("unsupported interface call %s at %s", cc.Method.Name(), m.w.InstrPos(c))
	}
	if bi, ok := cc.Value.(*ssa.Builtin); ok {
		switch bi.Name() {
		case "len":
			switch s := args[0].(type) {
			case aSlice:
				return int64(len(s.elems))
			case aNil:
				return int64(0)
			case *amap:
				// the container also holds any number of untracked keys
				if s.has {
					return aLen{1}
				}
				return aLen{0}
			}
			return m.fail("len of %T at %s", args[0], m.w.InstrPos(c))
		case "append":
			var base []aval
			switch s := args[0].(type) {
			case aSlice:
				base = s.elems
			case aNil:
			default:
				return m.fail("append to %T at %s", args[0], m.w.InstrPos(c))
			}
			out := append([]aval(nil), base...)
			if len(args) > 1 {
				switch t := args[1].(type) {
				case aSlice:
					out = append(out, t.elems...)
				case aNil:
				default:
					return m.fail("append of %T at %s", args[1], m.w.InstrPos(c))
				}
			}
			return aSlice{out}
		case "copy":
			d, ok1 := args[0].(aKeySl)
			s, ok2 := args[1].(aKeySl)
			if ok1 && ok2 {
				d.c.v = s.c.v
				return int64(32)
			}
			return m.fail("copy between %T and %T at %s", args[0], args[1], m.w.InstrPos(c))
		case "delete":
			mp, ok := args[0].(*amap)
			if !ok {
				return m.fail("delete on %T at %s", args[0], m.w.InstrPos(c))
			}
			if len(args) > 1 && isOtherKey(args[1]) {
				return aNil{}
			}
			mp.has, mp.v = false, nil
			return aNil{}
		}
		return m.fail("builtin %s at %s", bi.Name(), m.w.InstrPos(c))
	}
	callee := cc.StaticCallee()
	if callee == nil {
		// call of a function value: getNewItem
		if fv, ok := m.get(f, cc.Value).(aFunc); ok && fv.name == "getNewItem" {
			return &aitem{tag: -1}
		}
		return m.fail("dynamic call at %s", m.w.InstrPos(c))
	}
	if o := callee.Origin(); o != nil {
		callee = o
	}
	pkg := m.w.FuncPkgPath(callee)
	name := callee.Name()
	switch {
	case pkg == absPkg(pkgLedger):
		res := m.run(callee, args, depth+1)
		if m.undec != "" {
			return aUnknown{m.undec}
		}
		switch len(res) {
		case 0:
			return aNil{}
		case 1:
			return res[0]
		}
		return aTuple(res)
	case pkg == "sync":
		return aNil{}
	case pkg == "sort":
		return aNil{}
	case pkg == "fmt":
		return "formatted"
	case strings.HasSuffix(pkg, "/types/xerrors"):
		switch name {
		case "From", "NewOrdinary", "New":
			return aErr{"other"}
		}
		return aErr{"other"}
	case pkg == "github.com/cosmos/iavl":
		switch name {
		case "Get":
			if len(args) > 1 && isOtherKey(args[1]) {
				if m.choose() {
					return aTuple{aBytes{otherBase}, aNil{}}
				}
				return aTuple{aNil{}, aNil{}}
			}
			if ks, ok := args[1].(aKeySl); !ok || !keyValid(ks) {
				return m.fail("tree.Get with a key that is not the tracked key at %s", m.w.InstrPos(c))
			}
			if *m.tree < 0 {
				return aTuple{aNil{}, aNil{}}
			}
			return aTuple{aBytes{*m.tree}, aNil{}}
		case "Set":
			if len(args) > 1 && isOtherKey(args[1]) {
				return aTuple{m.choose(), aNil{}}
			}
			ks, ok := args[1].(aKeySl)
			bz, ok2 := args[2].(aBytes)
			if !ok || !ok2 || !keyValid(ks) {
				return m.fail("tree.Set with unexpected arguments at %s", m.w.InstrPos(c))
			}
			upd := *m.tree >= 0
			*m.tree = bz.tag
			return aTuple{upd, aNil{}}
		case "Remove":
			if len(args) > 1 && isOtherKey(args[1]) {
				return aTuple{aNil{}, m.choose(), aNil{}}
			}
			ks, ok := args[1].(aKeySl)
			if !ok || !keyValid(ks) {
				return m.fail("tree.Remove with a key that is not the tracked key at %s", m.w.InstrPos(c))
			}
			had := *m.tree >= 0
			*m.tree = -1
			return aTuple{aNil{}, had, aNil{}}
		case "SaveVersion":
			return aTuple{aBytes{-2}, int64(1), aNil{}}
		case "Version":
			return int64(1)
		}
		return m.fail("unsupported iavl call %s at %s", name, m.w.InstrPos(c))
	}
	return m.fail("unsupported call %s.%s at %s", pkg, name, m.w.InstrPos(c))
}

func keyValid(ks aKeySl) bool {
	k, ok := ks.c.v.(aKey)
	return ok && k.valid
}

// sharedObject reports an item object that is held by a container of the
// consensus overlay and by a container of the mempool overlay.
func (m *machine) sharedObject() string {
	objs := func(mi *astruct) map[*aitem]string {
		out := map[*aitem]string{}
		for i, name := range []string{"gotItems", "updatedItems"} {
			if mp, ok := mi.fields[i].v.(*amap); ok && mp.has {
				if it, ok := mp.v.(*aitem); ok {
					out[it] = name
				}
			}
		}
		return out
	}
	fin, mem := objs(m.finMI), objs(m.memMI)
	for o, fn := range fin {
		if mn, ok := mem[o]; ok {
			return "finalityItems." + fn + " and cachedItems." + mn
		}
	}
	return ""
}
