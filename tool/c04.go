package main

// C04 — per-account nonces give exactly-once, in-order execution (DESIGN §3 C04, N-1 … N-4).

import (
	"fmt"
	"go/types"
	"sort"
	"strings"

	"golang.org/x/tools/go/ssa"
)

func init() { register("C04", checkC04) }

// client-side packages of the module: not part of the node's execution, their
// use of account primitives (a wallet's local copy) is irrelevant to the ledger.
var clientPkgs = []string{"libs/web3", "libs/sfeeder", "sfeeder", "cmd"}

func (w *World) isClientFunc(fn *ssa.Function) bool {
	p := w.FuncPkgPath(fn)
	for _, c := range clientPkgs {
		if p == absPkg(c) || strings.HasPrefix(p, absPkg(c)+"/") {
			return true
		}
	}
	return false
}

// nodeFuncs: module functions that belong to the node (client-side packages excluded).
func (w *World) nodeFuncs() []*ssa.Function {
	var out []*ssa.Function
	for _, f := range w.ModuleFuncs() {
		if !w.isClientFunc(f) {
			out = append(out, f)
		}
	}
	return out
}

// fieldWriters lists node functions that store to owner.field (base not freshly allocated).
type writerSite struct {
	Fn *ssa.Function
	In ssa.Instruction
}

func (w *World) fieldWriters(pkgRel, typ, field string) []writerSite {
	var out []writerSite
	for _, fn := range w.nodeFuncs() {
		for _, fs := range w.fieldStores(fn) {
			if fs.Field.Name() == field && namedIs(fs.Owner, absPkg(pkgRel), typ) && !baseFresh(fs.Addr) {
				out = append(out, writerSite{fn, fs.In})
			}
		}
	}
	return out
}

// callersOf lists node-scope call sites that may call fn (call graph).
func (w *World) nodeCallers(fn *ssa.Function) []CallerSite {
	var out []CallerSite
	seen := map[string]bool{}
	// a bound-method wrapper or thunk stands for the functions that call it (a
	// method value `x.m` invoked through a variable is a call of m by that caller)
	var raw []CallerSite
	var climb func(f *ssa.Function, d int)
	climb = func(f *ssa.Function, d int) {
		for _, cs := range w.Callers(f) {
			if cs.Caller != nil && d < 3 && (strings.HasSuffix(cs.Caller.Name(), "$bound") || strings.HasSuffix(cs.Caller.Name(), "$thunk")) {
				n := len(raw)
				climb(cs.Caller, d+1)
				if len(raw) == n {
					// never seen called: whoever creates the method value counts as the caller
					for _, mf := range w.ModuleFuncs() {
						for _, b := range mf.Blocks {
							for _, in := range b.Instrs {
								if mc, ok := in.(*ssa.MakeClosure); ok && mc.Fn == ssa.Value(cs.Caller) {
									raw = append(raw, CallerSite{Caller: mf})
								}
							}
						}
					}
				}
				continue
			}
			raw = append(raw, cs)
		}
	}
	climb(fn, 0)
	for _, cs := range raw {
		if cs.Caller == nil {
			continue
		}
		// an instantiation of a generic function stands for its origin
		if o := cs.Caller.Origin(); o != nil {
			cs.Caller = o
		}
		if w.InModule(cs.Caller) && !w.isClientFunc(cs.Caller) && cs.Caller.Synthetic == "" {
			k := w.FName(cs.Caller)
			if cs.Site != nil {
				k += "@" + w.InstrPos(cs.Site)
			}
			if seen[k] {
				continue
			}
			seen[k] = true
			out = append(out, cs)
		}
	}
	return out
}

func (w *World) checkWriters(r *Report, rule, pkgRel, typ, field string, allowed map[string]string) {
	ws := w.fieldWriters(pkgRel, typ, field)
	seen := map[string]bool{}
	for _, x := range ws {
		name := w.FName(x.Fn)
		key := typ + "." + field + ":writer:" + name
		if seen[key] {
			continue
		}
		seen[key] = true
		if why, ok := allowed[name]; ok {
			r.OK(rule, key, "allowed writer: "+why, site(w, x.In))
		} else if via, ok := w.onlyReachedFrom(x.Fn, allowed, 0, map[*ssa.Function]bool{}); ok {
			r.OK(rule, key, "helper of an allowed writer: every call of it comes from "+via, site(w, x.In))
		} else {
			r.Violate(rule, key, fmt.Sprintf("%s.%s is written outside its primitives (closed set: %s)", typ, field, strings.Join(sortedKeysS(allowed), ", ")), nil, site(w, x.In))
		}
	}
	for name := range allowed {
		if !seen[typ+"."+field+":writer:"+name] && !strings.HasSuffix(name, "(fresh)") {
			// an allowed writer that no longer writes is not an error
			continue
		}
	}
}

// onlyReachedFrom: every call of fn comes from a function of the allowed set, or
// from a helper of which the same holds (so a statement moved from an allowed
// function into a helper stays inside the closed set).
func (w *World) onlyReachedFrom(fn *ssa.Function, allowed map[string]string, depth int, seen map[*ssa.Function]bool) (string, bool) {
	if fn == nil || depth > 3 || seen[fn] {
		return "", false
	}
	seen[fn] = true
	// closures belong to their enclosing function
	if p := fn.Parent(); p != nil {
		if _, ok := allowed[w.FName(p)]; ok {
			return w.FName(p), true
		}
		return w.onlyReachedFrom(p, allowed, depth+1, seen)
	}
	cs := w.nodeCallers(fn)
	if len(cs) == 0 {
		return "", false
	}
	var via []string
	for _, c := range cs {
		name := w.FName(c.Caller)
		if _, ok := allowed[name]; ok {
			via = append(via, name)
			continue
		}
		v, ok := w.onlyReachedFrom(c.Caller, allowed, depth+1, seen)
		if !ok {
			return "", false
		}
		via = append(via, v)
	}
	sort.Strings(via)
	return strings.Join(dedupStrings(via), ", "), true
}

func dedupStrings(in []string) []string {
	var out []string
	for i, s := range in {
		if i == 0 || s != in[i-1] {
			out = append(out, s)
		}
	}
	return out
}

func sortedKeysS(m map[string]string) []string {
	var out []string
	for k := range m {
		out = append(out, k)
	}
	sort.Strings(out)
	return out
}

// movesOneAmount: fn is a plain function of (from, to *Account, amt) that debits
// `from` once, credits `to` once — both by its own parameter amt — and otherwise
// only refunds `from` by amt after the credit; nothing else touches a balance.
func (w *World) movesOneAmount(fn *ssa.Function) bool {
	if fn == nil || fn.Blocks == nil || fn.Parent() != nil {
		return false
	}
	var sub, add, refund int
	var from, to, amt string
	var subCall, addCall ssa.CallInstruction
	for _, c := range CallsIn(fn) {
		isSub := w.callIs(c.Common(), fref{"ctrlers/types", "Account", "SubBalance"})
		isAdd := w.callIs(c.Common(), fref{"ctrlers/types", "Account", "AddBalance"})
		if !isSub && !isAdd {
			continue
		}
		rcv, args := callRecvArgs(c.Common())
		if rcv == nil || len(args) != 1 || paramIndexIn(fn, rcv) < 0 || paramIndexIn(fn, args[0]) < 0 {
			return false
		}
		rc, ac := w.Canon(rcv), w.Canon(args[0])
		if amt == "" {
			amt = ac
		} else if amt != ac {
			return false
		}
		switch {
		case isSub:
			sub++
			from, subCall = rc, c
		case isAdd && rc == from && from != "":
			refund++
			if addCall == nil || !instrReaches(addCall, c) {
				return false
			}
		case isAdd:
			add++
			to, addCall = rc, c
		}
	}
	if sub != 1 || add != 1 || refund > 1 || from == to || subCall == nil || addCall == nil || !instrDominates(subCall, addCall) {
		return false
	}
	// no other balance write
	for _, fs := range w.fieldStores(fn) {
		if fs.Field.Name() == "Balance" {
			return false
		}
	}
	return true
}

func (w *World) checkCallers(r *Report, rule string, ref fref, allowed map[string]string, minCallers int) {
	fn := needFn(r, rule, w, ref)
	if fn == nil {
		return
	}
	roots := map[string]bool{}
	for _, cs := range w.nodeCallers(fn) {
		name := w.FName(cs.Caller)
		key := refStr(ref) + ":caller:" + name
		if why, ok := allowed[name]; ok {
			roots[name] = true
			r.OK(rule, key, "allowed caller: "+why, site(w, cs.Site))
		} else if via, ok := w.onlyReachedFrom(cs.Caller, allowed, 0, map[*ssa.Function]bool{}); ok {
			for _, v := range strings.Split(via, ", ") {
				roots[v] = true
			}
			r.OK(rule, key, "helper of an allowed caller: every call of it comes from "+via, site(w, cs.Site))
		} else if (ref.name == "SubBalance" || ref.name == "AddBalance") && ref.typ == "Account" && w.movesOneAmount(cs.Caller) {
			roots[name] = true
			r.OK(rule, key, "helper that moves one amount between two accounts it is handed (debit of the one, credit of the other by the same amount, refund on failure): value is conserved whoever calls it", site(w, cs.Site))
		} else {
			roots[name] = true
			r.Violate(rule, key, fmt.Sprintf("%s is called from %s (closed set of callers: %s)", refStr(ref), name, strings.Join(sortedKeysS(allowed), ", ")), nil, site(w, cs.Site))
		}
	}
	if n := len(roots); n < minCallers {
		r.Undecided(rule, refStr(ref)+":callers", fmt.Sprintf("%d caller(s) found, expected at least %d: the primitive is no longer used where the property needs it", n, minCallers))
	}
}

func checkC04(w *World, r *Report) {
	r.Explanation = "Structural clause of C04: (N-1) Account.CheckNonce is an equality guard; commonValidation1 applies it to (ctx.Sender, ctx.Tx.Nonce) and its error returns before any controller runs; (N-2) Account.Nonce is written only by AddNonce (+1), SetNonce, Decode and constructors, AddNonce is called only from postRunTrx and SetNonce only from StateDBWrapper.Finish; (N-3) a decision table over (tx type, receiver-has-code, exec) evaluated on the CFGs of runTrx and postRunTrx shows that exactly the transactions routed to a native controller pass exactly one AddNonce on ctx.Sender followed by SetAccountCommittable(ctx.Sender, ctx.Exec) on every success path, and exactly those routed to the EVM pass none; (N-4) on the EVM route the transaction's own nonce reaches the EVM message with nonce checking enabled (isFake=false) and Finish copies the EVM's nonce back for every accessed address before marking the account; (N-5) the set of accessed addresses that Finish writes back is maintained exactly: every address entering the access list is synchronised in and recorded, RevertToSnapshot forgets exactly those recorded after the snapshot (C17 E-1, E-2); (N-6) the nonce the guard compares with is the one the last successful transaction wrote: the account ledger answers every read with the latest pending write of that key, whatever happens to other keys in between (C18 L-1); (N-7) no copy of an account decoded afresh from the committed tree is written into an overlay over the overlay's own object, which may carry a nonce raised earlier in the block (C01 D-6 stale-copy); (N-8) a contract transaction that fails leaves nothing in the wrapper's record of synchronised addresses: revert to the pre-transaction snapshot, then Finish (C05 A-4). N-8 also requires every success exit of an executed EVM-routed transaction to pass Snapshot, Prepare, the message application and Finish: nonce and fee of these transactions are consumed there and nowhere else. (N-10) no operation on a ledger of accounts removes an item (interface invocations, static calls, forwarding selectors, method values): an account, once created, keeps its nonce."
	r.NotCovered = "the arithmetic consequence 'at most once over a history' (follows from N-1..4, not itself computed); go-ethereum's own nonce check and increment; reverts on failure (C05 A-4)."
	n1(w, r)
	n2(w, r)
	n3(w, r)
	n4(w, r)
	// N-8: a contract transaction that fails leaves nothing behind in the wrapper:
	// what it synchronised in is forgotten (revert to the pre-transaction snapshot)
	// and written back (Finish) before the next transaction, or a later write-back
	// restores a stale nonce (C05 A-4)
	if r.importObs(w, func(t *Report) { a4(w, t) }, "A-4", "N-8") < 2 {
		r.Undecided("N-8", "evm-failure", "the EVM failure-handling rules (C05 A-4) matched fewer than 2 constructs")
	}
	// N-9: the "receiver has code" input of the decision table does not change between
	// the routing in runTrx and the decision in postRunTrx
	codeMarkerStable(w, r, "N-9")
	r.Floor("N-9", 3, "code marker writers")
	n10(w, r)
	r.Floor("N-10", 1, "account ledger call sites")
	r.Floor("N-1", 4, "equality guard and its placement")
	r.Floor("N-2", 5, "writers and callers of the nonce primitives")
	r.Floor("N-3", 18, "decision table rows")
	r.Floor("N-4", 4, "EVM route")
	// N-5: the nonce the EVM bumped reaches the native account: the write-back set
	// is maintained exactly (C17 E-1, E-2)
	if r.importRules(w, func(t *Report) { e1(w, t); e2(w, t) }, "N-5", "E-1", "E-2") < 8 {
		r.Undecided("N-5", "evm-bridge", "the EVM/native-ledger synchronisation rules (C17 E-1, E-2) matched fewer than 8 constructs")
	}
	// N-6: the sender looked up for the nonce test is the object the previous
	// transaction of the block updated (read-your-writes of the ledger, C18 L-1)
	// N-7: the nonce a successful transaction raised is not lost again within the
	// block: no copy of an account decoded afresh from the committed tree is written
	// over the overlay's own object (C01 D-6 stale-copy)
	{
		x := NewExecCtx(w)
		tmp := NewReport(r.Prop, r.Tier)
		d6c(w, tmp, x, consFuncs(x))
		n := 0
		for _, o := range tmp.Obs {
			if strings.HasPrefix(o.Key, "D-6:stale-copy:") {
				o.Rule = "N-7"
				o.Key = "N-7:" + strings.TrimPrefix(o.Key, "D-6:")
				r.Obs = append(r.Obs, o)
				n++
			}
		}
		if n < 5 {
			r.Undecided("N-7", "overlay-writes", "fewer than 5 overlay writes found in consensus context")
		}
	}
	if r.importObs(w, func(t *Report) { l1(w, t) }, "L-1", "N-6") == 0 {
		r.Undecided("N-6", "ledger", "the ledger overlay analysis (C18 L-1) produced no obligation")
	}
}

func n1(w *World, r *Report) {
	cn := needFn(r, "N-1", w, fref{pkgCT, "Account", "CheckNonce"})
	if cn != nil {
		gs := w.FindGuards(cn, func(c string) bool { return c == "(recv.Nonce != p0)" || c == "(p0 != recv.Nonce)" })
		ok := len(gs) == 1
		if ok {
			for _, b := range cn.Blocks {
				if ret, isR := lastInstr(b).(*ssa.Return); isR && w.errState(ret) != triNonNil && !gs[0].Protects(b) {
					ok = false
				}
			}
		}
		all := w.Guards(cn)
		r.Check(ok && len(all) == 1, "N-1", "CheckNonce:equality", "CheckNonce fails exactly when the account nonce differs from the transaction nonce", "CheckNonce is not a pure equality test of the nonce (a replayed or out-of-order transaction would pass): "+guardConds(all), fnSite(w, cn))
	}
	cv1 := needFn(r, "N-1", w, fref{"node", "", "commonValidation1"})
	if cv1 != nil {
		cs := w.callsTo(cv1, fref{pkgCT, "Account", "CheckNonce"})
		ok := len(cs) == 1 && w.canonCall(cs[0].Common(), 0) == "p0.Sender.CheckNonce(p0.Tx.Nonce)"
		if !ok {
			// the check sits in a helper: decided on the paths
			if okG, _ := w.gateHolds(cv1, AR(`^p0\.Sender\.CheckNonce\(p0\.Tx\.Nonce\)$`, "!=", `^nil$`)); okG {
				r.OK("N-1", "commonValidation1:CheckNonce", "commonValidation1 has no successful path when ctx.Sender.CheckNonce(ctx.Tx.Nonce) reports an error (helpers expanded)", fnSite(w, cv1))
				r.OK("N-1", "commonValidation1:CheckNonce:error-returned", "see commonValidation1:CheckNonce", fnSite(w, cv1))
				cv1 = nil
			}
		}
	}
	if cv1 != nil {
		cs := w.callsTo(cv1, fref{pkgCT, "Account", "CheckNonce"})
		ok := len(cs) == 1 && w.canonCall(cs[0].Common(), 0) == "p0.Sender.CheckNonce(p0.Tx.Nonce)"
		r.Check(ok, "N-1", "commonValidation1:CheckNonce", "the sender's nonce is compared with the transaction's nonce", "commonValidation1 does not check ctx.Sender's nonce against ctx.Tx.Nonce", fnSite(w, cv1))
		if ok {
			var g0 *Guard
			for _, g := range w.Guards(cv1) {
				if bo, isB := g.If.Cond.(*ssa.BinOp); isB && (sameValue(bo.X, callValue(cs[0])) || sameValue(bo.Y, callValue(cs[0]))) {
					g0 = g
				}
			}
			good := g0 != nil
			if good {
				for _, b := range cv1.Blocks {
					if ret, isR := lastInstr(b).(*ssa.Return); isR && w.errState(ret) != triNonNil && !g0.Protects(b) {
						good = false
					}
				}
			}
			r.Check(good, "N-1", "commonValidation1:CheckNonce:error-returned", "a nonce mismatch fails the validation; no success return bypasses it", "a success return of commonValidation1 is not behind the nonce check", site(w, cs[0]))
		}
	}
	vt := needFn(r, "N-1", w, fref{"node", "", "validateTrx"})
	if vt != nil {
		cs := w.callsTo(vt, fref{"node", "", "commonValidation1"})
		var g0 *Guard
		if len(cs) == 1 && cs[0].Common().Args[0] == ssa.Value(vt.Params[0]) {
			for _, g := range w.Guards(vt) {
				if bo, isB := g.If.Cond.(*ssa.BinOp); isB && (sameValue(bo.X, callValue(cs[0])) || sameValue(bo.Y, callValue(cs[0]))) {
					g0 = g
				}
			}
		}
		bad := ""
		if okG, _ := w.gateHolds(vt, AR(`^p0\.Sender\.CheckNonce\(p0\.Tx\.Nonce\)$`, "!=", `^nil$`)); g0 == nil && okG {
			// arranged differently (helpers, a table of steps): no controller and no
			// success return is reached when the nonce check fails
		} else if g0 == nil {
			bad = "no guarded call"
		} else {
			for _, b := range vt.Blocks {
				for _, in := range b.Instrs {
					if ci, isC := in.(ssa.CallInstruction); isC && ci.Common().IsInvoke() && (ci.Common().Method.Name() == "ValidateTrx" || ci.Common().Method.Name() == "ExecuteTrx") && !g0.Protects(b) {
						bad = site(w, in)
					}
				}
				if ret, isR := lastInstr(b).(*ssa.Return); isR && w.errState(ret) != triNonNil && !g0.Protects(b) {
					bad = site(w, ret)
				}
			}
		}
		r.Check(bad == "", "N-1", "validateTrx:commonValidation1", "commonValidation1's error returns before any controller validation and before any success return", "a controller call or success return of validateTrx is not behind commonValidation1: "+bad, fnSite(w, vt))
	}
	// validate-before-run is decided under C03 S-1 / C05 A-1; repeat the cheap part here
	es := needFn(r, "N-1", w, fref{"node", "TrxExecutor", "ExecuteSync"})
	if es != nil {
		ok, _ := w.validateBeforeRun(es)
		r.Check(ok, "N-1", "ExecuteSync:validate-before-run", "runTrx only after validateTrx returned nil", "runTrx is reachable although validateTrx failed", fnSite(w, es))
	}
}

func guardConds(gs []*Guard) string {
	var ss []string
	for _, g := range gs {
		ss = append(ss, g.Cond)
	}
	return strings.Join(ss, " ; ")
}

func n2(w *World, r *Report) {
	w.checkWriters(r, "N-2", pkgCT, "Account", "Nonce", map[string]string{
		"types.(*Account).AddNonce": "the +1 primitive",
		"types.(*Account).SetNonce": "EVM write-back primitive",
		"types.(*Account).Decode":   "decoding a stored account",
	})
	an := needFn(r, "N-2", w, fref{pkgCT, "Account", "AddNonce"})
	if an != nil {
		ok := false
		for _, fs := range w.fieldStores(an) {
			if fs.Field.Name() == "Nonce" && w.Canon(fs.Val) == "(recv.Nonce + 1)" {
				ok = true
			}
		}
		r.Check(ok, "N-2", "AddNonce:plus-one", "AddNonce stores Nonce+1", "AddNonce does not raise the nonce by exactly one", fnSite(w, an))
	}
	w.checkCallers(r, "N-2", fref{pkgCT, "Account", "AddNonce"}, map[string]string{"node.postRunTrx": "the single place where a native transaction's nonce is consumed"}, 1)
	w.checkCallers(r, "N-2", fref{pkgCT, "Account", "SetNonce"}, map[string]string{"evm.(*StateDBWrapper).Finish": "copies the EVM's nonce back after a contract execution"}, 1)
}

// codeMarkerStable: the routing decision table takes "the receiver has code" as an
// input that is the same when runTrx routes the transaction and when postRunTrx
// decides who consumes nonce and fee. That holds only if nothing changes an
// account's code marker while a transaction executes, except marking the account a
// deployment has just created: Account.Code has a closed set of writers and
// SetCode a closed set of callers, and the account it is applied to is the one at
// the created contract's address.
func codeMarkerStable(w *World, r *Report, rule string) {
	w.checkWriters(r, rule, pkgCT, "Account", "Code", map[string]string{
		"types.(*Account).SetCode": "the marker primitive",
		"types.(*Account).Decode":  "decoding a stored account",
	})
	w.checkCallers(r, rule, fref{pkgCT, "Account", "SetCode"}, map[string]string{"evm.(*EVMCtrler).ExecuteTrx": "marks the account created by a deployment", "account.(*AcctCtrler).SetCode": "controller API that nothing calls (its callers are checked next)"}, 1)
	if w.Method("ctrlers/account", "AcctCtrler", "SetCode") != nil {
		w.checkCallers(r, rule, fref{"ctrlers/account", "AcctCtrler", "SetCode"}, map[string]string{}, 0)
	}
	ex := needFn(r, rule, w, fref{pkgEVM, "EVMCtrler", "ExecuteTrx"})
	if ex == nil {
		return
	}
	n, bad := 0, ""
	for _, hf := range w.withModuleCallees(ex, 2) {
		for _, c := range w.callsTo(hf, fref{pkgCT, "Account", "SetCode"}) {
			n++
			rcv, _ := callRecvArgs(c.Common())
			if rcv == nil || !w.inCallerTerms(ex, hf, func() bool {
				rc := w.CanonDeep(rcv)
				return strings.Contains(rc, "crypto.CreateAddress(") && !strings.Contains(rc, "p0.Receiver") && !strings.Contains(rc, "p0.Sender")
			}) {
				bad = site(w, c)
			}
		}
	}
	r.Check(n > 0 && bad == "", rule, "SetCode:created-account-only", "the code marker is set only on the account at the address the deployment created", "the code marker of an account other than the freshly created contract is changed during execution ("+bad+"): the routing of the running transaction is evaluated twice and would disagree with itself", fnSite(w, ex))
}

// txAbs is one abstract transaction for the routing decision table.
type txAbs struct {
	typ     int64
	hasCode bool
	exec    bool
}

func (w *World) evalTxCond(a txAbs) func(ssa.Value) (bool, bool) {
	return func(c ssa.Value) (bool, bool) {
		s := w.Canon(c)
		neg := false
		for strings.HasPrefix(s, "!") {
			neg = !neg
			s = s[1:]
		}
		if k, ok := matchTxType(s); ok {
			return (a.typ == k) != neg, true
		}
		if strings.Contains(s, " != ") {
			if k, ok := matchTxType(strings.Replace(s, " != ", " == ", 1)); ok {
				return (a.typ != k) != neg, true
			}
		}
		switch s {
		case "(p0.Receiver.Code != nil)":
			return a.hasCode != neg, true
		case "(p0.Receiver.Code == nil)":
			return !a.hasCode != neg, true
		case "p0.Exec":
			return a.exec != neg, true
		case "(p0.Exec == false)":
			return !a.exec != neg, true
		case "(p0.Exec == true)":
			return a.exec != neg, true
		}
		return false, false
	}
}

func n3(w *World, r *Report) { routingTable(w, r, "N-3") }

// routingTable evaluates runTrx and postRunTrx on every abstract transaction
// (type x receiver-has-code x exec) and reports one obligation per row under rule.
func routingTable(w *World, r *Report, rule string) {
	run := needFn(r, rule, w, fref{"node", "", "runTrx"})
	post := needFn(r, rule, w, fref{"node", "", "postRunTrx"})
	if run == nil || post == nil {
		return
	}
	evRun := func(in ssa.Instruction) string {
		c, ok := in.(ssa.CallInstruction)
		if !ok {
			return ""
		}
		if c.Common().IsInvoke() && c.Common().Method.Name() == "ExecuteTrx" {
			// the controller may be picked by a selection helper: what it returns for this abstract transaction
			s := w.canonOnPathFallible(c.Common().Value)
			arg := ""
			if len(c.Common().Args) == 1 {
				arg = w.Canon(c.Common().Args[0])
			}
			// inside a function literal of runTrx the context is the enclosing function's parameter
			if f := in.Parent(); f != nil && f.Parent() == run {
				s, arg = strings.ReplaceAll(s, "^p0", "p0"), strings.ReplaceAll(arg, "^p0", "p0")
			}
			if arg == "p0" {
				return strings.TrimPrefix(s, "p0.")
			}
			return "ExecuteTrx(other ctx)"
		}
		if f := c.Common().StaticCallee(); f != nil && f.Name() == "postRunTrx" {
			return "postRunTrx"
		}
		return ""
	}
	evPost := func(in ssa.Instruction) string {
		c, ok := in.(ssa.CallInstruction)
		if !ok {
			if st, isS := in.(*ssa.Store); isS && w.Canon(st.Addr) == "p0.GasUsed" {
				return "GasUsed=" + w.Canon(st.Val)
			}
			return ""
		}
		labels := map[string]string{
			"p0.Sender.AddNonce()": "AddNonce",
			"p0.AcctHandler.SetAccountCommittable(p0.Sender, p0.Exec)": "Mark",
			"p0.Sender.SubBalance(" + feeExpr + ")":                    "SubFee",
		}
		if l, ok := labels[w.canonCallI(c.Common())]; ok {
			return l
		}
		// the call as written, with only its arguments' helpers inlined (the callee
		// itself may be a one-line wrapper, which canonCallI would look through)
		if f := c.Common().StaticCallee(); f != nil && f.Signature.Recv() != nil && len(c.Common().Args) > 0 {
			var as []string
			for _, a := range c.Common().Args[1:] {
				as = append(as, w.CanonI(a))
			}
			return labels[w.Canon(c.Common().Args[0])+"."+f.Name()+"("+strings.Join(as, ", ")+")"]
		}
		return ""
	}
	// any other AddNonce / nonce-relevant call in postRunTrx is reported
	for _, c := range CallsIn(post) {
		nm := callName(c.Common())
		if (nm == "AddNonce" || nm == "SetNonce") && evPost(c) == "" {
			r.Violate(rule, "postRunTrx:foreign-nonce-update:"+w.canonCall(c.Common(), 0), "postRunTrx changes a nonce other than ctx.Sender's", nil, site(w, c))
		}
	}
	native := map[int64]string{1: "TrxAcctHandler", 7: "TrxAcctHandler", 2: "TrxStakeHandler", 3: "TrxStakeHandler", 8: "TrxStakeHandler", 4: "TrxGovHandler", 5: "TrxGovHandler", 6: "TrxEVMHandler"}
	for typ := int64(1); typ <= 9; typ++ {
		for _, hasCode := range []bool{false, true} {
			for _, exec := range []bool{false, true} {
				a := txAbs{typ, hasCode, exec}
				key := fmt.Sprintf("table:type=%d,receiverHasCode=%v,exec=%v", typ, hasCode, exec)
				rp, c1 := w.enumPaths(run, w.evalTxCond(a), evRun, 200)
				pp, c2 := w.enumPaths(post, w.evalTxCond(a), evPost, 200)
				if !c1 || !c2 {
					r.Undecided(rule, key, "path enumeration did not complete")
					continue
				}
				wantHandler := native[typ]
				if typ == 1 && hasCode {
					wantHandler = "TrxEVMHandler"
				}
				// runTrx: every success path calls exactly wantHandler then postRunTrx
				bad := ""
				nOK := 0
				for _, p := range rp {
					if p.Term == "err" {
						continue
					}
					nOK++
					ev := strings.Join(p.Events, ",")
					if wantHandler == "" {
						bad = "an unknown transaction type reaches a success return: " + ev
					} else if ev != wantHandler+",postRunTrx" {
						bad = "success path runs [" + ev + "], expected [" + wantHandler + ",postRunTrx]"
					}
				}
				if wantHandler != "" && nOK == 0 {
					bad = "no success path"
				}
				// postRunTrx (only meaningful when runTrx can reach it for this input)
				reaches := false
				for _, p := range rp {
					for _, e := range p.Events {
						if e == "postRunTrx" {
							reaches = true
						}
					}
				}
				if !reaches {
					pp = nil
				}
				for _, p := range pp {
					if p.Term == "err" {
						continue
					}
					ev := strings.Join(p.Events, ",")
					if wantHandler == "TrxEVMHandler" || wantHandler == "" {
						if strings.Contains(ev, "AddNonce") || strings.Contains(ev, "SubFee") {
							bad = "EVM-routed transaction also passes the native nonce/fee step: " + ev
						}
					} else if ev != "SubFee,AddNonce,Mark,GasUsed=p0.Tx.Gas" {
						bad = "native success path is [" + ev + "], expected [SubFee,AddNonce,Mark,GasUsed=p0.Tx.Gas]"
					}
				}
				if bad == "" {
					r.OK(rule, key, fmt.Sprintf("handler %q; fee (gas limit x price) and nonce consumed natively: %v", wantHandler, wantHandler != "TrxEVMHandler" && wantHandler != ""), fnSite(w, run), fnSite(w, post))
				} else {
					r.Violate(rule, key, bad, nil, fnSite(w, run), fnSite(w, post))
				}
			}
		}
	}
}

// evmMessageDeep: the (single) call of evmMessage with nonce checking enabled that
// EVMCtrler.ExecuteTrx reaches (in itself or in helpers, three levels), its
// arguments printed in ExecuteTrx's terms (parameter objects and helper
// parameters resolved), the function that contains it, and whether
// core.ApplyMessage in that function runs exactly that message.
type evmMsgSite struct {
	Fn      *ssa.Function
	Call    ssa.CallInstruction
	Args    []string
	Applied bool
	ToFrom  string // source of the copy into the destination address, in ExecuteTrx's terms
}

func (w *World) evmMessageDeep(ex *ssa.Function) *evmMsgSite {
	var found *evmMsgSite
	n := 0
	for _, g := range w.withModuleCallees(ex, 3) {
		for _, c := range w.callsTo(g, fref{"ctrlers/vm/evm", "", "evmMessage"}) {
			a := c.Common().Args
			if len(a) != 8 {
				continue
			}
			if fake, isC := constBool(a[7]); !isC || fake {
				continue
			}
			site := &evmMsgSite{Fn: g, Call: c}
			ok := w.inCallerTerms(ex, g, func() bool {
				site.Args = nil
				for _, x := range a {
					site.Args = append(site.Args, w.Canon(x))
				}
				site.ToFrom = ""
				for _, c2 := range CallsIn(g) {
					if bi, isB := c2.Common().Value.(*ssa.Builtin); isB && bi.Name() == "copy" && len(c2.Common().Args) == 2 {
						site.ToFrom = w.Canon(c2.Common().Args[1])
					}
				}
				return true
			})
			if !ok {
				continue
			}
			for _, am := range w.callsTo(g, fref{"github.com/ethereum/go-ethereum/core", "", "ApplyMessage"}) {
				if sameValue(am.Common().Args[1], callValue(c)) {
					site.Applied = true
				}
			}
			// reached from ExecuteTrx only if g is ExecuteTrx or every chain kept starts there
			found = site
			n++
		}
	}
	if n != 1 {
		return nil
	}
	return found
}

func n4(w *World, r *Report) {
	ex := needFn(r, "N-4", w, fref{"ctrlers/vm/evm", "EVMCtrler", "ExecuteTrx"})
	if ex != nil {
		cs := w.callsTo(ex, fref{"ctrlers/vm/evm", "EVMCtrler", "execVM"})
		ok := len(cs) == 1
		if ok {
			_, a := callRecvArgs(cs[0].Common())
			ok = len(a) == 8 && w.Canon(a[0]) == "p0.Tx.From" && w.Canon(a[1]) == "p0.Tx.To" && w.Canon(a[2]) == "p0.Tx.Nonce" && w.Canon(a[3]) == "p0.Tx.Gas" && w.Canon(a[5]) == "p0.Tx.Amount"
		}
		var deep *evmMsgSite
		if !ok {
			// arranged differently (a parameter object, another helper): the message that
			// ExecuteTrx reaches, in ExecuteTrx's own terms
			if deep = w.evmMessageDeep(ex); deep != nil {
				a := deep.Args
				ok = strings.HasPrefix(a[0], "p0.Tx.From") && a[2] == "p0.Tx.Nonce" && a[3] == "p0.Tx.Gas" && a[5] == "p0.Tx.Amount" && (deep.ToFrom == "p0.Tx.To" || a[1] == "p0.Tx.To")
			}
		}
		r.Check(ok, "N-4", "ExecuteTrx:execVM-args", "the EVM message is built from the transaction's own sender, receiver, nonce, gas and amount", "execVM is not given the transaction's own sender/receiver/nonce/gas/amount", fnSite(w, ex))
		if ok && deep != nil {
			r.OK("N-4", "execVM:nonce-checked", "the message ExecuteTrx reaches carries the tx nonce and isFake=false (decided on the call chain from ExecuteTrx)", site(w, deep.Call))
			r.Check(deep.Applied, "N-4", "execVM:applies-that-message", "ApplyMessage runs exactly that message", "ApplyMessage does not run the message built from the transaction", site(w, deep.Call))
			w.n4Deep = true
		}
	}
	ev := needFn(r, "N-4", w, fref{"ctrlers/vm/evm", "EVMCtrler", "execVM"})
	if w.n4Deep {
		ev = nil
		w.n4Deep = false
	}
	if ev != nil {
		cs := w.callsTo(ev, fref{"ctrlers/vm/evm", "", "evmMessage"})
		ok := len(cs) == 1
		if ok {
			a := cs[0].Common().Args
			fake, isC := constBool(a[7])
			ok = len(a) == 8 && w.Canon(a[2]) == "p2" && w.Canon(a[3]) == "p3" && isC && !fake
		}
		r.Check(ok, "N-4", "execVM:nonce-checked", "the message carries the tx nonce and isFake=false, so the EVM checks and bumps the nonce", "the EVM message does not carry the transaction nonce with nonce checking enabled (contract transactions could be replayed)", fnSite(w, ev))
		am := w.callsTo(ev, fref{"github.com/ethereum/go-ethereum/core", "", "ApplyMessage"})
		ok2 := len(am) == 1 && len(cs) == 1 && sameValue(am[0].Common().Args[1], callValue(cs[0]))
		r.Check(ok2, "N-4", "execVM:applies-that-message", "ApplyMessage runs exactly that message", "ApplyMessage does not run the message built from the transaction", fnSite(w, ev))
	}
	em := needFn(r, "N-4", w, fref{"ctrlers/vm/evm", "", "evmMessage"})
	if em != nil {
		cs := w.callsTo(em, fref{"github.com/ethereum/go-ethereum/core/types", "", "NewMessage"})
		ok := len(cs) == 1
		if ok {
			a := cs[0].Common().Args
			ok = len(a) == 11 && w.Canon(a[0]) == "p0" && w.Canon(a[1]) == "p1" && w.Canon(a[2]) == "p2" && w.Canon(a[4]) == "p3" && w.Canon(a[10]) == "p7"
		}
		r.Check(ok, "N-4", "evmMessage:fields", "from, to, nonce, gas limit and isFake are passed through unchanged", "evmMessage does not pass from/to/nonce/gas/isFake through unchanged", fnSite(w, em))
	}
	fin := needFn(r, "N-4", w, fref{"ctrlers/vm/evm", "StateDBWrapper", "Finish"})
	if fin != nil {
		_, okN, why := w.finishWriteBack(fin)
		ok, inLoop := okN, true
		_ = why
		r.Check(ok && inLoop, "N-4", "Finish:nonce-write-back", "for every accessed address the EVM's nonce is copied to the account, which is then marked in the overlay selected by the wrapper's exec flag", "Finish does not copy the EVM nonce back to every accessed account before marking it", fnSite(w, fin))
	}
}

// ledgerItemTypeName: the item type a ledger value is instantiated with ("" when unknown).
func ledgerItemTypeName(t types.Type) string {
	t = deref(t)
	if a, ok := t.(*types.Alias); ok {
		t = types.Unalias(a)
	}
	n, ok := t.(*types.Named)
	if !ok || n.TypeArgs() == nil || n.TypeArgs().Len() == 0 {
		return ""
	}
	it, ok := deref(n.TypeArgs().At(0)).(*types.Named)
	if !ok {
		return ""
	}
	return it.Obj().Name()
}

// n10 — the nonce lives in the account record, so the record outlives every
// block: nothing in the node removes an item of an account ledger. A removed
// account is re-created with nonce 0 the next time the address is touched, and
// every transaction it ever signed can be delivered again.
func n10(w *World, r *Report) {
	nSites := 0
	var bad []string
	var sites []string
	for _, fn := range w.nodeFuncs() {
		for _, b := range fn.Blocks {
			for _, in := range b.Instrs {
				if c, ok := in.(ssa.CallInstruction); ok {
					for _, a := range w.ledgerArms(c) {
						if ledgerItemTypeName(a.Recv.Type()) != "Account" {
							continue
						}
						nSites++
						if a.Method == "Del" || a.Method == "DelFinality" {
							bad = append(bad, w.FName(fn)+": "+w.canonCall(c.Common(), 0))
							sites = append(sites, site(w, c))
						}
					}
					continue
				}
				// a removal picked as a method value (fn := ledger.Del)
				if mc, ok := in.(*ssa.MakeClosure); ok && len(mc.Bindings) == 1 && isLedgerType(mc.Bindings[0].Type()) && ledgerItemTypeName(mc.Bindings[0].Type()) == "Account" {
					if f, ok := mc.Fn.(*ssa.Function); ok && strings.HasSuffix(f.Name(), "$bound") {
						nSites++
						if nm := strings.TrimSuffix(f.Name(), "$bound"); nm == "Del" || nm == "DelFinality" {
							bad = append(bad, w.FName(fn)+": method value "+nm)
							sites = append(sites, site(w, in))
						}
					}
				}
			}
		}
	}
	r.Extra["n10_account_ledger_sites"] = nSites
	if nSites < 4 {
		r.Undecided("N-10", "account-records-never-removed", fmt.Sprintf("only %d operations on an account ledger were found (floor 4)", nSites))
		return
	}
	if len(bad) == 0 {
		r.OK("N-10", "account-records-never-removed", fmt.Sprintf("none of the %d operations on a ledger of accounts removes an item: an account, once created, keeps its nonce for ever", nSites), "ctrlers/account/ctrler.go")
	} else {
		r.Violate("N-10", "account-records-never-removed", "an account record can be removed from the ledger: the address is re-created with nonce 0 when it is next touched and every transaction it signed before can take effect again: "+strings.Join(bad, "; "), nil, sites...)
	}
}
