package main

// flow.go — A4/A5 of DESIGN.md: guards, dominance of edges, must-pass-through,
// nil-ness of returned errors, call-site enumeration.

import (
	"fmt"
	"go/constant"
	"go/token"
	"go/types"
	"os"
	"regexp"
	"sort"
	"strings"
	"sync"

	"golang.org/x/tools/go/ssa"
)

type tri int

const (
	triNil tri = iota
	triNonNil
	triUnknown
	triNA
)

var errorIface = types.Universe.Lookup("error").Type().Underlying().(*types.Interface)

func isErrorType(t types.Type) bool {
	if t == nil {
		return false
	}
	if _, ok := t.Underlying().(*types.Interface); !ok {
		return false
	}
	return types.Implements(t, errorIface)
}

// errResultIndex returns the index of the last error-typed result of fn, or -1.
func errResultIndex(fn *ssa.Function) int {
	res := fn.Signature.Results()
	for i := res.Len() - 1; i >= 0; i-- {
		if isErrorType(res.At(i).Type()) {
			return i
		}
	}
	return -1
}

// edgeDominates: does the CFG edge b->s dominate block p?
func edgeDominates(b, s, p *ssa.BasicBlock) bool {
	if s != p && !s.Dominates(p) {
		return false
	}
	for _, q := range s.Preds {
		if q == b {
			continue
		}
		if q == s || s.Dominates(q) {
			continue // back edge
		}
		return false
	}
	// b must actually be a predecessor
	for _, q := range s.Preds {
		if q == b {
			return true
		}
	}
	return false
}

// condEdge describes the branch literal that holds on entry to block p because
// of If instruction `i`: +1 true edge dominates p, -1 false edge, 0 neither.
func condEdge(i *ssa.If, p *ssa.BasicBlock) int {
	b := i.Block()
	if len(b.Succs) != 2 {
		return 0
	}
	t, f := b.Succs[0], b.Succs[1]
	if t == f {
		return 0
	}
	if edgeDominates(b, t, p) {
		return 1
	}
	if edgeDominates(b, f, p) {
		return -1
	}
	return 0
}

// valueNonNilAt: is v known non-nil on entry to block p (p dominated by the
// true edge of `v != nil` or the false edge of `v == nil`)?
func (w *World) valueNonNilAt(v ssa.Value, p *ssa.BasicBlock) bool {
	return w.nilTestAt(v, p) == 1
}

// nilTestAt returns +1 if v is known non-nil at p, -1 if known nil, 0 unknown.
func (w *World) nilTestAt(v ssa.Value, p *ssa.BasicBlock) int {
	fn := p.Parent()
	for _, b := range fn.Blocks {
		ifi, ok := lastInstr(b).(*ssa.If)
		if !ok {
			continue
		}
		bo, ok := ifi.Cond.(*ssa.BinOp)
		if !ok || (bo.Op != token.NEQ && bo.Op != token.EQL) {
			continue
		}
		var other ssa.Value
		if sameValue(bo.X, v) {
			other = bo.Y
		} else if sameValue(bo.Y, v) {
			other = bo.X
		} else {
			continue
		}
		c, ok := other.(*ssa.Const)
		if !ok || !c.IsNil() {
			continue
		}
		e := condEdge(ifi, p)
		if e == 0 {
			continue
		}
		nonNilOnTrue := bo.Op == token.NEQ
		if (e == 1) == nonNilOnTrue {
			return 1
		}
		return -1
	}
	return 0
}

// sameValue: identical SSA value, looking through interface/type changes.
func sameValue(a, b ssa.Value) bool {
	return stripConv(a) == stripConv(b)
}

func stripConv(v ssa.Value) ssa.Value {
	for {
		switch x := v.(type) {
		case *ssa.ChangeType:
			v = x.X
		case *ssa.ChangeInterface:
			v = x.X
		case *ssa.MakeInterface:
			v = x.X
		default:
			return v
		}
	}
}

func lastInstr(b *ssa.BasicBlock) ssa.Instruction {
	if len(b.Instrs) == 0 {
		return nil
	}
	return b.Instrs[len(b.Instrs)-1]
}

// errState classifies the error operand of a return.
func (w *World) errState(ret *ssa.Return) tri {
	fn := ret.Parent()
	idx := errResultIndex(fn)
	if idx < 0 || idx >= len(ret.Results) {
		return triNA
	}
	if fn.Recover != nil && ret.Block() == fn.Recover {
		// only reached after a recovered panic; never a normal (success) exit
		return triNonNil
	}
	return w.valueErrState(retResult(ret, idx), ret.Block(), 0)
}

// retResult returns result #idx of ret, looking through the spill that go/ssa
// inserts in functions with defers (`*resultVar = v; rundefers; return *resultVar`).
func retResult(ret *ssa.Return, idx int) ssa.Value {
	v := ret.Results[idx]
	u, ok := v.(*ssa.UnOp)
	if !ok || u.Op != token.MUL {
		return v
	}
	a, ok := u.X.(*ssa.Alloc)
	if !ok {
		return v
	}
	b := ret.Block()
	for hops := 0; hops < 4 && b != nil; hops++ {
		for i := len(b.Instrs) - 1; i >= 0; i-- {
			if st, ok := b.Instrs[i].(*ssa.Store); ok && st.Addr == a {
				return st.Val
			}
		}
		if len(b.Preds) != 1 {
			break
		}
		b = b.Preds[0]
	}
	return v
}

func (w *World) valueErrState(v ssa.Value, at *ssa.BasicBlock, d int) tri {
	if d > 6 {
		return triUnknown
	}
	v0 := v
	v = stripConv(v)
	if c, ok := v.(*ssa.Const); ok {
		if c.IsNil() {
			return triNil
		}
		return triNonNil
	}
	if v0 != v {
		// a concrete value was boxed into the interface
		if _, ok := v0.(*ssa.MakeInterface); ok {
			if _, isPtr := v.Type().Underlying().(*types.Pointer); !isPtr {
				return triNonNil
			}
		}
	}
	switch w.nilTestAt(v0, at) {
	case 1:
		return triNonNil
	case -1:
		return triNil
	}
	switch x := v.(type) {
	case *ssa.UnOp:
		if x.Op == token.MUL {
			if _, ok := x.X.(*ssa.Global); ok {
				return triNonNil // package-level error value (xerrors.ErrXxx)
			}
		}
	case *ssa.Call:
		if fn := x.Common().StaticCallee(); fn != nil {
			p := w.FuncPkgPath(fn)
			if strings.HasSuffix(p, "/types/xerrors") {
				switch fn.Name() {
				case "Wrap", "Wrapf", "New", "NewOrdinary", "From", "Cause":
					return triNonNil
				}
			}
			if p == "fmt" && fn.Name() == "Errorf" || p == "errors" && fn.Name() == "New" {
				return triNonNil
			}
		} else if x.Common().IsInvoke() {
			switch x.Common().Method.Name() {
			case "Wrap", "Wrapf":
				if isErrorType(x.Common().Value.Type()) {
					return triNonNil
				}
			}
		}
	case *ssa.Phi:
		allNil, allNon := true, true
		for i, e := range x.Edges {
			st := w.valueErrState(e, x.Block().Preds[i], d+1)
			if st != triNil {
				allNil = false
			}
			if st != triNonNil {
				allNon = false
			}
		}
		if allNil {
			return triNil
		}
		if allNon {
			return triNonNil
		}
	}
	return triUnknown
}

// ---- guards

type Guard struct {
	If    *ssa.If
	CondI string // Cond with simple helpers inlined
	Cond  string // canonical condition under which the function FAILS
	Pass  *ssa.BasicBlock
	Fail  *ssa.BasicBlock
}

// failsOnly: every path from b ends in a return whose error operand is not
// provably nil, or in a panic. Exact over the CFG (memoised DFS; a back edge to
// a block on the current path is ignored: that path does not terminate).
func (w *World) failsOnly(b *ssa.BasicBlock, memo map[*ssa.BasicBlock]int) bool {
	switch memo[b] {
	case 1: // on stack
		return true
	case 2:
		return true
	case 3:
		return false
	}
	memo[b] = 1
	res := false
	switch t := lastInstr(b).(type) {
	case *ssa.Return:
		st := w.errState(t)
		res = st == triNonNil
	case *ssa.Panic:
		res = true
	case *ssa.Jump, *ssa.If:
		res = len(b.Succs) > 0
		for _, s := range b.Succs {
			if !w.failsOnly(s, memo) {
				res = false
				break
			}
		}
	}
	if res {
		memo[b] = 2
	} else {
		memo[b] = 3
	}
	return res
}

// Guards lists the failing guards of fn: If instructions one of whose
// successors leads only to error returns / panics, while the other does not.
func (w *World) Guards(fn *ssa.Function) []*Guard {
	var out []*Guard
	for _, b := range fn.Blocks {
		ifi, ok := lastInstr(b).(*ssa.If)
		if !ok || len(b.Succs) != 2 {
			continue
		}
		t, f := b.Succs[0], b.Succs[1]
		tf := w.failsOnly(t, map[*ssa.BasicBlock]int{})
		ff := w.failsOnly(f, map[*ssa.BasicBlock]int{})
		c := w.Canon(ifi.Cond)
		ci := w.CanonI(ifi.Cond)
		switch {
		case tf && !ff:
			out = append(out, &Guard{If: ifi, Cond: c, CondI: ci, Pass: f, Fail: t})
		case ff && !tf:
			out = append(out, &Guard{If: ifi, Cond: negateCond(c), CondI: negateCond(ci), Pass: t, Fail: f})
		}
	}
	return out
}

// GuardsDeep: the failing guards of fn and of the module functions it calls
// statically (validation arms moved into helpers), to the given depth.
func (w *World) GuardsDeep(fn *ssa.Function, depth int) []*Guard {
	seen := map[*ssa.Function]bool{}
	var out []*Guard
	var rec func(f *ssa.Function, d int)
	rec = func(f *ssa.Function, d int) {
		if f == nil || f.Blocks == nil || seen[f] {
			return
		}
		seen[f] = true
		out = append(out, w.Guards(f)...)
		if d == 0 {
			return
		}
		for _, c := range CallsIn(f) {
			if cal := c.Common().StaticCallee(); cal != nil && w.InModule(cal) {
				rec(cal, d-1)
			}
		}
		for _, an := range f.AnonFuncs {
			rec(an, d-1)
		}
		// handlers picked from a literal dispatch table
		for _, b := range f.Blocks {
			for _, in := range b.Instrs {
				if lk, ok := in.(*ssa.Lookup); ok {
					if lm := w.literalMap(stripConv(lk.X)); lm != nil {
						for _, ent := range lm.Entries {
							if cal, _ := w.calleeOfValue(ent.Val); cal != nil && w.InModule(cal) {
								rec(cal, d-1)
							}
						}
					}
				}
			}
		}
	}
	rec(fn, depth)
	return out
}

// Protects: does guard g dominate block p through its pass edge?
func (g *Guard) Protects(p *ssa.BasicBlock) bool {
	return edgeDominates(g.If.Block(), g.Pass, p)
}

// FindGuard returns the guards of fn whose canonical failing condition satisfies match.
func (w *World) FindGuards(fn *ssa.Function, match func(cond string) bool) []*Guard {
	var out []*Guard
	for _, g := range w.Guards(fn) {
		if match(g.Cond) || g.CondI != g.Cond && match(g.CondI) {
			out = append(out, g)
		}
	}
	return out
}

// ---- instruction positions and paths

type ipos struct {
	b *ssa.BasicBlock
	i int
}

func posOf(in ssa.Instruction) ipos {
	b := in.Block()
	for i, x := range b.Instrs {
		if x == in {
			return ipos{b, i}
		}
	}
	return ipos{b, 0}
}

// instrDominates: a executes before b on every path to b.
func instrDominates(a, b ssa.Instruction) bool {
	pa, pb := posOf(a), posOf(b)
	if pa.b == pb.b {
		return pa.i < pb.i
	}
	return pa.b.Dominates(pb.b)
}

// exitsAvoiding walks forward from (start block, index) and returns the
// terminating instructions (Return/Panic) reachable without executing an
// instruction for which avoid(in) is true. cut(in) = true stops the walk on
// that path silently (used to prune error edges).
func exitsAvoiding(start ipos, avoid func(ssa.Instruction) bool, edgeOK func(from *ssa.BasicBlock, to *ssa.BasicBlock) bool) []ssa.Instruction {
	var exits []ssa.Instruction
	seen := map[*ssa.BasicBlock]bool{}
	var walk func(b *ssa.BasicBlock, from int)
	walk = func(b *ssa.BasicBlock, from int) {
		for i := from; i < len(b.Instrs); i++ {
			in := b.Instrs[i]
			if avoid != nil && avoid(in) {
				return
			}
			switch in.(type) {
			case *ssa.Return, *ssa.Panic:
				exits = append(exits, in)
				return
			}
		}
		for _, s := range b.Succs {
			if edgeOK != nil && !edgeOK(b, s) {
				continue
			}
			if seen[s] {
				continue
			}
			seen[s] = true
			walk(s, 0)
		}
	}
	walk(start.b, start.i)
	return exits
}

// reachableInstrs: can `to` execute after `from` (same activation)?
func instrReaches(from, to ssa.Instruction) bool {
	pf, pt := posOf(from), posOf(to)
	if pf.b == pt.b && pf.i < pt.i {
		return true
	}
	seen := map[*ssa.BasicBlock]bool{}
	var q []*ssa.BasicBlock
	q = append(q, pf.b.Succs...)
	for len(q) > 0 {
		b := q[0]
		q = q[1:]
		if seen[b] {
			continue
		}
		seen[b] = true
		if b == pt.b {
			return true
		}
		q = append(q, b.Succs...)
	}
	return false
}

// ---- call sites

type CallSite struct {
	In     ssa.CallInstruction
	Callee *ssa.Function // static callee or nil
	Name   string        // method / function name
}

// calleeName returns the resolved callee's name (static or interface method).
func callName(c *ssa.CallCommon) string {
	if c.IsInvoke() {
		return c.Method.Name()
	}
	if f := c.StaticCallee(); f != nil {
		if o := f.Origin(); o != nil {
			return o.Name()
		}
		return f.Name()
	}
	return ""
}

// calleeObj returns the types.Func called (interface method or static function).
func calleeObj(c *ssa.CallCommon) *types.Func {
	if c.IsInvoke() {
		return c.Method
	}
	if f := c.StaticCallee(); f != nil {
		if o := f.Origin(); o != nil {
			f = o
		}
		if obj, ok := f.Object().(*types.Func); ok {
			return obj
		}
	}
	return nil
}

// recvNamed returns the named receiver type of the called method (through
// pointers), or nil.
func recvNamed(c *ssa.CallCommon) *types.Named {
	var t types.Type
	if c.IsInvoke() {
		t = c.Value.Type()
	} else if f := c.StaticCallee(); f != nil && f.Signature.Recv() != nil {
		t = f.Signature.Recv().Type()
	} else {
		return nil
	}
	t = deref(t)
	if a, ok := t.(*types.Alias); ok {
		t = types.Unalias(a)
	}
	n, _ := t.(*types.Named)
	return n
}

// namedIs: is n the type pkgPath.name (generic origin compared)?
func namedIs(n *types.Named, pkgPath, name string) bool {
	if n == nil {
		return false
	}
	n = n.Origin()
	o := n.Obj()
	return o != nil && o.Name() == name && o.Pkg() != nil && o.Pkg().Path() == pkgPath
}

// CallsIn lists call instructions (call/go/defer) in fn, in block order.
func CallsIn(fn *ssa.Function) []ssa.CallInstruction {
	var out []ssa.CallInstruction
	for _, b := range fn.Blocks {
		for _, in := range b.Instrs {
			if c, ok := in.(ssa.CallInstruction); ok {
				out = append(out, c)
			}
		}
	}
	return out
}

// callRecvArgs splits a call into receiver and arguments regardless of
// invoke/static mode.
func callRecvArgs(c *ssa.CallCommon) (ssa.Value, []ssa.Value) {
	if c.IsInvoke() {
		return c.Value, c.Args
	}
	if f := c.StaticCallee(); f != nil && f.Signature.Recv() != nil && len(c.Args) > 0 {
		return c.Args[0], c.Args[1:]
	}
	return nil, c.Args
}

func sortedKeys(m map[string]bool) []string {
	var out []string
	for k := range m {
		out = append(out, k)
	}
	sort.Strings(out)
	return out
}

// ---- abstract path enumeration (decision tables)

type pathEnd struct {
	Events []string
	Term   string // ok | err | unknown | panic | loop
	Ret    *ssa.Return
	RetErr ssa.Value // the error result as the path carries it (phis resolved), if any
}

// enumPaths walks the CFG of fn from its entry. eval decides branch conditions
// under an abstract input (known=false explores both successors); event labels
// the instructions of interest. The enumeration is bounded by max paths.
//
// The walk is robust against ordinary restructuring of the code:
//   - boolean values are evaluated path-sensitively: a phi produced by `a && b`
//     or by a named boolean local takes the value of the edge the path came by;
//   - a condition that is a call of a pure boolean module helper is evaluated on
//     the helper's own CFG with its parameters bound to the caller's arguments;
//   - a call of a module function whose body (transitively) contains an event is
//     expanded in line (callee parameters bound to the arguments), so extracting
//     part of a function into a helper does not hide its events;
//   - arrivals at a block with the same event history, boolean phi choices and
//     loop state are merged, so branches without events do not multiply paths.
func (w *World) enumPaths(fn *ssa.Function, eval func(cond ssa.Value) (val bool, known bool), event func(in ssa.Instruction) string, max int) ([]pathEnd, bool) {
	e := &enumerator{w: w, eval: eval, event: event, max: max, complete: true, evCache: map[ssa.Instruction]string{}, hasEv: map[*ssa.Function]int{}, pathSensitiveEvents: w.psEvents, expandPanics: w.expandPanics, expandAll: w.expandAll, maxDepth: w.enumDepth, callResults: w.callResultsOn}
	if len(fn.Blocks) == 0 {
		return nil, true
	}
	e.walkFn(fn, nil, 0, func(ev []string, ret *ssa.Return, term string) {

		e.out = append(e.out, pathEnd{append([]string(nil), ev...), term, ret, e.retErr})
	})
	return e.out, e.complete
}

type enumerator struct {
	w        *World
	eval     func(ssa.Value) (bool, bool)
	event    func(ssa.Instruction) string
	max      int
	out      []pathEnd
	complete bool
	evCache  map[ssa.Instruction]string
	hasEv    map[*ssa.Function]int // 0 unknown, 1 yes, 2 no, 3 in progress
	nAct     int
	// pathSensitiveEvents: labels may depend on the path (they use ResolveOnPath)
	pathSensitiveEvents bool
	// decided: branch taken earlier on this path for a condition that cannot change
	// during the call (the exec flag, a boolean parameter, a captured copy of one);
	// later tests of the same flag — also in expanded closures — follow it
	decided map[string]bool
	// startBlock/stopBlock (outermost activation only): walk one pass from
	// startBlock; arriving at stopBlock again ends the path with term "back"
	// (w.cur then holds the phi bindings of that arrival)
	startBlock, stopBlock *ssa.BasicBlock
	retErr                ssa.Value
	// fnEnv: function values bound to function-typed parameters of the helpers
	// being expanded (innermost last)
	fnEnv []map[*ssa.Parameter]ssa.Value
	// maxDepth: how deep event-bearing callees are expanded (default 2)
	maxDepth int
	// expandPanics: also expand callees that contain a panic
	expandPanics bool
	expandAll    bool
	hdrMemo      map[*ssa.BasicBlock]*ssa.BasicBlock
	// callResults: the results of an expanded helper print, after the call, as what
	// the helper returned on the path taken through it
	callResults bool
	retCanon    []string
}

type pathState struct {
	onPath map[*ssa.BasicBlock]int
	phi    map[*ssa.Phi]ssa.Value
	// callTerm: how an expanded callee returned on this path (ok | err | unknown)
	callTerm map[*ssa.Call]string
	// defers registered on this path of the activation (run at RunDefers)
	defers []*ssa.Defer
	// ival: concrete integer values of phis on this path (loop indices over literal tables)
	ival map[*ssa.Phi]int64
	// mem: local arrays / slices written at concrete indices on this path:
	// the value stored (as the path carries it) and its canonical form at that time
	mem map[memKey]memVal
	// concrete: blocks whose branch the path decided by integer evaluation (headers
	// of loops over literal tables: these may be unrolled)
	concrete map[*ssa.BasicBlock]bool
	// lookups: what a lookup in a literal dispatch table yields on this path
	lookups map[*ssa.Lookup]lookupBinding
	// keyFact: what the path knows about a table key (canonical form of the key
	// expression): the entry it equals, or that it equals none of the table's keys
	keyFact map[string]keyFact
	// nilFact: values compared with nil at a branch the path took (+1 non-nil, -1 nil)
	nilFact map[nilKey]int
	// callRes: canonical results of helpers expanded on this path (enumerator.callResults)
	callRes map[*ssa.Call][]string
}

type memKey struct {
	base ssa.Value
	idx  int64
}

type memVal struct {
	v ssa.Value
	s string
}

func (e *enumerator) label(in ssa.Instruction, depth int) string {
	if e.pathSensitiveEvents {
		return e.event(in)
	}
	if depth > 0 {
		return e.event(in) // canonical strings depend on the inlining environment
	}
	if s, ok := e.evCache[in]; ok {
		return s
	}
	s := e.event(in)
	e.evCache[in] = s
	return s
}

// bearsEvents: does fn (or a module callee, two levels down) contain an event?
func (e *enumerator) bearsEvents(fn *ssa.Function, d int) bool {
	if fn == nil || fn.Blocks == nil || !e.w.InModule(fn) || d > 2 {
		return false
	}
	switch e.hasEv[fn] {
	case 1:
		return true
	case 2, 3:
		return false
	}
	e.hasEv[fn] = 3
	res := false
	// on request, a helper that can panic is walked in line (its panic is then decided
	// with everything the path knows: loop indices, local arrays, table elements)
	if e.expandPanics && hasPanic(fn) {
		res = true
	}
	// on request, every module function outside the ledger package is walked in line
	// (its calls through handed-down values are then resolved with the caller's arguments)
	if e.expandAll && e.w.InModule(fn) && !inLedgerPkg(e.w, fn) {
		res = true
	}
	for _, b := range fn.Blocks {
		for _, in := range b.Instrs {
			if e.event(in) != "" {
				res = true
			}
			if c, ok := in.(*ssa.Call); ok && !res {
				if cal := c.Common().StaticCallee(); cal != nil && cal != fn && e.bearsEvents(cal, d+1) {
					res = true
				}
				// a closure handed to the callee may be called there
				for _, a := range c.Common().Args {
					if _, isSig := a.Type().Underlying().(*types.Signature); isSig {
						if f, _ := e.w.calleeOfValue(a); f != nil && f != fn && e.bearsEvents(f, d+1) {
							res = true
						}
					}
				}
			}
			if df, ok := in.(*ssa.Defer); ok && !res {
				if f, _ := e.w.calleeOfValue(df.Common().Value); f != nil && f != fn && e.bearsEvents(f, d+1) {
					res = true
				}
			}
		}
	}
	if res {
		e.hasEv[fn] = 1
	} else {
		e.hasEv[fn] = 2
	}
	return res
}

func (e *enumerator) walkFn(fn *ssa.Function, ev []string, depth int, k func(ev []string, ret *ssa.Return, term string)) {
	e.nAct++
	act := e.nAct
	reach := blockReach(fn)
	visited := map[string]bool{}
	st := &pathState{onPath: map[*ssa.BasicBlock]int{}, phi: map[*ssa.Phi]ssa.Value{}, ival: map[*ssa.Phi]int64{}, mem: map[memKey]memVal{}}
	sig := func(b *ssa.BasicBlock, from int, ev []string) string {
		var lp []string
		for ob, c := range st.onPath {
			if c > 0 && reach[b.Index][ob.Index] {
				lp = append(lp, fmt.Sprintf("%d:%d", ob.Index, c))
			}
		}
		sort.Strings(lp)
		var ph []string
		for p, v := range st.phi {
			if isBoolType(p.Type()) {
				ph = append(ph, p.Name()+"="+v.Name())
				continue
			}
			// which of several results an error / pointer variable carries decides later
			// nil tests on this path
			switch p.Type().Underlying().(type) {
			case *types.Interface, *types.Pointer, *types.Signature:
				if p.Block() != nil && reach[p.Block().Index][b.Index] || p.Block() == b {
					ph = append(ph, p.Name()+"="+v.Name())
				}
			}
		}
		sort.Strings(ph)
		// what the path has learnt at its branches is part of its state
		var fs []string
		for k, v := range st.nilFact {
			fs = append(fs, fmt.Sprintf("n%s#%d=%d", k.v.Name(), k.n, v))
		}
		for k, v := range st.keyFact {
			if v.hit {
				fs = append(fs, "k"+k+"="+v.key)
			} else {
				fs = append(fs, "k"+k+"=none")
			}
		}
		sort.Strings(fs)
		return fmt.Sprintf("%d|%d.%d|%s|%s|%s|%s", act, b.Index, from, strings.Join(ev, "\x00"), strings.Join(lp, ","), strings.Join(ph, ","), strings.Join(fs, ","))
	}
	var walk func(b *ssa.BasicBlock, from int, ev []string)
	enter := func(pred, b *ssa.BasicBlock, ev []string) {
		// bind the phis of b to the edge taken
		idx := -1
		for i, p := range b.Preds {
			if p == pred {
				idx = i
			}
		}
		var saved []struct {
			p  *ssa.Phi
			v  ssa.Value
			h  bool
			iv int64
			ih bool
		}
		// concrete values of the incoming integers, computed before any phi of the block changes
		type newInt struct {
			p  *ssa.Phi
			v  int64
			ok bool
		}
		var ints []newInt
		for _, in := range b.Instrs {
			ph, ok := in.(*ssa.Phi)
			if !ok {
				break
			}
			if idx >= 0 {
				if iv, okI := e.evalInt(ph.Edges[idx], st, 0); okI {
					ints = append(ints, newInt{ph, iv, true})
				} else {
					ints = append(ints, newInt{ph, 0, false})
				}
			}
		}
		for _, in := range b.Instrs {
			ph, ok := in.(*ssa.Phi)
			if !ok {
				break
			}
			old, had := st.phi[ph]
			oi, hi := st.ival[ph]
			saved = append(saved, struct {
				p  *ssa.Phi
				v  ssa.Value
				h  bool
				iv int64
				ih bool
			}{ph, old, had, oi, hi})
			if idx >= 0 {
				st.phi[ph] = ph.Edges[idx]
			}
		}
		for _, ni := range ints {
			if ni.ok {
				st.ival[ni.p] = ni.v
			} else {
				delete(st.ival, ni.p)
			}
		}
		walk(b, 0, ev)
		for _, sv := range saved {
			if sv.h {
				st.phi[sv.p] = sv.v
			} else {
				delete(st.phi, sv.p)
			}
			if sv.ih {
				st.ival[sv.p] = sv.iv
			} else {
				delete(st.ival, sv.p)
			}
		}
	}
	walk = func(b *ssa.BasicBlock, from int, ev []string) {
		if len(e.out) >= e.max {
			e.complete = false
			return
		}
		nDefers := len(st.defers)
		defer func() { st.defers = st.defers[:nDefers] }()
		if from == 0 {
			if depth == 0 && e.stopBlock == b && st.onPath[b] >= 1 {
				e.w.cur = &pathCtxt{st: st, eval: e.eval}
				k(ev, nil, "back")
				return
			}
			if st.onPath[b] >= e.loopLimit(b, st) {
				k(ev, nil, "loop")
				return
			}
			key := sig(b, from, ev)
			if os.Getenv("RIGOCHECK_DEBUG") == "trace:"+fn.Name() {
				fmt.Fprintln(os.Stderr, "TRACE", depth, b.Index, b.Comment, visited[key], len(ev))
			}
			if visited[key] {
				return
			}
			visited[key] = true
			st.onPath[b]++
			defer func() { st.onPath[b]-- }()
		}
		for i := from; i < len(b.Instrs); i++ {
			in := b.Instrs[i]
			e.w.cur = &pathCtxt{st: st, eval: e.eval}
			lbl := e.label(in, depth)
			if lbl != "" {
				ev = append(append([]string(nil), ev...), lbl)
			}
			switch t := in.(type) {
			case *ssa.Call:
				cal := t.Common().StaticCallee()
				callArgs := t.Common().Args
				if cal == nil && !t.Common().IsInvoke() {
					// a function value the path determines: a handler picked in a switch, a
					// bound method, a closure held in a local
					fv := e.resolve(t.Common().Value, st)
					// a function-typed parameter of a helper being expanded: what the caller passed
					if pr, isParam := fv.(*ssa.Parameter); isParam {
						for j := len(e.fnEnv) - 1; j >= 0; j-- {
							if av, ok := e.fnEnv[j][pr]; ok {
								fv = av
								break
							}
						}
					}
					if f, rcv := e.w.calleeOfValue(fv); f != nil {
						cal = f
						if rcv != nil {
							callArgs = append([]ssa.Value{rcv}, callArgs...)
						}
					}
				}
				if t.Common().IsInvoke() {
					// a method of an interface value whose dynamic type the path determines (an
					// element of a literal table of handlers)
					iv := e.resolve(t.Common().Value, st)
					if pr, isParam := iv.(*ssa.Parameter); isParam {
						for q := len(e.fnEnv) - 1; q >= 0; q-- {
							if v2, ok := e.fnEnv[q][pr]; ok {
								iv = v2
								break
							}
						}
					}
					if mi, isMI := iv.(*ssa.MakeInterface); isMI {
						if m := e.w.Prog.LookupMethod(mi.X.Type(), t.Common().Method.Pkg(), t.Common().Method.Name()); m != nil && e.w.InModule(m) {
							cal = m
							callArgs = append([]ssa.Value{mi.X}, t.Common().Args...)
						}
					}
				}
				// a function value handed to the callee may be called there: its events count
				argEvents := false
				if cal != nil && cal != fn && lbl == "" && e.w.InModule(cal) {
					for _, a := range callArgs {
						if _, isSig := a.Type().Underlying().(*types.Signature); isSig {
							if f, _ := e.w.calleeOfValue(e.resolve(a, st)); f != nil && f != fn && f != cal && e.bearsEvents(f, 0) {
								argEvents = true
							}
						}
					}
				}
				if cal != nil && cal != fn && depth < e.depthLimit() && lbl == "" && (e.bearsEvents(cal, 0) || argEvents) && len(cal.Params) == len(callArgs) {
					env := map[*ssa.Parameter]string{}
					for j, p := range cal.Params {
						// arguments are printed with helper results resolved, so a value
						// computed by one helper and handed to the next keeps its identity
						e.w.cur = &pathCtxt{st: st, eval: e.eval}
						av := e.resolve(callArgs[j], st)
						env[p] = e.w.canonResolved(av)
						e.w.noteInlinedTwin(env[p], av)
					}
					next := i + 1
					e.w.inlineEnv = append(e.w.inlineEnv, env)
					depthEnv := len(e.w.inlineEnv)
					defer e.w.bindStructArgs(cal, callArgs)()
					// function values handed down (a closure to be called by the helper)
					fenv := map[*ssa.Parameter]ssa.Value{}
					for j, p := range cal.Params {
						switch p.Type().Underlying().(type) {
						case *types.Signature, *types.Interface:
							av := e.resolve(callArgs[j], st)
							// an argument that is itself a parameter bound further up
							if pr, isParam := av.(*ssa.Parameter); isParam {
								for q := len(e.fnEnv) - 1; q >= 0; q-- {
									if v2, ok := e.fnEnv[q][pr]; ok {
										av = v2
										break
									}
								}
							}
							fenv[p] = av
						}
					}
					e.fnEnv = append(e.fnEnv, fenv)
					defer func() { e.fnEnv = e.fnEnv[:len(e.fnEnv)-1] }()
					e.walkFn(cal, ev, depth+1, func(ev2 []string, ret *ssa.Return, term string) {
						if term == "panic" || term == "loop" {
							k(ev2, nil, term)
							return
						}
						if st.callTerm == nil {
							st.callTerm = map[*ssa.Call]string{}
						}
						oldTerm, hadTerm := st.callTerm[t]
						st.callTerm[t] = term
						defer func() {
							if hadTerm {
								st.callTerm[t] = oldTerm
							} else {
								delete(st.callTerm, t)
							}
						}()
						if e.callResults && ret != nil && len(e.retCanon) > 0 {
							if st.callRes == nil {
								st.callRes = map[*ssa.Call][]string{}
							}
							oldRes, hadRes := st.callRes[t]
							st.callRes[t] = append([]string(nil), e.retCanon...)
							defer func() {
								if hadRes {
									st.callRes[t] = oldRes
								} else {
									delete(st.callRes, t)
								}
							}()
						}
						// continue the caller after the call, outside the callee's environment
						// (a copy: appending to the truncated slice would overwrite the
						// callee's frame, which is needed again for its other paths)
						savedEnv := e.w.inlineEnv
						e.w.inlineEnv = append([]map[*ssa.Parameter]string(nil), e.w.inlineEnv[:depthEnv-1]...)
						walk(b, next, ev2)
						e.w.inlineEnv = savedEnv
					})
					e.w.inlineEnv = e.w.inlineEnv[:depthEnv-1]
					return
				}
				// a callee that is not expanded may still never return under the
				// current abstract input (it panics on every feasible path): the
				// caller's path ends here
				if cal != nil && cal != fn && depth < e.depthLimit() && e.w.InModule(cal) && cal.Blocks != nil && len(cal.Params) == len(t.Common().Args) && hasPanic(cal) {
					env := map[*ssa.Parameter]string{}
					for j, p := range cal.Params {
						env[p] = e.w.Canon(e.resolve(t.Common().Args[j], st))
					}
					e.w.inlineEnv = append(e.w.inlineEnv, env)
					returns := e.w.canReturn(cal, e.eval, depth+1)
					e.w.inlineEnv = e.w.inlineEnv[:len(e.w.inlineEnv)-1]
					if !returns {
						k(ev, nil, "panic")
						return
					}
				}
			case *ssa.Lookup:
				// a lookup in a literal dispatch table: one continuation per entry the
				// key can equal, and the miss
				if lm := e.w.literalMap(stripConv(e.resolve(t.X, st))); lm != nil {
					e.w.forkLookup(t, lm, st, e.eval, e.resolve(t.Index, st), func() { walk(b, i+1, ev) })
					return
				}
			case *ssa.Store:
				// a write into a local array / slice at a concrete index, or into a
				// local variable that only this function reads and writes
				if key, isCell := cellKeyOfAddr(t.Addr, st); isCell {
					old, had := st.mem[key]
					rv := e.resolve(t.Val, st)
					e.w.cur = &pathCtxt{st: st, eval: e.eval}
					st.mem[key] = memVal{rv, e.w.canonOnPathFallible(rv)}
					defer func() {
						if had {
							st.mem[key] = old
						} else {
							delete(st.mem, key)
						}
					}()
				}
			case *ssa.Defer:
				st.defers = append(st.defers, t)
			case *ssa.RunDefers:
				// deferred closures that bear events run here, last registered first
				ds := append([]*ssa.Defer(nil), st.defers...)
				next := i + 1
				var runFrom func(idx int, ev []string)
				runFrom = func(idx int, ev []string) {
					for ; idx >= 0; idx-- {
						d := ds[idx]
						cal, _ := e.w.calleeOfValue(d.Common().Value)
						if sc := d.Common().StaticCallee(); sc != nil {
							cal = sc
						}
						if cal == nil || cal == fn || depth >= e.depthLimit() || !e.bearsEvents(cal, 0) || len(cal.Params) != len(d.Common().Args) {
							continue
						}
						env := map[*ssa.Parameter]string{}
						for j, p := range cal.Params {
							env[p] = e.w.Canon(e.resolve(d.Common().Args[j], st))
						}
						e.w.inlineEnv = append(e.w.inlineEnv, env)
						depthEnv := len(e.w.inlineEnv)
						rest := idx - 1
						e.walkFn(cal, ev, depth+1, func(ev2 []string, ret *ssa.Return, term string) {
							if term == "panic" || term == "loop" {
								k(ev2, nil, term)
								return
							}
							savedEnv := e.w.inlineEnv
							e.w.inlineEnv = append([]map[*ssa.Parameter]string(nil), e.w.inlineEnv[:depthEnv-1]...)
							runFrom(rest, ev2)
							e.w.inlineEnv = savedEnv
						})
						e.w.inlineEnv = e.w.inlineEnv[:depthEnv-1]
						return
					}
					walk(b, next, ev)
				}
				if len(ds) > 0 {
					runFrom(len(ds)-1, ev)
					return
				}
			case *ssa.Return:
				e.retErr = nil
				if idx := errResultIndex(fn); idx >= 0 && idx < len(t.Results) {
					e.retErr = e.resolve(stripConv(retResult(t, idx)), st)
				}
				e.retCanon = nil
				if e.callResults && depth > 0 && len(t.Results) <= 4 {
					// what the helper hands back on this path, in the caller's terms
					e.w.cur = &pathCtxt{st: st, eval: e.eval}
					for idx := range t.Results {
						e.retCanon = append(e.retCanon, e.w.canonResolved(e.resolve(stripConv(retResult(t, idx)), st)))
					}
				}
				k(ev, t, e.termOf(t, st, fn))
				return
			case *ssa.Panic:
				k(ev, nil, "panic")
				return
			case *ssa.If:
				v, known := e.w.evalBool(t.Cond, st, e.eval, 0)
				if !known {
					// an integer comparison the path decides (index of a loop over a literal table)
					if bo, isBO := t.Cond.(*ssa.BinOp); isBO {
						if a, ok1 := e.evalInt(bo.X, st, 0); ok1 {
							if c, ok2 := e.evalInt(bo.Y, st, 0); ok2 {
								switch bo.Op {
								case token.LSS:
									v, known = a < c, true
								case token.LEQ:
									v, known = a <= c, true
								case token.GTR:
									v, known = a > c, true
								case token.GEQ:
									v, known = a >= c, true
								case token.EQL:
									v, known = a == c, true
								case token.NEQ:
									v, known = a != c, true
								}
								if known {
									if st.concrete == nil {
										st.concrete = map[*ssa.BasicBlock]bool{}
									}
									st.concrete[b] = true
								}
							}
						}
					}
				}
				cs, cs2 := "", ""
				if e.w.branchMarkers {
					cs = e.w.Canon(t.Cond)
					// the same condition with phis replaced by the value the path carries
					e.w.phiSubst = st.phi
					cs2 = e.w.Canon(t.Cond)
					e.w.phiSubst = nil
				}
				mark := func(ev []string, taken bool) []string {
					out := append([]string(nil), ev...)
					if e.w.branchMarkers {
						pre := "?F:"
						if taken {
							pre = "?T:"
						}
						out = append(out, pre+cs)
						if cs2 != cs {
							out = append(out, pre+cs2)
						}
					}
					return out
				}
				if !known {
					if key, neg := e.w.stableFlag(t.Cond); key != "" {
						if e.decided == nil {
							e.decided = map[string]bool{}
						}
						if dv, ok := e.decided[key]; ok {
							v, known = dv != neg, true
						} else {
							for _, choice := range []bool{true, false} {
								e.decided[key] = choice != neg
								if choice {
									enter(b, b.Succs[0], mark(ev, true))
								} else {
									enter(b, b.Succs[1], mark(ev, false))
								}
							}
							delete(e.decided, key)
							return
						}
					}
				}
				// the branch taken tells whether a value compared with nil is nil on the
				// rest of the path (a later load of the same local sees the same value)
				var tested ssa.Value
				nilOnTrue := false
				if bo, isBO := t.Cond.(*ssa.BinOp); isBO && (bo.Op == token.EQL || bo.Op == token.NEQ) {
					for _, pr := range [][2]ssa.Value{{bo.X, bo.Y}, {bo.Y, bo.X}} {
						if c, isC := pr[1].(*ssa.Const); isC && c.IsNil() {
							if rv := stripConv(e.resolve(stripConv(pr[0]), st)); rv != nil {
								switch rv.(type) {
								case *ssa.Call, *ssa.Extract:
									tested, nilOnTrue = rv, bo.Op == token.EQL
								}
							}
						}
					}
				}
				// a pure boolean helper of the tested value (`isFailure(xerr)`): what its
				// answer says about the argument being nil
				type nilTest struct {
					v               ssa.Value
					onTrue, onFalse int
				}
				var helperTests []nilTest
				if hc, isCall := t.Cond.(*ssa.Call); isCall && tested == nil {
					if cal := hc.Common().StaticCallee(); cal != nil && !hc.Common().IsInvoke() && len(cal.Params) == len(hc.Common().Args) {
						for _, im := range e.w.helperNilImplications(cal) {
							if rv := stripConv(e.resolve(stripConv(hc.Common().Args[im.param]), st)); rv != nil {
								switch rv.(type) {
								case *ssa.Call, *ssa.Extract:
									helperTests = append(helperTests, nilTest{rv, im.onTrue, im.onFalse})
								}
							}
						}
					}
				}
				branch := func(taken bool, succ *ssa.BasicBlock) {
					for _, ht := range helperTests {
						f := ht.onFalse
						if taken {
							f = ht.onTrue
						}
						if f == 0 {
							continue
						}
						if st.nilFact == nil {
							st.nilFact = map[nilKey]int{}
						}
						tk := st.nk(ht.v)
						old, had := st.nilFact[tk]
						st.nilFact[tk] = f
						defer func() {
							if had {
								st.nilFact[tk] = old
							} else {
								delete(st.nilFact, tk)
							}
						}()
					}
					if tested != nil {
						if st.nilFact == nil {
							st.nilFact = map[nilKey]int{}
						}
						tk := st.nk(tested)
						old, had := st.nilFact[tk]
						if taken == nilOnTrue {
							st.nilFact[tk] = -1
						} else {
							st.nilFact[tk] = 1
						}
						defer func() {
							if had {
								st.nilFact[tk] = old
							} else {
								delete(st.nilFact, tk)
							}
						}()
					}
					enter(b, succ, mark(ev, taken))
				}
				if os.Getenv("RIGOCHECK_DEBUG") == "eb" && depth == 0 {
					fmt.Fprintln(os.Stderr, "EB", e.w.InstrPos(t), e.w.Canon(t.Cond), "known", known, "v", v, "tested", tested != nil)
				}
				if !known || v {
					branch(true, b.Succs[0])
				}
				if !known || !v {
					branch(false, b.Succs[1])
				}
				return
			case *ssa.Jump:
				enter(b, b.Succs[0], ev)
				return
			}
		}
	}
	if depth == 0 && e.startBlock != nil {
		walk(e.startBlock, 0, ev)
		return
	}
	walk(fn.Blocks[0], 0, ev)
}

// termOf: ok | err | unknown for a return; the result of an expanded callee is
// known from how that callee returned on this path.
func (e *enumerator) termOf(ret *ssa.Return, st *pathState, fn *ssa.Function) string {
	switch e.w.errState(ret) {
	case triNonNil:
		return "err"
	case triNil:
		return "ok"
	}
	if idx := errResultIndex(fn); idx >= 0 && idx < len(ret.Results) {
		v := e.resolve(stripConv(retResult(ret, idx)), st)
		var call *ssa.Call
		switch y := stripConv(v).(type) {
		case *ssa.Call:
			call = y
		case *ssa.Extract:
			call, _ = y.Tuple.(*ssa.Call)
		}
		if call != nil {
			if t, ok := st.callTerm[call]; ok && (t == "ok" || t == "err") {
				return t
			}
		}
		if c, ok := v.(*ssa.Const); ok {
			if c.IsNil() {
				return "ok"
			}
			return "err"
		}
		switch st.nilFact[st.nk(stripConv(v))] {
		case 1:
			return "err"
		case -1:
			return "ok"
		}
		// a forwarded result of a module function whose feasible returns agree
		switch e.w.nilnessOnPath(v, st, e.eval, 0) {
		case -1:
			return "ok"
		case 1:
			return "err"
		}
	}
	return "unknown"
}

// calleeOfValue: the function a function value stands for — a function, a
// closure, or a bound method value (then also its receiver).
func (w *World) calleeOfValue(v ssa.Value) (*ssa.Function, ssa.Value) {
	switch y := stripConv(v).(type) {
	case *ssa.Function:
		// a method expression used as a function value
		if m := thunkTarget(y); m != nil {
			return m, nil
		}
		return y, nil
	case *ssa.MakeClosure:
		f, ok := y.Fn.(*ssa.Function)
		if !ok {
			return nil, nil
		}
		if strings.HasSuffix(f.Name(), "$bound") && len(y.Bindings) == 1 {
			// the wrapper's body is one call of the method on its free variable
			for _, b := range f.Blocks {
				for _, in := range b.Instrs {
					if c, isC := in.(*ssa.Call); isC {
						if m := c.Common().StaticCallee(); m != nil {
							return m, y.Bindings[0]
						}
					}
				}
			}
			return nil, nil
		}
		return f, nil
	}
	return nil, nil
}

// CalleeOnPath: the callee of a dynamic call as the path being enumerated
// determines it (nil when it does not), with the receiver of a bound method.
func (w *World) CalleeOnPath(c ssa.CallInstruction) (*ssa.Function, ssa.Value) {
	if f := c.Common().StaticCallee(); f != nil {
		return f, nil
	}
	if c.Common().IsInvoke() {
		return nil, nil
	}
	return w.calleeOfValue(w.phiOnPath(c.Common().Value))
}

func (e *enumerator) depthLimit() int {
	if e.maxDepth > 0 {
		return e.maxDepth
	}
	return 2
}

// memCellOf: v reads one cell of a local aggregate — `*(&a[i])`, or `(*a)[i]` on
// an array value loaded as a whole; returns the aggregate and the index value.
func memCellOf(v ssa.Value) (ssa.Value, ssa.Value, bool) {
	switch x := v.(type) {
	case *ssa.UnOp:
		if x.Op == token.MUL {
			if ia, ok := x.X.(*ssa.IndexAddr); ok {
				if base := localArrayBase(ia.X); base != nil {
					return base, ia.Index, true
				}
			}
		}
	case *ssa.Index:
		if ld, ok := x.X.(*ssa.UnOp); ok && ld.Op == token.MUL {
			if base := localArrayBase(ld.X); base != nil {
				return base, x.Index, true
			}
		}
	}
	return nil, nil, false
}

// cellKeyOfAddr: the cell of path memory an address denotes — an element of a
// local aggregate at an index the path fixes, or a local variable that is only
// stored to and loaded from directly in its function (e.g. a named result that a
// defer keeps in memory).
func cellKeyOfAddr(addr ssa.Value, st *pathState) (memKey, bool) {
	switch a := addr.(type) {
	case *ssa.IndexAddr:
		if base := localArrayBase(a.X); base != nil {
			if ix, ok := evalIntSt(a.Index, st, 0); ok {
				return memKey{base, ix}, true
			}
		}
	case *ssa.Alloc:
		if privateScalar(a) {
			return memKey{a, -1}, true
		}
	}
	return memKey{}, false
}

var privateScalarMemo sync.Map

// privateScalar: a local that is not an aggregate and whose address is used for
// nothing but direct stores and loads.
func privateScalar(a *ssa.Alloc) bool {
	if v, ok := privateScalarMemo.Load(a); ok {
		return v.(bool)
	}
	ok := true
	switch deref(a.Type()).Underlying().(type) {
	case *types.Array, *types.Struct:
		ok = false
	}
	if refs := a.Referrers(); refs == nil {
		ok = false
	} else {
		for _, r := range *refs {
			switch x := r.(type) {
			case *ssa.Store:
				if x.Addr != a || x.Val == ssa.Value(a) {
					ok = false
				}
			case *ssa.UnOp:
				if x.Op != token.MUL {
					ok = false
				}
			case *ssa.DebugRef:
			default:
				ok = false
			}
		}
	}
	privateScalarMemo.Store(a, ok)
	return ok
}

// loadCell: what the path stored in the cell that v loads, if anything.
func loadCell(v ssa.Value, st *pathState) (memVal, bool) {
	if st == nil || len(st.mem) == 0 {
		return memVal{}, false
	}
	switch x := v.(type) {
	case *ssa.UnOp:
		if x.Op == token.MUL {
			if key, ok := cellKeyOfAddr(x.X, st); ok {
				mv, ok := st.mem[key]
				return mv, ok
			}
		}
	case *ssa.Index:
		if base, idx, isCell := memCellOf(x); isCell {
			if ix, ok := evalIntSt(idx, st, 0); ok {
				mv, ok := st.mem[memKey{base, ix}]
				return mv, ok
			}
		}
	}
	return memVal{}, false
}

// nilKey: a value as one dynamic instance — the SSA value together with how often
// the path has entered its defining block (a value computed in a loop body is a
// new value in every iteration).
type nilKey struct {
	v ssa.Value
	n int
}

func (st *pathState) nk(v ssa.Value) nilKey {
	n := 0
	if in, ok := v.(ssa.Instruction); ok && in.Block() != nil {
		n = st.onPath[in.Block()]
	}
	return nilKey{v, n}
}

type keyFact struct {
	hit  bool
	key  string
	none map[string]bool // on a miss: the keys it does not equal
}

// lookupValue: the value a lookup in a literal dispatch table yields on this path
// (the entry's value / the zero value, and the comma-ok flag).
func lookupValue(v ssa.Value, st *pathState) (ssa.Value, bool) {
	if st == nil || len(st.lookups) == 0 {
		return nil, false
	}
	switch x := v.(type) {
	case *ssa.Lookup:
		if b, ok := st.lookups[x]; ok && !x.CommaOk {
			if b.Hit {
				return b.Val, true
			}
			return zeroConst(x.Type()), true
		}
	case *ssa.Extract:
		if lk, isL := x.Tuple.(*ssa.Lookup); isL {
			if b, ok := st.lookups[lk]; ok {
				if x.Index == 1 {
					return ssa.NewConst(constant.MakeBool(b.Hit), types.Typ[types.Bool]), true
				}
				if b.Hit {
					return b.Val, true
				}
				return zeroConst(x.Type()), true
			}
		}
	}
	return nil, false
}

func zeroConst(t types.Type) ssa.Value {
	switch u := t.Underlying().(type) {
	case *types.Basic:
		switch {
		case u.Info()&types.IsBoolean != 0:
			return ssa.NewConst(constant.MakeBool(false), t)
		case u.Info()&types.IsString != 0:
			return ssa.NewConst(constant.MakeString(""), t)
		case u.Info()&types.IsNumeric != 0:
			return ssa.NewConst(constant.MakeInt64(0), t)
		}
	}
	return ssa.NewConst(nil, t)
}

// keyEquals: does the key expression equal the entry's constant on this path?
func (e *enumerator) keyEquals(key ssa.Value, k ssa.Value, kc string, st *pathState) (bool, bool) {
	return keyEqualsSt(e.resolve(key, st), key, k, kc, st, e.eval)
}

func keyEqualsSt(resolved, key ssa.Value, k ssa.Value, kc string, st *pathState, eval func(ssa.Value) (bool, bool)) (bool, bool) {
	kk := k.(*ssa.Const)
	if c, ok := stripConv(resolved).(*ssa.Const); ok && c.Value != nil && kk.Value != nil {
		return constant.Compare(c.Value, token.EQL, kk.Value), true
	}
	if f, ok := st.keyFact[kc]; ok {
		if f.hit {
			return f.key == keyString(k), true
		}
		if f.none[keyString(k)] {
			return false, true
		}
	}
	// what the rule's abstract input says about `key == k`
	return eval(&ssa.BinOp{Op: token.EQL, X: key, Y: k})
}

// forkLookup: the continuations of a lookup in a literal dispatch table — one per
// entry the key can equal on this path, and the miss; cont runs with the binding
// in place.
func (w *World) forkLookup(t *ssa.Lookup, lm *litMap, st *pathState, eval func(ssa.Value) (bool, bool), resolved ssa.Value, cont func()) {
	kc := w.Canon(resolved)
	var cands []int
	hitKnown := false
	for j, ent := range lm.Entries {
		eq, known := keyEqualsSt(resolved, t.Index, ent.Key, kc, st, eval)
		if known && eq {
			cands = []int{j}
			hitKnown = true
			break
		}
		if !known {
			cands = append(cands, j)
		}
	}
	if st.lookups == nil {
		st.lookups = map[*ssa.Lookup]lookupBinding{}
	}
	if st.keyFact == nil {
		st.keyFact = map[string]keyFact{}
	}
	oldB, hadB := st.lookups[t]
	oldF, hadF := st.keyFact[kc]
	for _, j := range cands {
		ent := lm.Entries[j]
		st.lookups[t] = lookupBinding{Val: ent.Val, Key: ent.Key, Hit: true}
		st.keyFact[kc] = keyFact{hit: true, key: keyString(ent.Key)}
		cont()
	}
	if !hitKnown {
		all := map[string]bool{}
		for _, ent := range lm.Entries {
			all[keyString(ent.Key)] = true
		}
		if !(hadF && oldF.hit && all[oldF.key]) {
			st.lookups[t] = lookupBinding{}
			st.keyFact[kc] = keyFact{none: all}
			cont()
		}
	}
	if hadB {
		st.lookups[t] = oldB
	} else {
		delete(st.lookups, t)
	}
	if hadF {
		st.keyFact[kc] = oldF
	} else {
		delete(st.keyFact, kc)
	}
}

// localArrayBase: the local aggregate (array alloc, make([]T, n)) an indexed
// address refers to, through slicing of the whole array; nil for anything else.
func localArrayBase(v ssa.Value) ssa.Value {
	for i := 0; i < 4; i++ {
		switch x := v.(type) {
		case *ssa.Alloc:
			if _, isArr := deref(x.Type()).Underlying().(*types.Array); isArr {
				return x
			}
			return nil
		case *ssa.MakeSlice:
			return x
		case *ssa.Slice:
			if x.Low != nil {
				if k, ok := constInt(x.Low); !ok || k != 0 {
					return nil
				}
			}
			v = x.X
		default:
			return nil
		}
	}
	return nil
}

// evalInt: the concrete value of an integer on the current path (constants, loop
// indices bound by the path, sums and differences, lengths of local aggregates).
func (e *enumerator) evalInt(v ssa.Value, st *pathState, d int) (int64, bool) {
	return evalIntSt(v, st, d)
}

func evalIntSt(v ssa.Value, st *pathState, d int) (int64, bool) {
	if d > 8 {
		return 0, false
	}
	switch x := v.(type) {
	case *ssa.Const:
		return constInt(x)
	case *ssa.Phi:
		if st != nil {
			if iv, ok := st.ival[x]; ok {
				return iv, true
			}
		}
	case *ssa.Convert:
		return evalIntSt(x.X, st, d+1)
	case *ssa.BinOp:
		a, ok1 := evalIntSt(x.X, st, d+1)
		b, ok2 := evalIntSt(x.Y, st, d+1)
		if ok1 && ok2 {
			switch x.Op {
			case token.ADD:
				return a + b, true
			case token.SUB:
				return a - b, true
			case token.MUL:
				return a * b, true
			}
		}
	case *ssa.Call:
		if bi, ok := x.Common().Value.(*ssa.Builtin); ok && (bi.Name() == "len" || bi.Name() == "cap") && len(x.Common().Args) == 1 {
			return lenOfSt(x.Common().Args[0], st, d+1)
		}
	}
	return 0, false
}

// lenOf: the length of a local aggregate whose size the code fixes.
func lenOfSt(v ssa.Value, st *pathState, d int) (int64, bool) {
	switch x := v.(type) {
	case *ssa.Slice:
		if x.Low == nil && x.High == nil {
			if a, ok := x.X.(*ssa.Alloc); ok {
				if arr, isArr := deref(a.Type()).Underlying().(*types.Array); isArr {
					return arr.Len(), true
				}
			}
		}
	case *ssa.MakeSlice:
		return evalIntSt(x.Len, st, d+1)
	case *ssa.UnOp:
		if x.Op == token.MUL {
			if a, ok := x.X.(*ssa.Alloc); ok {
				if arr, isArr := deref(a.Type()).Underlying().(*types.Array); isArr {
					return arr.Len(), true
				}
			}
		}
	case *ssa.Alloc:
		if arr, isArr := deref(x.Type()).Underlying().(*types.Array); isArr {
			return arr.Len(), true
		}
	}
	return 0, false
}

// loopLimit: a loop whose exit test the path decides concretely (a loop over a
// literal table) may be unrolled; any other loop is cut after one pass.
func (e *enumerator) loopLimit(b *ssa.BasicBlock, st *pathState) int {
	if len(st.concrete) == 0 {
		return 2
	}
	if st.concrete[b] {
		return 12
	}
	// a block of the body of such a loop
	if e.hdrMemo == nil {
		e.hdrMemo = map[*ssa.BasicBlock]*ssa.BasicBlock{}
	}
	h, ok := e.hdrMemo[b]
	if !ok {
		h = loopHeaderOf(b)
		e.hdrMemo[b] = h
	}
	for h != nil {
		if st.concrete[h] {
			return 12
		}
		// an enclosing loop
		var outer *ssa.BasicBlock
		for _, c := range h.Parent().Blocks {
			if c != h && c.Dominates(h) && reachesBlock(h, c) && len(c.Preds) > 1 {
				if outer == nil || outer.Dominates(c) {
					outer = c
				}
			}
		}
		h = outer
	}
	return 2
}

func isBoolType(t types.Type) bool {
	b, ok := t.Underlying().(*types.Basic)
	return ok && b.Info()&types.IsBoolean != 0
}

// resolve replaces a phi by the value of the edge the current path came by.
func (e *enumerator) resolve(v ssa.Value, st *pathState) ssa.Value {
	for i := 0; i < 8; i++ {
		// a load from a local cell written on this path
		if mv, ok := loadCell(v, st); ok && mv.v != v {
			v = mv.v
			continue
		}
		if lv, ok := lookupValue(v, st); ok {
			v = lv
			continue
		}
		ph, ok := v.(*ssa.Phi)
		if !ok {
			return v
		}
		nv, ok := st.phi[ph]
		if !ok {
			return v
		}
		v = nv
	}
	return v
}

// evalBool evaluates a boolean SSA value on the current path: constants,
// negation, phis bound by the path, pure boolean helpers (evaluated on their own
// CFG with parameters bound to the arguments); everything else goes to eval.
func (w *World) evalBool(v ssa.Value, st *pathState, eval func(ssa.Value) (bool, bool), depth int) (bool, bool) {
	switch x := v.(type) {
	case *ssa.Const:
		if x.Value != nil && x.Value.Kind() == constant.Bool {
			return constant.BoolVal(x.Value), true
		}
	case *ssa.Parameter:
		// a flag of a helper being evaluated for a call that passes a constant
		if isBoolType(x.Type()) {
			for i := len(w.inlineEnv) - 1; i >= 0; i-- {
				if s, ok := w.inlineEnv[i][x]; ok {
					switch s {
					case "true":
						return true, true
					case "false":
						return false, true
					}
					break
				}
			}
		}
	case *ssa.Extract:
		if lv, ok := lookupValue(x, st); ok {
			if c, isC := lv.(*ssa.Const); isC && c.Value != nil && c.Value.Kind() == constant.Bool {
				return constant.BoolVal(c.Value), true
			}
		}
		// a boolean result of a module helper: decided when its feasible returns agree
		if isBoolType(x.Type()) {
			if b, ok := eval(v); ok {
				return b, true
			}
			if call, ok := x.Tuple.(*ssa.Call); ok && depth < 3 {
				if rv := w.helperResult(call, x.Index, st, eval, depth); rv != nil {
					if c, isC := rv.(*ssa.Const); isC && c.Value != nil && c.Value.Kind() == constant.Bool {
						return constant.BoolVal(c.Value), true
					}
				}
			}
			return false, false
		}
	case *ssa.UnOp:
		if x.Op == token.NOT {
			b, ok := w.evalBool(x.X, st, eval, depth)
			return !b, ok
		}
	case *ssa.Phi:
		if st != nil {
			if nv, ok := st.phi[x]; ok && nv != v {
				return w.evalBool(nv, st, eval, depth)
			}
		}
	case *ssa.BinOp:
		// a key the path looked up in a dispatch table, compared with a constant
		if (x.Op == token.EQL || x.Op == token.NEQ) && st != nil && len(st.keyFact) > 0 {
			for _, pr := range [][2]ssa.Value{{x.X, x.Y}, {x.Y, x.X}} {
				c, ok := pr[1].(*ssa.Const)
				if !ok || c.Value == nil {
					continue
				}
				if f, ok := st.keyFact[w.Canon(pr[0])]; ok {
					if f.hit {
						return (f.key == keyString(c)) == (x.Op == token.EQL), true
					}
					if f.none[keyString(c)] {
						return x.Op == token.NEQ, true
					}
				}
			}
		}
		// result of a module helper compared with nil: decided when the helper's
		// feasible returns agree
		if x.Op == token.EQL || x.Op == token.NEQ {
			for _, pr := range [][2]ssa.Value{{x.X, x.Y}, {x.Y, x.X}} {
				c, ok := pr[1].(*ssa.Const)
				if !ok || !c.IsNil() {
					continue
				}
				if b, ok := eval(v); ok {
					return b, true
				}
				// a local variable the path assigned
				if mv, ok := loadCell(stripConv(pr[0]), st); ok && mv.v != pr[0] {
					pr[0] = mv.v
					if c, isC := stripConv(mv.v).(*ssa.Const); isC && c.IsNil() {
						return x.Op == token.EQL, true
					}
					// the rule's evaluator sees the test on the value itself
					if b, ok := eval(&ssa.BinOp{Op: x.Op, X: mv.v, Y: pr[1]}); ok {
						return b, true
					}
				}
				// a value whose nil-ness an earlier branch of this path settled (the same
				// variable tested again, directly or through the phis that carry it)
				if st != nil && len(st.nilFact) > 0 {
					rv := stripConv(pr[0])
					for k := 0; k < 6; k++ {
						if ph, isPhi := rv.(*ssa.Phi); isPhi {
							if nv, ok := st.phi[ph]; ok && nv != rv {
								rv = stripConv(nv)
								continue
							}
						}
						if mv, ok := loadCell(rv, st); ok && mv.v != rv {
							rv = stripConv(mv.v)
							continue
						}
						break
					}
					switch st.nilFact[st.nk(rv)] {
					case 1:
						return x.Op == token.NEQ, true
					case -1:
						return x.Op == token.EQL, true
					}
				}
				// the variable merges the results of several arms: on this path it is one of them
				if st != nil {
					rv := stripConv(pr[0])
					for k := 0; k < 6; k++ {
						if ph, isPhi := rv.(*ssa.Phi); isPhi {
							if nv, ok := st.phi[ph]; ok && nv != rv {
								rv = stripConv(nv)
								continue
							}
						}
						break
					}
					if rv != stripConv(pr[0]) {
						pr[0] = rv
						if c, isC := rv.(*ssa.Const); isC && c.IsNil() {
							return x.Op == token.EQL, true
						}
					}
				}
				// the error result of a callee that was expanded on this path
				if st != nil && st.callTerm != nil {
					var call *ssa.Call
					idx := 0
					switch y := stripConv(pr[0]).(type) {
					case *ssa.Call:
						call = y
					case *ssa.Extract:
						call, _ = y.Tuple.(*ssa.Call)
						idx = y.Index
					}
					if call != nil {
						if t, ok := st.callTerm[call]; ok {
							if cal := call.Common().StaticCallee(); cal != nil && errResultIndex(cal) == idx {
								switch t {
								case "err":
									return x.Op == token.NEQ, true
								case "ok":
									return x.Op == token.EQL, true
								}
							}
						}
					}
				}
				if n := w.nilnessOnPath(pr[0], st, eval, depth); n != 0 {
					return (n < 0) == (x.Op == token.EQL), true
				}
			}
		}
		// b == true / b != false on a value we can evaluate structurally
		if x.Op == token.EQL || x.Op == token.NEQ {
			for _, pr := range [][2]ssa.Value{{x.X, x.Y}, {x.Y, x.X}} {
				if c, ok := pr[1].(*ssa.Const); ok && c.Value != nil && c.Value.Kind() == constant.Bool && isBoolType(pr[0].Type()) {
					if _, isParamOrField := pr[0].(*ssa.Phi); isParamOrField || isCallValue(pr[0]) {
						b, ok := w.evalBool(pr[0], st, eval, depth)
						if ok {
							return (b == constant.BoolVal(c.Value)) == (x.Op == token.EQL), true
						}
					}
				}
			}
		}
	case *ssa.Call:
		if b, ok := eval(v); ok {
			return b, true
		}
		if cal := x.Common().StaticCallee(); cal != nil && depth < 3 && isBoolType(x.Type()) && w.pureFn(cal, 0) && len(cal.Params) == len(x.Common().Args) {
			env := map[*ssa.Parameter]string{}
			for j, p := range cal.Params {
				a := x.Common().Args[j]
				if st != nil {
					if ph, isPhi := a.(*ssa.Phi); isPhi {
						if nv, ok := st.phi[ph]; ok {
							a = nv
						}
					}
				}
				env[p] = w.Canon(a)
			}
			w.inlineEnv = append(w.inlineEnv, env)
			b, ok := w.evalFnBool(cal, eval, depth+1)
			w.inlineEnv = w.inlineEnv[:len(w.inlineEnv)-1]
			return b, ok
		}
		return false, false
	}
	return eval(v)
}

func isCallValue(v ssa.Value) bool { _, ok := v.(*ssa.Call); return ok }

type nilImplication struct {
	param           int
	onTrue, onFalse int // +1: the argument is not nil, -1: it is nil, 0: nothing known
}

// helperNilImplications: for a pure boolean helper, what each answer says about a
// pointer/interface parameter being nil. Found by evaluating the helper under
// "the parameter is nil" and under "it is not": if it then answers r on every path,
// the answer !r tells the opposite about the parameter.
func (w *World) helperNilImplications(cal *ssa.Function) []nilImplication {
	if w.nilImplMemo == nil {
		w.nilImplMemo = map[*ssa.Function][]nilImplication{}
	}
	if r, ok := w.nilImplMemo[cal]; ok {
		return r
	}
	w.nilImplMemo[cal] = nil
	if cal.Blocks == nil || !w.InModule(cal) || cal.Signature.Results().Len() != 1 || !isBoolType(cal.Signature.Results().At(0).Type()) || len(cal.Blocks) > 24 || !w.pureFn(cal, 0) {
		return nil
	}
	var out []nilImplication
	for i, p := range cal.Params {
		switch p.Type().Underlying().(type) {
		case *types.Pointer, *types.Interface, *types.Slice, *types.Map:
		default:
			continue
		}
		under := func(isNil bool) (bool, bool) {
			ev := func(v ssa.Value) (bool, bool) {
				if bo, ok := v.(*ssa.BinOp); ok && (bo.Op == token.EQL || bo.Op == token.NEQ) {
					for _, pr := range [][2]ssa.Value{{bo.X, bo.Y}, {bo.Y, bo.X}} {
						if c, isC := pr[1].(*ssa.Const); isC && c.IsNil() && stripConv(pr[0]) == ssa.Value(p) {
							return isNil == (bo.Op == token.EQL), true
						}
					}
				}
				return false, false
			}
			return w.evalFnBool(cal, ev, 1)
		}
		im := nilImplication{param: i}
		if r, ok := under(true); ok {
			// nil gives r: the other answer means not nil
			if r {
				im.onFalse = 1
			} else {
				im.onTrue = 1
			}
		}
		if r, ok := under(false); ok {
			if r {
				im.onFalse = -1
			} else {
				im.onTrue = -1
			}
		}
		if im.onTrue != 0 || im.onFalse != 0 {
			out = append(out, im)
		}
	}
	w.nilImplMemo[cal] = out
	return out
}

// evalFnBool: the boolean a pure helper returns under eval, if all feasible
// paths agree.
func (w *World) evalFnBool(fn *ssa.Function, eval func(ssa.Value) (bool, bool), depth int) (bool, bool) {
	st := &pathState{onPath: map[*ssa.BasicBlock]int{}, phi: map[*ssa.Phi]ssa.Value{}}
	seenT, seenF, unknown := false, false, false
	budget := 256
	var walk func(b, pred *ssa.BasicBlock)
	walk = func(b, pred *ssa.BasicBlock) {
		budget--
		if budget < 0 || st.onPath[b] >= 2 {
			unknown = true
			return
		}
		st.onPath[b]++
		defer func() { st.onPath[b]-- }()
		idx := -1
		for i, p := range b.Preds {
			if p == pred {
				idx = i
			}
		}
		type sv struct {
			p *ssa.Phi
			v ssa.Value
			h bool
		}
		var saved []sv
		for _, in := range b.Instrs {
			ph, ok := in.(*ssa.Phi)
			if !ok {
				break
			}
			old, had := st.phi[ph]
			saved = append(saved, sv{ph, old, had})
			if idx >= 0 {
				st.phi[ph] = ph.Edges[idx]
			}
		}
		defer func() {
			for _, x := range saved {
				if x.h {
					st.phi[x.p] = x.v
				} else {
					delete(st.phi, x.p)
				}
			}
		}()
		switch t := lastInstr(b).(type) {
		case *ssa.Return:
			if len(t.Results) != 1 {
				unknown = true
				return
			}
			v, ok := w.evalBool(retResult(t, 0), st, eval, depth)
			switch {
			case !ok:
				unknown = true
			case v:
				seenT = true
			default:
				seenF = true
			}
		case *ssa.If:
			v, ok := w.evalBool(t.Cond, st, eval, depth)
			if !ok || v {
				walk(b.Succs[0], b)
			}
			if !ok || !v {
				walk(b.Succs[1], b)
			}
		case *ssa.Jump:
			walk(b.Succs[0], b)
		default:
			unknown = true
		}
	}
	walk(fn.Blocks[0], nil)
	if unknown || seenT == seenF {
		return false, false
	}
	return seenT, true
}

// pureFn: a module function without stores (except into its own locals), map
// updates, sends, defers or calls other than to pure module functions and
// side-effect-free library routines.
func (w *World) pureFn(fn *ssa.Function, d int) bool {
	if fn == nil || fn.Blocks == nil || !w.InModule(fn) || d > 3 {
		return false
	}
	if v, ok := w.pureMemo[fn]; ok {
		return v
	}
	if w.pureMemo == nil {
		w.pureMemo = map[*ssa.Function]bool{}
	}
	w.pureMemo[fn] = false // cycles are impure
	ok := true
	for _, b := range fn.Blocks {
		for _, in := range b.Instrs {
			switch x := in.(type) {
			case *ssa.Store:
				if _, local := x.Addr.(*ssa.Alloc); !local {
					ok = false
				}
			case *ssa.MapUpdate, *ssa.Send, *ssa.Go, *ssa.Panic:
				ok = false
			case *ssa.Defer:
				// `defer mtx.RUnlock()`: taking and releasing the record's own lock
				// does not change what the function computes
				if !mutexCall(x.Common().StaticCallee()) {
					ok = false
				}
			case ssa.CallInstruction:
				c := x.Common()
				if _, isB := c.Value.(*ssa.Builtin); isB {
					continue
				}
				cal := c.StaticCallee()
				switch {
				case cal == nil:
					ok = false
				case mutexCall(cal):
				case w.InModule(cal):
					if !w.pureFn(cal, d+1) {
						ok = false
					}
				default:
					if !pureLibrary(cal) {
						ok = false
					}
				}
			}
		}
	}
	w.pureMemo[fn] = ok
	return ok
}

// lockedHelpersArePure is off: with it on, seven refactorings that had been silent
// (a routing predicate `isEVMTrx` over the locked getter GetType) alarmed on C05 A-3;
// see DESIGN §4.
const lockedHelpersArePure = true

// mutexCall: Lock/Unlock/RLock/RUnlock of sync.Mutex / sync.RWMutex.
func mutexCall(f *ssa.Function) bool {
	if !lockedHelpersArePure || f == nil || f.Pkg == nil || f.Pkg.Pkg.Path() != "sync" || f.Signature.Recv() == nil {
		return false
	}
	switch f.Name() {
	case "Lock", "Unlock", "RLock", "RUnlock":
		n := derefNamed(f.Signature.Recv().Type())
		return n != nil && (n.Obj().Name() == "Mutex" || n.Obj().Name() == "RWMutex")
	}
	return false
}

func pureLibrary(f *ssa.Function) bool {
	if f.Pkg == nil {
		return false
	}
	switch f.Pkg.Pkg.Path() {
	case "bytes":
		return f.Name() == "Equal" || f.Name() == "Compare" || f.Name() == "HasPrefix"
	case "strings":
		return f.Name() == "HasPrefix" || f.Name() == "HasSuffix" || f.Name() == "Contains" || f.Name() == "EqualFold"
	case "github.com/holiman/uint256":
		return pureZMethods[f.Name()]
	}
	return false
}

// blockReach[i][j]: block j is reachable from block i along CFG edges (i != j
// unless i lies on a cycle).
func blockReach(fn *ssa.Function) [][]bool {
	n := len(fn.Blocks)
	out := make([][]bool, n)
	for i, b := range fn.Blocks {
		row := make([]bool, n)
		stack := append([]*ssa.BasicBlock(nil), b.Succs...)
		for len(stack) > 0 {
			x := stack[len(stack)-1]
			stack = stack[:len(stack)-1]
			if row[x.Index] {
				continue
			}
			row[x.Index] = true
			stack = append(stack, x.Succs...)
		}
		out[i] = row
	}
	return out
}

// ---- values on paths

type pathCtxt struct {
	st   *pathState
	eval func(ssa.Value) (bool, bool)
}

// ResolveOnPath follows v to the value it has on the path being enumerated:
// phis take the edge the path came by, results of module helpers are replaced
// by the value the helper returns under the current abstract input when all its
// feasible returns agree. Only meaningful inside an event callback of enumPaths.
func (w *World) ResolveOnPath(v ssa.Value) ssa.Value {
	if w.cur == nil {
		return v
	}
	return w.resolveValue(v, w.cur.st, w.cur.eval, 0)
}

func (w *World) resolveValue(v ssa.Value, st *pathState, eval func(ssa.Value) (bool, bool), depth int) ssa.Value {
	for i := 0; i < 12; i++ {
		// a local cell written on this path
		if mv, ok := loadCell(v, st); ok && mv.v != v {
			v = mv.v
			continue
		}
		if lv, ok := lookupValue(v, st); ok {
			v = lv
			continue
		}
		switch x := v.(type) {
		case *ssa.Phi:
			if st != nil {
				if nv, ok := st.phi[x]; ok && nv != v {
					v = nv
					continue
				}
			}
			return v
		case *ssa.Extract:
			if call, ok := x.Tuple.(*ssa.Call); ok && !w.shallowResolve {
				if rv := w.helperResult(call, x.Index, st, eval, depth); rv != nil {
					return rv
				}
			}
			return v
		case *ssa.Call:
			if x.Common().Signature().Results().Len() == 1 && !w.shallowResolve {
				if rv := w.helperResult(x, 0, st, eval, depth); rv != nil {
					return rv
				}
			}
			return v
		case *ssa.ChangeInterface:
			v = x.X
			continue
		}
		return v
	}
	return v
}

// helperResult: the single value a static module callee returns at idx under eval.
func (w *World) helperResult(call *ssa.Call, idx int, st *pathState, eval func(ssa.Value) (bool, bool), depth int) ssa.Value {
	cal := call.Common().StaticCallee()
	callArgs := call.Common().Args
	if cal == nil && !call.Common().IsInvoke() && depth <= 2 {
		// a function value the path determines (an entry of a dispatch table)
		fv := w.resolveValue(call.Common().Value, st, eval, 3)
		if f, rcv := w.calleeOfValue(fv); f != nil {
			cal = f
			if rcv != nil {
				callArgs = append([]ssa.Value{rcv}, callArgs...)
			}
		}
	}
	if cal == nil || !w.InModule(cal) || cal.Blocks == nil || depth > 2 || len(cal.Params) != len(callArgs) {
		return nil
	}
	env := map[*ssa.Parameter]string{}
	for j, p := range cal.Params {
		av := w.sameFrame(callArgs[j], w.resolveValue(callArgs[j], st, eval, depth+1))
		env[p] = w.Canon(av)
		w.noteInlinedTwin(env[p], av)
	}
	w.inlineEnv = append(w.inlineEnv, env)
	vals, complete := w.returnedValues(cal, idx, eval, depth+1)
	w.inlineEnv = w.inlineEnv[:len(w.inlineEnv)-1]
	if !complete || len(vals) != 1 {
		return nil
	}
	// a parameter handed back is the caller's argument
	if pr, ok := vals[0].(*ssa.Parameter); ok {
		for j, q := range cal.Params {
			if q == pr {
				return w.resolveValue(callArgs[j], st, eval, depth+1)
			}
		}
	}
	return vals[0]
}

// returnedValues: the distinct (resolved) values fn returns at idx on the paths
// that are feasible under eval.
func (w *World) returnedValues(fn *ssa.Function, idx int, eval func(ssa.Value) (bool, bool), depth int) ([]ssa.Value, bool) {
	st := &pathState{onPath: map[*ssa.BasicBlock]int{}, phi: map[*ssa.Phi]ssa.Value{}}
	var out []ssa.Value
	complete := true
	budget := 512
	retBlocks := map[ssa.Value]*ssa.BasicBlock{} // local: nested evaluations of helpers must not clobber it
	retOrig := map[ssa.Value]ssa.Value{}         // the value as written in fn (before helper results were looked through)
	defer func() { w.lastRetBlocks, w.lastRetOrig = retBlocks, retOrig }()
	var curRet *ssa.BasicBlock
	var curOrig ssa.Value
	add := func(v ssa.Value) {
		if _, ok := retBlocks[v]; !ok {
			retBlocks[v] = curRet
			retOrig[v] = curOrig
		}
		for _, o := range out {
			if o == v {
				return
			}
			// two nil constants / two allocations of the same type are the same answer
			if co, ok := o.(*ssa.Const); ok {
				if cv, ok := v.(*ssa.Const); ok && co.IsNil() && cv.IsNil() {
					return
				}
			}
		}
		out = append(out, v)
	}
	var walk func(b, pred *ssa.BasicBlock)
	walk = func(b, pred *ssa.BasicBlock) {
		budget--
		if budget < 0 {
			complete = false
			return
		}
		if st.onPath[b] >= 2 {
			// a further iteration of a loop returns no SSA value the first did not
			return
		}
		st.onPath[b]++
		defer func() { st.onPath[b]-- }()
		idxp := -1
		for i, p := range b.Preds {
			if p == pred {
				idxp = i
			}
		}
		type sv struct {
			p *ssa.Phi
			v ssa.Value
			h bool
		}
		var saved []sv
		for _, in := range b.Instrs {
			ph, ok := in.(*ssa.Phi)
			if !ok {
				break
			}
			old, had := st.phi[ph]
			saved = append(saved, sv{ph, old, had})
			if idxp >= 0 {
				st.phi[ph] = ph.Edges[idxp]
			}
		}
		defer func() {
			for _, x := range saved {
				if x.h {
					st.phi[x.p] = x.v
				} else {
					delete(st.phi, x.p)
				}
			}
		}()
		var proc func(from int)
		proc = func(from int) {
			// lookups in literal dispatch tables fork the evaluation
			for i := from; i < len(b.Instrs); i++ {
				if lk, isL := b.Instrs[i].(*ssa.Lookup); isL {
					if lm := w.literalMap(stripConv(w.resolveValue(lk.X, st, eval, depth))); lm != nil {
						next := i + 1
						w.forkLookup(lk, lm, st, eval, w.resolveValue(lk.Index, st, eval, depth), func() { proc(next) })
						return
					}
				}
			}
			switch t := lastInstr(b).(type) {
			case *ssa.Return:
				if idx < len(t.Results) {
					// asked for what the helper hands back when it succeeds: a return whose
					// error result is certainly not nil is not one of those
					if w.successReturnsOnly && errResultIndex(fn) >= 0 && errResultIndex(fn) != idx && w.errState(t) == triNonNil {
						break
					}
					curRet = b
					curOrig = retResult(t, idx) // as written (a merge of sibling results is tested as the merge)
					add(w.resolveValue(retResult(t, idx), st, eval, depth))
				}
			case *ssa.If:
				v, ok := w.evalBool(t.Cond, st, eval, depth)
				if !ok || v {
					walk(b.Succs[0], b)
				}
				if !ok || !v {
					walk(b.Succs[1], b)
				}
			case *ssa.Jump:
				walk(b.Succs[0], b)
			case *ssa.Panic:
			default:
				complete = false
			}
		}
		proc(0)
	}
	walk(fn.Blocks[0], nil)
	return out, complete
}

// sameFrame: a value looked through a helper may be a value of the helper's frame,
// whose parameters print under the helper's own names; for naming an argument
// the value as the caller wrote it is used then.
func (w *World) sameFrame(orig, resolved ssa.Value) ssa.Value {
	oi, ok1 := orig.(ssa.Instruction)
	ri, ok2 := resolved.(ssa.Instruction)
	if ok1 && ok2 && oi.Parent() != nil && ri.Parent() != nil && oi.Parent() != ri.Parent() {
		return orig
	}
	return resolved
}

// nilnessOnPath: +1 v is certainly non-nil on this path, -1 certainly nil, 0 unknown.
func (w *World) nilnessOnPath(v ssa.Value, st *pathState, eval func(ssa.Value) (bool, bool), depth int) int {
	rv := w.resolveValue(v, st, eval, depth)
	// a helper with several feasible returns: decided when they agree on nil-ness
	// (also when they are one and the same value of the helper's frame: its
	// nil-ness is known where the helper returns it, not where it was computed)
	if _, inOtherFrame := w.sameFrame(v, rv).(ssa.Value); rv == v || rv == stripConv(v) || (inOtherFrame && w.sameFrame(v, rv) == v) {
		var call *ssa.Call
		idx := 0
		switch y := stripConv(v).(type) {
		case *ssa.Call:
			call = y
		case *ssa.Extract:
			call, _ = y.Tuple.(*ssa.Call)
			idx = y.Index
		}
		if call != nil {
			cal := call.Common().StaticCallee()
			callArgs := call.Common().Args
			if cal == nil && !call.Common().IsInvoke() {
				// a handler the path picked (from a dispatch table, a switch)
				if os.Getenv("RIGOCHECK_DEBUG") == "nilness" {
					rvv := w.resolveValue(call.Common().Value, st, eval, 3)
					fmt.Println("DBG nilness dyn", w.Canon(call), fmt.Sprintf("%T", rvv), len(st.mem), st.ival)
				}
				if f, rcv := w.calleeOfValue(w.resolveValue(call.Common().Value, st, eval, 3)); f != nil {
					cal = f
					if rcv != nil {
						callArgs = append([]ssa.Value{rcv}, callArgs...)
					}
				}
			}
			if cal != nil && w.InModule(cal) && cal.Blocks != nil && depth <= 2 && len(cal.Params) == len(callArgs) {
				env := map[*ssa.Parameter]string{}
				for j, p := range cal.Params {
					av := w.sameFrame(callArgs[j], w.resolveValue(callArgs[j], st, eval, depth+1))
					env[p] = w.Canon(av)
					w.noteInlinedTwin(env[p], av)
				}
				w.inlineEnv = append(w.inlineEnv, env)
				vals, complete := w.returnedValues(cal, idx, eval, depth+1)
				blocks, origs := w.lastRetBlocks, w.lastRetOrig
				w.inlineEnv = w.inlineEnv[:len(w.inlineEnv)-1]
				if complete && len(vals) > 0 {
					all := 0
					for i, x := range vals {
						n := 0
						if c, ok := x.(*ssa.Const); ok && c.IsNil() {
							n = -1
						} else if b := blocks[x]; b != nil {
							switch w.valueErrState(x, b, 0) {
							case triNonNil:
								n = 1
							case triNil:
								n = -1
							}
							// the value as the helper wrote it may be nil-tested on the way to the return
							if o := origs[x]; n == 0 && o != nil && o != x {
								switch w.valueErrState(o, b, 0) {
								case triNonNil:
									n = 1
								case triNil:
									n = -1
								}
							}
						}
						if os.Getenv("RIGOCHECK_DEBUG") == "nilness" {
							fmt.Println("DBG nilness", w.FName(cal), w.Canon(x), n, blocks[x] != nil)
						}
						if n == 0 || (i > 0 && n != all) {
							all = 0
							break
						}
						all = n
					}
					if all != 0 {
						return all
					}
				}
			}
		}
	}
	switch x := rv.(type) {
	case *ssa.Const:
		if x.IsNil() {
			return -1
		}
	case *ssa.MakeInterface, *ssa.Alloc, *ssa.MakeSlice, *ssa.MakeMap, *ssa.MakeClosure:
		return 1
	case *ssa.UnOp:
		// the package's error variables are never nil
		if g, ok := x.X.(*ssa.Global); ok && x.Op == token.MUL && isErrorType(x.Type()) && strings.HasPrefix(g.Name(), "Err") {
			return 1
		}
	}
	if in, ok := rv.(ssa.Instruction); ok && in.Block() != nil && isErrorType(rv.Type()) {
		switch w.valueErrState(rv, in.Block(), 0) {
		case triNonNil:
			return 1
		case triNil:
			return -1
		}
	}
	return 0
}

// valueIs: v's canonical form satisfies pred, or v is the result of a module
// function all of whose feasible returns satisfy it (a value computed in a helper).
func (w *World) valueIs(v ssa.Value, pred func(string) bool) bool {
	if pred(w.Canon(v)) || pred(w.CanonI(v)) {
		return true
	}
	var call *ssa.Call
	idx := 0
	switch y := stripConv(v).(type) {
	case *ssa.Parameter:
		// a parameter of a helper being expanded: the argument it is bound to
		for i := len(w.inlineEnv) - 1; i >= 0; i-- {
			if s, ok := w.inlineEnv[i][y]; ok {
				if av, ok := w.argVal[s]; ok && av != v {
					if _, isP := stripConv(av).(*ssa.Parameter); !isP {
						return w.valueIs(av, pred)
					}
				}
				break
			}
		}
		return false
	case *ssa.Call:
		call = y
	case *ssa.Extract:
		call, _ = y.Tuple.(*ssa.Call)
		idx = y.Index
	}
	if call == nil {
		return false
	}
	cal := call.Common().StaticCallee()
	if cal == nil || !w.InModule(cal) || cal.Blocks == nil {
		return false
	}
	savedSh := w.shallowResolve
	w.shallowResolve = true // the values as the helper writes them (not what its own callees compute them from)
	vals, complete := w.returnedValues(cal, idx, func(ssa.Value) (bool, bool) { return false, false }, 1)
	w.shallowResolve = savedSh
	if !complete || len(vals) == 0 {
		return false
	}
	for _, x := range vals {
		if !pred(w.Canon(x)) && !pred(w.CanonI(x)) {
			return false
		}
	}
	return true
}

func hasPanic(fn *ssa.Function) bool {
	for _, b := range fn.Blocks {
		if _, ok := lastInstr(b).(*ssa.Panic); ok {
			return true
		}
	}
	return false
}

// canReturn: some path of fn that is feasible under eval reaches a return.
func (w *World) canReturn(fn *ssa.Function, eval func(ssa.Value) (bool, bool), depth int) bool {
	st := &pathState{onPath: map[*ssa.BasicBlock]int{}, phi: map[*ssa.Phi]ssa.Value{}}
	budget := 2000
	found := false
	var walk func(b, pred *ssa.BasicBlock)
	walk = func(b, pred *ssa.BasicBlock) {
		budget--
		if found || budget < 0 {
			if budget < 0 {
				found = true // undecided: assume it can return
			}
			return
		}
		if st.onPath[b] >= 2 {
			return
		}
		st.onPath[b]++
		defer func() { st.onPath[b]-- }()
		idx := -1
		for i, p := range b.Preds {
			if p == pred {
				idx = i
			}
		}
		type sv struct {
			p *ssa.Phi
			v ssa.Value
			h bool
		}
		var saved []sv
		for _, in := range b.Instrs {
			ph, ok := in.(*ssa.Phi)
			if !ok {
				break
			}
			old, had := st.phi[ph]
			saved = append(saved, sv{ph, old, had})
			if idx >= 0 {
				st.phi[ph] = ph.Edges[idx]
			}
		}
		defer func() {
			for _, x := range saved {
				if x.h {
					st.phi[x.p] = x.v
				} else {
					delete(st.phi, x.p)
				}
			}
		}()
		switch t := lastInstr(b).(type) {
		case *ssa.Return:
			found = true
		case *ssa.If:
			v, ok := w.evalBool(t.Cond, st, eval, depth)
			if !ok || v {
				walk(b.Succs[0], b)
			}
			if !ok || !v {
				walk(b.Succs[1], b)
			}
		case *ssa.Jump:
			walk(b.Succs[0], b)
		}
	}
	walk(fn.Blocks[0], nil)
	return found
}

// phiOnPath replaces phis by the value of the edge the enumerated path came by
// (no look through helper results).
func (w *World) phiOnPath(v ssa.Value) ssa.Value {
	saved := w.shallowResolve
	w.shallowResolve = true
	defer func() { w.shallowResolve = saved }()
	return w.ResolveOnPath(v)
}

var reStableFlag = regexp.MustCompile(`^(p\d+|recv)(\.[A-Za-z_]\w*)*\.(Exec|exec)$|^p\d+$`)

// stableFlag: cond is (the negation of) a boolean that cannot change during the
// call: the exec flag of a context, a boolean parameter, or a local / captured
// copy of one. Returns its canonical name (closure markers removed).
func (w *World) stableFlag(cond ssa.Value) (string, bool) {
	neg := false
	for {
		if u, ok := cond.(*ssa.UnOp); ok && u.Op == token.NOT {
			cond, neg = u.X, !neg
			continue
		}
		break
	}
	if !isBoolType(cond.Type()) {
		return "", false
	}
	s := strings.ReplaceAll(w.Canon(cond), "^", "")
	if reStableFlag.MatchString(s) {
		return s, neg
	}
	return "", false
}

// readOnlyFn: fn only computes a value — no store outside its own locals, no map
// update, no channel / goroutine / defer / panic, and every call is to another
// read-only module function, a side-effect-free library routine, a getter of a
// dependency (Get*/Is*/Has*/To*/New*/Len), or a 256-bit operation on a fresh value.
func (w *World) readOnlyFn(fn *ssa.Function, d int) bool {
	if fn == nil || fn.Blocks == nil || !w.InModule(fn) || d > 3 {
		return false
	}
	if w.roMemo == nil {
		w.roMemo = map[*ssa.Function]bool{}
	}
	if v, ok := w.roMemo[fn]; ok {
		return v
	}
	w.roMemo[fn] = false
	// dependency routines are taken to be read-only unless their name says otherwise
	getter := func(n string) bool {
		for _, p := range []string{"Set", "Put", "Write", "Delete", "Del", "Remove", "Add", "Sub", "Save", "Commit", "Close", "Store", "Update", "Reset", "Insert", "Append", "Push", "Pop", "Send", "Revert", "Finalise", "Finish", "Prepare", "Apply", "Exec", "Run", "Call", "Create", "Lock", "Unlock", "Sort"} {
			if strings.HasPrefix(n, p) {
				return false
			}
		}
		return true
	}
	ok := true
	for _, b := range fn.Blocks {
		for _, in := range b.Instrs {
			switch x := in.(type) {
			case *ssa.Store:
				if !baseFresh(x.Addr) {
					if _, local := x.Addr.(*ssa.Alloc); !local {
						ok = false
					}
				}
			case *ssa.MapUpdate, *ssa.Send, *ssa.Go, *ssa.Defer, *ssa.Panic:
				ok = false
			case ssa.CallInstruction:
				c := x.Common()
				if _, isB := c.Value.(*ssa.Builtin); isB {
					continue
				}
				if c.IsInvoke() {
					if !getter(c.Method.Name()) {
						ok = false
					}
					continue
				}
				cal := c.StaticCallee()
				switch {
				case cal == nil:
					ok = false
				case w.InModule(cal):
					if !w.readOnlyFn(cal, d+1) {
						ok = false
					}
				case pureLibrary(cal) || getter(cal.Name()):
				default:
					if rv, mut := mutatesZ(c); mut && rv != nil && baseFresh(rv) {
						continue
					}
					ok = false
				}
			}
		}
	}
	w.roMemo[fn] = ok
	return ok
}

// derefNamed: the named type behind t (through one pointer), or nil.
func derefNamed(t types.Type) *types.Named {
	n, _ := deref(t).(*types.Named)
	return n
}
