package main

// flow.go — A4/A5 of DESIGN.md: guards, dominance of edges, must-pass-through,
// nil-ness of returned errors, call-site enumeration.

import (
	"fmt"
	"go/token"
	"go/types"
	"sort"
	"strings"

	"golang.org/x/tools/go/ssa"
)

type tri int

const (
	triNil tri = iota
	triNonNil
	triUnknown
	triNA
)

var errorIface = types.Universe.Lookup("error").Type().Underlying().(*types.Interface)

func isErrorType(t types.Type) bool {
	if t == nil {
		return false
	}
	if _, ok := t.Underlying().(*types.Interface); !ok {
		return false
	}
	return types.Implements(t, errorIface)
}

// errResultIndex returns the index of the last error-typed result of fn, or -1.
func errResultIndex(fn *ssa.Function) int {
	res := fn.Signature.Results()
	for i := res.Len() - 1; i >= 0; i-- {
		if isErrorType(res.At(i).Type()) {
			return i
		}
	}
	return -1
}

// edgeDominates: does the CFG edge b->s dominate block p?
func edgeDominates(b, s, p *ssa.BasicBlock) bool {
	if s != p && !s.Dominates(p) {
		return false
	}
	for _, q := range s.Preds {
		if q == b {
			continue
		}
		if q == s || s.Dominates(q) {
			continue // back edge
		}
		return false
	}
	// b must actually be a predecessor
	for _, q := range s.Preds {
		if q == b {
			return true
		}
	}
	return false
}

// condEdge describes the branch literal that holds on entry to block p because
// of If instruction `i`: +1 true edge dominates p, -1 false edge, 0 neither.
func condEdge(i *ssa.If, p *ssa.BasicBlock) int {
	b := i.Block()
	if len(b.Succs) != 2 {
		return 0
	}
	t, f := b.Succs[0], b.Succs[1]
	if t == f {
		return 0
	}
	if edgeDominates(b, t, p) {
		return 1
	}
	if edgeDominates(b, f, p) {
		return -1
	}
	return 0
}

// valueNonNilAt: is v known non-nil on entry to block p (p dominated by the
// true edge of `v != nil` or the false edge of `v == nil`)?
func (w *World) valueNonNilAt(v ssa.Value, p *ssa.BasicBlock) bool {
	return w.nilTestAt(v, p) == 1
}

// nilTestAt returns +1 if v is known non-nil at p, -1 if known nil, 0 unknown.
func (w *World) nilTestAt(v ssa.Value, p *ssa.BasicBlock) int {
	fn := p.Parent()
	for _, b := range fn.Blocks {
		ifi, ok := lastInstr(b).(*ssa.If)
		if !ok {
			continue
		}
		bo, ok := ifi.Cond.(*ssa.BinOp)
		if !ok || (bo.Op != token.NEQ && bo.Op != token.EQL) {
			continue
		}
		var other ssa.Value
		if sameValue(bo.X, v) {
			other = bo.Y
		} else if sameValue(bo.Y, v) {
			other = bo.X
		} else {
			continue
		}
		c, ok := other.(*ssa.Const)
		if !ok || !c.IsNil() {
			continue
		}
		e := condEdge(ifi, p)
		if e == 0 {
			continue
		}
		nonNilOnTrue := bo.Op == token.NEQ
		if (e == 1) == nonNilOnTrue {
			return 1
		}
		return -1
	}
	return 0
}

// sameValue: identical SSA value, looking through interface/type changes.
func sameValue(a, b ssa.Value) bool {
	return stripConv(a) == stripConv(b)
}

func stripConv(v ssa.Value) ssa.Value {
	for {
		switch x := v.(type) {
		case *ssa.ChangeType:
			v = x.X
		case *ssa.ChangeInterface:
			v = x.X
		case *ssa.MakeInterface:
			v = x.X
		default:
			return v
		}
	}
}

func lastInstr(b *ssa.BasicBlock) ssa.Instruction {
	if len(b.Instrs) == 0 {
		return nil
	}
	return b.Instrs[len(b.Instrs)-1]
}

// errState classifies the error operand of a return.
func (w *World) errState(ret *ssa.Return) tri {
	fn := ret.Parent()
	idx := errResultIndex(fn)
	if idx < 0 || idx >= len(ret.Results) {
		return triNA
	}
	if fn.Recover != nil && ret.Block() == fn.Recover {
		// only reached after a recovered panic; never a normal (success) exit
		return triNonNil
	}
	return w.valueErrState(retResult(ret, idx), ret.Block(), 0)
}

// retResult returns result #idx of ret, looking through the spill that go/ssa
// inserts in functions with defers (`*resultVar = v; rundefers; return *resultVar`).
func retResult(ret *ssa.Return, idx int) ssa.Value {
	v := ret.Results[idx]
	u, ok := v.(*ssa.UnOp)
	if !ok || u.Op != token.MUL {
		return v
	}
	a, ok := u.X.(*ssa.Alloc)
	if !ok {
		return v
	}
	b := ret.Block()
	for hops := 0; hops < 4 && b != nil; hops++ {
		for i := len(b.Instrs) - 1; i >= 0; i-- {
			if st, ok := b.Instrs[i].(*ssa.Store); ok && st.Addr == a {
				return st.Val
			}
		}
		if len(b.Preds) != 1 {
			break
		}
		b = b.Preds[0]
	}
	return v
}

func (w *World) valueErrState(v ssa.Value, at *ssa.BasicBlock, d int) tri {
	if d > 6 {
		return triUnknown
	}
	v0 := v
	v = stripConv(v)
	if c, ok := v.(*ssa.Const); ok {
		if c.IsNil() {
			return triNil
		}
		return triNonNil
	}
	if v0 != v {
		// a concrete value was boxed into the interface
		if _, ok := v0.(*ssa.MakeInterface); ok {
			if _, isPtr := v.Type().Underlying().(*types.Pointer); !isPtr {
				return triNonNil
			}
		}
	}
	switch w.nilTestAt(v0, at) {
	case 1:
		return triNonNil
	case -1:
		return triNil
	}
	switch x := v.(type) {
	case *ssa.UnOp:
		if x.Op == token.MUL {
			if _, ok := x.X.(*ssa.Global); ok {
				return triNonNil // package-level error value (xerrors.ErrXxx)
			}
		}
	case *ssa.Call:
		if fn := x.Common().StaticCallee(); fn != nil {
			p := w.FuncPkgPath(fn)
			if strings.HasSuffix(p, "/types/xerrors") {
				switch fn.Name() {
				case "Wrap", "Wrapf", "New", "NewOrdinary", "From", "Cause":
					return triNonNil
				}
			}
			if p == "fmt" && fn.Name() == "Errorf" || p == "errors" && fn.Name() == "New" {
				return triNonNil
			}
		} else if x.Common().IsInvoke() {
			switch x.Common().Method.Name() {
			case "Wrap", "Wrapf":
				if isErrorType(x.Common().Value.Type()) {
					return triNonNil
				}
			}
		}
	case *ssa.Phi:
		allNil, allNon := true, true
		for i, e := range x.Edges {
			st := w.valueErrState(e, x.Block().Preds[i], d+1)
			if st != triNil {
				allNil = false
			}
			if st != triNonNil {
				allNon = false
			}
		}
		if allNil {
			return triNil
		}
		if allNon {
			return triNonNil
		}
	}
	return triUnknown
}

// ---- guards

type Guard struct {
	If    *ssa.If
	CondI string // Cond with simple helpers inlined
	Cond  string // canonical condition under which the function FAILS
	Pass  *ssa.BasicBlock
	Fail  *ssa.BasicBlock
}

// failsOnly: every path from b ends in a return whose error operand is not
// provably nil, or in a panic. Exact over the CFG (memoised DFS; a back edge to
// a block on the current path is ignored: that path does not terminate).
func (w *World) failsOnly(b *ssa.BasicBlock, memo map[*ssa.BasicBlock]int) bool {
	switch memo[b] {
	case 1: // on stack
		return true
	case 2:
		return true
	case 3:
		return false
	}
	memo[b] = 1
	res := false
	switch t := lastInstr(b).(type) {
	case *ssa.Return:
		st := w.errState(t)
		res = st == triNonNil || st == triUnknown
	case *ssa.Panic:
		res = true
	case *ssa.Jump, *ssa.If:
		res = len(b.Succs) > 0
		for _, s := range b.Succs {
			if !w.failsOnly(s, memo) {
				res = false
				break
			}
		}
	}
	if res {
		memo[b] = 2
	} else {
		memo[b] = 3
	}
	return res
}

// Guards lists the failing guards of fn: If instructions one of whose
// successors leads only to error returns / panics, while the other does not.
func (w *World) Guards(fn *ssa.Function) []*Guard {
	var out []*Guard
	for _, b := range fn.Blocks {
		ifi, ok := lastInstr(b).(*ssa.If)
		if !ok || len(b.Succs) != 2 {
			continue
		}
		t, f := b.Succs[0], b.Succs[1]
		tf := w.failsOnly(t, map[*ssa.BasicBlock]int{})
		ff := w.failsOnly(f, map[*ssa.BasicBlock]int{})
		c := w.Canon(ifi.Cond)
		ci := w.CanonI(ifi.Cond)
		switch {
		case tf && !ff:
			out = append(out, &Guard{If: ifi, Cond: c, CondI: ci, Pass: f, Fail: t})
		case ff && !tf:
			out = append(out, &Guard{If: ifi, Cond: negateCond(c), CondI: negateCond(ci), Pass: t, Fail: f})
		}
	}
	return out
}

// Protects: does guard g dominate block p through its pass edge?
func (g *Guard) Protects(p *ssa.BasicBlock) bool {
	return edgeDominates(g.If.Block(), g.Pass, p)
}

// FindGuard returns the guards of fn whose canonical failing condition satisfies match.
func (w *World) FindGuards(fn *ssa.Function, match func(cond string) bool) []*Guard {
	var out []*Guard
	for _, g := range w.Guards(fn) {
		if match(g.Cond) || g.CondI != g.Cond && match(g.CondI) {
			out = append(out, g)
		}
	}
	return out
}

// ---- instruction positions and paths

type ipos struct {
	b *ssa.BasicBlock
	i int
}

func posOf(in ssa.Instruction) ipos {
	b := in.Block()
	for i, x := range b.Instrs {
		if x == in {
			return ipos{b, i}
		}
	}
	return ipos{b, 0}
}

// instrDominates: a executes before b on every path to b.
func instrDominates(a, b ssa.Instruction) bool {
	pa, pb := posOf(a), posOf(b)
	if pa.b == pb.b {
		return pa.i < pb.i
	}
	return pa.b.Dominates(pb.b)
}

// exitsAvoiding walks forward from (start block, index) and returns the
// terminating instructions (Return/Panic) reachable without executing an
// instruction for which avoid(in) is true. cut(in) = true stops the walk on
// that path silently (used to prune error edges).
func exitsAvoiding(start ipos, avoid func(ssa.Instruction) bool, edgeOK func(from *ssa.BasicBlock, to *ssa.BasicBlock) bool) []ssa.Instruction {
	var exits []ssa.Instruction
	seen := map[*ssa.BasicBlock]bool{}
	var walk func(b *ssa.BasicBlock, from int)
	walk = func(b *ssa.BasicBlock, from int) {
		for i := from; i < len(b.Instrs); i++ {
			in := b.Instrs[i]
			if avoid != nil && avoid(in) {
				return
			}
			switch in.(type) {
			case *ssa.Return, *ssa.Panic:
				exits = append(exits, in)
				return
			}
		}
		for _, s := range b.Succs {
			if edgeOK != nil && !edgeOK(b, s) {
				continue
			}
			if seen[s] {
				continue
			}
			seen[s] = true
			walk(s, 0)
		}
	}
	walk(start.b, start.i)
	return exits
}

// reachableInstrs: can `to` execute after `from` (same activation)?
func instrReaches(from, to ssa.Instruction) bool {
	pf, pt := posOf(from), posOf(to)
	if pf.b == pt.b && pf.i < pt.i {
		return true
	}
	seen := map[*ssa.BasicBlock]bool{}
	var q []*ssa.BasicBlock
	q = append(q, pf.b.Succs...)
	for len(q) > 0 {
		b := q[0]
		q = q[1:]
		if seen[b] {
			continue
		}
		seen[b] = true
		if b == pt.b {
			return true
		}
		q = append(q, b.Succs...)
	}
	return false
}

// ---- call sites

type CallSite struct {
	In     ssa.CallInstruction
	Callee *ssa.Function // static callee or nil
	Name   string        // method / function name
}

// calleeName returns the resolved callee's name (static or interface method).
func callName(c *ssa.CallCommon) string {
	if c.IsInvoke() {
		return c.Method.Name()
	}
	if f := c.StaticCallee(); f != nil {
		if o := f.Origin(); o != nil {
			return o.Name()
		}
		return f.Name()
	}
	return ""
}

// calleeObj returns the types.Func called (interface method or static function).
func calleeObj(c *ssa.CallCommon) *types.Func {
	if c.IsInvoke() {
		return c.Method
	}
	if f := c.StaticCallee(); f != nil {
		if o := f.Origin(); o != nil {
			f = o
		}
		if obj, ok := f.Object().(*types.Func); ok {
			return obj
		}
	}
	return nil
}

// recvNamed returns the named receiver type of the called method (through
// pointers), or nil.
func recvNamed(c *ssa.CallCommon) *types.Named {
	var t types.Type
	if c.IsInvoke() {
		t = c.Value.Type()
	} else if f := c.StaticCallee(); f != nil && f.Signature.Recv() != nil {
		t = f.Signature.Recv().Type()
	} else {
		return nil
	}
	t = deref(t)
	if a, ok := t.(*types.Alias); ok {
		t = types.Unalias(a)
	}
	n, _ := t.(*types.Named)
	return n
}

// namedIs: is n the type pkgPath.name (generic origin compared)?
func namedIs(n *types.Named, pkgPath, name string) bool {
	if n == nil {
		return false
	}
	n = n.Origin()
	o := n.Obj()
	return o != nil && o.Name() == name && o.Pkg() != nil && o.Pkg().Path() == pkgPath
}

// CallsIn lists call instructions (call/go/defer) in fn, in block order.
func CallsIn(fn *ssa.Function) []ssa.CallInstruction {
	var out []ssa.CallInstruction
	for _, b := range fn.Blocks {
		for _, in := range b.Instrs {
			if c, ok := in.(ssa.CallInstruction); ok {
				out = append(out, c)
			}
		}
	}
	return out
}

// callRecvArgs splits a call into receiver and arguments regardless of
// invoke/static mode.
func callRecvArgs(c *ssa.CallCommon) (ssa.Value, []ssa.Value) {
	if c.IsInvoke() {
		return c.Value, c.Args
	}
	if f := c.StaticCallee(); f != nil && f.Signature.Recv() != nil && len(c.Args) > 0 {
		return c.Args[0], c.Args[1:]
	}
	return nil, c.Args
}

func sortedKeys(m map[string]bool) []string {
	var out []string
	for k := range m {
		out = append(out, k)
	}
	sort.Strings(out)
	return out
}

// ---- abstract path enumeration (decision tables)

type pathEnd struct {
	Events []string
	Term   string // ok | err | panic | loop
}

// enumPaths walks the CFG of fn from its entry. eval decides branch conditions
// under an abstract input (known=false explores both successors); event labels
// the instructions of interest. The enumeration is bounded by max paths.
func (w *World) enumPaths(fn *ssa.Function, eval func(cond ssa.Value) (val bool, known bool), event func(in ssa.Instruction) string, max int) ([]pathEnd, bool) {
	var out []pathEnd
	complete := true
	// events are labelled once per instruction, so that two paths through the same
	// instructions carry the same labels
	evCache := map[ssa.Instruction]string{}
	rawEvent := event
	event = func(in ssa.Instruction) string {
		if e, ok := evCache[in]; ok {
			return e
		}
		e := rawEvent(in)
		evCache[in] = e
		return e
	}
	// two arrivals at a block with the same event history and the same
	// loop-relevant part of the current path have identical continuations:
	// explore only the first (branches without events do not multiply paths)
	reach := blockReach(fn)
	visited := map[string]bool{}
	sig := func(b *ssa.BasicBlock, ev []string, onPath map[*ssa.BasicBlock]int) string {
		var lp []string
		for ob, c := range onPath {
			if c > 0 && reach[b.Index][ob.Index] {
				lp = append(lp, fmt.Sprintf("%d:%d", ob.Index, c))
			}
		}
		sort.Strings(lp)
		return fmt.Sprintf("%d|%s|%s", b.Index, strings.Join(ev, "\x00"), strings.Join(lp, ","))
	}
	var walk func(b *ssa.BasicBlock, ev []string, onPath map[*ssa.BasicBlock]int)
	walk = func(b *ssa.BasicBlock, ev []string, onPath map[*ssa.BasicBlock]int) {
		if len(out) >= max {
			complete = false
			return
		}
		if onPath[b] >= 2 {
			out = append(out, pathEnd{append([]string(nil), ev...), "loop"})
			return
		}
		if k := sig(b, ev, onPath); visited[k] {
			return
		} else {
			visited[k] = true
		}
		onPath[b]++
		defer func() { onPath[b]-- }()
		for _, in := range b.Instrs {
			if e := event(in); e != "" {
				ev = append(ev, e)
			}
			switch t := in.(type) {
			case *ssa.Return:
				term := "ok"
				if st := w.errState(t); st == triNonNil {
					term = "err"
				} else if st == triUnknown {
					term = "unknown"
				}
				out = append(out, pathEnd{append([]string(nil), ev...), term})
				return
			case *ssa.Panic:
				out = append(out, pathEnd{append([]string(nil), ev...), "panic"})
				return
			case *ssa.If:
				v, known := eval(t.Cond)
				cs := ""
				if w.branchMarkers {
					cs = w.Canon(t.Cond)
				}
				mark := func(ev []string, taken bool) []string {
					out := append([]string(nil), ev...)
					if w.branchMarkers {
						if taken {
							out = append(out, "?T:"+cs)
						} else {
							out = append(out, "?F:"+cs)
						}
					}
					return out
				}
				if known {
					if v {
						walk(b.Succs[0], mark(ev, true), onPath)
					} else {
						walk(b.Succs[1], mark(ev, false), onPath)
					}
				} else {
					walk(b.Succs[0], mark(ev, true), onPath)
					walk(b.Succs[1], mark(ev, false), onPath)
				}
				return
			case *ssa.Jump:
				walk(b.Succs[0], ev, onPath)
				return
			}
		}
	}
	if len(fn.Blocks) > 0 {
		walk(fn.Blocks[0], nil, map[*ssa.BasicBlock]int{})
	}
	return out, complete
}

// blockReach[i][j]: block j is reachable from block i along CFG edges (i != j
// unless i lies on a cycle).
func blockReach(fn *ssa.Function) [][]bool {
	n := len(fn.Blocks)
	out := make([][]bool, n)
	for i, b := range fn.Blocks {
		row := make([]bool, n)
		stack := append([]*ssa.BasicBlock(nil), b.Succs...)
		for len(stack) > 0 {
			x := stack[len(stack)-1]
			stack = stack[:len(stack)-1]
			if row[x.Index] {
				continue
			}
			row[x.Index] = true
			stack = append(stack, x.Succs...)
		}
		out[i] = row
	}
	return out
}
