package main

// c09_fields.go — C09 P-6: pointer fields of decoded request objects.
//
// A transaction and its payload are built from request bytes by the decoders
// (Trx.Decode/fromProto, (*TrxPayloadX).Decode). Handlers dereference the
// pointer-typed fields of those objects (tx.Amount, tx.Gas…, payload.ReqAmt)
// without a nil test, relying on the decoder to have set them. The rule:
//
//   for every pointer-typed field F of Trx / of a type implementing ITrxPayload
//   that some function on the input paths dereferences without a dominating nil
//   test, every object of that type allocated on the input paths has F set to a
//   definitely non-nil value on every path to a success exit of the allocating
//   function — directly, or by a call on the object whose callee establishes F
//   on all of its own success paths (interprocedural, must-pass-through).

import (
	"fmt"
	"go/token"
	"go/types"
	"sort"

	"golang.org/x/tools/go/ssa"
)

type fieldID struct {
	owner *types.Named
	idx   int
}

func (f fieldID) String() string {
	st := f.owner.Underlying().(*types.Struct)
	return f.owner.Obj().Name() + "." + st.Field(f.idx).Name()
}

// canonNonNilAt: is there an If comparing a value with v's canonical form with
// nil whose non-nil edge dominates block p?
func (w *World) canonNonNilAt(v ssa.Value, p *ssa.BasicBlock) bool {
	if w.nilTestAt(v, p) == 1 {
		return true
	}
	cv := w.Canon(v)
	for _, b := range p.Parent().Blocks {
		ifi, ok := lastInstr(b).(*ssa.If)
		if !ok {
			continue
		}
		bo, ok := ifi.Cond.(*ssa.BinOp)
		if !ok || (bo.Op != token.NEQ && bo.Op != token.EQL) {
			continue
		}
		isNilC := func(x ssa.Value) bool { c, ok := x.(*ssa.Const); return ok && c.IsNil() }
		var other ssa.Value
		if isNilC(bo.Y) {
			other = bo.X
		} else if isNilC(bo.X) {
			other = bo.Y
		} else {
			continue
		}
		if w.Canon(other) != cv {
			continue
		}
		e := condEdge(ifi, p)
		if e == 0 {
			continue
		}
		if (e == 1) == (bo.Op == token.NEQ) {
			return true
		}
	}
	return false
}

// derefUses lists the instructions that dereference pointer value v, including
// passing it to a uint256 routine (all of which dereference their *Int arguments).
func (w *World) derefUses(v ssa.Value) []ssa.Instruction {
	out := w.derefsThroughPhis(v)
	if v.Referrers() == nil {
		return out
	}
	for _, ref := range *v.Referrers() {
		ci, ok := ref.(ssa.CallInstruction)
		if !ok {
			continue
		}
		c := ci.Common()
		f := c.StaticCallee()
		if f == nil || f.Pkg == nil || f.Pkg.Pkg.Path() != "github.com/holiman/uint256" {
			continue
		}
		for i, a := range c.Args {
			if a == v && !(i == 0 && f.Signature.Recv() != nil) { // receiver already counted
				out = append(out, ci)
			}
		}
	}
	return out
}

// definitelyNonNil: v cannot be nil (fresh object, receiver-returning uint256
// routine on a non-nil receiver, module function that never returns nil).
func (w *World) definitelyNonNil(v ssa.Value, d int) bool {
	if d > 6 {
		return false
	}
	switch x := stripConv(v).(type) {
	case *ssa.Alloc, *ssa.MakeInterface, *ssa.MakeSlice, *ssa.MakeMap, *ssa.MakeClosure:
		return true
	case *ssa.Const:
		return !x.IsNil()
	case *ssa.Phi:
		for _, e := range x.Edges {
			if e == v || !w.definitelyNonNil(e, d+1) {
				return false
			}
		}
		return true
	case *ssa.Call:
		c := x.Common()
		if f := c.StaticCallee(); f != nil && f.Pkg != nil && f.Pkg.Pkg.Path() == "github.com/holiman/uint256" {
			if f.Signature.Recv() != nil && len(c.Args) > 0 {
				// methods of *Int that return *Int return their receiver
				if _, ok := f.Signature.Results().At(0).Type().(*types.Pointer); ok && f.Signature.Results().Len() == 1 {
					return w.definitelyNonNil(c.Args[0], d+1)
				}
				return false
			}
			return f.Name() == "NewInt"
		}
		cals := w.Callees(x)
		if len(cals) == 0 {
			return false
		}
		for _, cal := range cals {
			if !w.InModule(cal) || cal.Blocks == nil || w.mayReturnNil(cal, 0, map[*ssa.Function]bool{}) {
				return false
			}
		}
		return true
	}
	return false
}

type estKey struct {
	fn  *ssa.Function
	arg int
	f   fieldID
}

// establishing: does instruction `in` make field f of object obj non-nil?
func (w *World) establishing(in ssa.Instruction, obj ssa.Value, f fieldID, memo map[estKey]int) bool {
	isObj := func(v ssa.Value) bool {
		v = stripConv(v)
		if v == obj {
			return true
		}
		if mi, ok := v.(*ssa.MakeInterface); ok && stripConv(mi.X) == obj {
			return true
		}
		if ph, ok := v.(*ssa.Phi); ok {
			for _, e := range ph.Edges {
				e = stripConv(e)
				if e == obj {
					return true
				}
				if mi, ok := e.(*ssa.MakeInterface); ok && stripConv(mi.X) == obj {
					return true
				}
			}
		}
		return false
	}
	switch x := in.(type) {
	case *ssa.Store:
		fa, ok := x.Addr.(*ssa.FieldAddr)
		if !ok || fa.Field != f.idx || !isObj(fa.X) {
			return false
		}
		if n, _ := fieldOf(fa.X.Type(), fa.Field); n == nil || n.Obj() != f.owner.Obj() {
			return false
		}
		return w.definitelyNonNil(x.Val, 0)
	case ssa.CallInstruction:
		c := x.Common()
		if c.IsInvoke() {
			if !isObj(c.Value) {
				return false
			}
			// the concrete method of the object's type
			m := w.Prog.LookupMethod(types.NewPointer(f.owner), c.Method.Pkg(), c.Method.Name())
			return m != nil && w.establishes(m, 0, f, memo)
		}
		callee := c.StaticCallee()
		// rlp.DecodeBytes(bytes, obj) runs the DecodeRLP method of obj's type
		if callee != nil && callee.Name() == "DecodeBytes" && callee.Pkg != nil && callee.Pkg.Pkg.Path() == "github.com/ethereum/go-ethereum/rlp" && len(c.Args) == 2 && isObj(c.Args[1]) {
			for _, mn := range []string{"DecodeRLP"} {
				if sel := w.Prog.MethodSets.MethodSet(types.NewPointer(f.owner)).Lookup(f.owner.Obj().Pkg(), mn); sel != nil {
					if m := w.Prog.MethodValue(sel); m != nil && w.establishes(m, 0, f, memo) {
						return true
					}
				}
			}
			return false
		}
		if callee == nil || !w.InModule(callee) {
			return false
		}
		for i, a := range c.Args {
			if isObj(a) && w.establishes(callee, i, f, memo) {
				return true
			}
		}
	}
	return false
}

// establishes: every success exit of fn is preceded by an instruction that makes
// field f of parameter #arg non-nil.
func (w *World) establishes(fn *ssa.Function, arg int, f fieldID, memo map[estKey]int) bool {
	if fn == nil || fn.Blocks == nil || arg >= len(fn.Params) {
		return false
	}
	k := estKey{fn, arg, f}
	if v, ok := memo[k]; ok {
		return v == 1 // 0 = in progress (cycle) -> false
	}
	memo[k] = 0
	obj := ssa.Value(fn.Params[arg])
	ok := true
	for _, ex := range exitsAvoiding(ipos{fn.Blocks[0], 0}, func(in ssa.Instruction) bool { return w.establishing(in, obj, f, memo) }, nil) {
		ret, isRet := ex.(*ssa.Return)
		if !isRet {
			continue // panic exit
		}
		if errResultIndex(fn) >= 0 && w.errState(ret) == triNonNil {
			continue
		}
		ok = false
	}
	if ok {
		memo[k] = 1
	} else {
		memo[k] = 2
	}
	return ok
}

func p6(w *World, r *Report, reach *Reach, scope []*ssa.Function) {
	iface := w.Named("ctrlers/types", "ITrxPayload")
	trx := w.Named("ctrlers/types", "Trx")
	if iface == nil || trx == nil {
		r.Undecided("P-6", "types", "ctrlers/types.ITrxPayload / Trx do not resolve")
		return
	}
	it, _ := iface.Underlying().(*types.Interface)
	owners := []*types.Named{trx}
	sc := trx.Obj().Pkg().Scope()
	for _, nm := range sc.Names() {
		tn, ok := sc.Lookup(nm).(*types.TypeName)
		if !ok {
			continue
		}
		n, ok := tn.Type().(*types.Named)
		if !ok || n == trx {
			continue
		}
		if _, isStruct := n.Underlying().(*types.Struct); !isStruct {
			continue
		}
		if it != nil && types.Implements(types.NewPointer(n), it) {
			owners = append(owners, n)
		}
	}
	r.Extra["p6_decoded_types"] = len(owners)
	if len(owners) < 8 {
		r.Undecided("P-6", "types", fmt.Sprintf("only %d decoded request types found (Trx + payload types; 10 confirmed by reading)", len(owners)))
		return
	}
	var fields []fieldID
	for _, n := range owners {
		st := n.Underlying().(*types.Struct)
		for i := 0; i < st.NumFields(); i++ {
			if _, ok := st.Field(i).Type().Underlying().(*types.Pointer); ok {
				fields = append(fields, fieldID{n, i})
			}
		}
	}
	isField := func(fa *ssa.FieldAddr, f fieldID) bool {
		if fa.Field != f.idx {
			return false
		}
		n, _ := fieldOf(fa.X.Type(), fa.Field)
		return n != nil && n.Obj() == f.owner.Obj()
	}
	memo := map[estKey]int{}
	w.p6Scope = map[*ssa.Function]bool{}
	for _, fn := range scope {
		w.p6Scope[fn] = true
	}
	defer func() { w.p6Scope = nil }()
	for _, f := range fields {
		// unguarded dereferences on the input paths
		var uses []string
		for _, fn := range scope {
			for _, b := range fn.Blocks {
				for _, in := range b.Instrs {
					fa, ok := in.(*ssa.FieldAddr)
					if !ok || !isField(fa, f) || fa.Referrers() == nil {
						continue
					}
					for _, ref := range *fa.Referrers() {
						ld, ok := ref.(*ssa.UnOp)
						if !ok || ld.Op != token.MUL {
							continue
						}
						for _, d := range w.derefUses(ld) {
							if !w.canonNonNilAt(ld, d.Block()) {
								uses = append(uses, site(w, d))
							}
						}
					}
				}
			}
		}
		sort.Strings(uses)
		if len(uses) == 0 {
			r.OK("P-6", "field:"+f.String()+":uses", "no unguarded dereference of this field on the input paths; a nil value is harmless")
			continue
		}
		show := uses
		if len(show) > 6 {
			show = show[:6]
		}
		r.OK("P-6", "field:"+f.String()+":uses", fmt.Sprintf("%d dereference(s) without a nil test on the input paths: producers must set the field", len(uses)), show...)
		// producers
		nProd := 0
		for _, fn := range scope {
			for _, b := range fn.Blocks {
				for _, in := range b.Instrs {
					al, ok := in.(*ssa.Alloc)
					if !ok || !al.Heap {
						continue
					}
					n, _ := deref(al.Type()).(*types.Named)
					if n == nil || n.Obj() != f.owner.Obj() {
						continue
					}
					nProd++
					key := "new:" + w.FName(fn) + ":" + f.String()
					bad, path := w.unestablishedExit(fn, al, al, f, memo, 0)
					if bad == "" {
						r.OK("P-6", key, "every success exit after this allocation (in this function, or in the callers the object is returned to) is preceded by a store of a non-nil value to the field, or by a decoder call that establishes it on all of its success paths", site(w, al))
					} else {
						r.Violate("P-6", key, fmt.Sprintf("a %s built from request bytes can leave %s successfully with %s == nil; handlers dereference that field without a nil test (e.g. %s)", f.owner.Obj().Name(), path, f.String(), uses[0]), map[string]interface{}{"path": reach.Path(fn), "success_return": bad, "unguarded_uses": show}, site(w, al))
					}
				}
			}
		}
		if nProd == 0 {
			r.Undecided("P-6", "field:"+f.String()+":producers", "the field is dereferenced on the input paths but no allocation of its type was found there")
		}
	}
}

// unestablishedExit looks for a success exit of fn reachable from `from` on which
// field f of obj has not been established. When the object is handed to the
// caller through the return value, the obligation moves to every call site.
// Returns the offending return's position ("" if none) and the function it is in.
func (w *World) unestablishedExit(fn *ssa.Function, from ssa.Instruction, obj ssa.Value, f fieldID, memo map[estKey]int, depth int) (string, string) {
	isObj := func(v ssa.Value) bool {
		v = stripConv(v)
		if v == obj {
			return true
		}
		if mi, ok := v.(*ssa.MakeInterface); ok && stripConv(mi.X) == obj {
			return true
		}
		if ph, ok := v.(*ssa.Phi); ok {
			for _, e := range ph.Edges {
				e = stripConv(e)
				if e == obj {
					return true
				}
				if mi, ok := e.(*ssa.MakeInterface); ok && stripConv(mi.X) == obj {
					return true
				}
			}
		}
		return false
	}
	// edges on which the object is known to be absent (obj == nil) are not ours
	edgeOK := func(from, to *ssa.BasicBlock) bool {
		ifi, ok := lastInstr(from).(*ssa.If)
		if !ok {
			return true
		}
		bo, ok := ifi.Cond.(*ssa.BinOp)
		if !ok || (bo.Op != token.EQL && bo.Op != token.NEQ) {
			return true
		}
		isNilC := func(x ssa.Value) bool { c, ok := x.(*ssa.Const); return ok && c.IsNil() }
		var other ssa.Value
		if isNilC(bo.Y) {
			other = bo.X
		} else if isNilC(bo.X) {
			other = bo.Y
		} else {
			return true
		}
		if !isObj(other) {
			return true
		}
		nilEdge := 0 // successor index on which other == nil
		if bo.Op == token.NEQ {
			nilEdge = 1
		}
		return from.Succs[nilEdge] != to
	}
	start := posOf(from)
	start.i++
	for _, ex := range exitsAvoiding(start, func(i ssa.Instruction) bool { return w.establishing(i, obj, f, memo) }, edgeOK) {
		ret, isRet := ex.(*ssa.Return)
		if !isRet {
			continue
		}
		ei := errResultIndex(fn)
		if ei >= 0 && w.errState(ret) == triNonNil {
			continue
		}
		// is the object handed to the caller?
		ridx := -1
		for i := range ret.Results {
			if i != ei && isObj(retResult(ret, i)) {
				ridx = i
			}
		}
		if ridx < 0 || depth >= 3 {
			return site(w, ret), w.FName(fn)
		}
		var callers []CallerSite
		for _, cs := range w.Callers(fn) {
			// only the callers on the input paths take over the obligation
			if w.p6Scope == nil || w.p6Scope[cs.Caller] {
				callers = append(callers, cs)
			}
		}
		if len(callers) == 0 {
			return site(w, ret), w.FName(fn)
		}
		for _, cs := range callers {
			call, ok := cs.Site.(*ssa.Call)
			if !ok {
				return site(w, ret), w.FName(fn)
			}
			var robj ssa.Value = call
			if fn.Signature.Results().Len() > 1 {
				ex := extractOf(call, ridx)
				if ex == nil {
					continue // result discarded
				}
				robj = ex
			}
			if bad, where := w.unestablishedExit(cs.Caller, call, robj, f, memo, depth+1); bad != "" {
				return bad, where
			}
		}
	}
	return "", ""
}
