package main

// C03 — only the key holder can cause a transaction's effects (DESIGN §3 C03, S-1 … S-5).

import (
	"fmt"
	"go/ast"
	"go/constant"
	"go/token"
	"go/types"
	"os"
	"regexp"
	"sort"
	"strings"

	"golang.org/x/tools/go/ssa"
)

func init() { register("C03", checkC03) }

const pkgCT = "ctrlers/types"

var payloadTypes = []string{"TrxPayloadProposal", "TrxPayloadVoting", "TrxPayloadSetDoc", "TrxPayloadUnstaking", "TrxPayloadWithdraw", "TrxPayloadContract", "TrxPayloadStaking", "TrxPayloadAssetTransfer"}

func checkC03(w *World, r *Report) {
	r.Explanation = "Structural clause of C03: (S-1) VerifyTrxRLP(ctx.Tx, ctx.ChainID) is called on the ctx.Exec branch of commonValidation0, its error is returned, no success return of commonValidation0/validateTrx/ExecuteSync bypasses it before runTrx, DeliverTx builds its context with exec=true and every TrxContext.ChainID comes from the node's chain id; (S-2) VerifyTrxRLP compares the full recovered address with tx.From and fails on inequality, the pre-image is prefix(chainId, len) ++ RLP(tx) of the same tx, Sig2Addr recovers from DefaultHash(pre-image) and the tx's own signature; (S-3) Trx.EncodeRLP places every Trx field in the encoded struct and every payload EncodeRLP reads every field of its struct; (S-4) every integer conversion on the way into the pre-image is width-preserving or widening, 256-bit values enter as Bytes(), payloads are RLP lists/items, never concatenations; (S-5) Trx.fromProto fills every Trx field from the like-named wire field, and fromProto, DecodeRLP and the payload codecs agree type by type. Under the fact that validateTrx reported an error no path of ExecuteSync / executionRoutine carries an effect (S-1 no-effect-when-validation-fails): the sender of a transaction whose signature check failed is only a claim. S-4 also requires, per encoder, that no byte slice is squeezed into a fixed-size array (BytesToHash, BytesToAddress), converted to an array pointer or cut with an upper bound on the way into the signed encoding."
	r.NotCovered = "strength of secp256k1/SHA-256 and go-ethereum's SigToPub/rlp internals; chain ids containing the prefix's delimiter; malleability of the tx hash (not part of the statement)."
	s1(w, r)
	s2(w, r)
	s3s4(w, r)
	s5(w, r)
	r.Floor("S-1", 7, "verification placement")
	r.Floor("S-2", 7, "verification content")
	r.Floor("S-3", 11+6, "Trx fields + payload encoders")
	r.Floor("S-4", 10, "conversions and encodings")
	r.Floor("S-5", 11+6, "fromProto fields + codec agreement")
}

func constBool(v ssa.Value) (bool, bool) {
	c, ok := v.(*ssa.Const)
	if !ok || c.Value == nil || c.Value.Kind() != constant.Bool {
		return false, false
	}
	return constant.BoolVal(c.Value), true
}

// isExecCond: cond is a load of <ctx>.Exec with ctx a *TrxContext.
func (w *World) isExecCond(c ssa.Value) bool {
	c = stripConv(c)
	u, ok := c.(*ssa.UnOp)
	if !ok || u.Op != token.MUL {
		return false
	}
	fa, ok := u.X.(*ssa.FieldAddr)
	if !ok {
		return false
	}
	n, f := fieldOf(fa.X.Type(), fa.Field)
	return f != nil && f.Name() == "Exec" && namedIs(n, absPkg(pkgCT), "TrxContext")
}

func s1(w *World, r *Report) {
	cv0 := needFn(r, "S-1", w, fref{"node", "", "commonValidation0"})
	if cv0 != nil {
		calls := w.callsTo(cv0, fref{pkgCT, "", "VerifyTrxRLP"})
		sigErr := AR(`VerifyTrxRLP\(p0\.Tx, p0\.ChainID\)#2$`, "!=", `^nil$`)
		if ok, _ := w.gateHolds(cv0, sigErr, TR(`^p0\.Exec$`)); len(calls) != 1 && ok {
			// the verification sits in a helper: decided on the paths
			r.OK("S-1", "commonValidation0:VerifyTrxRLP", "with ctx.Exec true, commonValidation0 has no successful path when VerifyTrxRLP(ctx.Tx, ctx.ChainID) reports an error (helpers expanded)", fnSite(w, cv0))
		} else if len(calls) != 1 {
			r.Violate("S-1", "commonValidation0:VerifyTrxRLP", fmt.Sprintf("commonValidation0 calls VerifyTrxRLP %d times (expected exactly one)", len(calls)), nil, fnSite(w, cv0))
		} else {
			c := calls[0]
			a := c.Common().Args
			r.Check(len(a) == 2 && w.Canon(a[0]) == "p0.Tx" && w.Canon(a[1]) == "p0.ChainID", "S-1", "commonValidation0:VerifyTrxRLP:args", "verifies this context's transaction for this context's chain id", "VerifyTrxRLP is not given (ctx.Tx, ctx.ChainID): "+w.canonCall(c.Common(), 0), site(w, c))
			e, ifi := w.underCond(c.Block(), w.isExecCond)
			r.Check(e == 1, "S-1", "commonValidation0:VerifyTrxRLP:on-exec-branch", "the signature is verified whenever ctx.Exec is true", "VerifyTrxRLP is not on the ctx.Exec=true branch", site(w, c))
			// error returned
			errV := extractOf(callValue(c), 2)
			guarded := false
			if errV != nil {
				for _, g := range w.Guards(cv0) {
					if bo, ok := g.If.Cond.(*ssa.BinOp); ok && (sameValue(bo.X, errV) || sameValue(bo.Y, errV)) && strings.HasSuffix(g.Cond, " != nil)") {
						guarded = true
					}
				}
			}
			r.Check(guarded, "S-1", "commonValidation0:VerifyTrxRLP:error-returned", "a verification error fails the validation", "the error of VerifyTrxRLP is not returned", site(w, c))
			// no success return bypasses the call when exec
			if ifi != nil && e == 1 {
				ok := true
				var bad ssa.Instruction
				for _, b := range cv0.Blocks {
					if ret, isR := lastInstr(b).(*ssa.Return); isR && w.errState(ret) != triNonNil {
						if !ifi.Block().Dominates(b) {
							ok, bad = false, ret
						}
					}
				}
				for _, ex := range exitsAvoiding(ipos{ifi.Block().Succs[0], 0}, func(in ssa.Instruction) bool { return in == ssa.Instruction(c.(ssa.Instruction)) }, nil) {
					if ret, isR := ex.(*ssa.Return); isR && w.errState(ret) != triNonNil {
						ok, bad = false, ret
					}
				}
				if ok {
					r.OK("S-1", "commonValidation0:no-bypass", "every success return of commonValidation0 is behind the ctx.Exec test, and with Exec=true behind VerifyTrxRLP", site(w, ifi))
				} else {
					r.Violate("S-1", "commonValidation0:no-bypass", "a success return of commonValidation0 is reachable with Exec=true without signature verification", nil, site(w, bad))
				}
			}
		}
	}
	// validateTrx: commonValidation0 first, error returned, before any handler
	vt := needFn(r, "S-1", w, fref{"node", "", "validateTrx"})
	if vt != nil {
		cs := w.callsTo(vt, fref{"node", "", "commonValidation0"})
		ok := len(cs) == 1 && len(cs[0].Common().Args) == 1 && cs[0].Common().Args[0] == ssa.Value(vt.Params[0])
		var g0 *Guard
		if ok {
			for _, g := range w.Guards(vt) {
				if bo, isB := g.If.Cond.(*ssa.BinOp); isB && (sameValue(bo.X, callValue(cs[0])) || sameValue(bo.Y, callValue(cs[0]))) {
					g0 = g
				}
			}
		}
		if ok, _ := w.gateHolds(vt, AR(`VerifyTrxRLP\(p0\.Tx, p0\.ChainID\)#2$`, "!=", `^nil$`), TR(`^p0\.Exec$`)); g0 == nil && ok {
			// the checks are arranged differently (helpers, a table of steps): decided on the paths
			r.OK("S-1", "validateTrx:commonValidation0", "with ctx.Exec true, validateTrx reaches no controller and no success return when VerifyTrxRLP(ctx.Tx, ctx.ChainID) reports an error (helpers and steps expanded)", fnSite(w, vt))
		} else if g0 == nil {
			r.Violate("S-1", "validateTrx:commonValidation0", "validateTrx does not call commonValidation0(ctx) and return its error", nil, fnSite(w, vt))
		} else {
			bad := ""
			for _, b := range vt.Blocks {
				for _, in := range b.Instrs {
					if ci, isC := in.(ssa.CallInstruction); isC && ci.Common().IsInvoke() && (ci.Common().Method.Name() == "ValidateTrx" || ci.Common().Method.Name() == "ExecuteTrx") {
						if !g0.Protects(b) {
							bad = site(w, in)
						}
					}
				}
				if ret, isR := lastInstr(b).(*ssa.Return); isR && w.errState(ret) != triNonNil && !g0.Protects(b) {
					bad = site(w, ret)
				}
			}
			r.Check(bad == "", "S-1", "validateTrx:commonValidation0", "commonValidation0's error returns before any controller validation and before any success return", "a controller call or success return in validateTrx is not behind commonValidation0's error check: "+bad, site(w, cs[0]))
		}
	}
	// ExecuteSync / executionRoutine: validateTrx before runTrx
	for _, ref := range []fref{{"node", "TrxExecutor", "ExecuteSync"}, {"node", "", "executionRoutine"}} {
		fn := needFn(r, "S-1", w, ref)
		if fn == nil {
			continue
		}
		key := refStr(ref) + ":validate-before-run"
		ok, whyVR := w.validateBeforeRun(fn)
		r.Check(ok, "S-1", key, "runTrx executes only on the branch where validateTrx returned nil, for the same context", "runTrx is reachable although validateTrx failed (or for another context): "+whyVR, fnSite(w, fn))
		// and nothing else changes state for a transaction whose validation failed: the
		// claimed sender of a wrongly signed transaction is only a claim
		{
			effEv := func(in ssa.Instruction) string {
				if c, isC := in.(ssa.CallInstruction); isC {
					if cal := c.Common().StaticCallee(); cal != nil {
						if cal.Name() == "validateTrx" {
							return ""
						}
						// a helper that contains the validation is walked in line
						if w.InModule(cal) && cal != fn {
							for _, g := range w.withModuleCallees(cal, 2) {
								if len(w.callsTo(g, fref{"node", "", "validateTrx"})) > 0 {
									return ""
								}
							}
						}
					}
				}
				if e := w.effectOf(in); e != nil {
					return e.What + "@" + site(w, in)
				}
				return ""
			}
			fe := w.newFactEval(nil, AR(`^node\.validateTrx\(.*\)$`, "!=", "^nil$"))
			saved := w.branchMarkers
			w.branchMarkers = false
			w.enumDepth = 3
			ps, complete := w.enumPaths(fn, fe.eval, effEv, 4000)
			w.enumDepth = 0
			w.branchMarkers = saved
			bad := ""
			for _, p := range ps {
				if len(p.Events) > 0 {
					bad = strings.Join(p.Events, ", ")
				}
			}
			okE := complete && len(fe.used) > 0 && bad == "" && len(ps) > 0
			r.Check(okE, "S-1", refStr(ref)+":no-effect-when-validation-fails", "when validateTrx reports an error (which includes a failed signature check) no path of this function changes an account, a ledger or controller state", "state is changed for a transaction whose validation failed — the sender it names was never authenticated: "+bad, fnSite(w, fn))
		}
	}
	// DeliverTx's context is exec=true; CheckTx's is exec=false
	for _, nm := range []struct {
		fn   string
		want bool
	}{{"deliverTxSync", true}, {"CheckTx", false}} {
		fn := needFn(r, "S-1", w, fref{"node", "RigoApp", nm.fn})
		if fn == nil {
			continue
		}
		cs := w.callsTo(fn, fref{pkgCT, "", "NewTrxContext"})
		ok := len(cs) == 1
		if ok {
			b, isC := constBool(cs[0].Common().Args[3])
			ok = isC && b == nm.want
		}
		r.Check(ok, "S-1", "RigoApp."+nm.fn+":exec-flag", fmt.Sprintf("NewTrxContext(..., exec=%v)", nm.want), fmt.Sprintf("%s does not build its context with exec=%v", nm.fn, nm.want), fnSite(w, fn))
	}
	// NewTrxContext stores exec param into Exec
	ntc := needFn(r, "S-1", w, fref{pkgCT, "", "NewTrxContext"})
	if ntc != nil {
		ok := false
		for _, fs := range w.fieldStores(ntc) {
			if fs.Field.Name() == "Exec" && fs.Val == ssa.Value(ntc.Params[3]) {
				ok = true
			}
		}
		r.Check(ok, "S-1", "NewTrxContext:Exec", "TrxContext.Exec is the exec argument", "TrxContext.Exec is not the exec argument", fnSite(w, ntc))
	}
	// every store to TrxContext.ChainID is the node's chain id
	n := 0
	for _, fn := range w.ModuleFuncs() {
		for _, fs := range w.fieldStores(fn) {
			if fs.Field.Name() != "ChainID" || !namedIs(fs.Owner, absPkg(pkgCT), "TrxContext") {
				continue
			}
			n++
			v := w.Canon(fs.Val)
			r.Check(strings.HasSuffix(v, ".rootConfig.ChainID"), "S-1", "TrxContext.ChainID:"+w.FName(fn), "the context's chain id is the node's configured chain id", "a transaction context gets a chain id that is not the node's: "+v, site(w, fs.In))
		}
	}
	if n == 0 {
		r.Violate("S-1", "TrxContext.ChainID", "no function stores TrxContext.ChainID (verification would run with an empty chain id)", nil)
	}
	// rootConfig.ChainID comes from the persisted / genesis chain id
	for _, nm := range []string{"Info", "InitChain"} {
		fn := needFn(r, "S-1", w, fref{"node", "RigoApp", nm})
		if fn == nil {
			continue
		}
		ok := false
		for _, fs := range w.fieldStores(fn) {
			if fs.Field.Name() == "ChainID" {
				v := w.Canon(fs.Val)
				if strings.HasSuffix(v, ".metaDB.ChainID()") || strings.HasSuffix(v, ".GetChainId()") {
					ok = true
				}
			}
		}
		r.Check(ok, "S-1", "rootConfig.ChainID:"+nm, "chain id taken from genesis / the meta store", "RigoApp."+nm+" no longer sets the chain id from genesis / the meta store", fnSite(w, fn))
	}
}

func s2(w *World, r *Report) {
	fn := needFn(r, "S-2", w, fref{pkgCT, "", "VerifyTrxRLP"})
	if fn != nil {
		// evaluated on the paths of VerifyTrxRLP with helpers expanded
		preRef, s2aRef := fref{pkgCT, "", "PreImageToSignTrxRLP"}, fref{"types/crypto", "", "Sig2Addr"}
		ev := func(in ssa.Instruction) string {
			c, ok := in.(ssa.CallInstruction)
			if !ok {
				return ""
			}
			switch {
			case w.callIs(c.Common(), preRef):
				return "PRE:" + w.canonCall(c.Common(), 0)
			case w.callIs(c.Common(), s2aRef):
				return "S2A:" + w.canonCall(c.Common(), 0)
			}
			return ""
		}
		wantPre := "PRE:types.PreImageToSignTrxRLP(p0, p1)"
		wantS2A := "S2A:crypto.Sig2Addr(types.PreImageToSignTrxRLP(p0, p1)#0, p0.Sig)"
		base := w.runUnder(fn, nil, ev)
		shape := base.complete && base.ok > 0
		for _, p := range base.okEvents {
			if len(p) != 2 || p[0] != wantPre || p[1] != wantS2A {
				shape = false
			}
		}
		r.Check(shape, "S-2", "VerifyTrxRLP:preimage-args", "every successful verification builds the pre-image of this tx for this chain id exactly once", "pre-image is not built from (tx, chainId) exactly once on every successful path", fnSite(w, fn))
		r.Check(shape, "S-2", "VerifyTrxRLP:recover-args", "and recovers the signer from (that pre-image, tx.Sig) exactly once", "Sig2Addr is not given the pre-image and the transaction's own signature", fnSite(w, fn))
		addr := `crypto\.Sig2Addr\(types\.PreImageToSignTrxRLP\(p0, p1\)#0, p0\.Sig\)#0$`
		ok, why := w.failsUnder(fn, nil, AR(addr, "!=", `^p0\.From$`))
		r.Check(ok, "S-2", "VerifyTrxRLP:address-compare", "when the recovered address differs from tx.From the verification has no successful path ("+why+")", "a success return of VerifyTrxRLP is not behind the comparison of the full recovered address with tx.From: "+why, fnSite(w, fn))
		ok1, why1 := w.failsUnder(fn, nil, AR(`types\.PreImageToSignTrxRLP\(p0, p1\)#1$`, "!=", `^nil$`))
		r.Check(ok1, "S-2", "VerifyTrxRLP:error:PreImageToSignTrxRLP", "error fails the verification", "error of PreImageToSignTrxRLP is ignored: "+why1, fnSite(w, fn))
		ok2, why2 := w.failsUnder(fn, nil, AR(`crypto\.Sig2Addr\(.*\)#2$`, "!=", `^nil$`))
		r.Check(ok2, "S-2", "VerifyTrxRLP:error:Sig2Addr", "error fails the verification", "error of Sig2Addr is ignored: "+why2, fnSite(w, fn))
	}
	pf := needFn(r, "S-2", w, fref{pkgCT, "", "PreImageToSignTrxRLP"})
	if pf != nil {
		// evaluated on the paths of the function (helpers, closures handed to helpers
		// and deferred closures expanded): clear the signature, encode the tx, nothing else
		isTx := func(s string) bool { return s == "p0" || s == "^p0" }
		ev := func(in ssa.Instruction) string {
			switch x := in.(type) {
			case *ssa.Store:
				fa, ok := x.Addr.(*ssa.FieldAddr)
				if !ok || fieldName(fa.X.Type(), fa.Field) != "Sig" {
					return ""
				}
				if n, _ := fieldOf(fa.X.Type(), fa.Field); n == nil || n.Obj().Name() != "Trx" {
					return ""
				}
				if c, isC := x.Val.(*ssa.Const); isC && c.IsNil() {
					return "SIGNIL\x01" + w.Canon(fa.X)
				}
				return "SIGSET\x01" + w.Canon(fa.X)
			case ssa.CallInstruction:
				if w.callIs(x.Common(), fref{"github.com/ethereum/go-ethereum/rlp", "", "EncodeToBytes"}) && len(x.Common().Args) == 1 {
					return "ENC\x01" + w.Canon(x.Common().Args[0])
				}
			}
			return ""
		}
		all := w.runUnder(pf, nil, ev)
		okEnc, okClr := all.complete && all.ok > 0, all.complete && all.ok > 0
		nEnc := 0
		for _, evs := range all.okEvents {
			enc, lastNil, lastSet := -1, -1, -1
			cnt := 0
			for i, e := range evs {
				parts := strings.SplitN(e, "\x01", 2)
				switch parts[0] {
				case "ENC":
					cnt++
					if enc < 0 {
						enc = i
					}
					if !isTx(parts[1]) {
						okEnc = false
					}
				case "SIGNIL":
					if enc < 0 && isTx(parts[1]) {
						lastNil = i
					}
				case "SIGSET":
					if enc < 0 {
						lastSet = i
					}
				}
			}
			if cnt == 0 {
				continue // a path that returns an error before encoding
			}
			nEnc++
			if cnt != 1 {
				okEnc = false
			}
			if lastNil < 0 || lastSet > lastNil {
				okClr = false
			}
		}
		if nEnc == 0 {
			okEnc, okClr = false, false
		}
		r.Check(okEnc, "S-2", "PreImage:rlp-of-tx", "the signed bytes are rlp.EncodeToBytes(tx)", "the pre-image is not the RLP of the given transaction", fnSite(w, pf))
		if okEnc {
			r.Check(okClr, "S-2", "PreImage:sig-cleared", "the signature field is empty in the signed encoding", "the signature is not cleared before encoding (nothing could ever verify)", fnSite(w, pf))
			okp, why := w.preImageShape(pf)
			r.Check(okp, "S-2", "PreImage:prefix", "prefix is formatted from (chainId, len(rlp))", "the pre-image prefix does not contain the chain id and the encoded length: "+why, fnSite(w, pf))
			r.Check(okp, "S-2", "PreImage:concat", "pre-image = prefix ++ rlp(tx)", "the pre-image is not prefix ++ rlp(tx): "+why, fnSite(w, pf))
		}
	}
	sf := needFn(r, "S-2", w, fref{"types/crypto", "", "Sig2Addr"})
	if sf != nil {
		rec := w.callsTo(sf, fref{"github.com/ethereum/go-ethereum/crypto", "", "SigToPub"})
		ok := len(rec) == 1
		if ok {
			a := rec[0].Common().Args
			ok = w.Canon(a[0]) == "crypto.DefaultHash([p0])" && w.Canon(a[1]) == "p1"
		}
		r.Check(ok, "S-2", "Sig2Addr:recover", "public key recovered from (DefaultHash(msg), sig)", "Sig2Addr does not recover from the hash of the whole message and the given signature", fnSite(w, sf))
		if ok {
			pub := extractOf(callValue(rec[0]), 0)
			okr := false
			for _, b := range sf.Blocks {
				if ret, isR := lastInstr(b).(*ssa.Return); isR && w.errState(ret) == triNil {
					if pub == nil {
						continue
					}
					got := w.CanonI(retResult(ret, 0))
					okr = got == "crypto.Pub2Addr("+w.Canon(pub)+")"
					// or Pub2Addr's own body applied to the recovered key
					if p2a := w.Func("types/crypto", "Pub2Addr"); !okr && p2a != nil && len(p2a.Params) == 1 {
						if res := w.simpleHelper(p2a); res != nil {
							w.inlineEnv = append(w.inlineEnv, map[*ssa.Parameter]string{p2a.Params[0]: w.Canon(pub)})
							want := w.CanonI(res)
							w.inlineEnv = w.inlineEnv[:len(w.inlineEnv)-1]
							okr = got == want
						}
					}
				}
			}
			r.Check(okr, "S-2", "Sig2Addr:address-of-recovered-key", "the address returned is derived from the recovered key", "the address returned is not that of the recovered key", fnSite(w, sf))
		}
		dh := w.Func("types/crypto", "DefaultHash")
		okh := false
		if dh != nil {
			// writes every element of datas into the hasher
			for _, c := range CallsIn(dh) {
				if c.Common().IsInvoke() && c.Common().Method.Name() == "Write" && strings.HasPrefix(w.Canon(c.Common().Args[0]), "p0[") {
					okh = true
				}
			}
		}
		r.Check(okh, "S-2", "DefaultHash:covers-input", "the hash absorbs every input slice", "DefaultHash does not absorb its input", "types/crypto/crypto.go")
	}
}

// intWidth returns (bits, signed, ok) for basic integer types.
func intWidth(t types.Type) (int, bool) {
	b, ok := t.Underlying().(*types.Basic)
	if !ok || b.Info()&types.IsInteger == 0 {
		return 0, false
	}
	switch b.Kind() {
	case types.Int8, types.Uint8:
		return 8, true
	case types.Int16, types.Uint16:
		return 16, true
	case types.Int32, types.Uint32:
		return 32, true
	case types.Int64, types.Uint64, types.Int, types.Uint, types.Uintptr:
		return 64, true
	}
	return 0, false
}

func s3s4(w *World, r *Report) {
	trx := w.Named(pkgCT, "Trx")
	rpl := w.Named(pkgCT, "trxRPL")
	fd, info := w.declOf(pkgCT, "Trx", "EncodeRLP")
	if trx == nil || rpl == nil || fd == nil {
		r.Undecided("S-3", "Trx.EncodeRLP", "Trx, trxRPL or Trx.EncodeRLP not found")
	} else {
		// the composite literal of trxRPL
		var lit *ast.CompositeLit
		ast.Inspect(fd, func(n ast.Node) bool {
			if cl, ok := n.(*ast.CompositeLit); ok {
				if tv, ok := info.Types[cl]; ok {
					if nn, ok := tv.Type.(*types.Named); ok && nn.Obj() == rpl.Obj() {
						lit = cl
					}
				}
			}
			return true
		})
		if lit == nil {
			// the literal built by a method of the transaction that EncodeRLP calls on itself
			// (`rtx, err := tx.toRLP()`): that method's body is read instead
			var helper *ast.FuncDecl
			var hinfo *types.Info
			ast.Inspect(fd.Body, func(n ast.Node) bool {
				ce, ok := n.(*ast.CallExpr)
				if !ok || len(ce.Args) != 0 {
					return true
				}
				se, ok := ce.Fun.(*ast.SelectorExpr)
				if !ok {
					return true
				}
				rid, ok := se.X.(*ast.Ident)
				if !ok || fd.Recv == nil || len(fd.Recv.List) != 1 || len(fd.Recv.List[0].Names) != 1 || rid.Name != fd.Recv.List[0].Names[0].Name {
					return true
				}
				if hd, hi := w.declOf(pkgCT, "Trx", se.Sel.Name); hd != nil && hd != fd {
					helper, hinfo = hd, hi
				}
				return true
			})
			if helper != nil {
				ast.Inspect(helper, func(n ast.Node) bool {
					if cl, ok := n.(*ast.CompositeLit); ok {
						if tv, ok := hinfo.Types[cl]; ok {
							if nn, ok := tv.Type.(*types.Named); ok && nn.Obj() == rpl.Obj() {
								lit = cl
							}
						}
					}
					return true
				})
				if lit != nil {
					fd, info = helper, hinfo
				}
			}
		}
		if lit == nil {
			r.Undecided("S-3", "Trx.EncodeRLP:literal", "Trx.EncodeRLP no longer builds a trxRPL literal")
		} else {
			keyed := map[string]ast.Expr{}
			for _, e := range lit.Elts {
				if kv, ok := e.(*ast.KeyValueExpr); ok {
					if id, ok := kv.Key.(*ast.Ident); ok {
						keyed[id.Name] = kv.Value
					}
				}
			}
			// local variables assigned from tx fields before the literal (payload)
			localReads := map[string]map[string]bool{}
			ast.Inspect(fd.Body, func(n ast.Node) bool {
				as, ok := n.(*ast.AssignStmt)
				if !ok {
					return true
				}
				for i, lhs := range as.Lhs {
					if id, ok := lhs.(*ast.Ident); ok && i < len(as.Rhs) {
						if localReads[id.Name] == nil {
							localReads[id.Name] = map[string]bool{}
						}
						for f := range fieldsSelectedIn(info, as.Rhs[i], trx) {
							localReads[id.Name][f] = true
						}
					}
				}
				return true
			})
			// transitive closure over locals (payload = _tmp; _tmp from tx.Payload)
			for iter := 0; iter < 3; iter++ {
				ast.Inspect(fd.Body, func(n ast.Node) bool {
					as, ok := n.(*ast.AssignStmt)
					if !ok {
						return true
					}
					for i, lhs := range as.Lhs {
						id, ok := lhs.(*ast.Ident)
						if !ok || i >= len(as.Rhs) {
							continue
						}
						ast.Inspect(as.Rhs[i], func(m ast.Node) bool {
							if rid, ok := m.(*ast.Ident); ok {
								for f := range localReads[rid.Name] {
									if localReads[id.Name] == nil {
										localReads[id.Name] = map[string]bool{}
									}
									localReads[id.Name][f] = true
								}
							}
							return true
						})
					}
					return true
				})
			}
			for _, f := range structFields(trx) {
				val, ok := keyed[f.Name()]
				if !ok {
					r.Violate("S-3", "Trx.EncodeRLP:field:"+f.Name(), "field "+f.Name()+" of Trx has no slot in the signed encoding (it could be altered without invalidating the signature)", nil, w.Pos(lit.Pos()))
					continue
				}
				reads := fieldsSelectedIn(info, val, trx)
				ast.Inspect(val, func(m ast.Node) bool {
					if id, ok := m.(*ast.Ident); ok {
						for ff := range localReads[id.Name] {
							reads[ff] = true
						}
					}
					return true
				})
				r.Check(reads[f.Name()], "S-3", "Trx.EncodeRLP:field:"+f.Name(), "slot "+f.Name()+" of the signed encoding is computed from tx."+f.Name(), "slot "+f.Name()+" of the signed encoding is not computed from tx."+f.Name(), w.Pos(val.Pos()))
			}
			// the literal is what gets encoded
			efn := w.Method(pkgCT, "Trx", "EncodeRLP")
			okEnc := false
			if efn != nil {
				for _, c := range w.callsTo(efn, fref{"github.com/ethereum/go-ethereum/rlp", "", "Encode"}) {
					a := c.Common().Args
					if len(a) == 2 && w.Canon(a[0]) == "p0" && strings.Contains(typeStr(stripConv(a[1]).Type()), "trxRPL") {
						okEnc = true
					}
				}
			}
			r.Check(okEnc, "S-3", "Trx.EncodeRLP:encodes-literal", "the whole trxRPL struct is RLP-encoded to the writer", "Trx.EncodeRLP does not encode the trxRPL struct to its writer", w.Pos(fd.Pos()))
		}
	}
	// payload encoders
	for _, pt := range payloadTypes {
		n := w.Named(pkgCT, pt)
		if n == nil {
			if pt == "TrxPayloadAssetTransfer" {
				continue
			}
			r.Undecided("S-3", "payload:"+pt, "payload type not found")
			continue
		}
		fields := structFields(n)
		pfd, pinfo := w.declOf(pkgCT, pt, "EncodeRLP")
		if pfd == nil {
			r.Undecided("S-3", "payload:"+pt+":EncodeRLP", "EncodeRLP not found")
			continue
		}
		if len(fields) == 0 {
			continue
		}
		reads := fieldsSelectedIn(pinfo, pfd.Body, n)
		w.addHelperFieldReads(w.Method(pkgCT, pt, "EncodeRLP"), n, reads)
		var missing []string
		for _, f := range fields {
			if !reads[f.Name()] {
				missing = append(missing, f.Name())
			}
		}
		r.Check(len(missing) == 0, "S-3", "payload:"+pt+":EncodeRLP", fmt.Sprintf("all %d field(s) enter the signed encoding", len(fields)), "payload field(s) not covered by the signed encoding: "+strings.Join(missing, ","), w.Pos(pfd.Pos()))
		// S-4: what is handed to rlp.Encode
		pfn := w.Method(pkgCT, pt, "EncodeRLP")
		if pfn == nil {
			continue
		}
		encs := w.callsTo(pfn, fref{"github.com/ethereum/go-ethereum/rlp", "", "Encode"})
		if len(encs) != 1 {
			r.Violate("S-4", "payload:"+pt+":single-rlp-item", fmt.Sprintf("EncodeRLP must emit exactly one RLP item (found %d rlp.Encode calls)", len(encs)), nil, w.Pos(pfd.Pos()))
			continue
		}
		arg := stripConv(encs[0].Common().Args[1])
		kind := ""
		switch x := arg.(type) {
		case *ssa.Alloc:
			if _, ok := deref(x.Type()).Underlying().(*types.Struct); ok {
				kind = "struct"
			}
		case *ssa.Slice:
			if _, ok := x.X.(*ssa.Alloc); ok {
				kind = "list"
			}
		case *ssa.UnOp:
			if w.isFieldLoad(x, "recv", "") || true {
				if _, ok := x.X.(*ssa.FieldAddr); ok {
					kind = "field"
				}
			}
		case *ssa.Call:
			if nm := callName(x.Common()); nm == "Bytes" || nm == "Bytes32" {
				kind = "uint256-bytes"
			}
			// a helper of the type that builds the RLP struct and hands it back
			if cal := x.Common().StaticCallee(); cal != nil && w.InModule(cal) && cal.Blocks != nil {
				all := true
				nRet := 0
				for _, b := range cal.Blocks {
					if rt, isR := lastInstr(b).(*ssa.Return); isR && b != cal.Recover {
						nRet++
						al, isA := stripConv(rt.Results[0]).(*ssa.Alloc)
						if len(rt.Results) != 1 || !isA {
							all = false
						} else if _, isS := deref(al.Type()).Underlying().(*types.Struct); !isS {
							all = false
						}
					}
				}
				if all && nRet > 0 {
					kind = "struct"
					// the helper must not concatenate either
					pfn = nil
					for _, b := range cal.Blocks {
						for _, in := range b.Instrs {
							if bo, ok := in.(*ssa.BinOp); ok && bo.Op == token.ADD {
								if bt, ok := bo.Type().Underlying().(*types.Basic); ok && bt.Info()&types.IsString != 0 {
									kind = ""
								}
							}
						}
					}
					pfn = w.Method(pkgCT, pt, "EncodeRLP")
				}
			}
		}
		if kind == "" {
			if cv, ok := arg.(*ssa.ChangeType); ok {
				if u, ok := cv.X.(*ssa.UnOp); ok {
					if _, ok := u.X.(*ssa.FieldAddr); ok {
						kind = "field"
					}
				}
			}
		}
		// concatenation?
		concat := false
		for _, b := range pfn.Blocks {
			for _, in := range b.Instrs {
				if bo, ok := in.(*ssa.BinOp); ok && bo.Op == token.ADD {
					if bt, ok := bo.Type().Underlying().(*types.Basic); ok && bt.Info()&types.IsString != 0 {
						concat = true
					}
				}
				if c, ok := in.(*ssa.Call); ok {
					if bi, ok := c.Common().Value.(*ssa.Builtin); ok && bi.Name() == "append" {
						concat = true
					}
				}
			}
		}
		r.Check(kind != "" && !concat, "S-4", "payload:"+pt+":single-rlp-item", "encoded as one RLP "+kind+" (length-delimited, injective)", "payload is not encoded as a single RLP struct/list/item (concatenation is not injective): "+w.Canon(arg), site(w, encs[0]))
	}
	// S-4 conversions in every encoder on the way into the pre-image
	var encFns []*ssa.Function
	if f := w.Method(pkgCT, "Trx", "EncodeRLP"); f != nil {
		encFns = append(encFns, f)
	}
	for _, pt := range payloadTypes {
		if f := w.Method(pkgCT, pt, "EncodeRLP"); f != nil {
			encFns = append(encFns, f)
		}
	}
	for _, fn := range encFns {
		for _, b := range fn.Blocks {
			for _, in := range b.Instrs {
				cv, ok := in.(*ssa.Convert)
				if !ok {
					continue
				}
				sb, ok1 := intWidth(cv.X.Type())
				db, ok2 := intWidth(cv.Type())
				if !ok1 || !ok2 {
					continue
				}
				key := w.FName(fn) + ":convert:" + w.Canon(cv)
				r.Check(db >= sb, "S-4", key, fmt.Sprintf("%d-bit → %d-bit: distinct values stay distinct", sb, db), fmt.Sprintf("narrowing conversion %d-bit → %d-bit in the signed encoding: two transactions differing only in the dropped bits share one signature", sb, db), site(w, in))
			}
		}
	}
	// variable-length byte fields enter at full length: no call that squeezes a
	// byte slice into a fixed-size array (common.BytesToHash keeps the last 32
	// bytes, BytesToAddress the last 20) and no slicing with an upper bound on
	// the way into the signed encoding — two transactions that differ only in the
	// dropped bytes would share one signature while execution sees the full value
	for _, fn := range encFns {
		bad := ""
		var scan func(g *ssa.Function, d int)
		seenF := map[*ssa.Function]bool{}
		scan = func(g *ssa.Function, d int) {
			if g == nil || g.Blocks == nil || seenF[g] || d > 2 {
				return
			}
			seenF[g] = true
			for _, b := range g.Blocks {
				for _, in := range b.Instrs {
					switch x := in.(type) {
					case *ssa.Call:
						cal := x.Common().StaticCallee()
						if cal == nil {
							continue
						}
						if w.InModule(cal) && cal.Pkg == g.Pkg {
							scan(cal, d+1)
							continue
						}
						if isFixedByteArray(x.Type()) {
							for _, a := range x.Common().Args {
								if isByteSlice(a.Type()) && bad == "" {
									bad = w.Canon(x) + " (" + w.InstrPos(x) + ")"
								}
							}
						}
					case *ssa.SliceToArrayPointer:
						if bad == "" {
							bad = w.Canon(x) + " (" + w.InstrPos(x) + ")"
						}
					case *ssa.Slice:
						if x.High != nil && isByteSlice(x.X.Type()) && strings.Contains(w.Canon(x.X), "recv.") && bad == "" {
							bad = w.Canon(x) + " (" + w.InstrPos(x) + ")"
						}
					}
				}
			}
		}
		scan(fn, 0)
		r.Check(bad == "", "S-4", w.FName(fn)+":bytes-at-full-length", "no byte slice is squeezed into a fixed-size array or cut with an upper bound on the way into the signed encoding", "a variable-length byte field is truncated before signing (the dropped bytes are executed but not signed): "+bad, fnSite(w, fn))
	}
	// 256-bit values enter as Bytes()
	if efn := w.Method(pkgCT, "Trx", "EncodeRLP"); efn != nil {
		for _, fs := range w.fieldStores(efn) {
			if fs.Field.Name() == "Amount" || fs.Field.Name() == "GasPrice" {
				c := w.Canon(fs.Val)
				want := "recv." + fs.Field.Name() + ".Bytes()"
				r.Check(c == want || c == "recv."+fs.Field.Name()+".Bytes32()[:]", "S-4", "Trx.EncodeRLP:uint256:"+fs.Field.Name(), "the full 256-bit value enters the encoding (minimal big-endian)", "the 256-bit value is truncated or transformed before signing: "+c, site(w, fs.In))
			}
		}
	}
}

func s5(w *World, r *Report) {
	fn := needFn(r, "S-5", w, fref{pkgCT, "Trx", "fromProto"})
	trx := w.Named(pkgCT, "Trx")
	if fn != nil && trx != nil {
		got := map[string]string{}
		for _, fs := range w.fieldStores(fn) {
			if fa := fs.Addr.(*ssa.FieldAddr); fa.X == ssa.Value(fn.Params[0]) {
				got[fs.Field.Name()] = w.Canon(fs.Val)
			}
		}
		for _, f := range structFields(trx) {
			v, ok := got[f.Name()]
			if !ok {
				r.Violate("S-5", "fromProto:field:"+f.Name(), "Trx."+f.Name()+" is not filled from the wire (executed value would be a default the signer never saw)", nil, fnSite(w, fn))
				continue
			}
			good := strings.Contains(v, "p0."+f.Name()) || strings.Contains(v, "p0.X"+f.Name())
			if f.Name() == "Payload" {
				// decided by the payload table: the wire type selects the payload object
				n := 0
				for _, t := range w.payloadTable(r) {
					if strings.HasPrefix(t, "*types.TrxPayload") {
						n++
					}
				}
				good = n >= 6
			}
			r.Check(good, "S-5", "fromProto:field:"+f.Name(), "filled from the like-named wire field", "Trx."+f.Name()+" is filled from "+v+", not from the like-named wire field", fnSite(w, fn))
		}
	}
	// fromProto vs DecodeRLP tables
	t1 := w.payloadTable(r)
	t2 := w.decodeRLPTable(r)
	if t1 != nil && t2 != nil {
		var ks []int
		for k := range t1 {
			ks = append(ks, int(k))
		}
		sort.Ints(ks)
		for _, k := range ks {
			a, b := t1[int64(k)], t2[int64(k)]
			if k == 0 || a == "" || b == "" {
				continue
			}
			r.Check(a == b, "S-5", fmt.Sprintf("payload-type-agreement:%d", k), "fromProto and DecodeRLP allocate "+a, fmt.Sprintf("tx type %d: fromProto allocates %s but DecodeRLP allocates %s", k, a, b), fnSite(w, fn))
		}
		// every payload type's Type() constant maps back to itself in fromProto
		for _, pt := range payloadTypes {
			tf := w.Method(pkgCT, pt, "Type")
			if tf == nil {
				continue
			}
			for _, b := range tf.Blocks {
				if ret, ok := lastInstr(b).(*ssa.Return); ok {
					if k, ok := constInt(ret.Results[0]); ok {
						want := "*types." + pt
						got := t1[k]
						if got == "" {
							continue // no payload on the wire for this type
						}
						r.Check(got == want, "S-5", "payload-type-roundtrip:"+pt, "Type() constant and fromProto agree", fmt.Sprintf("%s.Type()=%d but fromProto allocates %s for that type", pt, k, got), fnSite(w, tf))
					}
				}
			}
		}
	}
	// payload codecs cover all fields
	for _, pt := range payloadTypes {
		n := w.Named(pkgCT, pt)
		if n == nil || len(structFields(n)) == 0 {
			continue
		}
		for _, m := range []string{"Decode", "DecodeRLP"} {
			mf := w.Method(pkgCT, pt, m)
			if mf == nil {
				r.Undecided("S-5", "payload:"+pt+":"+m, "method not found")
				continue
			}
			st := map[string]bool{}
			for _, g := range w.withModuleCallees(mf, 3) {
				for _, fs := range w.fieldStores(g) {
					if fs.Owner != nil && fs.Owner.Obj() == n.Obj() {
						st[fs.Field.Name()] = true
					}
				}
			}
			var missing []string
			for _, f := range structFields(n) {
				if !st[f.Name()] {
					missing = append(missing, f.Name())
				}
			}
			r.Check(len(missing) == 0, "S-5", "payload:"+pt+":"+m, "decoder fills every field", "decoder leaves field(s) unset: "+strings.Join(missing, ","), fnSite(w, mf))
		}
		efd, einfo := w.declOf(pkgCT, pt, "Encode")
		if efd != nil {
			reads := fieldsSelectedIn(einfo, efd.Body, n)
			// the wire struct may be built by a helper of the type
			w.addHelperFieldReads(w.Method(pkgCT, pt, "Encode"), n, reads)
			var missing []string
			for _, f := range structFields(n) {
				if !reads[f.Name()] {
					missing = append(missing, f.Name())
				}
			}
			r.Check(len(missing) == 0, "S-5", "payload:"+pt+":Encode", "wire encoder reads every field", "wire encoder drops field(s): "+strings.Join(missing, ","), w.Pos(efd.Pos()))
		}
	}
}

// addHelperFieldReads: the fields of owner that the module helpers called by fn
// (three levels) read are added to reads.
func (w *World) addHelperFieldReads(fn *ssa.Function, owner *types.Named, reads map[string]bool) {
	if fn == nil {
		return
	}
	for _, g := range w.withModuleCallees(fn, 3) {
		if g == fn {
			continue
		}
		for _, b := range g.Blocks {
			for _, in := range b.Instrs {
				switch x := in.(type) {
				case *ssa.FieldAddr:
					if o, f := fieldOf(x.X.Type(), x.Field); o != nil && f != nil && o.Obj() == owner.Obj() {
						reads[f.Name()] = true
					}
				case *ssa.Field:
					if o, f := fieldOf(x.X.Type(), x.Field); o != nil && f != nil && o.Obj() == owner.Obj() {
						reads[f.Name()] = true
					}
				}
			}
		}
	}
}

// withModuleCallees: fn and the module functions it calls statically, to the given depth.
func (w *World) withModuleCallees(fn *ssa.Function, depth int) []*ssa.Function {
	seen := map[*ssa.Function]bool{fn: true}
	out := []*ssa.Function{fn}
	frontier := []*ssa.Function{fn}
	for d := 0; d < depth; d++ {
		var next []*ssa.Function
		for _, f := range frontier {
			for _, c := range CallsIn(f) {
				if cal := c.Common().StaticCallee(); cal != nil && !seen[cal] && cal.Blocks != nil && w.InModule(cal) {
					seen[cal] = true
					out = append(out, cal)
					next = append(next, cal)
				}
			}
		}
		frontier = next
	}
	return out
}

// decodeRLPTable: tx type -> payload type allocated by Trx.DecodeRLP.
func (w *World) decodeRLPTable(r *Report) map[int64]string {
	fn := w.Method(pkgCT, "Trx", "DecodeRLP")
	if fn == nil {
		r.Undecided("S-5", "DecodeRLP", "Trx.DecodeRLP not found")
		return nil
	}
	// evaluated per type constant on the paths of DecodeRLP, under "the wire payload
	// is not empty" (an empty one leaves the payload nil for every type)
	table := w.payloadTableOf(fn, regexp.MustCompile(`^\(int32\(.*\.Type\) == (-?\d+)\)$`), AR(`^len\(.*\.Payload\)$`, ">", "^0$"), AR(`\.Payload$`, "!=", "^nil$"))
	for k, v := range table {
		if k == 0 || strings.HasPrefix(v, "!") || strings.HasPrefix(v, "?") || v == "" {
			delete(table, k)
		}
	}
	if os.Getenv("RIGOCHECK_DEBUG") == "s5" {
		fmt.Fprintln(os.Stderr, "S5 table", table, w.payloadTableOf(fn, regexp.MustCompile(`^\(int32\(.*\.Type\) == (-?\d+)\)$`), AR(`^len\(.*\.Payload\)$`, ">", "^0$")))
	}
	if len(table) < 6 {
		r.Undecided("S-5", "DecodeRLP:table", fmt.Sprintf("only %d payload allocations recognised in Trx.DecodeRLP", len(table)))
		return nil
	}
	return table
}

// ---- value provenance through helpers, closures handed to helpers and parameters

// vframe: an activation in a chain of (virtually) expanded calls.
type vframe struct {
	fn   *ssa.Function
	args []ssa.Value // the call's arguments, values of the frame `up`
	up   *vframe
}

type rootVal struct {
	v  ssa.Value
	fr *vframe
}

// rootsOf: where a value comes from, looking through phis, results of module
// functions (every non-nil return), parameters (the caller's argument), calls
// through a function-typed parameter (the closure the caller passed) and free
// variables of closures (the enclosing activation's value).
func (w *World) rootsOf(v ssa.Value, fr *vframe, depth int, out *[]rootVal, seen map[ssa.Value]bool) {
	v = stripConv(v)
	if depth > 10 || seen[v] {
		return
	}
	seen[v] = true
	defer delete(seen, v)
	frameOf := func(f *ssa.Function) *vframe {
		for x := fr; x != nil; x = x.up {
			if x.fn == f {
				return x
			}
		}
		return nil
	}
	through := func(call *ssa.Call, idx int) bool {
		cal := call.Common().StaticCallee()
		args := call.Common().Args
		calFr := fr
		if cal == nil && !call.Common().IsInvoke() {
			// a function value: local closure, or a function-typed parameter
			var fv ssa.Value = call.Common().Value
			var rs []rootVal
			w.rootsOf(fv, fr, depth+1, &rs, seen)
			if len(rs) == 1 {
				if f, rcv := w.calleeOfValue(rs[0].v); f != nil && rcv == nil {
					cal = f
				}
			}
		}
		if cal == nil && call.Common().IsInvoke() {
			// an interface method: every module implementation the call graph knows
			n := 0
			for _, m := range w.Callees(call) {
				if !w.InModule(m) || m.Blocks == nil {
					continue
				}
				margs := append([]ssa.Value{call.Common().Value}, args...)
				if len(m.Params) != len(margs) {
					continue
				}
				nf := &vframe{fn: m, args: margs, up: calFr}
				for _, b := range m.Blocks {
					ret, ok := lastInstr(b).(*ssa.Return)
					if !ok || b == m.Recover || idx >= len(ret.Results) {
						continue
					}
					rv := retResult(ret, idx)
					if c, isC := rv.(*ssa.Const); isC && c.IsNil() {
						continue
					}
					n++
					w.rootsOf(rv, nf, depth+1, out, seen)
				}
			}
			return n > 0
		}
		if cal == nil || !w.InModule(cal) || cal.Blocks == nil || len(cal.Params) != len(args) {
			return false
		}
		nf := &vframe{fn: cal, args: args, up: calFr}
		n := 0
		for _, b := range cal.Blocks {
			ret, ok := lastInstr(b).(*ssa.Return)
			if !ok || b == cal.Recover || idx >= len(ret.Results) {
				continue
			}
			rv := retResult(ret, idx)
			if c, isC := rv.(*ssa.Const); isC && c.IsNil() {
				continue
			}
			n++
			w.rootsOf(rv, nf, depth+1, out, seen)
		}
		return n > 0
	}
	switch x := v.(type) {
	case *ssa.Phi:
		for _, e := range x.Edges {
			if e != ssa.Value(x) {
				w.rootsOf(e, fr, depth+1, out, seen)
			}
		}
		return
	case *ssa.Extract:
		if call, ok := x.Tuple.(*ssa.Call); ok && through(call, x.Index) {
			return
		}
	case *ssa.Call:
		// the three-address 256-bit operations return their destination
		if _, isZ := mutatesZ(x.Common()); isZ && len(x.Common().Args) > 0 {
			w.rootsOf(x.Common().Args[0], fr, depth+1, out, seen)
			return
		}
		if x.Common().Signature().Results().Len() == 1 {
			if _, isB := x.Common().Value.(*ssa.Builtin); !isB && through(x, 0) {
				return
			}
		}
	case *ssa.Parameter:
		if fr != nil && fr.fn == x.Parent() {
			for j, p := range fr.fn.Params {
				if p == x && j < len(fr.args) {
					w.rootsOf(fr.args[j], fr.up, depth+1, out, seen)
					return
				}
			}
		}
	case *ssa.FreeVar:
		if bnd := w.freeVarBinding(x); bnd != nil && x.Parent() != nil && x.Parent().Parent() != nil {
			pfr := frameOf(x.Parent().Parent())
			if pfr == nil && fr != nil {
				pfr = fr.up
			}
			w.rootsOf(bnd, pfr, depth+1, out, seen)
			return
		}
	case *ssa.UnOp:
		// a local copied through a cell (`v := x` captured by a closure)
		if x.Op == token.MUL {
			if a, isA := x.X.(*ssa.Alloc); isA {
				if sv := singleStore(a); sv != nil {
					w.rootsOf(sv, fr, depth+1, out, seen)
					return
				}
			}
			if fv, isFV := x.X.(*ssa.FreeVar); isFV {
				w.rootsOf(fv, fr, depth+1, out, seen)
				return
			}
		}
	case *ssa.Alloc:
		if sv := singleStore(x); sv != nil {
			w.rootsOf(sv, fr, depth+1, out, seen)
			return
		}
	}
	*out = append(*out, rootVal{v, fr})
}

func (w *World) singleRoot(v ssa.Value, fr *vframe) (rootVal, bool) {
	var rs []rootVal
	w.rootsOf(v, fr, 0, &rs, map[ssa.Value]bool{})
	if len(rs) == 0 {
		return rootVal{}, false
	}
	for _, r := range rs[1:] {
		if r.v != rs[0].v {
			return rootVal{}, false
		}
	}
	return rs[0], true
}

// preImageShape: every non-nil pre-image returned by pf is
// append([]byte(Sprintf("…%s…%d…", chainId, len(X))), X...) with X the bytes of
// rlp.EncodeToBytes(tx), tx and chainId being pf's own parameters.
func (w *World) preImageShape(pf *ssa.Function) (bool, string) {
	top := &vframe{fn: pf}
	var rets []rootVal
	for _, b := range pf.Blocks {
		ret, ok := lastInstr(b).(*ssa.Return)
		if !ok || b == pf.Recover || len(ret.Results) == 0 {
			continue
		}
		rv := retResult(ret, 0)
		if c, isC := rv.(*ssa.Const); isC && c.IsNil() {
			continue
		}
		w.rootsOf(rv, top, 0, &rets, map[ssa.Value]bool{})
	}
	if len(rets) == 0 {
		return false, "no pre-image is returned"
	}
	isRLP := func(v ssa.Value, fr *vframe) bool {
		rt, ok := w.singleRoot(v, fr)
		if !ok {
			return false
		}
		ex, ok := rt.v.(*ssa.Extract)
		if !ok || ex.Index != 0 {
			return false
		}
		call, ok := ex.Tuple.(*ssa.Call)
		if !ok || !w.callIs(call.Common(), fref{"github.com/ethereum/go-ethereum/rlp", "", "EncodeToBytes"}) || len(call.Common().Args) != 1 {
			return false
		}
		arg, ok := w.singleRoot(call.Common().Args[0], rt.fr)
		return ok && arg.v == ssa.Value(pf.Params[0])
	}
	for _, rt := range rets {
		app, ok := rt.v.(*ssa.Call)
		if !ok {
			return false, "the returned value is " + w.Canon(rt.v)
		}
		bi, ok := app.Common().Value.(*ssa.Builtin)
		if !ok || bi.Name() != "append" || len(app.Common().Args) != 2 {
			return false, "the returned value is not prefix ++ bytes"
		}
		if !isRLP(app.Common().Args[1], rt.fr) {
			return false, "what is appended is not the RLP of the transaction"
		}
		// the prefix
		pre, ok := w.singleRoot(app.Common().Args[0], rt.fr)
		if !ok {
			return false, "the prefix is ambiguous"
		}
		if cv, isCv := pre.v.(*ssa.Convert); isCv { // []byte(string)
			pre, ok = w.singleRoot(cv.X, pre.fr)
			if !ok {
				return false, "the prefix is ambiguous"
			}
		}
		sp, ok := pre.v.(*ssa.Call)
		if !ok || !w.callIs(sp.Common(), fref{"fmt", "", "Sprintf"}) || len(sp.Common().Args) != 2 {
			return false, "the prefix is not formatted with fmt.Sprintf"
		}
		fc, ok := sp.Common().Args[0].(*ssa.Const)
		if !ok || fc.Value == nil || fc.Value.Kind() != constant.String {
			return false, "the prefix format is not a constant"
		}
		format := constant.StringVal(fc.Value)
		is, id := strings.Index(format, "%s"), strings.Index(format, "%d")
		if is < 0 || id < 0 || is > id {
			return false, "the prefix format does not contain %s (chain id) followed by %d (length)"
		}
		var elems []ssa.Value
		if sl, isSl := sp.Common().Args[1].(*ssa.Slice); isSl {
			if a, isA := sl.X.(*ssa.Alloc); isA {
				elems, _ = varargElems(a)
			}
		}
		if len(elems) != 2 {
			return false, "the prefix is not formatted from two values"
		}
		chain, ok := w.singleRoot(elems[0], pre.fr)
		if !ok || chain.v != ssa.Value(pf.Params[1]) {
			return false, "the first formatted value is not the chain id"
		}
		ln, ok := stripConv(elems[1]).(*ssa.Call)
		if mi, isMI := stripConv(elems[1]).(*ssa.MakeInterface); isMI {
			ln, ok = stripConv(mi.X).(*ssa.Call)
		}
		if !ok {
			return false, "the second formatted value is not a length"
		}
		lb, isB := ln.Common().Value.(*ssa.Builtin)
		if !isB || lb.Name() != "len" || !isRLP(ln.Common().Args[0], pre.fr) {
			return false, "the second formatted value is not the length of the RLP bytes"
		}
	}
	return true, ""
}

func isByteSlice(t types.Type) bool {
	sl, ok := t.Underlying().(*types.Slice)
	if !ok {
		return false
	}
	b, ok := sl.Elem().Underlying().(*types.Basic)
	return ok && b.Kind() == types.Uint8
}

func isFixedByteArray(t types.Type) bool {
	ar, ok := t.Underlying().(*types.Array)
	if !ok {
		return false
	}
	b, ok := ar.Elem().Underlying().(*types.Basic)
	return ok && b.Kind() == types.Uint8
}
