package main

// D-6 (shared by C01 and C07 R-3): write-back discipline. An object obtained
// from an overlay and mutated in place must be marked in that overlay (Set* /
// SetAccountCommittable / Del*) before the function that obtained it returns
// successfully; otherwise the overlay's cache and the tree diverge and results
// depend on cache history (and on restarts).

import (
	"go/types"
	"strings"

	"golang.org/x/tools/go/ssa"
)

// overlaySource: does the canonical path of an object show that it was obtained
// from an overlay / account lookup inside this function?
func overlayObtained(obj string) bool {
	for _, s := range []string{".GetFinality(", ".Get(", "FindAccount(", "findAccount(", "FindOrNewAccount(", "GetFinality)(", "Get)("} {
		if strings.Contains(obj, s) {
			return true
		}
	}
	return false
}

func d6(w *World, r *Report, x *ExecCtx, fns []*ssa.Function) {
	n := 0
	for _, fn := range fns {
		if inLedgerPkg(w, fn) {
			continue
		}
		evMap := map[string]*effect{}
		k := 0
		event := func(in ssa.Instruction) string {
			if e := w.effectOf(in); e != nil {
				k++
				id := "E" + itoa(k)
				evMap[id] = e
				return id
			}
			return ""
		}
		// quick filter: any in-place mutation of an overlay-obtained object?
		has := false
		for _, b := range fn.Blocks {
			for _, in := range b.Instrs {
				if e := w.effectOf(in); e != nil && (e.Kind == "item" || e.Kind == "store") && overlayObtained(e.Obj) {
					has = true
				}
			}
		}
		if !has {
			continue
		}
		evMap = map[string]*effect{}
		k = 0
		saved := w.branchMarkers
		w.branchMarkers = false
		paths, complete := w.enumPaths(fn, w.deadErrEval, event, 4000)
		w.branchMarkers = saved
		if !complete {
			r.Undecided("D-6", w.FName(fn)+":paths", "path enumeration incomplete", fnSite(w, fn))
			continue
		}
		dirtyAtReturn := map[string]string{}
		objs := map[string]bool{}
		for _, p := range paths {
			if p.Term != "ok" && p.Term != "unknown" {
				continue
			}
			// the overlays keep the pointer they are given, so a mark covers mutations
			// made before and after it within the same call: what matters is that the
			// object is marked (or deleted) somewhere on the path
			dirty := map[string]*effect{}
			marked := map[string]bool{}
			for _, id := range p.Events {
				e := evMap[id]
				if e == nil {
					continue
				}
				switch e.Kind {
				case "item", "store":
					if overlayObtained(e.Obj) {
						dirty[e.Obj] = e
						objs[e.Obj] = true
					}
				case "overlay":
					marked[e.Obj] = true
				case "handler":
					if ci, ok := e.In.(ssa.CallInstruction); ok && callName(ci.Common()) == "SetAccountCommittable" {
						marked[w.Canon(ci.Common().Args[0])] = true
					}
				case "call":
					if ci, ok := e.In.(ssa.CallInstruction); ok && strings.Contains(strings.ToLower(callName(ci.Common())), "committable") {
						for _, a := range ci.Common().Args {
							marked[w.Canon(a)] = true
						}
					}
					// a helper that hands its argument to an overlay setter on every success path
					// (`saveX(exec, x)`: `if exec { L.SetFinality(x) } else { L.Set(x) }`)
					if ci, ok := e.In.(ssa.CallInstruction); ok {
						if cal := ci.Common().StaticCallee(); cal != nil && len(cal.Params) == len(ci.Common().Args) {
							for j, a := range ci.Common().Args {
								if _, isPtr := a.Type().Underlying().(*types.Pointer); !isPtr {
									continue
								}
								if res := w.mustSinkParam(cal, j, overlayMarkSpec(w), 0); res.ok && len(res.funcParams) == 0 {
									marked[w.Canon(a)] = true
								}
							}
						}
					}
				}
			}
			for o := range dirty {
				for m := range marked {
					if m == o || m == o+".Key()" || strings.HasPrefix(m, o+".") || phiAlternative(o, m) {
						delete(dirty, o)
					}
				}
			}
			for o, e := range dirty {
				dirtyAtReturn[o] = e.What + "@" + w.InstrPos(e.In)
			}
		}
		for o := range objs {
			n++
			key := w.FName(fn) + ":" + o
			if wit, bad := dirtyAtReturn[o]; bad {
				r.Violate("D-6", key, "an object obtained from an overlay is mutated in place ("+wit+") and a success return is reachable without marking it in the overlay: the cached object and the tree diverge (results depend on cache history and on restarts)", map[string]interface{}{"path": x.reachAll.Path(fn)}, fnSite(w, fn))
			} else {
				r.OK("D-6", key, "every success path after the in-place mutation marks the object in its overlay (or deletes it)", fnSite(w, fn))
			}
		}
	}
	r.Extra["d6_objects"] = n
}

// phiAlternative: o is "phi(a|b|…)" and m is one of its alternatives (a mark made
// in a helper is named by the value the path carries, the mutation by the merge).
func phiAlternative(o, m string) bool {
	if !strings.HasPrefix(o, "phi(") || !strings.HasSuffix(o, ")") {
		return false
	}
	body := o[4 : len(o)-1]
	depth, start := 0, 0
	for i := 0; i <= len(body); i++ {
		if i == len(body) || (body[i] == '|' && depth == 0) {
			if body[start:i] == m {
				return true
			}
			start = i + 1
			continue
		}
		switch body[i] {
		case '(', '[':
			depth++
		case ')', ']':
			depth--
		}
	}
	return false
}

var overlayMarkSpecMemo *sinkSpec

// overlayMarkSpec: the sink is an overlay mutator of a live ledger taking the object.
func overlayMarkSpec(w *World) *sinkSpec {
	if overlayMarkSpecMemo == nil {
		overlayMarkSpecMemo = &sinkSpec{isSink: func(c ssa.CallInstruction, arg int) bool {
			e := w.effectOf(c)
			return e != nil && e.Kind == "overlay" && arg == len(c.Common().Args)-1
		}}
	}
	return overlayMarkSpecMemo
}

func itoa(i int) string {
	if i == 0 {
		return "0"
	}
	s := ""
	for i > 0 {
		s = string(rune('0'+i%10)) + s
		i /= 10
	}
	return s
}

// ---- D-6b: objects handed down through parameters (ctx.Sender / ctx.Receiver)

type wbState int

const (
	wbDirty wbState = iota + 1
	wbMarked
)

var wbMemo = map[*ssa.Function]map[string]wbState{}

// paramRooted: canonical path starts at a parameter or the receiver.
func paramRooted(obj string) bool {
	if strings.HasPrefix(obj, "recv") {
		return true
	}
	return len(obj) >= 2 && obj[0] == 'p' && obj[1] >= '0' && obj[1] <= '9'
}

// wbSummary: for each parameter-rooted object path, the worst state over the
// success paths of fn: dirty (mutated in place and not marked on some success
// path) or marked (mutated and marked on every success path where it is mutated).
func (w *World) wbSummary(fn *ssa.Function, onStack map[*ssa.Function]bool) map[string]wbState {
	if o := fn.Origin(); o != nil {
		fn = o
	}
	if s, ok := wbMemo[fn]; ok {
		return s
	}
	if onStack[fn] || fn.Blocks == nil || inLedgerPkg(w, fn) {
		return nil
	}
	onStack[fn] = true
	defer delete(onStack, fn)
	type ev struct {
		obj   string
		state wbState
	}
	evs := map[string][]ev{}
	k := 0
	subst := func(calleeObj string, c *ssa.CallCommon, callee *ssa.Function) string {
		// map "pK.suffix" / "recv.suffix" of the callee to the caller's argument
		root, suffix := calleeObj, ""
		if i := strings.Index(calleeObj, "."); i >= 0 {
			root, suffix = calleeObj[:i], calleeObj[i:]
		}
		rcv, args := callRecvArgs(c)
		if c.IsInvoke() {
			rcv, args = c.Value, c.Args
		}
		if root == "recv" {
			if rcv == nil {
				return ""
			}
			return w.Canon(rcv) + suffix
		}
		idx := 0
		for _, ch := range root[1:] {
			idx = idx*10 + int(ch-'0')
		}
		if idx < len(args) {
			return w.Canon(args[idx]) + suffix
		}
		return ""
	}
	event := func(in ssa.Instruction) string {
		var out []ev
		if e := w.effectOf(in); e != nil {
			switch e.Kind {
			case "item", "store":
				if paramRooted(e.Obj) {
					out = append(out, ev{e.Obj, wbDirty})
				}
			case "handler":
				if ci, ok := in.(ssa.CallInstruction); ok && callName(ci.Common()) == "SetAccountCommittable" {
					out = append(out, ev{w.Canon(ci.Common().Args[0]), wbMarked})
				}
			}
		}
		if ci, ok := in.(ssa.CallInstruction); ok {
			if strings.Contains(strings.ToLower(callName(ci.Common())), "committable") && len(ci.Common().Args) > 0 {
				_, args := callRecvArgs(ci.Common())
				if len(args) > 0 {
					out = append(out, ev{w.Canon(args[0]), wbMarked})
				}
			}
			for _, cal := range w.Callees(ci) {
				if !w.InModule(cal) || cal.Blocks == nil {
					continue
				}
				for obj, st := range w.wbSummary(cal, onStack) {
					if a := subst(obj, ci.Common(), cal); a != "" && paramRooted(a) {
						out = append(out, ev{a, st})
					}
				}
			}
		}
		if len(out) == 0 {
			return ""
		}
		k++
		id := "W" + itoa(k)
		evs[id] = out
		return id
	}
	saved := w.branchMarkers
	w.branchMarkers = false
	eval := func(c ssa.Value) (bool, bool) {
		// NewTrxContext returns an error unless both accounts exist (C09 P-4 keeps those returns)
		switch w.Canon(c) {
		case "(p0.Receiver != nil)", "(p0.Sender != nil)":
			return true, true
		case "(p0.Receiver == nil)", "(p0.Sender == nil)":
			return false, true
		}
		return w.deadErrEval(c)
	}
	paths, complete := w.enumPaths(fn, eval, event, 6000)
	w.branchMarkers = saved
	sum := map[string]wbState{}
	if !complete {
		wbMemo[fn] = sum
		return sum
	}
	for _, p := range paths {
		if p.Term != "ok" && p.Term != "unknown" {
			continue
		}
		mut := map[string]bool{}
		mk := map[string]bool{}
		for _, id := range p.Events {
			for _, e := range evs[id] {
				if e.state == wbDirty {
					mut[e.obj] = true
				} else {
					mk[e.obj] = true
				}
			}
		}
		for o := range mut {
			if mk[o] {
				if sum[o] != wbDirty {
					sum[o] = wbMarked
				}
			} else {
				sum[o] = wbDirty
			}
		}
		for o := range mk {
			if !mut[o] && sum[o] == 0 {
				sum[o] = wbMarked
			}
		}
	}
	wbMemo[fn] = sum
	return sum
}

// d6b: after runTrx succeeded, neither ctx.Sender nor ctx.Receiver is left
// mutated without having been marked.
func d6b(w *World, r *Report) {
	fn := needFn(r, "D-6", w, fref{"node", "", "runTrx"})
	if fn == nil {
		return
	}
	sum := w.wbSummary(fn, map[*ssa.Function]bool{})
	for _, o := range []string{"p0.Sender", "p0.Receiver"} {
		switch sum[o] {
		case wbDirty:
			r.Violate("D-6", "runTrx:"+o, "a success path of the transaction execution mutates ctx."+o[3:]+" in place without marking the account in its overlay: the change is visible through the cache for the rest of the block but never committed", nil, fnSite(w, fn))
		case wbMarked:
			r.OK("D-6", "runTrx:"+o, "every success path that mutates ctx."+o[3:]+" also marks the account in the exec-selected overlay", fnSite(w, fn))
		default:
			r.Undecided("D-6", "runTrx:"+o, "no mutation of ctx."+o[3:]+" found in the execution call tree (the write-back analysis no longer sees the account primitives)", fnSite(w, fn))
		}
	}
}

// ---- D-6c: no stale copy is written over the overlay's own object

// d6c: the item handed to an overlay setter of a live ledger (Set / SetFinality,
// directly, through SetAccountCommittable or a selector helper) must not be an
// object freshly decoded from the committed tree (Read / ImmutableLedgerAt /
// IterateReadAll*): the overlay may hold a newer object for that key — with
// changes made earlier in the block — which such a write would replace.
func d6c(w *World, r *Report, x *ExecCtx, fns []*ssa.Function) {
	// the ledger (field name) a tree read is made on; the rule is about writing the
	// copy back into the SAME ledger (moving an item to another ledger overwrites nothing)
	ledgerName := func(v ssa.Value) string {
		s := w.Canon(ledgerRoot(v))
		if i := strings.LastIndex(s, "."); i >= 0 {
			s = s[i+1:]
		}
		return s
	}
	dest := ""
	isTreeRead := func(c *ssa.CallCommon) bool {
		rn := recvNamed(c)
		if rn == nil || !(isLedgerType(rn) || isLedgerType(types.NewPointer(rn))) {
			return false
		}
		switch callName(c) {
		case "Read", "IterateReadAllItems", "IterateReadAllFinalityItems":
			var rcv ssa.Value
			if c.IsInvoke() {
				rcv = c.Value
			} else if len(c.Args) > 0 {
				rcv = c.Args[0]
			}
			return rcv != nil && ledgerName(rcv) == dest
		}
		return false
	}
	n := 0
	for _, fn := range fns {
		if inLedgerPkg(w, fn) {
			continue
		}
		for _, c := range CallsIn(fn) {
			var item ssa.Value
			what := ""
			if arms := w.ledgerArmsF(c); arms != nil {
				setter := false
				for _, a := range arms {
					if a.Method == "Set" || a.Method == "SetFinality" {
						if k, _ := w.ledgerKind(a.Recv); k == "live" {
							setter = true
							what = w.Canon(ledgerRoot(a.Recv)) + "." + a.Method
							dest = ledgerName(a.Recv)
						}
					}
				}
				if setter {
					item = w.ledgerItemArg(c)
				}
			} else if nm := callName(c.Common()); nm == "SetAccountCommittable" || nm == "setAccountCommittable" {
				_, args := callRecvArgs(c.Common())
				if c.Common().IsInvoke() {
					args = c.Common().Args
				}
				if len(args) >= 1 {
					item = args[0]
					what = nm
					dest = "acctLedger"
				}
			}
			if item == nil {
				continue
			}
			n++
			reach := w.ReachFrom([]*ssa.Function{fn}, nil)
			p := &provCtx{w: w, funcs: reach.ModuleFuncs(), visitF: map[string]bool{}, memo: map[string]provenance{}, witness: map[string]string{}, src: isTreeRead}
			key := w.FName(fn) + ":" + what + ":" + w.Canon(item)
			if p.valueProv(item, 0, map[ssa.Value]bool{}) == provPersist {
				r.Violate("D-6", "stale-copy:"+key, "an object decoded afresh from the committed tree is written into the overlay: it replaces the overlay's own object for that key and with it every change made to that item earlier in the block", nil, site(w, c))
			} else {
				r.OK("D-6", "stale-copy:"+key, "the object written is the overlay's own (or a new one), not a copy decoded from the committed tree", site(w, c))
			}
		}
	}
	r.Extra["d6c_overlay_writes"] = n
}

// ---- D-6d: a record deleted from an overlay is not written back afterwards

// d6d: after DelFinality / Del of <obj>.Key() no Set / SetFinality of the same
// <obj> on the same ledger is reachable in that function: Commit applies removals
// before updates, so the later write would bring the deleted record back.
func d6d(w *World, r *Report, fns []*ssa.Function) {
	n := 0
	for _, fn := range fns {
		if inLedgerPkg(w, fn) {
			continue
		}
		type lc struct {
			c      ssa.CallInstruction
			ledger string
			obj    string
		}
		var dels, sets []lc
		for _, c := range CallsIn(fn) {
			arms := w.ledgerArmsF(c)
			if arms == nil {
				continue
			}
			it := w.ledgerItemArg(c)
			if it == nil {
				continue
			}
			led := w.Canon(ledgerRoot(arms[0].Recv))
			isDel, isSet := true, true
			for _, a := range arms {
				if a.Method != "Del" && a.Method != "DelFinality" {
					isDel = false
				}
				if a.Method != "Set" && a.Method != "SetFinality" {
					isSet = false
				}
			}
			s := w.Canon(it)
			switch {
			case isDel && strings.HasSuffix(s, ".Key()"):
				dels = append(dels, lc{c, led, strings.TrimSuffix(s, ".Key()")})
			case isSet:
				sets = append(sets, lc{c, led, s})
			}
		}
		for _, d := range dels {
			n++
			bad := ""
			for _, st := range sets {
				if st.ledger == d.ledger && st.obj == d.obj && instrReaches(d.c, st.c) && !instrReachesOnlyThroughLoopHead(d.c, st.c) {
					bad = site(w, st.c)
				}
			}
			key := "no-resurrect:" + w.FName(fn) + ":" + d.ledger + ":" + d.obj
			if bad == "" {
				r.OK("D-6", key, "no write of the record is reachable after its deletion", site(w, d.c))
			} else {
				r.Violate("D-6", key, "the record is written to the ledger again ("+bad+") after it was deleted: the commit applies removals before updates, so the deleted record comes back", nil, site(w, d.c), bad)
			}
		}
	}
	r.Extra["d6d_deletes"] = n
}

// instrReachesOnlyThroughLoopHead: b is reachable from a only by going round the
// enclosing loop (a later iteration works on another element).
func instrReachesOnlyThroughLoopHead(a, b ssa.Instruction) bool {
	h := loopHeaderOf(a.Block())
	if h == nil {
		return false
	}
	// reachability from a to b avoiding the loop header
	seen := map[*ssa.BasicBlock]bool{}
	found := false
	var walk func(blk *ssa.BasicBlock)
	walk = func(blk *ssa.BasicBlock) {
		if seen[blk] || found {
			return
		}
		seen[blk] = true
		if blk == b.Block() && blk != a.Block() {
			found = true
			return
		}
		for _, s := range blk.Succs {
			if s == h {
				continue
			}
			walk(s)
		}
	}
	if a.Block() == b.Block() {
		pa, pb := posOf(a), posOf(b)
		if pa.i < pb.i {
			return false // straight-line after the delete
		}
	}
	for _, s := range a.Block().Succs {
		if s != h {
			walk(s)
		}
	}
	return !found
}
