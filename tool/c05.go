package main

// C05 — a failed transaction has no effect (DESIGN §3 C05, A-1 … A-5).

import (
	"fmt"
	"go/token"
	"go/types"
	"os"
	"regexp"
	"sort"
	"strings"

	"golang.org/x/tools/go/ssa"
)

func init() { register("C05", checkC05) }

// ledger item types: objects handed out by the overlays and mutated in place
var itemTypes = map[string]string{
	"Account": pkgCT, "GovParams": pkgCT, "Delegatee": "ctrlers/stake", "Stake": "ctrlers/stake", "Reward": "ctrlers/stake", "BlockMarker": "ctrlers/stake",
	"GovProposal": "ctrlers/gov/proposal", "GovProposalHeader": "ctrlers/gov/proposal", "Voter": "ctrlers/gov/proposal", "voteOption": "ctrlers/gov/proposal",
}

func isItemTypeName(pkgPath, name string) bool {
	p, ok := itemTypes[name]
	return ok && pkgPath == absPkg(p)
}

// item mutator methods (role table): methods of item types that change the item.
var itemMutators = map[string]bool{
	"Account.AddBalance": true, "Account.SubBalance": true, "Account.SetBalance": true, "Account.AddNonce": true, "Account.SetNonce": true,
	"Account.SetName": true, "Account.SetDocURL": true, "Account.SetCode": true,
	"Delegatee.AddStake": true, "Delegatee.addStake": true, "Delegatee.DelStake": true, "Delegatee.DelStakeByIdx": true, "Delegatee.DelAllStakes": true,
	"Delegatee.DoSlash": true, "Delegatee.doSlashAll": true, "Delegatee.ProcessNotSignedBlock": true, "Delegatee.GetNotSignedBlockCount": true,
	"Delegatee.delStakeByHash": true, "Delegatee.delStakeByIdx": true,
	"Reward.Issue": true, "Reward.Withdraw": true, "Reward.Slash": true,
	"GovProposal.DoVote": true, "GovProposal.DoPunish": true, "GovProposal.UpdateMajorOption": true, "GovProposal.updateMajorOption": true,
	"GovProposal.cancelVote": true, "GovProposal.doVote": true, "voteOption.DoVote": true, "voteOption.CancelVote": true,
	"BlockMarker.Mark": true, "BlockMarker.CountInWindow": true,
}

// account-handler methods with an effect on the ledger
var handlerEffects = map[string]bool{"Transfer": true, "Reward": true, "SetCode": true, "SetDoc": true, "SetAccountCommittable": true, "FindOrNewAccount": true}

type effect struct {
	Kind string // item | overlay | handler | store | exec
	What string // canonical description
	Obj  string // canonical object affected
	Call ssa.Value
	In   ssa.Instruction
}

// decoders fill an object that is being created from stored bytes / JSON
var itemDecoders = map[string]bool{"Decode": true, "UnmarshalJSON": true, "fromProto": true, "Unmarshal": true, "Clone": true}

// effectOf classifies an instruction as a ledger effect (nil = none).
func (w *World) effectOf(in ssa.Instruction) *effect {
	if itemDecoders[in.Parent().Name()] && in.Parent().Signature.Recv() != nil {
		return nil
	}
	switch x := in.(type) {
	case *ssa.Store:
		if fa, ok := x.Addr.(*ssa.FieldAddr); ok {
			n, f := fieldOf(fa.X.Type(), fa.Field)
			if n != nil && f != nil && n.Obj().Pkg() != nil && isItemTypeName(n.Obj().Pkg().Path(), n.Obj().Name()) && !baseFresh(fa.X) {
				return &effect{Kind: "store", What: w.Canon(fa) + " = …", Obj: w.Canon(fa.X), In: in}
			}
		}
	case ssa.CallInstruction:
		c := x.Common()
		if arms := w.ledgerArmsF(x); arms != nil {
			for _, a := range arms {
				if overlayMutator[a.Method] {
					kind, desc := w.ledgerKind(a.Recv)
					if kind == "scratch" {
						continue
					}
					obj := ""
					if it := w.ledgerItemArg(x); it != nil {
						obj = w.Canon(it)
					}
					return &effect{Kind: "overlay", What: desc + "." + a.Method, Obj: obj, Call: callValue(x), In: in}
				}
			}
			return nil
		}
		if rn := recvNamed(c); rn != nil && rn.Obj().Pkg() != nil {
			key := rn.Obj().Name() + "." + callName(c)
			if isItemTypeName(rn.Obj().Pkg().Path(), rn.Obj().Name()) && itemMutators[key] {
				rcv, _ := callRecvArgs(c)
				return &effect{Kind: "item", What: key, Obj: w.Canon(rcv), Call: callValue(x), In: in}
			}
			if c.IsInvoke() && (rn.Obj().Name() == "IAccountHandler") && handlerEffects[c.Method.Name()] {
				return &effect{Kind: "handler", What: "IAccountHandler." + c.Method.Name(), Obj: w.Canon(c.Args[0]), Call: callValue(x), In: in}
			}
			if c.IsInvoke() && rn.Obj().Name() == "ITrxHandler" && c.Method.Name() == "ExecuteTrx" {
				return &effect{Kind: "exec", What: w.Canon(c.Value) + ".ExecuteTrx", Obj: "tx", Call: callValue(x), In: in}
			}
		}
		if rv, ok := mutatesZ(c); ok {
			// arithmetic into a 256-bit field of an item
			v := stripConv(rv)
			if u, isU := v.(*ssa.UnOp); isU {
				if fa, isFA := u.X.(*ssa.FieldAddr); isFA {
					n, _ := fieldOf(fa.X.Type(), fa.Field)
					if n != nil && n.Obj().Pkg() != nil && isItemTypeName(n.Obj().Pkg().Path(), n.Obj().Name()) && !baseFresh(fa.X) {
						return &effect{Kind: "store", What: w.Canon(fa) + " (256-bit update)", Obj: w.Canon(fa.X), In: in}
					}
				}
			}
		}
		// module functions with effects inside
		if f := c.StaticCallee(); f != nil && w.InModule(f) && !inLedgerPkg(w, f) && f.Blocks != nil {
			if w.hasEffect(f, map[*ssa.Function]bool{}) {
				obj := ""
				if len(c.Args) > 0 {
					obj = w.Canon(c.Args[len(c.Args)-1])
				}
				return &effect{Kind: "call", What: w.FName(f), Obj: obj, Call: callValue(x), In: in}
			}
		}
	}
	return nil
}

var hasEffectMemo = map[*ssa.Function]int{}

func (w *World) hasEffect(fn *ssa.Function, onStack map[*ssa.Function]bool) bool {
	if v, ok := hasEffectMemo[fn]; ok {
		return v == 1
	}
	if onStack[fn] {
		return false
	}
	onStack[fn] = true
	defer delete(onStack, fn)
	res := false
	for _, b := range fn.Blocks {
		for _, in := range b.Instrs {
			if c, ok := in.(ssa.CallInstruction); ok {
				if f := c.Common().StaticCallee(); f != nil && w.InModule(f) && !inLedgerPkg(w, f) && f.Blocks != nil && f != fn {
					if w.ledgerArmsF(c) == nil && w.hasEffect(f, onStack) {
						res = true
					}
					if res {
						break
					}
					if rn := recvNamed(c.Common()); rn != nil && rn.Obj().Pkg() != nil && isItemTypeName(rn.Obj().Pkg().Path(), rn.Obj().Name()) && itemMutators[rn.Obj().Name()+"."+callName(c.Common())] {
						res = true
					}
					continue
				}
			}
			if e := w.effectOfShallow(in); e != nil {
				res = true
			}
		}
	}
	if res {
		hasEffectMemo[fn] = 1
	} else {
		hasEffectMemo[fn] = 2
	}
	return res
}

// effectOfShallow: like effectOf without descending into static module callees.
func (w *World) effectOfShallow(in ssa.Instruction) *effect {
	if c, ok := in.(ssa.CallInstruction); ok {
		if f := c.Common().StaticCallee(); f != nil && w.InModule(f) && w.ledgerArmsF(c) == nil {
			if rn := recvNamed(c.Common()); rn == nil || !itemMutators[rn.Obj().Name()+"."+callName(c.Common())] {
				return nil
			}
		}
	}
	return w.effectOf(in)
}

// alwaysNilErr: every callee of the call returns a nil error on every path.
func (w *World) alwaysNilErr(call ssa.CallInstruction, seen map[*ssa.Function]bool) bool {
	// through method-value idioms: all arms
	var callees []*ssa.Function
	if arms := w.ledgerArmsF(call); arms != nil {
		for _, a := range arms {
			for _, tn := range []string{"FinalityLedger", "SimpleLedger"} {
				if f := w.Method(pkgLedger, tn, a.Method); f != nil {
					callees = append(callees, f)
				}
			}
		}
	} else {
		callees = w.Callees(call)
	}
	if len(callees) == 0 {
		return false
	}
	for _, f := range callees {
		if !w.fnAlwaysNilErr(f, seen) {
			return false
		}
	}
	return true
}

func (w *World) fnAlwaysNilErr(f *ssa.Function, seen map[*ssa.Function]bool) bool {
	if o := f.Origin(); o != nil {
		f = o
	}
	if f.Blocks == nil || !w.InModule(f) {
		return false
	}
	if seen[f] {
		return true
	}
	seen[f] = true
	idx := errResultIndex(f)
	if idx < 0 {
		return true
	}
	for _, b := range f.Blocks {
		ret, ok := lastInstr(b).(*ssa.Return)
		if !ok || b == f.Recover {
			continue
		}
		switch w.errState(ret) {
		case triNil:
			continue
		case triUnknown:
			// a forwarded call result
			v := stripConv(retResult(ret, idx))
			if c, isC := v.(*ssa.Call); isC && w.alwaysNilErr(c, seen) {
				continue
			}
			if e, isE := v.(*ssa.Extract); isE {
				if c, isC := e.Tuple.(*ssa.Call); isC && w.alwaysNilErr(c, seen) {
					continue
				}
			}
			return false
		default:
			return false
		}
	}
	return true
}

// deadErrEval decides branch conditions that test the error of an always-nil
// callee (dead error branches); everything else is unknown.
func (w *World) deadErrEval(c ssa.Value) (bool, bool) {
	// dead error branches of always-nil callees
	if bo, ok := c.(*ssa.BinOp); ok {
		for _, side := range []ssa.Value{bo.X, bo.Y} {
			v := stripConv(side)
			// an error variable that merges the results of several steps: on the path
			// being enumerated it is the result of the step the path came through
			if _, isPhi := v.(*ssa.Phi); isPhi && w.cur != nil && w.cur.st != nil {
				if rv := stripConv(w.phiOnPath(v)); rv != nil && rv != v {
					v = rv
				}
			}
			var call *ssa.Call
			switch y := v.(type) {
			case *ssa.Call:
				call = y
			case *ssa.Extract:
				call, _ = y.Tuple.(*ssa.Call)
			}
			never := func(c *ssa.Call) bool {
				return c != nil && (w.alwaysNilErr(c, map[*ssa.Function]bool{}) || (w.neverFails != nil && w.neverFails(c)))
			}
			// the errors of sibling calls merged (`if exec { err = a() } else { err = b() }`)
			allNever := false
			if ph, isPhi := v.(*ssa.Phi); isPhi && isErrorType(side.Type()) && len(ph.Edges) > 0 {
				allNever = true
				for _, e := range ph.Edges {
					var c *ssa.Call
					switch y := stripConv(e).(type) {
					case *ssa.Call:
						c = y
					case *ssa.Extract:
						c, _ = y.Tuple.(*ssa.Call)
					}
					if !never(c) {
						allNever = false
					}
				}
			}
			if (call != nil && isErrorType(side.Type()) && never(call)) || allNever {
				other := bo.Y
				if side == bo.Y {
					other = bo.X
				}
				if cst, isC := other.(*ssa.Const); isC && cst.IsNil() {
					return bo.Op.String() == "==", true
				}
			}
		}
	}
	return false, false
}

type atomicVerdict struct {
	failClean bool
	witness   string
}

var atomicMemo = map[*ssa.Function]*atomicVerdict{}

// errCondOf: if the canonical branch marker says "call result != nil" for value v.
func errBranchOf(w *World, marker string, call ssa.Value) (isErrEdge bool, isOkEdge bool) {
	if call == nil {
		return false, false
	}
	body := marker[3:]
	// the marker may carry the call with its phis replaced by what the path took
	for _, cc := range phiVariants(w.Canon(call), 16) {
		for _, pat := range []string{"(" + cc + " != nil)", "(" + cc + "#1 != nil)", "(" + cc + "#2 != nil)"} {
			if body == pat {
				if strings.HasPrefix(marker, "?T:") {
					return true, false
				}
				return false, true
			}
		}
		for _, pat := range []string{"(" + cc + " == nil)", "(" + cc + "#1 == nil)"} {
			if body == pat {
				if strings.HasPrefix(marker, "?T:") {
					return false, true
				}
				return true, false
			}
		}
		// a boolean helper of the result (`isFailure(xerr)`): what its answer says about nil
		for f, im := range w.boolNilHelpers() {
			if body == f+"("+cc+")" || body == "("+f+"("+cc+") == true)" {
				v := im.onFalse
				if strings.HasPrefix(marker, "?T:") {
					v = im.onTrue
				}
				switch v {
				case 1:
					return true, false
				case -1:
					return false, true
				}
			}
		}
		// the result handed through a filter that returns its argument or nil
		// (`dropSentinel(err)`): a non-nil filtered value means the call failed; a nil
		// one says nothing (the error may have been the one dropped)
		for _, f := range w.nilFilterNames() {
			if (body == "("+f+"("+cc+") != nil)" && strings.HasPrefix(marker, "?T:")) || (body == "("+f+"("+cc+") == nil)" && strings.HasPrefix(marker, "?F:")) {
				return true, false
			}
		}
	}
	return false, false
}

// boolNilHelpers: the one-parameter boolean helpers of the module whose answer tells
// whether the argument is nil (by canonical call prefix).
func (w *World) boolNilHelpers() map[string]nilImplication {
	if w.boolNilTab != nil {
		return w.boolNilTab
	}
	w.boolNilTab = map[string]nilImplication{}
	for _, fn := range w.ModuleFuncs() {
		if fn.Blocks == nil || len(fn.Params) != 1 || fn.Signature.Recv() != nil || fn.Parent() != nil {
			continue
		}
		for _, im := range w.helperNilImplications(fn) {
			if im.param == 0 {
				w.boolNilTab[w.FName(fn)] = im
			}
		}
	}
	return w.boolNilTab
}

// nilFilterNames: the module functions of one nillable parameter whose every return
// hands back that parameter or nil (as canonical call prefixes).
func (w *World) nilFilterNames() []string {
	if w.nilFilters != nil {
		return *w.nilFilters
	}
	out := []string{}
	for _, fn := range w.ModuleFuncs() {
		if fn.Blocks == nil || len(fn.Params) != 1 || fn.Signature.Results().Len() != 1 || fn.Signature.Recv() != nil || len(fn.Blocks) > 12 {
			continue
		}
		if _, isI := fn.Params[0].Type().Underlying().(*types.Interface); !isI || !types.Identical(fn.Params[0].Type(), fn.Signature.Results().At(0).Type()) {
			continue
		}
		ok := w.pureFn(fn, 0)
		var visit func(v ssa.Value, d int) bool
		visit = func(v ssa.Value, d int) bool {
			switch x := v.(type) {
			case *ssa.Parameter:
				return true
			case *ssa.Const:
				return x.IsNil()
			case *ssa.Phi:
				if d > 3 {
					return false
				}
				for _, e := range x.Edges {
					if !visit(e, d+1) {
						return false
					}
				}
				return true
			}
			return false
		}
		n := 0
		for _, b := range fn.Blocks {
			if ret, isR := lastInstr(b).(*ssa.Return); isR && b != fn.Recover {
				n++
				if len(ret.Results) != 1 || !visit(ret.Results[0], 0) {
					ok = false
				}
			}
		}
		if ok && n > 0 {
			out = append(out, w.FName(fn))
		}
	}
	sort.Strings(out)
	w.nilFilters = &out
	return out
}

// phiVariants: s itself and s with each `phi(a|b|…)` replaced by one of its
// alternatives (what a path-resolved print of the same value looks like).
func phiVariants(s string, max int) []string {
	out := []string{s}
	i := strings.Index(s, "phi(")
	if i < 0 {
		return out
	}
	// find the matching parenthesis and the top-level alternatives
	depth, start := 0, i+4
	var alts []string
	last := start
	end := -1
	for j := i + 3; j < len(s); j++ {
		switch s[j] {
		case '(', '[':
			depth++
		case ')', ']':
			depth--
			if depth == 0 {
				alts = append(alts, s[last:j])
				end = j
			}
		case '|':
			if depth == 1 {
				alts = append(alts, s[last:j])
				last = j + 1
			}
		}
		if end >= 0 {
			break
		}
	}
	if end < 0 {
		return out
	}
	for _, a := range alts {
		for _, rest := range phiVariants(s[end+1:], max) {
			for _, inner := range phiVariants(a, max) {
				if len(out) >= max {
					return out
				}
				out = append(out, s[:i]+inner+rest)
			}
		}
	}
	return out
}

// compensates: does effect c undo effect e?
func compensates(c, e *effect) bool {
	switch {
	case e.What == "Account.SubBalance" && c.What == "Account.AddBalance" && c.Obj == e.Obj:
		// same amount
		ca, _ := c.In.(ssa.CallInstruction)
		ea, _ := e.In.(ssa.CallInstruction)
		if ca != nil && ea != nil {
			_, a1 := callRecvArgs(ca.Common())
			_, a2 := callRecvArgs(ea.Common())
			return len(a1) == 1 && len(a2) == 1 && sameValue(a1[0], a2[0])
		}
	}
	// CancelSet / CancelSetFinality is deliberately NOT a compensation: it drops the
	// record from the overlay altogether, i.e. it goes back to the COMMITTED value and
	// with that also loses updates made to the record earlier in the block (a reward
	// issued in this block's BeginBlock, an earlier withdrawal). An error exit that
	// relies on it is reported unless the failing step is shown not to fail.
	return false
}

// pathEffects: the effects that are still in force at the end of an error path.
func (w *World) pathEffects(fn *ssa.Function, events []string, evMap map[string]*effect, failClean func(*effect) bool) []*effect {
	var live []*effect
	for i, ev := range events {
		if strings.HasPrefix(ev, "?") {
			continue
		}
		e := evMap[ev]
		if e == nil {
			continue
		}
		// the callee's own error edge
		// (the branch decisions that follow the call before any other event; a
		// decision is recorded in up to two spellings, see enumPaths)
		ownErr := false
		for j := i + 1; j < len(events) && strings.HasPrefix(events[j], "?"); j++ {
			if isErr, _ := errBranchOf(w, events[j], e.Call); isErr {
				ownErr = true
			}
		}
		if ownErr && failClean(e) {
			continue
		}
		// compensation
		var rest []*effect
		undone := false
		for _, p := range live {
			if compensates(e, p) {
				undone = true
				continue
			}
			rest = append(rest, p)
		}
		if undone {
			live = rest
			continue
		}
		live = append(live, e)
	}
	return live
}

// analyseAtomic: on every error path of fn, are all effects undone?
func (w *World) analyseAtomic(fn *ssa.Function, onStack map[*ssa.Function]bool) *atomicVerdict {
	if o := fn.Origin(); o != nil {
		fn = o
	}
	if v, ok := atomicMemo[fn]; ok {
		return v
	}
	// the EVM controller is atomic by snapshot/revert, which A-4 decides
	if w.evmAtomic && w.FName(fn) == "evm.(*EVMCtrler).ExecuteTrx" {
		return &atomicVerdict{failClean: true}
	}
	if onStack[fn] || fn.Blocks == nil {
		return &atomicVerdict{failClean: true}
	}
	onStack[fn] = true
	defer delete(onStack, fn)
	evMap := map[string]*effect{}
	n := 0
	event := func(in ssa.Instruction) string {
		// a call of a local closure is expanded in line (its effects are the enclosing
		// function's own: `setReward := func(r) { if exec { L.SetFinality(r) } … }`)
		if c, isC := in.(*ssa.Call); isC {
			if cal := c.Common().StaticCallee(); cal != nil && cal.Parent() != nil && cal.Blocks != nil {
				return ""
			}
		}
		if e := w.effectOf(in); e != nil {
			n++
			id := fmt.Sprintf("E%d:%s", n, e.What)
			evMap[id] = e
			return id
		}
		return ""
	}
	eval := w.deadErrEval
	failClean := func(e *effect) bool {
		switch e.Kind {
		case "item":
			// methods of item types: analysed like any function
			if ci, ok := e.In.(ssa.CallInstruction); ok {
				for _, cal := range w.Callees(ci) {
					if !w.analyseAtomic(cal, onStack).failClean {
						return false
					}
				}
				return true
			}
		case "call", "handler", "exec":
			if ci, ok := e.In.(ssa.CallInstruction); ok {
				cs := w.Callees(ci)
				if len(cs) == 0 {
					return false
				}
				for _, cal := range cs {
					if !w.InModule(cal) || !w.analyseAtomic(cal, onStack).failClean {
						return false
					}
				}
				return true
			}
		case "overlay":
			// ledger mutators never fail after changing an overlay except DelFinality,
			// whose mempool tombstone precedes its own lookup error (handled by exception)
			return true
		}
		return false
	}
	saved := w.branchMarkers
	w.branchMarkers = true
	// a local helper's result prints as what it handed back on the path (so that the
	// test of `err := helper()` is recognised as the test of the step inside it)
	w.callResultsOn = true
	paths, complete := w.enumPaths(fn, eval, event, 4000)
	w.callResultsOn = false
	w.branchMarkers = saved
	v := &atomicVerdict{failClean: true}
	if !complete {
		v.failClean = false
		v.witness = "path enumeration incomplete"
	}
	for _, p := range paths {
		if p.Term != "err" && p.Term != "unknown" {
			continue
		}
		if p.Term == "unknown" && p.Ret != nil {
			// `return f(...)` where f never fails is a success exit
			if idx := errResultIndex(fn); idx >= 0 && idx < len(p.Ret.Results) {
				rv := stripConv(retResult(p.Ret, idx))
				if p.RetErr != nil {
					rv = stripConv(p.RetErr) // `v, err = a()` in one arm, `v, err = b()` in the other; `return err`
				}
				var call *ssa.Call
				switch y := rv.(type) {
				case *ssa.Call:
					call = y
				case *ssa.Extract:
					call, _ = y.Tuple.(*ssa.Call)
				}
				if call != nil && (w.alwaysNilErr(call, map[*ssa.Function]bool{}) || (w.neverFails != nil && w.neverFails(call))) {
					continue
				}
			}
		}
		if p.Term == "unknown" {
			// returning a callee's error: only an error path when that callee failed; the
			// last event decides (its own error edge is clean if the callee is fail-clean)
			evs := p.Events
			var last *effect
			for i := len(evs) - 1; i >= 0; i-- {
				if !strings.HasPrefix(evs[i], "?") {
					last = evMap[evs[i]]
					break
				}
			}
			if last != nil && failClean(last) {
				// drop the forwarded call's own effect from consideration
				var trimmed []string
				for _, e := range evs {
					if evMap[e] == last {
						continue
					}
					trimmed = append(trimmed, e)
				}
				p.Events = trimmed
			}
		}
		live := w.pathEffects(fn, p.Events, evMap, failClean)
		if len(live) > 0 && os.Getenv("RIGOCHECK_DEBUG") == fn.Name() {
			fmt.Println("DBG A3", p.Term)
			for _, e := range p.Events {
				if ef := evMap[e]; ef != nil {
					fmt.Printf("   %s kind=%s what=%s obj=%s\n", e, ef.Kind, ef.What, ef.Obj)
				} else {
					fmt.Println("  ", e)
				}
			}
		}
		if len(live) > 0 {
			var ss []string
			for _, e := range live {
				ss = append(ss, e.What+"@"+w.InstrPos(e.In))
			}
			sort.Strings(ss)
			v.failClean = false
			if v.witness == "" {
				v.witness = "error exit with effects still in force: " + strings.Join(ss, ", ")
				if p.Ret != nil {
					v.witness += " [error exit at " + w.InstrPos(p.Ret) + "]"
				}
			}
		}
	}
	atomicMemo[fn] = v
	return v
}

func checkC05(w *World, r *Report) {
	r.Explanation = "Structural clause of C05: (A-1) validateTrx's error is tested before runTrx; (A-2) nothing reachable from validateTrx mutates a ledger item, calls an overlay mutator of a live ledger or writes controller state (exception: the stake limiter's running totals, whose update is the last validation step); (A-3) in every execution function (the four controllers' ExecuteTrx and what they call, runTrx, postRunTrx) no error exit is reachable while an effect is in force: effects are item mutators, overlay mutators, item field stores and calls of functions containing them; an effect is retracted on the callee's own error edge when the callee is itself fail-clean (computed recursively), on dead error edges of always-nil callees, and by the registered compensations (refund of the same amount, CancelSet of the object); two exceptions carry a structural side condition that is checked; (A-4) in EVMCtrler.ExecuteTrx every failure exit after the snapshot passes RevertToSnapshot(that snapshot) then Finish, the success exit passes Finish once and no revert; (A-5) the fee is added to the block only on the success branch, and a delivery whose execution succeeded takes that branch. ExecuteSync is among the A-3 functions; A-4 also orders Finish before the state's Finalise on success paths and requires every executed success exit to pass the message application. A-4 also requires that no return of the EVM controller's ExecuteTrx lies in front of the snapshot for a transaction the executor routes to it (contract type, or receiver with a code marker): a 'not mine' answer there means nobody executes and nobody charges."
	r.NotCovered = "that the compensations restore values exactly (the idiom is recognised, not evaluated); EVM-internal reverts; NewTrxContext's creation of an empty receiver account before validation (changes no queried value)."

	a1(w, r)
	a2(w, r)
	a3(w, r)
	a4(w, r)
	a5(w, r)
	r.Floor("A-1", 2, "validate before run")
	r.Floor("A-2", 4, "validation functions")
	r.Floor("A-3", 9, "execution functions")
	r.Floor("A-4", 3, "EVM pairing")
	r.Floor("A-5", 1, "fee on success")
}

func a1(w *World, r *Report) {
	for _, ref := range []fref{{"node", "TrxExecutor", "ExecuteSync"}, {"node", "", "executionRoutine"}} {
		fn := needFn(r, "A-1", w, ref)
		if fn == nil {
			continue
		}
		ok, _ := w.validateBeforeRun(fn)
		r.Check(ok, "A-1", refStr(ref)+":validate-before-run", "runTrx executes only where validateTrx returned nil for the same context", "runTrx is reachable although validateTrx failed", fnSite(w, fn))
	}
}

func a2(w *World, r *Report) {
	vt := needFn(r, "A-2", w, fref{"node", "", "validateTrx"})
	if vt == nil {
		return
	}
	reach := w.ReachFrom([]*ssa.Function{vt}, nil)
	n := 0
	for _, fn := range reach.ModuleFuncs() {
		if inLedgerPkg(w, fn) {
			continue
		}
		n++
		name := w.FName(fn)
		for _, b := range fn.Blocks {
			for _, in := range b.Instrs {
				e := w.effectOfShallow(in)
				if e == nil {
					continue
				}
				key := name + ":" + e.What
				r.Violate("A-2", key, "validation changes the ledger: "+e.What+" (a transaction that fails a later check, or any CheckTx, would leave this behind)", map[string]interface{}{"path": reach.Path(fn)}, site(w, in))
			}
		}
		for _, e := range w.csEffects(fn) {
			if baseFresh(e.Base) {
				continue
			}
			key := fmt.Sprintf("%s:%s:%s.%s", name, e.Kind, e.Owner.Obj().Name(), e.Field)
			if e.Owner.Obj().Name() == "StakeLimiter" || e.Owner.Obj().Name() == "powerObj" {
				r.OK("A-2", key, "stake limiter running totals: excepted, see A-2:limiter-last-step", site(w, e.In))
				continue
			}
			r.Violate("A-2", key, "validation writes controller state", map[string]interface{}{"path": reach.Path(fn)}, site(w, e.In))
		}
	}
	r.Extra["a2_validation_functions"] = n
	if n < 15 {
		r.Undecided("A-2", "scope", fmt.Sprintf("only %d functions reachable from validateTrx", n))
	} else {
		r.OK("A-2", "scope", fmt.Sprintf("%d functions reachable from validateTrx scanned for item mutators, overlay mutators, item stores and controller-state writes", n), fnSite(w, vt))
	}
	// the limiter is the last validation step: after a successful CheckLimit only `return nil` is reachable
	sv := needFn(r, "A-2", w, fref{"ctrlers/stake", "StakeCtrler", "ValidateTrx"})
	if sv != nil {
		// evaluated on the paths of the validation (helpers expanded) under the fact
		// "CheckLimit succeeded": no path that consulted the limiter may end in an error
		var sites []string
		ev := func(in ssa.Instruction) string {
			if c, isC := in.(ssa.CallInstruction); isC && callName(c.Common()) == "CheckLimit" {
				if rn := recvNamed(c.Common()); rn != nil && rn.Obj().Name() == "StakeLimiter" {
					sites = append(sites, site(w, c))
					return "LIM"
				}
			}
			return ""
		}
		fe := w.newFactEval(nil, AR(`\.stakeLimiter\.CheckLimit\(.*\)$`, "==", "^nil$"))
		savedBM := w.branchMarkers
		w.branchMarkers = false
		paths, complete := w.enumPaths(sv, fe.eval, ev, 6000)
		w.branchMarkers = savedBM
		ok := complete && len(fe.used) > 0
		bad := ""
		nLim := 0
		for _, p := range paths {
			has := false
			for _, e := range p.Events {
				if e == "LIM" {
					has = true
				}
			}
			if !has {
				continue
			}
			nLim++
			if p.Term != "ok" {
				ok = false
				if p.Ret != nil {
					bad = site(w, p.Ret)
				}
			}
		}
		if nLim == 0 {
			ok = false
			bad = "the limiter is not consulted"
		}
		sort.Strings(sites)
		sites = uniqStrings(sites)
		r.Check(ok, "A-2", "limiter-last-step", "the stake limiter is consulted as the last validation step: after it succeeded no validation step can fail", "a validation step can still fail after the stake limiter recorded the change: "+bad, sites...)
		// CheckLimit itself: fail-clean (no error after it has stored)
		cl := w.Method("ctrlers/stake", "StakeLimiter", "checkUpdatablePowerLimit")
		if cl != nil {
			okc := true
			badc := ""
			for _, e := range w.csEffects(cl) {
				if e.Field != "updatedPower" && e.Kind != "sort" {
					continue
				}
				for _, ex := range exitsAvoiding(posOf(e.In), nil, nil) {
					if ret, isR := ex.(*ssa.Return); isR && w.errState(ret) != triNil {
						okc = false
						badc = site(w, ret)
					}
				}
			}
			r.Check(okc, "A-2", "limiter-fail-clean", "the limiter commits its running total only on its success path", "the limiter can return an error after committing its running total: "+badc, fnSite(w, cl))
		}
	}
}

var a3Functions = []fref{
	{"node", "TrxExecutor", "ExecuteSync"}, {"node", "", "runTrx"}, {"node", "", "postRunTrx"},
	{"ctrlers/account", "AcctCtrler", "ExecuteTrx"}, {"ctrlers/account", "AcctCtrler", "transfer"},
	{"ctrlers/stake", "StakeCtrler", "ExecuteTrx"}, {"ctrlers/stake", "StakeCtrler", "exeStaking"}, {"ctrlers/stake", "StakeCtrler", "exeUnstaking"}, {"ctrlers/stake", "StakeCtrler", "exeWithdraw"},
	{"ctrlers/gov", "GovCtrler", "ExecuteTrx"}, {"ctrlers/gov", "GovCtrler", "execProposing"}, {"ctrlers/gov", "GovCtrler", "execVoting"},
	{pkgCT, "Account", "SubBalance"}, {pkgCT, "Account", "AddBalance"}, {"ctrlers/gov/proposal", "GovProposal", "DoVote"}, {"ctrlers/stake", "Reward", "Withdraw"},
	{"ctrlers/account", "AcctCtrler", "Reward"}, {"ctrlers/account", "AcctCtrler", "Transfer"},
}

func a3(w *World, r *Report) {
	// exceptions with checked side conditions
	feeSide := func() (bool, string) {
		cv1 := w.Func("node", "commonValidation1")
		if cv1 == nil {
			return false, "commonValidation1 not found"
		}
		fe := regexp.QuoteMeta(feeExpr)
		need := `^p0\.Sender\.CheckBalance\(new\(uint256\.Int\)\.Add\((` + fe + `, p0\.Tx\.Amount|p0\.Tx\.Amount, ` + fe + `)\)\)$`
		// under "CheckBalance(fee + amount) reports an error" commonValidation1 has no successful path
		ok, _ := w.failsUnder(cv1, nil, AR(need, "!=", `^nil$`))
		cb := w.Method(pkgCT, "Account", "CheckBalance")
		okcb := false
		if cb != nil {
			// under "amount > balance" CheckBalance fails, under "amount <= balance" it succeeds
			f1, _ := w.failsUnder(cb, nil, A("p0", ">", "recv.Balance"))
			o2 := w.runUnder(cb, nil, nil, A("p0", "<=", "recv.Balance"))
			okcb = f1 && o2.complete && o2.ok > 0 && o2.err == 0
		}
		if !ok {
			return false, "commonValidation1 no longer rejects balance < gas x price + amount with the fee expression postRunTrx debits"
		}
		if !okcb {
			return false, "Account.CheckBalance is no longer `amount > balance → error`"
		}
		return true, ""
	}
	// Two steps are known not to fail where they stand; each carries a structural
	// side condition that is checked here. With the side condition intact the
	// step's error edge is treated as dead; otherwise it is an ordinary error exit.
	feeOK, feeWhy := feeSide()
	delOK, delWhy := w.unstakeSide()
	r.Check(feeOK, "A-3", "side-condition:fee-debit-cannot-fail", "commonValidation1 rejects balance < gas x price + amount with the fee expression postRunTrx debits, and CheckBalance is `amount > balance -> error`: the fee debit after the controller ran cannot fail", "the side condition of the fee-debit step no longer holds: "+feeWhy)
	creditOK, creditWhy := w.creditSide()
	r.Check(creditOK, "A-3", "side-condition:reward-credit-cannot-fail", "crediting a withdrawn reward to the sender cannot fail: Account.AddBalance fails only for a negative amount and AcctCtrler.Reward has no other failing step for an account that exists (the sender, loaded from the same overlay by NewTrxContext); so exeWithdraw's cancel branch, which would also drop earlier updates of the reward record, is dead", "the side condition of the reward-credit step no longer holds: "+creditWhy)
	r.Check(delOK, "A-3", "side-condition:delegatee-delete-cannot-miss", "exeUnstaking deletes the key of the delegatee it has just obtained from the same overlay: the delete cannot miss", "the side condition of the delete-delegatee step no longer holds: "+delWhy)
	// the post-run step: postRunTrx and the helpers it calls
	postRun := map[*ssa.Function]bool{}
	if pf := w.Func("node", "postRunTrx"); pf != nil {
		for _, f := range w.ReachFrom([]*ssa.Function{pf}, nil).ModuleFuncs() {
			if strings.HasSuffix(w.FuncPkgPath(f), "/node") {
				postRun[f] = true
			}
		}
	}
	w.neverFails = func(call *ssa.Call) bool {
		if feeOK && call.Parent() != nil && postRun[call.Parent()] {
			// in a helper the context parameter is whatever position it has there: compare with
			// the fee expression over that parameter
			for _, c := range []string{w.canonCallI(call.Common()), w.canonCallArgsI(call.Common())} {
				for i := 0; i < 3; i++ {
					pi := fmt.Sprintf("p%d", i)
					if c == pi+".Sender.SubBalance("+strings.ReplaceAll(feeExpr, "p0.", pi+".")+")" {
						return true
					}
				}
			}
		}
		if delOK && w.isDelegateeDelete(call) {
			return true
		}
		if creditOK && reRewardSender.MatchString(w.canonCall(call.Common(), 0)) {
			return true
		}
		return false
	}
	{
		tmp := NewReport(r.Prop, r.Tier)
		a4(w, tmp)
		w.evmAtomic = len(tmp.Obs) > 0
		for _, o := range tmp.Obs {
			if o.Status != stOK {
				w.evmAtomic = false
			}
		}
	}
	atomicMemo = map[*ssa.Function]*atomicVerdict{}
	defer func() { w.neverFails = nil; w.evmAtomic = false; atomicMemo = map[*ssa.Function]*atomicVerdict{} }()
	for _, ref := range a3Functions {
		fn := needFn(r, "A-3", w, ref)
		if fn == nil {
			continue
		}
		key := refStr(ref) + ":no-error-after-effect"
		v := w.analyseAtomic(fn, map[*ssa.Function]bool{})
		if v.failClean {
			r.OK("A-3", key, "no error exit is reachable while an effect of this function is in force", fnSite(w, fn))
			continue
		}
		r.Violate("A-3", key, v.witness, nil, fnSite(w, fn))
	}
}

// isDelegateeDelete: a Del/DelFinality on the delegatee ledger whose key is
// <delegatee obtained from the same ledger for ctx.Tx.To>.Key().
func (w *World) isDelegateeDelete(call *ssa.Call) bool {
	arms := w.ledgerArmsF(call)
	if len(arms) == 0 {
		return false
	}
	for _, a := range arms {
		if a.Method != "Del" && a.Method != "DelFinality" {
			return false
		}
		if !strings.HasSuffix(w.Canon(a.Recv), ".delegateeLedger") {
			return false
		}
	}
	it := w.ledgerItemArg(call)
	if it == nil {
		return false
	}
	return delegateeKeyRe.MatchString(w.Canon(it))
}

var delegateeKeyRe = regexp.MustCompile(`delegateeLedger\.(Get|GetFinality).*\(ledger\.ToLedgerKey\(p0\.Tx\.To\)\)#0\)?\.Key\(\)$`)

func (w *World) unstakeSide() (bool, string) {
	fn := w.Method("ctrlers/stake", "StakeCtrler", "exeUnstaking")
	if fn == nil {
		return false, "exeUnstaking not found"
	}
	n := 0
	for _, c := range CallsIn(fn) {
		call, ok := c.(*ssa.Call)
		if !ok {
			continue
		}
		arms := w.ledgerArmsF(call)
		isDel := false
		for _, a := range arms {
			if (a.Method == "Del" || a.Method == "DelFinality") && strings.HasSuffix(w.Canon(a.Recv), ".delegateeLedger") {
				isDel = true
			}
		}
		if !isDel {
			continue
		}
		if !w.isDelegateeDelete(call) {
			return false, "a delegatee delete whose key is not the key of the delegatee just obtained: " + w.canonCall(call.Common(), 0)
		}
		n++
	}
	if n == 0 {
		return false, "no Del/DelFinality of the delegatee found"
	}
	return true, ""
}

func a4(w *World, r *Report) {
	fn := needFn(r, "A-4", w, fref{"ctrlers/vm/evm", "EVMCtrler", "ExecuteTrx"})
	if fn == nil {
		return
	}
	snaps := w.callsTo(fn, fref{"ctrlers/vm/evm", "StateDBWrapper", "Snapshot"})
	if len(snaps) != 1 {
		r.Violate("A-4", "ExecuteTrx:snapshot", fmt.Sprintf("expected exactly one Snapshot() call, found %d", len(snaps)), nil, fnSite(w, fn))
		return
	}
	snap := callValue(snaps[0])
	// the helper that builds and applies the EVM message, when it is not execVM itself
	var deepFn *ssa.Function
	if len(w.callsTo(fn, fref{"ctrlers/vm/evm", "EVMCtrler", "execVM"})) == 0 {
		if deep := w.evmMessageDeep(fn); deep != nil {
			deepFn = deep.Fn
		}
	}
	event := func(in ssa.Instruction) string {
		c, ok := in.(ssa.CallInstruction)
		if !ok {
			return ""
		}
		rn := recvNamed(c.Common())
		nm := callName(c.Common())
		if rn != nil && rn.Obj().Name() == "StateDBWrapper" {
			switch nm {
			case "Snapshot", "Prepare", "Finish":
				return nm
			case "RevertToSnapshot":
				_, a := callRecvArgs(c.Common())
				if len(a) == 1 && (sameValue(a[0], snap) || w.Canon(a[0]) == w.Canon(snap)) {
					return "Revert(snap)"
				}
				return "Revert(other)"
			}
		}
		// go-ethereum's end-of-transaction step on the wrapped state: self-destructed
		// objects disappear, so balances read afterwards are no longer the transaction's
		if (nm == "Finalise" || nm == "IntermediateRoot") && rn != nil && rn.Obj().Name() == "StateDB" {
			if rcv, _ := callRecvArgs(c.Common()); rcv != nil && strings.Contains(w.Canon(rcv), "stateDBWrapper") {
				return "Finalise"
			}
		}
		if nm == "execVM" {
			return "execVM"
		}
		// whatever the helper that applies the message is called
		if deepFn != nil {
			if cal := c.Common().StaticCallee(); cal != nil && w.InModule(cal) {
				for _, g := range w.withModuleCallees(cal, 2) {
					if g == deepFn {
						return "execVM"
					}
				}
			}
		}
		return ""
	}
	paths, complete := w.enumPaths(fn, w.deadErrEval, event, 20000)
	if !complete {
		r.Undecided("A-4", "ExecuteTrx:paths", "path enumeration incomplete")
		return
	}
	bad := ""
	nFail, nOK := 0, 0
	badOrder, nFin := "", 0
	for pi := range paths {
		// the write-back reads the balances the transaction left: it runs before
		// go-ethereum finalises the state (which zeroes self-destructed accounts)
		var kept []string
		seenFinalise := false
		for _, e := range paths[pi].Events {
			if e == "Finalise" {
				seenFinalise = true
				nFin++
				continue
			}
			if e == "Finish" && seenFinalise && paths[pi].Term == "ok" {
				badOrder = "a success path writes the balances back after the state was finalised"
			}
			kept = append(kept, e)
		}
		paths[pi].Events = kept
	}
	r.Check(badOrder == "" && nFin > 0, "A-4", "ExecuteTrx:write-back-before-finalise", "on every success path Finish copies the transaction's balances and nonces to the native ledger before go-ethereum finalises the state", "the native ledger is synchronised with the finalised EVM state (an address credited after its contract self-destructed reads as zero: value is destroyed): "+badOrder, fnSite(w, fn))
	for _, p := range paths {
		if os.Getenv("RIGOCHECK_DEBUG") == "a4" {
			fmt.Fprintln(os.Stderr, "A4 path", p.Term, p.Events, func() string {
				if p.Ret != nil {
					return w.InstrPos(p.Ret)
				}
				return "-"
			}())
		}
		if p.Term == "loop" {
			continue
		}
		ev := strings.Join(p.Events, ",")
		if !strings.Contains(ev, "Snapshot") {
			continue // returned before the EVM was touched
		}
		switch p.Term {
		case "err", "unknown":
			if !strings.Contains(ev, "execVM") {
				bad = "error exit between Snapshot and execVM: " + ev
				continue
			}
			nFail++
			if ev != "Snapshot,Prepare,execVM,Revert(snap),Finish" {
				bad = "failure exit runs [" + ev + "], expected [Snapshot,Prepare,execVM,Revert(snap),Finish]"
			}
		case "ok":
			nOK++
			if ev != "Snapshot,Prepare,execVM,Finish" {
				bad = "success exit runs [" + ev + "], expected [Snapshot,Prepare,execVM,Finish]"
			}
		}
	}
	r.Check(bad == "" && nFail >= 1 && nOK >= 1, "A-4", "ExecuteTrx:snapshot-revert-finish", fmt.Sprintf("%d failure exits revert to the pre-transaction snapshot and then sync out; %d success exits sync out once without revert", nFail, nOK), "EVM failure handling does not revert to the snapshot taken before the transaction: "+bad, fnSite(w, fn))
	// an executed transaction routed here succeeds only through the EVM: the node's
	// post-run step leaves nonce and fee of these transactions to the message
	// application (ApplyMessage) and the write-back (Finish)
	{
		badS, nS := "", 0
		for _, a := range []txAbs{{6, false, true}, {6, true, true}, {1, true, true}} {
			ps, cpl := w.enumPaths(fn, w.evalTxCond(a), event, 20000)
			if !cpl {
				badS = "path enumeration incomplete"
			}
			for _, p := range ps {
				// a return whose error value the path does not determine may succeed
				if p.Term != "ok" && p.Term != "unknown" {
					continue
				}
				nS++
				var kept []string
				for _, e := range p.Events {
					if e != "Finalise" {
						kept = append(kept, e)
					}
				}
				if ev := strings.Join(kept, ","); ev != "Snapshot,Prepare,execVM,Finish" {
					badS = fmt.Sprintf("for (type=%d, receiverHasCode=%v, exec=true) a success exit runs [%s]", a.typ, a.hasCode, ev)
				}
			}
		}
		r.Check(badS == "" && nS >= 3, "A-4", "ExecuteTrx:executed-success-applies-message", "every success exit of an executed EVM-routed transaction passes Snapshot, Prepare, the message application and Finish (nonce and fee are consumed there and nowhere else)", "an executed EVM-routed transaction can succeed without the message being applied and written back (no nonce consumed, no fee charged: the signed bytes stay valid): "+badS, fnSite(w, fn))
	}
	// ... and is never handed back: the executor routes these transactions here and
	// leaves fee and nonce to the EVM (runTrx / postRunTrx decide by transaction type
	// and the receiver's code marker alone), so for them no exit lies in front of
	// the snapshot — a "not mine" answer means nobody executes and nobody charges
	{
		badR, nR := "", 0
		for _, a := range []txAbs{{6, false, true}, {6, true, true}, {1, true, true}} {
			ps, cpl := w.enumPaths(fn, w.evalTxCond(a), event, 20000)
			if !cpl {
				badR = "path enumeration incomplete"
			}
			for _, p := range ps {
				if p.Term == "panic" || p.Term == "loop" {
					continue
				}
				nR++
				if !strings.Contains(strings.Join(p.Events, ","), "Snapshot") {
					pos := "?"
					if p.Ret != nil {
						pos = w.InstrPos(p.Ret)
					}
					badR = fmt.Sprintf("for (type=%d, receiverHasCode=%v, exec=true) the return at %s is reached before the EVM was touched", a.typ, a.hasCode, pos)
				}
			}
		}
		r.Check(badR == "" && nR >= 3, "A-4", "ExecuteTrx:routed-is-executed", "a transaction the executor routes to the EVM (contract type, or receiver with a code marker) is never handed back before the snapshot: the EVM's 'not mine' test is the complement of the executor's routing test", "the EVM controller declines a transaction the executor routes to it: it is executed and charged by nobody (or settled natively without fee and nonce) while DeliverTx reports success: "+badR, fnSite(w, fn))
	}
	// ... and the converse at the executor: the one answer of the EVM controller that
	// runTrx tolerates is the "not mine" sentinel itself. Under "the handler's error is
	// not nil and is not that object" runTrx has no successful path — a tolerance test
	// that is anything but identity with the sentinel (errors.Is over an Is method that
	// compares codes, a code or message comparison) lets a reverted or failed execution
	// through to postRunTrx, which leaves fee and nonce to the EVM: code 0, nothing
	// charged, the nonce not raised, the same signed transaction valid again.
	if rt := w.Func("node", "runTrx"); rt != nil {
		evmErr := `^p0\.TrxEVMHandler\.ExecuteTrx\(p0\)$`
		badT, nT := "", 0
		for _, a := range []txAbs{{6, false, true}, {6, true, true}, {1, true, true}} {
			base := w.evalTxCond(a)
			sane := w.runUnder(rt, base, nil)
			if sane.ok == 0 {
				continue
			}
			nT++
			// the handler's call is an event, so a helper that holds it (executeByType)
			// is walked in runTrx's terms and the facts decide the tests inside it
			evmCall := func(in ssa.Instruction) string {
				if c, isC := in.(ssa.CallInstruction); isC && c.Common().IsInvoke() && c.Common().Method.Name() == "ExecuteTrx" && strings.HasSuffix(w.Canon(c.Common().Value), ".TrxEVMHandler") {
					return "EVM"
				}
				return ""
			}
			savedCR := w.callResultsOn
			w.callResultsOn = true // what an expanded helper hands back prints as the value it returned
			o := w.runUnder(rt, base, evmCall, AR(evmErr, "!=", `^nil$`), AR(evmErr, "!=", `^xerrors\.ErrUnknownTrxType$`))
			w.callResultsOn = savedCR
			// only paths on which the EVM controller was asked count: a route the
			// evaluator cannot exclude that never reaches it tolerates nothing
			nTol := 0
			for _, evs := range o.okEvents {
				for _, e := range evs {
					if e == "EVM" {
						nTol++
						break
					}
				}
			}
			if !o.complete || nTol > 0 {
				badT = fmt.Sprintf("for (type=%d, receiverHasCode=%v): %d successful path(s) remain after the EVM controller's failure", a.typ, a.hasCode, nTol)
			}
		}
		// a shape the path walk cannot decide (the error merged with other handlers'
		// errors in one variable) is still fine when every test the executor applies
		// to the EVM controller's answer is a comparison with nil or with the sentinel
		// object: then nothing but identity can have tolerated it
		if badT != "" && w.evmAnswerTestedByIdentityOnly(rt) {
			badT = ""
		}
		if nT == 0 {
			r.Undecided("A-4", "runTrx:evm-error-tolerated-only-for-sentinel", "runTrx has no successful path for an EVM-routed transaction", fnSite(w, rt))
		} else {
			r.Check(badT == "", "A-4", "runTrx:evm-error-tolerated-only-for-sentinel", "an error of the EVM controller other than the 'not mine' sentinel object itself ends runTrx with that failure (the tolerance test is identity with the sentinel)", "runTrx goes on to postRunTrx with an error of the EVM controller that is not the 'not mine' sentinel: a failed execution is reported as success without fee and nonce: "+badT, fnSite(w, rt))
		}
	}
	// the post-Finish error exit (marking the created contract account) is dead
	okDead := true
	for _, c := range CallsIn(fn) {
		if callName(c.Common()) == "SetAccountCommittable" && !w.alwaysNilErr(c, map[*ssa.Function]bool{}) {
			okDead = false
		}
	}
	r.Check(okDead, "A-4", "ExecuteTrx:no-error-after-finish", "the only error exit after Finish (marking the created account) belongs to an always-nil callee", "an error can be returned after Finish has written the EVM results back", fnSite(w, fn))
	// Snapshot precedes Prepare and the snapshot id is passed on
	preps := w.callsTo(fn, fref{"ctrlers/vm/evm", "StateDBWrapper", "Prepare"})
	okp := len(preps) == 1 && instrDominates(snaps[0], preps[0])
	if okp {
		_, a := callRecvArgs(preps[0].Common())
		okp = len(a) == 6 && (sameValue(a[4], snap) || w.Canon(a[4]) == w.Canon(snap))
	}
	r.Check(okp, "A-4", "ExecuteTrx:snapshot-before-prepare", "the snapshot is taken before Prepare syncs the sender/receiver in and its id is handed to Prepare", "Prepare runs before the snapshot or without its id (synced-in accounts would survive a revert)", fnSite(w, fn))
}

// evmAnswerTestedByIdentityOnly: in rt and the module helpers it calls (depth 2),
// the result of TrxEVMHandler.ExecuteTrx — followed through merges, interface
// conversions, and into helpers it is passed to — is only returned, stored in a
// local, or compared (==, !=) with nil or with a package-level error object. A
// call that takes it (errors.Is, a Code() accessor, a library function) is a test
// of another kind.
func (w *World) evmAnswerTestedByIdentityOnly(rt *ssa.Function) bool {
	ok, found := true, false
	seen := map[ssa.Value]bool{}
	var follow func(v ssa.Value, d int)
	follow = func(v ssa.Value, d int) {
		if v == nil || seen[v] || !ok {
			return
		}
		seen[v] = true
		if v.Referrers() == nil {
			return
		}
		for _, ref := range *v.Referrers() {
			switch x := ref.(type) {
			case *ssa.Phi:
				follow(x, d)
			case *ssa.ChangeInterface:
				follow(x, d)
			case *ssa.MakeInterface:
				follow(x, d)
			case *ssa.Return, *ssa.DebugRef:
			case *ssa.Store:
				if a, isA := x.Addr.(*ssa.Alloc); isA && x.Val == v {
					if a.Referrers() != nil {
						for _, r2 := range *a.Referrers() {
							if ld, isLd := r2.(*ssa.UnOp); isLd && ld.Op == token.MUL {
								follow(ld, d)
							}
						}
					}
				} else if x.Val == v {
					ok = false
				}
			case *ssa.BinOp:
				if x.Op != token.EQL && x.Op != token.NEQ {
					ok = false
					continue
				}
				other := x.X
				if stripConv(other) == stripConv(v) || other == v {
					other = x.Y
				}
				other = stripConv(other)
				if c, isC := other.(*ssa.Const); isC && c.IsNil() {
					continue
				}
				if ld, isLd := other.(*ssa.UnOp); isLd && ld.Op == token.MUL {
					if _, isG := ld.X.(*ssa.Global); isG {
						continue
					}
				}
				ok = false
			case ssa.CallInstruction:
				cal := x.Common().StaticCallee()
				if cal == nil || !w.InModule(cal) || cal.Blocks == nil || d >= 2 {
					ok = false
					continue
				}
				for _, ai := range argIndexOf(x.Common(), v) {
					if ai < len(cal.Params) {
						follow(cal.Params[ai], d+1)
					}
				}
			default:
				ok = false
			}
		}
	}
	for _, fn := range w.withModuleCallees(rt, 2) {
		for _, c := range CallsIn(fn) {
			call, isCall := c.(*ssa.Call)
			if !isCall || !call.Common().IsInvoke() || call.Common().Method.Name() != "ExecuteTrx" || !strings.HasSuffix(w.Canon(call.Common().Value), ".TrxEVMHandler") {
				continue
			}
			found = true
			follow(call, 0)
			// the helper's own result in its callers
			if fn != rt {
				for _, cs := range w.nodeCallers(fn) {
					if v, isV := cs.Site.(ssa.Value); isV {
						follow(v, 1)
					}
				}
			}
		}
	}
	return found && ok
}

func a5(w *World, r *Report) {
	rep := NewReport("C05", "quick")
	f4(w, rep)
	n := 0
	for _, o := range rep.Obs {
		// the fee is added only on success; and a delivery whose execution succeeded takes
		// the success branch (its effects are in force: reporting it as failed would be a
		// failed transaction with effects)
		if strings.Contains(o.Key, "deliverTxSync:AddFee:only-on-success") || strings.Contains(o.Key, "deliverTxSync:AddFee:on-every-success") {
			o.Rule = "A-5"
			o.Key = "A-5:" + strings.TrimPrefix(o.Key, "F-4:")
			r.Obs = append(r.Obs, o)
			n++
		}
	}
	if n == 0 {
		r.Undecided("A-5", "deliverTxSync:AddFee", "AddFee obligation not produced")
	}
}

func uniqStrings(xs []string) []string {
	var out []string
	for i, x := range xs {
		if i == 0 || x != xs[i-1] {
			out = append(out, x)
		}
	}
	return out
}

var reRewardSender = regexp.MustCompile(`^p\d\.AcctHandler\.Reward\(p\d\.Sender\.Address, .*, p\d\.Exec\)$`)

// creditSide: the credit primitive fails only for a negative amount, and the
// account controller's Reward fails only through it or for a missing account.
func (w *World) creditSide() (bool, string) {
	ab := w.Method(pkgCT, "Account", "AddBalance")
	rw := w.Method("ctrlers/account", "AcctCtrler", "Reward")
	if ab == nil || rw == nil {
		return false, "Account.AddBalance / AcctCtrler.Reward not found"
	}
	o := w.runUnder(ab, nil, nil, A("p0.Sign()", ">=", "0"))
	if !o.complete || !o.allConsulted || o.ok == 0 {
		return false, "Account.AddBalance does not test the sign of the amount"
	}
	if o.err > 0 {
		return false, "Account.AddBalance can fail for a non-negative amount"
	}
	// Reward: under "the account exists" and "AddBalance succeeded" no error path remains
	o2 := w.runUnder(rw, w.deadErrEval, nil, AR(`[fF]indAccount\([^()]*\)$`, "!=", "^nil$"), AR(`\.AddBalance\(.*\)$`, "==", "^nil$"))
	if !o2.complete || o2.ok == 0 {
		return false, fmt.Sprintf("AcctCtrler.Reward has no successful path (complete=%v ok=%d err=%d other=%d)", o2.complete, o2.ok, o2.err, o2.other)
	}
	if o2.err > 0 {
		return false, "AcctCtrler.Reward can fail although the account exists and the credit succeeded"
	}
	return true, ""
}

// validateBeforeRun: in fn — and in the helpers it shares the two steps with — runTrx
// is called only after validateTrx of the same context, and never on a path on
// which that validation reported an error (decided on the enumerated paths, with
// the helpers expanded in line).
func (w *World) validateBeforeRun(fn *ssa.Function) (bool, string) {
	ev := func(in ssa.Instruction) string {
		c, ok := in.(ssa.CallInstruction)
		if !ok {
			return ""
		}
		cal := c.Common().StaticCallee()
		if cal == nil || len(c.Common().Args) != 1 || w.FuncPkgPath(cal) != absPkg("node") {
			return ""
		}
		switch cal.Name() {
		case "validateTrx":
			return "V\x01" + w.Canon(c.Common().Args[0])
		case "runTrx":
			return "R\x01" + w.Canon(c.Common().Args[0])
		}
		return ""
	}
	run := func(facts ...atom) ([]pathEnd, bool, bool) {
		fe := w.newFactEval(nil, facts...)
		saved := w.branchMarkers
		w.branchMarkers = false
		w.enumDepth = 3
		ps, complete := w.enumPaths(fn, fe.eval, ev, 4000)
		w.enumDepth = 0
		w.branchMarkers = saved
		return ps, complete, len(facts) == 0 || len(fe.used) > 0
	}
	// no run where the validation failed
	ps, complete, used := run(AR(`^node\.validateTrx\(.*\)$`, "!=", "^nil$"))
	if !complete || !used {
		return false, "the paths under a failed validation cannot be enumerated"
	}
	for _, p := range ps {
		for _, e := range p.Events {
			if strings.HasPrefix(e, "R\x01") {
				return false, "runTrx is reached on a path on which validateTrx failed"
			}
		}
	}
	// every run is preceded by the validation of the same context
	ps, complete, _ = run()
	if !complete {
		return false, "path enumeration incomplete"
	}
	nRun := 0
	for _, p := range ps {
		validated := map[string]bool{}
		for _, e := range p.Events {
			if strings.HasPrefix(e, "V\x01") {
				validated[e[2:]] = true
			}
			if strings.HasPrefix(e, "R\x01") {
				nRun++
				if !validated[e[2:]] {
					return false, "runTrx of a context that was not validated on that path"
				}
				// one validation serves one run (a loop validates afresh)
				delete(validated, e[2:])
			}
		}
	}
	if nRun == 0 {
		return false, "runTrx is not reached"
	}
	return true, ""
}
