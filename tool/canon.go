package main

// canon.go — A3 of DESIGN.md: canonical access-path rendering of SSA values,
// independent of local variable names, statement order and if/switch form.

import (
	"fmt"
	"go/token"
	"go/types"
	"sort"
	"strings"
	"sync"

	"golang.org/x/tools/go/ssa"
)

func shortQual(p *types.Package) string {
	if p == nil {
		return ""
	}
	return p.Name()
}

func typeStr(t types.Type) string {
	return types.TypeString(t, shortQual)
}

// Canon renders v.
func (w *World) Canon(v ssa.Value) string {
	return w.canon(v, 0)
}

func paramIndex(p *ssa.Parameter) (int, bool) {
	fn := p.Parent()
	for i, q := range fn.Params {
		if q == p {
			if fn.Signature.Recv() != nil {
				if i == 0 {
					return -1, true
				}
				return i - 1, true
			}
			return i, true
		}
	}
	return 0, false
}

func (w *World) canon(v ssa.Value, d int) string {
	if v == nil {
		return "<nil>"
	}
	if d > 24 {
		return "…"
	}
	switch x := v.(type) {
	case *ssa.Parameter:
		for k := len(w.inlineEnv) - 1; k >= 0; k-- {
			if sv, ok := w.inlineEnv[k][x]; ok {
				// with helpers inlined: the argument's form with its helpers inlined
				if w.inlineHelpers {
					if tw, ok := w.inlTwin[sv]; ok {
						return tw
					}
				}
				return sv
			}
		}
		i, ok := paramIndex(x)
		if !ok {
			return "p?"
		}
		if i < 0 {
			return "recv"
		}
		return fmt.Sprintf("p%d", i)
	case *ssa.FreeVar:
		// resolve through the enclosing MakeClosure when unique
		if b := w.freeVarBinding(x); b != nil {
			// values of the enclosing function: its receiver stays "recv" (closures have
			// none of their own), its parameters are marked so they cannot be confused
			// with the closure's own parameters
			s := w.canon(b, d+1)
			return markOuter(s)
		}
		return "^" + x.Name()
	case *ssa.Const:
		if x.Value == nil {
			return "nil"
		}
		return x.Value.ExactString()
	case *ssa.Global:
		return shortQual(x.Pkg.Pkg) + "." + x.Name()
	case *ssa.Function:
		return w.FName(x)
	case *ssa.Builtin:
		return x.Name()
	case *ssa.Alloc:
		// a local whose address is taken: identify by its single initialising store when there is one
		if sv := singleStore(x); sv != nil {
			return w.canon(sv, d+1)
		}
		return "new(" + typeStr(deref(x.Type())) + ")"
	case *ssa.FieldAddr:
		return w.canon(x.X, d+1) + "." + fieldName(x.X.Type(), x.Field)
	case *ssa.Field:
		switch y := x.X.(type) {
		case *ssa.Parameter:
			// a parameter object handed to a helper by value: the field as the caller filled it in
			if av, ok := w.structArg[y]; ok {
				if ld, isLd := av.(*ssa.UnOp); isLd && ld.Op == token.MUL {
					if a, isA := ld.X.(*ssa.Alloc); isA && privateStruct(a) {
						if s, ok := w.canonFieldCell(a, x.Field, ld, d); ok {
							return s
						}
					}
				}
			}
		case *ssa.UnOp:
			// a field of a local parameter object loaded as a whole
			if a, ok := y.X.(*ssa.Alloc); ok && y.Op == token.MUL && privateStruct(a) {
				if s, ok := w.canonFieldCell(a, x.Field, y, d); ok {
					return s
				}
			}
		case *ssa.Call:
			if s, ok := w.canonStructResultField(y, x.Field, d); ok {
				return s
			}
		case *ssa.Extract:
			if c, isC := y.Tuple.(*ssa.Call); isC {
				if tup, isT := c.Type().(*types.Tuple); isT {
					if s, ok := w.canonStructResultFieldAt(c, y.Index, tup.Len(), x.Field, d); ok {
						return s
					}
				}
			}
		}
		return w.canon(x.X, d+1) + "." + fieldName(x.X.Type(), x.Field)
	case *ssa.IndexAddr:
		return w.canon(x.X, d+1) + "[" + w.canonIndex(x.Index, d+1) + "]"
	case *ssa.Index:
		if w.cur != nil {
			if mv, ok := loadCell(x, w.cur.st); ok {
				return mv.s
			}
		}
		return w.canon(x.X, d+1) + "[" + w.canonIndex(x.Index, d+1) + "]"
	case *ssa.Lookup:
		return w.canon(x.X, d+1) + "[" + w.canon(x.Index, d+1) + "]"
	case *ssa.UnOp:
		switch x.Op {
		case token.MUL:
			// a local cell written on the path being enumerated: what was stored
			if w.cur != nil {
				if mv, ok := loadCell(x, w.cur.st); ok {
					return mv.s
				}
			}
			// a field of a local parameter object: what can reach this load
			if fa, ok := x.X.(*ssa.FieldAddr); ok {
				if a, isA := fa.X.(*ssa.Alloc); isA && privateStruct(a) {
					if s, ok := w.canonFieldCell(a, fa.Field, x, d); ok {
						return s
					}
				}
			}
			return w.canon(x.X, d+1)
		case token.NOT:
			return negateCond(w.canon(x.X, d+1))
		case token.SUB:
			return "-" + w.canon(x.X, d+1)
		case token.ARROW:
			return "<-" + w.canon(x.X, d+1)
		case token.XOR:
			return "^" + w.canon(x.X, d+1)
		}
		return x.Op.String() + w.canon(x.X, d+1)
	case *ssa.BinOp:
		return normCmp(w.canon(x.X, d+1), x.Op, w.canon(x.Y, d+1), isConst(x.X))
	case *ssa.Call:
		if w.cur != nil && w.cur.st != nil && w.cur.st.callRes != nil {
			if rs, ok := w.cur.st.callRes[x]; ok && len(rs) == 1 {
				return rs[0]
			}
		}
		if s, ok := w.canonForwarded(x, -1, d); ok {
			return s
		}
		return w.canonCall(x.Common(), d)
	case *ssa.Extract:
		if c, isCall := x.Tuple.(*ssa.Call); isCall {
			if w.cur != nil && w.cur.st != nil && w.cur.st.callRes != nil {
				if rs, ok := w.cur.st.callRes[c]; ok && x.Index < len(rs) {
					return rs[x.Index]
				}
			}
			if s, ok := w.canonForwarded(c, x.Index, d); ok {
				return s
			}
			// a helper that hands back the leading results of one call it makes and panics
			// on that call's error (`mustCommit(c)`): its i-th result is the call's
			if fn := c.Common().StaticCallee(); fn != nil && len(fn.Params) == len(c.Common().Args) && len(w.inlineEnv) < 3 {
				if inner := w.prefixForwarder(fn); inner != nil {
					env := map[*ssa.Parameter]string{}
					for i, p := range fn.Params {
						env[p] = w.canon(c.Common().Args[i], d+1)
					}
					w.inlineEnv = append(w.inlineEnv, env)
					out := w.canonCall(inner.Common(), d+1) + "#" + fmt.Sprint(x.Index)
					w.inlineEnv = w.inlineEnv[:len(w.inlineEnv)-1]
					return out
				}
			}
			// one result of a single-block helper without effects, when helpers are inlined
			if w.inlineHelpers && len(w.inlineEnv) < w.inlineLimit() {
				if fn := c.Common().StaticCallee(); fn != nil && len(fn.Params) == len(c.Common().Args) {
					if res := w.simpleTupleHelper(fn); res != nil && x.Index < len(res) {
						env := map[*ssa.Parameter]string{}
						for i, p := range fn.Params {
							env[p] = w.canon(c.Common().Args[i], d+1)
						}
						w.inlineEnv = append(w.inlineEnv, env)
						out := w.canon(res[x.Index], d+1)
						w.inlineEnv = w.inlineEnv[:len(w.inlineEnv)-1]
						return out
					}
				}
			}
		}
		return w.canon(x.Tuple, d+1) + "#" + fmt.Sprint(x.Index)
	case *ssa.Phi:
		if w.phiSubst != nil {
			if nv, ok := w.phiSubst[x]; ok && nv != ssa.Value(x) {
				if _, again := nv.(*ssa.Phi); !again {
					return w.canon(nv, d+1)
				}
			}
		}
		if w.phiVisiting == nil {
			w.phiVisiting = map[*ssa.Phi]bool{}
		}
		if w.phiVisiting[x] {
			return "φ"
		}
		w.phiVisiting[x] = true
		defer delete(w.phiVisiting, x)
		set := map[string]bool{}
		for _, e := range x.Edges {
			if e == x {
				continue
			}
			set[w.canon(e, d+3)] = true
		}
		var ss []string
		for s := range set {
			ss = append(ss, s)
		}
		sort.Strings(ss)
		if len(ss) == 1 {
			return ss[0]
		}
		return "phi(" + strings.Join(ss, "|") + ")"
	case *ssa.Convert:
		return typeStr(x.Type()) + "(" + w.canon(x.X, d+1) + ")"
	case *ssa.ChangeType:
		return w.canon(x.X, d+1)
	case *ssa.ChangeInterface:
		return w.canon(x.X, d+1)
	case *ssa.MakeInterface:
		return w.canon(x.X, d+1)
	case *ssa.TypeAssert:
		return w.canon(x.X, d+1) + ".(" + typeStr(x.AssertedType) + ")"
	case *ssa.Slice:
		if a, ok := x.X.(*ssa.Alloc); ok && x.Low == nil && x.High == nil {
			if elems, ok := varargElems(a); ok {
				var ss []string
				for _, e := range elems {
					ss = append(ss, w.canon(e, d+1))
				}
				return "[" + strings.Join(ss, ", ") + "]"
			}
		}
		s := w.canon(x.X, d+1) + "["
		if x.Low != nil {
			s += w.canon(x.Low, d+1)
		}
		s += ":"
		if x.High != nil {
			s += w.canon(x.High, d+1)
		}
		if x.Max != nil {
			s += ":" + w.canon(x.Max, d+1)
		}
		return s + "]"
	case *ssa.MakeClosure:
		if f, ok := x.Fn.(*ssa.Function); ok && strings.HasSuffix(f.Name(), "$bound") && len(x.Bindings) == 1 {
			return w.canon(x.Bindings[0], d+1) + "." + strings.TrimSuffix(f.Name(), "$bound")
		}
		return "closure(" + w.canon(x.Fn, d+1) + ")"
	case *ssa.MakeMap:
		return "make(" + typeStr(x.Type()) + ")"
	case *ssa.MakeSlice:
		return "make(" + typeStr(x.Type()) + ")"
	case *ssa.MakeChan:
		return "make(" + typeStr(x.Type()) + ")"
	case *ssa.Range:
		return "range(" + w.canon(x.X, d+1) + ")"
	case *ssa.Next:
		return "next(" + w.canon(x.Iter, d+1) + ")"
	case *ssa.SliceToArrayPointer:
		return w.canon(x.X, d+1)
	}
	return fmt.Sprintf("?%T", v)
}

// forwardedCalls: fn is a package-private selector — every return hands back,
// unchanged and complete, the results of one call made in fn (`if exec { return
// L.GetFinality(k) }; return L.Get(k)`), and fn does nothing else. Returns those calls.
func (w *World) forwardedCalls(fn *ssa.Function) []*ssa.Call {
	isClosure := fn != nil && fn.Parent() != nil
	if c := w.renamingWrapper(fn); c != nil {
		return []*ssa.Call{c}
	}
	if fn == nil || fn.Blocks == nil || !w.InModule(fn) || (!isClosure && token.IsExported(fn.Name())) || (!isClosure && len(fn.Blocks) < 2) || len(fn.Blocks) > 12 {
		return nil
	}
	if w.fwdMemo == nil {
		w.fwdMemo = map[*ssa.Function][]*ssa.Call{}
	}
	if r, ok := w.fwdMemo[fn]; ok {
		return r
	}
	w.fwdMemo[fn] = nil
	var out []*ssa.Call
	fwd := map[*ssa.Call]bool{}
	nres := fn.Signature.Results().Len()
	if nres == 0 {
		return nil
	}
	for _, b := range fn.Blocks {
		ret, ok := lastInstr(b).(*ssa.Return)
		if !ok {
			if _, isP := lastInstr(b).(*ssa.Panic); isP && !isClosure {
				return nil
			}
			continue
		}
		var call *ssa.Call
		for i, rv := range ret.Results {
			var c *ssa.Call
			switch y := rv.(type) {
			case *ssa.Call:
				if nres == 1 {
					c = y
				}
			case *ssa.Extract:
				if cc, isC := y.Tuple.(*ssa.Call); isC && y.Index == i {
					c = cc
				}
			}
			// in a local closure the forwarded call may sit before a test of the result it
			// does not hand on (`h, v, err := x.Commit(); if err != nil { panic }; return h, v`)
			if c == nil || (call != nil && c != call) || (c.Block() != b && !isClosure) {
				return nil
			}
			call = c
		}
		if call == nil || (fwd[call] && !isClosure) {
			return nil
		}
		if fwd[call] {
			continue
		}
		fwd[call] = true
		out = append(out, call)
	}
	// nothing else happens in fn
	for _, b := range fn.Blocks {
		for _, in := range b.Instrs {
			switch x := in.(type) {
			case *ssa.Call:
				if !fwd[x] {
					// computing an argument (a key from an address …) is fine as long as it has no effect
					cal := x.Common().StaticCallee()
					if cal == nil || !(pureLibrary(cal) || (w.InModule(cal) && w.pureFn(cal, 0))) {
						return nil
					}
				}
			case *ssa.Store, *ssa.MapUpdate, *ssa.Go, *ssa.Defer, *ssa.Send, *ssa.RunDefers, *ssa.Phi:
				return nil
			}
		}
	}
	if len(out) < 2 && !(isClosure && len(out) == 1) {
		return nil
	}
	w.fwdMemo[fn] = out
	return out
}

// renamingWrapper: a package-private function that does nothing but hand its own
// parameters (converted at most) to one other call and return that call's results
// unchanged (`func keyOf(a []byte) LedgerKey { return ledger.ToLedgerKey(a) }`): a
// second name for the callee. Returns the inner call.
func (w *World) renamingWrapper(fn *ssa.Function) *ssa.Call {
	if fn == nil || fn.Parent() != nil || !w.InModule(fn) || len(fn.Blocks) != 1 || token.IsExported(fn.Name()) || fn.Signature.Results().Len() == 0 {
		return nil
	}
	var call *ssa.Call
	var ret *ssa.Return
	for _, in := range fn.Blocks[0].Instrs {
		switch x := in.(type) {
		case *ssa.Call:
			if call != nil {
				return nil
			}
			call = x
		case *ssa.Return:
			ret = x
		case *ssa.ChangeType, *ssa.Convert, *ssa.Extract, *ssa.DebugRef, *ssa.MakeInterface, *ssa.ChangeInterface:
		default:
			return nil
		}
	}
	if call == nil || ret == nil || call.Common().IsInvoke() || call.Common().StaticCallee() == nil || call.Common().StaticCallee() == fn {
		return nil
	}
	for _, a := range call.Common().Args {
		switch y := stripConv(a).(type) {
		case *ssa.Parameter, *ssa.Const:
			_ = y
		default:
			return nil
		}
	}
	nres := fn.Signature.Results().Len()
	if len(ret.Results) != nres {
		return nil
	}
	for i, rv := range ret.Results {
		switch y := rv.(type) {
		case *ssa.Call:
			if nres != 1 || y != call {
				return nil
			}
		case *ssa.Extract:
			if y.Tuple != ssa.Value(call) || y.Index != i {
				return nil
			}
		default:
			return nil
		}
	}
	return call
}

// prefixForwarder: a package-private function whose every return hands back, in
// order, the leading results of one call it makes; the call's remaining result is
// only compared with nil, and the other exits panic; nothing else happens.
func (w *World) prefixForwarder(fn *ssa.Function) *ssa.Call {
	if fn == nil || fn.Parent() != nil || fn.Blocks == nil || !w.InModule(fn) || token.IsExported(fn.Name()) || len(fn.Blocks) > 4 || fn.Signature.Results().Len() < 2 {
		return nil
	}
	if w.prefixFwdMemo == nil {
		w.prefixFwdMemo = map[*ssa.Function]*ssa.Call{}
	}
	if c, ok := w.prefixFwdMemo[fn]; ok {
		return c
	}
	w.prefixFwdMemo[fn] = nil
	var call *ssa.Call
	nret := 0
	for _, b := range fn.Blocks {
		for _, in := range b.Instrs {
			switch x := in.(type) {
			case *ssa.Call:
				if call != nil {
					return nil
				}
				call = x
			case *ssa.Return:
				nret++
			case *ssa.Extract, *ssa.BinOp, *ssa.If, *ssa.Jump, *ssa.Panic, *ssa.MakeInterface, *ssa.ChangeInterface, *ssa.DebugRef:
			default:
				return nil
			}
		}
	}
	if call == nil || nret != 1 {
		return nil
	}
	nres := fn.Signature.Results().Len()
	if tup, ok := call.Type().(*types.Tuple); !ok || tup.Len() != nres+1 {
		return nil
	}
	for _, b := range fn.Blocks {
		ret, ok := lastInstr(b).(*ssa.Return)
		if !ok {
			continue
		}
		if len(ret.Results) != nres {
			return nil
		}
		for i, rv := range ret.Results {
			ex, ok := rv.(*ssa.Extract)
			if !ok || ex.Tuple != ssa.Value(call) || ex.Index != i {
				return nil
			}
		}
	}
	// the last result is only compared with nil
	for _, ref := range *call.Referrers() {
		if ex, ok := ref.(*ssa.Extract); ok && ex.Index == nres {
			for _, r2 := range *ex.Referrers() {
				switch y := r2.(type) {
				case *ssa.BinOp:
					if c, isC := y.Y.(*ssa.Const); !isC || !c.IsNil() {
						return nil
					}
				case *ssa.MakeInterface, *ssa.ChangeInterface, *ssa.Panic, *ssa.DebugRef:
				default:
					return nil
				}
			}
		}
	}
	w.prefixFwdMemo[fn] = call
	return call
}

// canonForwarded prints the result of a selector call as the join of what it forwards.
func (w *World) canonForwarded(c *ssa.Call, idx int, d int) (string, bool) {
	fn := c.Common().StaticCallee()
	args := c.Common().Args
	if fn == nil && !c.Common().IsInvoke() && w.cur != nil && w.cur.st != nil {
		// a function value the path determines (an element of a literal table of closures)
		if f, rcv := w.calleeOfValue(w.resolveValue(c.Common().Value, w.cur.st, w.cur.eval, 3)); f != nil && rcv == nil {
			fn = f
		}
	}
	if fn == nil || len(w.inlineEnv) >= 3 {
		return "", false
	}
	fw := w.forwardedCalls(fn)
	if fw == nil || len(fn.Params) != len(args) {
		return "", false
	}
	env := map[*ssa.Parameter]string{}
	for i, p := range fn.Params {
		env[p] = w.canon(args[i], d+1)
	}
	w.inlineEnv = append(w.inlineEnv, env)
	set := map[string]bool{}
	for _, f := range fw {
		s := w.canonCall(f.Common(), d+1)
		if idx >= 0 {
			s += "#" + fmt.Sprint(idx)
		}
		set[s] = true
	}
	w.inlineEnv = w.inlineEnv[:len(w.inlineEnv)-1]
	var ss []string
	for s := range set {
		ss = append(ss, s)
	}
	sort.Strings(ss)
	if len(ss) == 1 {
		return ss[0], true
	}
	return "phi(" + strings.Join(ss, "|") + ")", true
}

// zValue: a normal form for the VALUE of a 256-bit expression. The holiman/uint256
// API is three-address (`z.Mul(x, y)` stores x*y into z and returns z), so the same
// product can be written into a fresh object, into one of its operands, or through
// a helper; the normal form names the operation and its operand values only.
// Operands that are objects mutated elsewhere are not looked through.
func (w *World) zValue(v ssa.Value) string {
	return w.zval(v, 0)
}

func isU256Fn(f *ssa.Function) bool {
	return f != nil && f.Pkg != nil && f.Pkg.Pkg.Path() == "github.com/holiman/uint256"
}

// mutatedElsewhere: the 256-bit object v is the receiver of a mutating call other than `except`.
func mutatedElsewhere(v ssa.Value, except ssa.Instruction) bool {
	if v.Referrers() == nil {
		return false
	}
	for _, ref := range *v.Referrers() {
		c, ok := ref.(ssa.CallInstruction)
		if !ok || ssa.Instruction(c) == except {
			continue
		}
		f := c.Common().StaticCallee()
		if !isU256Fn(f) || len(c.Common().Args) == 0 || c.Common().Args[0] != v {
			continue
		}
		switch f.Name() {
		case "Add", "Sub", "Mul", "Div", "Mod", "Set", "SetUint64", "SetBytes", "SetFromBig", "Clear", "DivMod", "MulMod", "AddMod", "Neg", "Lsh", "Rsh", "Exp", "SetOne", "SetFromDecimal":
			return true
		}
	}
	return false
}

func (w *World) zval(v ssa.Value, d int) string {
	if d > 6 {
		return w.Canon(v)
	}
	v = stripConv(v)
	c, ok := v.(*ssa.Call)
	if !ok {
		return w.Canon(v)
	}
	f := c.Common().StaticCallee()
	args := c.Common().Args
	if isU256Fn(f) {
		operand := func(x ssa.Value) string {
			if xc, isCall := stripConv(x).(*ssa.Call); isCall && mutatedElsewhere(xc, c) {
				return w.Canon(x)
			}
			if _, isAlloc := stripConv(x).(*ssa.Alloc); isAlloc && mutatedElsewhere(stripConv(x), c) {
				return w.Canon(x)
			}
			return w.zval(x, d+1)
		}
		switch {
		case f.Name() == "NewInt" && len(args) == 1:
			return "u(" + w.Canon(args[0]) + ")"
		case (f.Name() == "Mul" || f.Name() == "Add") && len(args) == 3:
			a, b := operand(args[1]), operand(args[2])
			if b < a {
				a, b = b, a
			}
			return "z" + strings.ToLower(f.Name()) + "(" + a + "|" + b + ")"
		case (f.Name() == "Sub" || f.Name() == "Div" || f.Name() == "Mod") && len(args) == 3:
			return "z" + strings.ToLower(f.Name()) + "(" + operand(args[1]) + "|" + operand(args[2]) + ")"
		case f.Name() == "Set" && len(args) == 2:
			return operand(args[1])
		case f.Name() == "Clone" && len(args) == 1:
			return operand(args[0])
		}
		return w.Canon(v)
	}
	// a simple module helper: the value it returns, with its parameters bound
	if res := w.simpleHelper(f); res != nil && len(f.Params) == len(args) && len(w.inlineEnv) < w.inlineLimit() {
		env := map[*ssa.Parameter]string{}
		for i, p := range f.Params {
			env[p] = w.Canon(args[i])
		}
		w.inlineEnv = append(w.inlineEnv, env)
		out := w.zval(res, d+1)
		w.inlineEnv = w.inlineEnv[:len(w.inlineEnv)-1]
		return out
	}
	return w.Canon(v)
}

// CanonI renders v with calls of simple pure module helpers replaced by the
// expression they return (so that extracting `fee := gasPrice x gas` into a
// helper does not change what a rule sees).
func (w *World) CanonI(v ssa.Value) string {
	w.inlineHelpers = true
	defer func() { w.inlineHelpers = false }()
	return w.canon(v, 0)
}

// callerEnvs: for a package-private helper, the bindings of its parameters to the
// canonical forms of the arguments at its call sites — themselves in terms of the
// callers' callers, through up to three levels; one binding per call chain. A
// function without (static, same-shape) callers has the single empty binding.
func (w *World) callerEnvs(fn *ssa.Function, d int) []map[*ssa.Parameter]string {
	if fn != nil && fn == w.envRoot {
		return []map[*ssa.Parameter]string{nil} // the terms asked for are this function's own
	}
	if d >= 3 || fn == nil || fn.Blocks == nil || len(fn.Params) == 0 || (fn.Object() != nil && fn.Object().Exported()) {
		return []map[*ssa.Parameter]string{nil}
	}
	cs := w.nodeCallers(fn)
	if w.envRoot != nil {
		// only the call chains that start at the root asked for
		below := map[*ssa.Function]bool{}
		for _, g := range w.withModuleCallees(w.envRoot, 3) {
			below[g] = true
		}
		var keep []CallerSite
		for _, c := range cs {
			if below[c.Caller] {
				keep = append(keep, c)
			}
		}
		cs = keep
	}
	if len(cs) == 0 || len(cs) > 6 {
		return []map[*ssa.Parameter]string{nil}
	}
	var out []map[*ssa.Parameter]string
	for _, c := range cs {
		if c.Site == nil || c.Site.Common().StaticCallee() == nil || len(c.Site.Common().Args) != len(fn.Params) {
			return []map[*ssa.Parameter]string{nil}
		}
		if len(cs) == 1 {
			// (kept for the lifetime of the analysis: a helper with one call site)
			w.bindStructArgs(fn, c.Site.Common().Args)
		}
		for _, outer := range w.callerEnvs(c.Caller, d+1) {
			if outer != nil {
				w.inlineEnv = append(w.inlineEnv, outer)
			}
			env := map[*ssa.Parameter]string{}
			for k, p := range fn.Params {
				s := w.canon(c.Site.Common().Args[k], 0)
				if c.Caller.Parent() != nil {
					s = strings.ReplaceAll(s, "^", "")
				}
				env[p] = s
			}
			if outer != nil {
				w.inlineEnv = w.inlineEnv[:len(w.inlineEnv)-1]
			}
			out = append(out, env)
		}
	}
	return out
}

// CanonAtCallers: the canonical forms of v (a value of fn) in terms of the functions
// that call fn (see callerEnvs); one string per call chain.
func (w *World) CanonAtCallers(fn *ssa.Function, v ssa.Value) []string {
	var out []string
	for _, env := range w.callerEnvs(fn, 0) {
		if env != nil {
			w.inlineEnv = append(w.inlineEnv, env)
		}
		out = append(out, w.Canon(v))
		if env != nil {
			w.inlineEnv = w.inlineEnv[:len(w.inlineEnv)-1]
		}
	}
	return out
}

// noteInlinedTwin records, for the plain canonical form of an argument bound to a
// helper parameter, the form with one-expression helpers inlined (used when a
// condition inside the helper is compared with helpers inlined).
func (w *World) noteInlinedTwin(plain string, v ssa.Value) {
	if w.argVal == nil {
		w.argVal = map[string]ssa.Value{}
	}
	w.argVal[plain] = v
	if w.inlineHelpers || !strings.Contains(plain, "(") {
		return
	}
	tw := w.CanonI(v)
	if tw == plain {
		return
	}
	if w.inlTwin == nil {
		w.inlTwin = map[string]string{}
	}
	w.inlTwin[plain] = tw
}

// canonCallArgsI: the call as written, with the one-expression helpers in its
// arguments inlined but the callee itself kept (canonCallI would look through a
// callee that is a one-line wrapper).
func (w *World) canonCallArgsI(c *ssa.CallCommon) string {
	f := c.StaticCallee()
	if f == nil || f.Signature.Recv() == nil || len(c.Args) == 0 {
		return w.canonCall(c, 0)
	}
	var as []string
	for _, a := range c.Args[1:] {
		as = append(as, w.CanonI(a))
	}
	name := f.Name()
	if o := f.Origin(); o != nil {
		name = o.Name()
	}
	return w.Canon(c.Args[0]) + "." + name + "(" + strings.Join(as, ", ") + ")"
}

// bindStructArgs records, for the struct-typed parameters of cal, the argument
// values of a call (so that a field of the parameter prints as the caller filled
// it in); the returned function restores the previous bindings.
func (w *World) bindStructArgs(cal *ssa.Function, args []ssa.Value) func() {
	type saved struct {
		p   *ssa.Parameter
		v   ssa.Value
		had bool
	}
	var undo []saved
	for i, p := range cal.Params {
		if i >= len(args) {
			break
		}
		if _, isS := p.Type().Underlying().(*types.Struct); !isS {
			continue
		}
		if w.structArg == nil {
			w.structArg = map[*ssa.Parameter]ssa.Value{}
		}
		old, had := w.structArg[p]
		undo = append(undo, saved{p, old, had})
		w.structArg[p] = args[i]
	}
	return func() {
		for _, u := range undo {
			if u.had {
				w.structArg[u.p] = u.v
			} else {
				delete(w.structArg, u.p)
			}
		}
	}
}

// CanonDeep: CanonI with helpers inlined through up to six levels.
func (w *World) CanonDeep(v ssa.Value) string {
	w.inlineDeep = true
	defer func() { w.inlineDeep = false }()
	return w.CanonI(v)
}

func (w *World) inlineLimit() int {
	if w.inlineDeep {
		return 6
	}
	return 3
}

func (w *World) canonCallI(c *ssa.CallCommon) string {
	w.inlineHelpers = true
	defer func() { w.inlineHelpers = false }()
	return w.canonCall(c, 0)
}

// simpleHelper: a module function with a single block, no effects, returning one expression.
func (w *World) simpleHelper(fn *ssa.Function) ssa.Value {
	if fn == nil || !w.InModule(fn) || len(fn.Blocks) != 1 || fn.Signature.Results().Len() != 1 || len(fn.Blocks[0].Instrs) > 14 {
		return nil
	}
	var ret *ssa.Return
	for _, in := range fn.Blocks[0].Instrs {
		switch x := in.(type) {
		case *ssa.Store, *ssa.MapUpdate, *ssa.Go, *ssa.Defer, *ssa.Panic, *ssa.Send, *ssa.RunDefers:
			return nil
		case *ssa.Return:
			ret = x
		}
	}
	if ret == nil || len(ret.Results) != 1 {
		return nil
	}
	return ret.Results[0]
}

// privateStruct: a local struct variable that is only used field by field (stores
// and loads through field addresses) or loaded as a whole — never stored as a
// whole, passed by address or captured.
func privateStruct(a *ssa.Alloc) bool {
	if v, ok := privateStructMemo.Load(a); ok {
		return v.(bool)
	}
	ok := false
	if _, isS := deref(a.Type()).Underlying().(*types.Struct); isS {
		ok = true
		if refs := a.Referrers(); refs != nil {
			for _, r := range *refs {
				switch x := r.(type) {
				case *ssa.FieldAddr:
					if frefs := x.Referrers(); frefs != nil {
						for _, fr := range *frefs {
							switch y := fr.(type) {
							case *ssa.Store:
								if y.Addr != ssa.Value(x) {
									ok = false
								}
							case *ssa.UnOp:
								if y.Op != token.MUL {
									ok = false
								}
							case *ssa.DebugRef:
							default:
								ok = false
							}
						}
					}
				case *ssa.UnOp:
					if x.Op != token.MUL {
						ok = false
					}
				case *ssa.Store:
					// assigned as a whole (the result of a call, a copy)
					if x.Addr != ssa.Value(a) || x.Val == ssa.Value(a) {
						ok = false
					}
				case *ssa.DebugRef:
				default:
					ok = false
				}
			}
		}
	}
	privateStructMemo.Store(a, ok)
	return ok
}

var privateStructMemo sync.Map

// assembledByField: some field of the struct variable is assigned on its own (the
// variable is a parameter object being filled in, not a copy of another value).
func assembledByField(a *ssa.Alloc) bool {
	return assembledByFieldD(a, 0)
}

func assembledByFieldD(a *ssa.Alloc, depth int) bool {
	if refs := a.Referrers(); refs != nil {
		for _, r := range *refs {
			// a copy of a variable that is assembled field by field
			if st, ok := r.(*ssa.Store); ok && st.Addr == ssa.Value(a) && depth < 2 {
				if ld, isLd := st.Val.(*ssa.UnOp); isLd && ld.Op == token.MUL {
					if a2, isA := ld.X.(*ssa.Alloc); isA && a2 != a && privateStruct(a2) && assembledByFieldD(a2, depth+1) {
						return true
					}
				}
			}
			if fa, ok := r.(*ssa.FieldAddr); ok {
				if frefs := fa.Referrers(); frefs != nil {
					for _, fr := range *frefs {
						if st, isSt := fr.(*ssa.Store); isSt && st.Addr == ssa.Value(fa) {
							return true
						}
					}
				}
			}
		}
	}
	return false
}

// wholeDef marks a definition of a struct variable by a store of a whole value.
type wholeDef struct{ ssa.Value }

// fieldDefsAt: the values that field f of the private struct variable a can hold
// just before instruction `at` (reaching definitions over the CFG); zero is true
// when the variable may still be unassigned there.
func fieldDefsAt(a *ssa.Alloc, f int, at ssa.Instruction) (defs []ssa.Value, zero bool) {
	// a definition that is a *ssa.Store stands for "field f of the whole value stored"
	seen := map[*ssa.BasicBlock]bool{}
	have := map[ssa.Value]bool{}
	var scan func(b *ssa.BasicBlock, from int)
	scan = func(b *ssa.BasicBlock, from int) {
		for i := from; i >= 0; i-- {
			if st, ok := b.Instrs[i].(*ssa.Store); ok {
				if fa, isFA := st.Addr.(*ssa.FieldAddr); isFA && fa.X == ssa.Value(a) && fa.Field == f {
					if !have[st.Val] {
						have[st.Val] = true
						defs = append(defs, st.Val)
					}
					return
				}
				if st.Addr == ssa.Value(a) {
					// `return x` of a named result x copies the variable onto itself
					if ld, isLd := st.Val.(*ssa.UnOp); isLd && ld.Op == token.MUL && ld.X == ssa.Value(a) {
						continue
					}
					whole := wholeDef{st.Val}
					if !have[whole] {
						have[whole] = true
						defs = append(defs, whole)
					}
					return
				}
			}
			if b.Instrs[i] == ssa.Instruction(a) {
				zero = true
				return
			}
		}
		if len(b.Preds) == 0 {
			zero = true
			return
		}
		for _, p := range b.Preds {
			if !seen[p] {
				seen[p] = true
				scan(p, len(p.Instrs)-1)
			}
		}
	}
	b := at.Block()
	idx := -1
	for i, in := range b.Instrs {
		if in == at {
			idx = i
		}
	}
	scan(b, idx-1)
	return defs, zero
}

// canonFieldCell prints field f of the private struct variable a as it is just
// before `at`: the value stored, or the join of the values that can reach.
func (w *World) canonFieldCell(a *ssa.Alloc, f int, at ssa.Instruction, d int) (string, bool) {
	if d > 12 {
		return "", false
	}
	defs, zero := fieldDefsAt(a, f, at)
	if len(defs) == 0 {
		return "", false
	}
	set := map[string]bool{}
	for _, v := range defs {
		if wd, isWhole := v.(wholeDef); isWhole {
			if c, isCall := wd.Value.(*ssa.Call); isCall {
				if s, ok := w.canonStructResultField(c, f, d+1); ok {
					set[s] = true
					continue
				}
			}
			if ex, isEx := wd.Value.(*ssa.Extract); isEx {
				if c, isC := ex.Tuple.(*ssa.Call); isC {
					if tup, isT := c.Type().(*types.Tuple); isT {
						if s, ok := w.canonStructResultFieldAt(c, ex.Index, tup.Len(), f, d+1); ok {
							set[s] = true
							continue
						}
					}
				}
			}
			// a parameter object received by value: the field as the caller filled it in
			if pr, isP := wd.Value.(*ssa.Parameter); isP {
				if av, ok := w.structArg[pr]; ok {
					if ld, isLd := av.(*ssa.UnOp); isLd && ld.Op == token.MUL {
						if a2, isA := ld.X.(*ssa.Alloc); isA && privateStruct(a2) {
							if s, ok := w.canonFieldCell(a2, f, ld, d+1); ok {
								set[s] = true
								continue
							}
						}
					}
				}
			}
			// a copy of another local parameter object
			if ld, isLd := wd.Value.(*ssa.UnOp); isLd && ld.Op == token.MUL {
				if a2, isA := ld.X.(*ssa.Alloc); isA && a2 != a && privateStruct(a2) {
					if s, ok := w.canonFieldCell(a2, f, ld, d+1); ok {
						set[s] = true
						continue
					}
				}
			}
			set[w.canon(wd.Value, d+2)+"."+fieldName(a.Type(), f)] = true
			continue
		}
		set[w.canon(v, d+2)] = true
	}
	if zero {
		st := deref(a.Type()).Underlying().(*types.Struct)
		if b, ok := st.Field(f).Type().Underlying().(*types.Basic); ok && b.Info()&types.IsNumeric != 0 {
			set["0"] = true
		} else {
			set["nil"] = true
		}
	}
	var ss []string
	for s := range set {
		ss = append(ss, s)
	}
	sort.Strings(ss)
	if len(ss) == 1 {
		return ss[0], true
	}
	return "phi(" + strings.Join(ss, "|") + ")", true
}

// canonStructResultField prints field f of the struct a module function returns,
// when every return hands back one private struct variable of the function
// (a parameter object filled in field by field); parameters are bound to the
// call's arguments.
func (w *World) canonStructResultField(c *ssa.Call, f int, d int) (string, bool) {
	return w.canonStructResultFieldAt(c, 0, 1, f, d)
}

// canonStructResultFieldAt: the same for result number ri of a function with nres results.
func (w *World) canonStructResultFieldAt(c *ssa.Call, ri, nres int, f int, d int) (string, bool) {
	fn := c.Common().StaticCallee()
	if fn == nil || !w.InModule(fn) || fn.Blocks == nil || len(fn.Params) != len(c.Common().Args) || len(w.inlineEnv) >= 4 || d > 10 {
		return "", false
	}
	var loads []*ssa.UnOp
	for _, b := range fn.Blocks {
		rt, ok := lastInstr(b).(*ssa.Return)
		if !ok || b == fn.Recover {
			continue
		}
		if len(rt.Results) != nres || (nres > 1 && ri >= nres) {
			return "", false
		}
		// the value results are named as the function hands them back when it succeeds
		if nres > 1 && errResultIndex(fn) == nres-1 && w.errState(rt) == triNonNil {
			continue
		}
		ld, ok := rt.Results[ri].(*ssa.UnOp)
		if !ok || ld.Op != token.MUL {
			return "", false
		}
		a, ok := ld.X.(*ssa.Alloc)
		if !ok || !privateStruct(a) || !assembledByField(a) {
			return "", false
		}
		loads = append(loads, ld)
	}
	if len(loads) == 0 {
		return "", false
	}
	env := map[*ssa.Parameter]string{}
	for i, p := range fn.Params {
		env[p] = w.canon(c.Common().Args[i], d+1)
	}
	w.inlineEnv = append(w.inlineEnv, env)
	defer func() { w.inlineEnv = w.inlineEnv[:len(w.inlineEnv)-1] }()
	set := map[string]bool{}
	for _, ld := range loads {
		s, ok := w.canonFieldCell(ld.X.(*ssa.Alloc), f, ld, d+1)
		if !ok {
			return "", false
		}
		set[s] = true
	}
	var ss []string
	for s := range set {
		ss = append(ss, s)
	}
	sort.Strings(ss)
	if len(ss) == 1 {
		return ss[0], true
	}
	return "phi(" + strings.Join(ss, "|") + ")", true
}

// simpleTupleHelper: like simpleHelper for a function with several results.
func (w *World) simpleTupleHelper(fn *ssa.Function) []ssa.Value {
	if fn == nil || !w.InModule(fn) || len(fn.Blocks) != 1 || fn.Signature.Results().Len() < 2 || len(fn.Blocks[0].Instrs) > 14 {
		return nil
	}
	var ret *ssa.Return
	for _, in := range fn.Blocks[0].Instrs {
		switch x := in.(type) {
		case *ssa.Store, *ssa.MapUpdate, *ssa.Go, *ssa.Defer, *ssa.Panic, *ssa.Send, *ssa.RunDefers:
			return nil
		case *ssa.Return:
			ret = x
		}
	}
	if ret == nil {
		return nil
	}
	return ret.Results
}

func (w *World) canonCall(c *ssa.CallCommon, d int) string {
	if w.inlineHelpers && len(w.inlineEnv) < w.inlineLimit() {
		if fn := c.StaticCallee(); fn != nil {
			if res := w.simpleHelper(fn); res != nil && len(fn.Params) == len(c.Args) {
				env := map[*ssa.Parameter]string{}
				for i, p := range fn.Params {
					env[p] = w.canon(c.Args[i], d+1)
				}
				w.inlineEnv = append(w.inlineEnv, env)
				out := w.canon(res, d+1)
				w.inlineEnv = w.inlineEnv[:len(w.inlineEnv)-1]
				return out
			}
		}
	}
	var args []string
	if c.IsInvoke() {
		for _, a := range c.Args {
			args = append(args, w.canon(a, d+1))
		}
		return w.canon(c.Value, d+1) + "." + c.Method.Name() + "(" + strings.Join(args, ", ") + ")"
	}
	// a method value called through its variable (`f := x.m; f(a)`) is the call x.m(a)
	if mc, isMC := c.Value.(*ssa.MakeClosure); isMC && len(mc.Bindings) == 1 {
		if tgt := boundTarget(mc.Fn.(*ssa.Function)); tgt != nil {
			for _, a := range c.Args {
				args = append(args, w.canon(a, d+1))
			}
			mname := tgt.Name()
			if o := tgt.Origin(); o != nil {
				mname = o.Name()
			}
			return w.canon(mc.Bindings[0], d+1) + "." + mname + "(" + strings.Join(args, ", ") + ")"
		}
	}
	if fn := c.StaticCallee(); fn != nil {
		if fn.Signature.Recv() != nil && len(c.Args) > 0 {
			for _, a := range c.Args[1:] {
				args = append(args, w.canon(a, d+1))
			}
			// uint256 multiplication is commutative: print its operands in a fixed order
			if len(args) == 2 && fn.Name() == "Mul" && fn.Pkg != nil && fn.Pkg.Pkg.Path() == "github.com/holiman/uint256" && args[1] < args[0] {
				args[0], args[1] = args[1], args[0]
			}
			mname := fn.Name()
			if o := fn.Origin(); o != nil {
				mname = o.Name()
			}
			return w.canon(c.Args[0], d+1) + "." + mname + "(" + strings.Join(args, ", ") + ")"
		}
		for _, a := range c.Args {
			args = append(args, w.canon(a, d+1))
		}
		name := fn.Name()
		if o := fn.Origin(); o != nil {
			name = o.Name()
		}
		pk := ""
		if p := w.FuncPkgPath(fn); p != "" {
			pk = p[strings.LastIndex(p, "/")+1:] + "."
		}
		if fn.Parent() != nil {
			pk = ""
			name = w.FName(fn)
		}
		return pk + name + "(" + strings.Join(args, ", ") + ")"
	}
	for _, a := range c.Args {
		args = append(args, w.canon(a, d+1))
	}
	return w.canon(c.Value, d+1) + "(" + strings.Join(args, ", ") + ")"
}

func isConst(v ssa.Value) bool {
	_, ok := v.(*ssa.Const)
	return ok
}

func deref(t types.Type) types.Type {
	if p, ok := t.Underlying().(*types.Pointer); ok {
		return p.Elem()
	}
	return t
}

func fieldName(t types.Type, i int) string {
	t = deref(t)
	if st, ok := t.Underlying().(*types.Struct); ok && i < st.NumFields() {
		return st.Field(i).Name()
	}
	return fmt.Sprintf("f%d", i)
}

// fieldOf returns (named struct type, field var) addressed by a FieldAddr/Field.
func fieldOf(t types.Type, i int) (*types.Named, *types.Var) {
	t = deref(t)
	n, _ := t.(*types.Named)
	if n == nil {
		if a, ok := t.(*types.Alias); ok {
			n, _ = types.Unalias(a).(*types.Named)
		}
	}
	st, ok := t.Underlying().(*types.Struct)
	if !ok || i >= st.NumFields() {
		return n, nil
	}
	return n, st.Field(i)
}

// singleStore returns the value of the only Store into alloc a, if a is never
// otherwise written (used for address-taken locals initialised once).
func singleStore(a *ssa.Alloc) ssa.Value {
	var val ssa.Value
	n := 0
	refs := a.Referrers()
	if refs == nil {
		return nil
	}
	for _, r := range *refs {
		switch s := r.(type) {
		case *ssa.Store:
			if s.Addr == a {
				n++
				val = s.Val
			}
		case *ssa.UnOp, *ssa.DebugRef:
		case *ssa.FieldAddr, *ssa.IndexAddr, *ssa.Slice:
			// fields / elements of the variable are read or updated in place, or the
			// array variable is sliced: the variable is still the one initialised by
			// the single whole-value store
		case *ssa.MakeClosure:
			// captured by a closure: still a single-assignment variable when the
			// closure never stores to the variable itself
			if !closureLeavesVar(s, a) {
				return nil
			}
		default:
			// address escapes (FieldAddr, call argument …): not a plain local
			return nil
		}
	}
	if n == 1 {
		return val
	}
	return nil
}

// varargElems: for the array that backs a variadic argument list (`new([N]T)`
// filled by constant-index stores and sliced once), the stored elements.
func varargElems(a *ssa.Alloc) ([]ssa.Value, bool) {
	arr, ok := deref(a.Type()).Underlying().(*types.Array)
	if !ok || a.Referrers() == nil {
		return nil, false
	}
	elems := make([]ssa.Value, arr.Len())
	for _, r := range *a.Referrers() {
		switch x := r.(type) {
		case *ssa.IndexAddr:
			c, ok := x.Index.(*ssa.Const)
			if !ok || x.Referrers() == nil {
				return nil, false
			}
			i := int(c.Int64())
			for _, rr := range *x.Referrers() {
				st, ok := rr.(*ssa.Store)
				if !ok || st.Addr != x || i >= len(elems) || elems[i] != nil {
					return nil, false
				}
				elems[i] = st.Val
			}
		case *ssa.Slice, *ssa.DebugRef:
		default:
			return nil, false
		}
	}
	for _, e := range elems {
		if e == nil {
			return nil, false
		}
	}
	return elems, true
}

// closureLeavesVar: the closure created by mc binds alloc a; does its body
// never store to the captured variable itself (nor pass it on)?
func closureLeavesVar(mc *ssa.MakeClosure, a *ssa.Alloc) bool {
	fn, ok := mc.Fn.(*ssa.Function)
	if !ok {
		return false
	}
	for i, b := range mc.Bindings {
		if b != a || i >= len(fn.FreeVars) {
			continue
		}
		fv := fn.FreeVars[i]
		if fv.Referrers() == nil {
			continue
		}
		for _, r := range *fv.Referrers() {
			switch x := r.(type) {
			case *ssa.UnOp, *ssa.DebugRef, *ssa.FieldAddr, *ssa.IndexAddr:
			case *ssa.Store:
				if x.Addr == fv {
					return false
				}
			default:
				return false
			}
		}
	}
	return true
}

// freeVarBinding finds the value bound to free variable fv when its function
// has exactly one MakeClosure site.
func (w *World) freeVarBinding(fv *ssa.FreeVar) ssa.Value {
	fn := fv.Parent()
	par := fn.Parent()
	if par == nil {
		return nil
	}
	idx := -1
	for i, f := range fn.FreeVars {
		if f == fv {
			idx = i
		}
	}
	if idx < 0 {
		return nil
	}
	var found ssa.Value
	n := 0
	for _, b := range par.Blocks {
		for _, in := range b.Instrs {
			if mc, ok := in.(*ssa.MakeClosure); ok && mc.Fn == fn && idx < len(mc.Bindings) {
				n++
				found = mc.Bindings[idx]
			}
		}
	}
	if n == 1 {
		return found
	}
	return nil
}

// ---- condition normalisation

var flipOp = map[token.Token]token.Token{
	token.LSS: token.GTR, token.GTR: token.LSS, token.LEQ: token.GEQ, token.GEQ: token.LEQ,
	token.EQL: token.EQL, token.NEQ: token.NEQ,
}
var negOp = map[token.Token]token.Token{
	token.LSS: token.GEQ, token.GEQ: token.LSS, token.GTR: token.LEQ, token.LEQ: token.GTR,
	token.EQL: token.NEQ, token.NEQ: token.EQL,
}

// normCmp renders "(x op y)"; comparisons with a constant on the left are
// swapped so the constant is on the right; for symmetric operators the
// operands are ordered lexicographically.
func normCmp(x string, op token.Token, y string, xConst bool) string {
	if f, ok := flipOp[op]; ok {
		if xConst {
			x, y, op = y, x, f
		} else if (op == token.EQL || op == token.NEQ) && y < x && !strings.HasPrefix(y, "nil") && !isLiteral(y) {
			x, y = y, x
		}
	}
	return "(" + x + " " + op.String() + " " + y + ")"
}

func isLiteral(s string) bool {
	if s == "" {
		return false
	}
	c := s[0]
	return c == '"' || c == '-' || (c >= '0' && c <= '9') || s == "true" || s == "false" || s == "nil"
}

// negateCond negates a canonical condition string.
func negateCond(c string) string {
	if strings.HasPrefix(c, "!") {
		return strings.TrimPrefix(c, "!")
	}
	if strings.HasPrefix(c, "(") && strings.HasSuffix(c, ")") {
		// find top-level operator
		depth := 0
		inner := c[1 : len(c)-1]
		for i := 0; i < len(inner); i++ {
			switch inner[i] {
			case '(', '[':
				depth++
			case ')', ']':
				depth--
			case ' ':
				if depth == 0 {
					rest := inner[i+1:]
					for _, pair := range []struct {
						a string
						t token.Token
					}{{"<= ", token.LEQ}, {">= ", token.GEQ}, {"== ", token.EQL}, {"!= ", token.NEQ}, {"< ", token.LSS}, {"> ", token.GTR}} {
						if strings.HasPrefix(rest, pair.a) {
							return "(" + inner[:i] + " " + negOp[pair.t].String() + " " + rest[len(pair.a):] + ")"
						}
					}
				}
			}
		}
	}
	if c == "true" {
		return "false"
	}
	if c == "false" {
		return "true"
	}
	return "!" + c
}

// markOuter prefixes the parameter names (p0, p1, …) in a canonical expression
// of the enclosing function with "^".
func markOuter(s string) string {
	var out strings.Builder
	for i := 0; i < len(s); i++ {
		c := s[i]
		if c == 'p' && i+1 < len(s) && s[i+1] >= '0' && s[i+1] <= '9' {
			prevOK := i == 0 || !(isIdentChar(s[i-1]) || s[i-1] == '^')
			if prevOK {
				j := i + 1
				for j < len(s) && s[j] >= '0' && s[j] <= '9' {
					j++
				}
				if j == len(s) || !isIdentChar(s[j]) {
					out.WriteByte('^')
				}
			}
		}
		out.WriteByte(c)
	}
	return out.String()
}

func isIdentChar(c byte) bool {
	return c == '_' || c >= 'a' && c <= 'z' || c >= 'A' && c <= 'Z' || c >= '0' && c <= '9' || c == '.'
}

// mulExpr prints recv.Mul(a, b) the way canonCall does (operands ordered).
func mulExpr(recv, a, b string) string {
	if b < a {
		a, b = b, a
	}
	return recv + ".Mul(" + a + ", " + b + ")"
}

// canonIndex prints an element index. The two spellings of "every element in
// order" — `for _, e := range s` (go/ssa: i = phi(-1, i+1), element at i+1) and
// `for i := 0; i < len(s); i++` (i = phi(0, i+1), element at i) — print alike.
func (w *World) canonIndex(idx ssa.Value, d int) string {
	if ph, ok := idx.(*ssa.Phi); ok && len(ph.Edges) == 2 {
		for k := 0; k < 2; k++ {
			c, isC := ph.Edges[k].(*ssa.Const)
			bo, isB := ph.Edges[1-k].(*ssa.BinOp)
			if !isC || !isB || bo.Op != token.ADD || bo.X != ssa.Value(ph) {
				continue
			}
			one, isOne := bo.Y.(*ssa.Const)
			if c.Value != nil && c.Value.ExactString() == "0" && isOne && one.Value != nil && one.Value.ExactString() == "1" {
				return "(phi((φ + 1)|-1) + 1)"
			}
		}
	}
	return w.canon(idx, d)
}
