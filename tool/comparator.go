package main

// comparator.go — abstract evaluation of sort comparators.
//
// A Less(i, j) function is evaluated on its CFG for every assignment of an
// order relation (<, =, >) to each key component it compares between element i
// and element j. The resulting truth table is compared with a lexicographic
// reference, or checked for being a strict total order. How the comparator is
// written (argument order of bytes.Compare, `a > b` vs `b < a`, if-chains vs one
// expression, locals) does not matter.

import (
	"fmt"
	"go/token"
	"sort"
	"strings"

	"golang.org/x/tools/go/ssa"
)

type cmpTable struct {
	Keys  []string        // component names, in order of first use ("#" stands for the element)
	Bytes map[string]bool // component compared as a byte string (full width)
	Rows  map[string]bool // assignment (e.g. "<=>") -> Less result
	Bad   string          // why the table could not be built
	sides map[string]string
}

// elemComponent: if v is an expression over element `idx` of the receiver
// (recv[idx].F, len(recv[idx].F), recv[idx]), returns its canonical form with the
// index replaced by "#".
func (w *World) elemComponent(fn *ssa.Function, v ssa.Value) (string, int) {
	s := w.Canon(v)
	hasI := strings.Contains(s, "recv[p0]")
	hasJ := strings.Contains(s, "recv[p1]")
	switch {
	case hasI && !hasJ:
		return strings.ReplaceAll(s, "recv[p0]", "#"), 0
	case hasJ && !hasI:
		return strings.ReplaceAll(s, "recv[p1]", "#"), 1
	}
	return "", -1
}

// comparatorTable builds the truth table of a Less(i, j) method.
func (w *World) comparatorTable(fn *ssa.Function) *cmpTable {
	t := &cmpTable{Bytes: map[string]bool{}, Rows: map[string]bool{}}
	if fn == nil || fn.Blocks == nil || len(fn.Params) != 3 {
		t.Bad = "not a Less(i, j) method"
		return t
	}
	// discover the compared components
	type cmpSite struct {
		key   string
		iLeft bool // element i is the left operand
	}
	sites := map[ssa.Value]cmpSite{}
	add := func(v ssa.Value, a, b ssa.Value, isBytes bool) {
		ka, ia := w.elemComponent(fn, a)
		kb, ib := w.elemComponent(fn, b)
		if ka == "" || kb == "" || ka != kb || ia == ib {
			return
		}
		found := false
		for _, k := range t.Keys {
			if k == ka {
				found = true
			}
		}
		if !found {
			t.Keys = append(t.Keys, ka)
		}
		if isBytes {
			t.Bytes[ka] = true
		}
		sites[v] = cmpSite{ka, ia == 0}
	}
	// the comparisons may sit in pure helpers the comparator calls with its elements
	var discover func(f *ssa.Function, depth int)
	discover = func(f *ssa.Function, depth int) {
		for _, b := range f.Blocks {
			for _, in := range b.Instrs {
				switch x := in.(type) {
				case *ssa.BinOp:
					switch x.Op {
					case token.LSS, token.LEQ, token.GTR, token.GEQ, token.EQL, token.NEQ:
						add(x, x.X, x.Y, false)
					}
				case *ssa.Call:
					if w.callIs(x.Common(), fref{"bytes", "", "Compare"}) || w.callIs(x.Common(), fref{"types/bytes", "", "Compare"}) || w.callIs(x.Common(), fref{"bytes", "", "Equal"}) {
						if len(x.Common().Args) == 2 {
							add(x, x.Common().Args[0], x.Common().Args[1], true)
						}
						continue
					}
					cal := x.Common().StaticCallee()
					if cal != nil && depth < 2 && cal != f && w.pureFn(cal, 0) && len(cal.Params) == len(x.Common().Args) {
						env := map[*ssa.Parameter]string{}
						for j, p := range cal.Params {
							env[p] = w.Canon(x.Common().Args[j])
						}
						w.inlineEnv = append(w.inlineEnv, env)
						discover(cal, depth+1)
						w.inlineEnv = w.inlineEnv[:len(w.inlineEnv)-1]
					}
				}
			}
		}
	}
	discover(fn, 0)
	if len(t.Keys) == 0 || len(t.Keys) > 5 {
		t.Bad = fmt.Sprintf("%d compared components found", len(t.Keys))
		return t
	}
	rel := map[string]int{}
	relOf := func(s cmpSite) int { // sign of (left operand - right operand)
		r := rel[s.key] // sign of (elem_i - elem_j)
		if !s.iLeft {
			r = -r
		}
		return r
	}
	cmpInts := func(a int, op token.Token, b int) (bool, bool) {
		switch op {
		case token.LSS:
			return a < b, true
		case token.LEQ:
			return a <= b, true
		case token.GTR:
			return a > b, true
		case token.GEQ:
			return a >= b, true
		case token.EQL:
			return a == b, true
		case token.NEQ:
			return a != b, true
		}
		return false, false
	}
	eval := func(c ssa.Value) (bool, bool) {
		if s, ok := sites[c]; ok {
			switch x := c.(type) {
			case *ssa.BinOp:
				return cmpInts(relOf(s), x.Op, 0)
			case *ssa.Call: // bytes.Equal
				if callName(x.Common()) == "Equal" {
					return relOf(s) == 0, true
				}
			}
		}
		if bo, ok := c.(*ssa.BinOp); ok {
			// bytes.Compare(a, b) <op> 0
			if call, ok := stripConv(bo.X).(*ssa.Call); ok {
				if s, ok := sites[call]; ok {
					if k, isC := constInt(bo.Y); isC {
						return cmpInts(relOf(s), bo.Op, int(k))
					}
				}
			}
			if call, ok := stripConv(bo.Y).(*ssa.Call); ok {
				if s, ok := sites[call]; ok {
					if k, isC := constInt(bo.X); isC {
						return cmpInts(int(k), bo.Op, relOf(s))
					}
				}
			}
		}
		return false, false
	}
	var rec func(i int, asg string)
	rec = func(i int, asg string) {
		if t.Bad != "" {
			return
		}
		if i == len(t.Keys) {
			v, ok := w.evalFnBool(fn, eval, 0)
			if !ok {
				t.Bad = "the comparator's result is not determined by the relations of its compared components (assignment " + asg + ")"
				return
			}
			t.Rows[asg] = v
			return
		}
		for _, r := range []int{-1, 0, 1} {
			rel[t.Keys[i]] = r
			rec(i+1, asg+string("<=>"[r+1]))
		}
	}
	rec(0, "")
	return t
}

// lexicographic reference: dirs[k] = +1 ascending, -1 descending for Keys[k].
func (t *cmpTable) matchesLexicographic(keys []string, dirs []int) (bool, string) {
	if t.Bad != "" {
		return false, t.Bad
	}
	if len(keys) != len(t.Keys) {
		return false, fmt.Sprintf("compares %v, expected %v", t.Keys, keys)
	}
	pos := map[string]int{}
	for i, k := range t.Keys {
		pos[k] = i
	}
	for _, k := range keys {
		if _, ok := pos[k]; !ok {
			return false, fmt.Sprintf("compares %v, expected %v", t.Keys, keys)
		}
	}
	var asgs []string
	for a := range t.Rows {
		asgs = append(asgs, a)
	}
	sort.Strings(asgs)
	for _, a := range asgs {
		want := false
		for n, k := range keys {
			r := strings.IndexByte("<=>", a[pos[k]]) - 1
			if r != 0 {
				want = (r < 0) == (dirs[n] > 0)
				break
			}
		}
		if t.Rows[a] != want {
			return false, fmt.Sprintf("for relations %v = %q the comparator answers %v, the lexicographic order answers %v", t.Keys, a, t.Rows[a], want)
		}
	}
	return true, ""
}

// strictTotalOrder: irreflexive on all-equal, and for every other assignment
// exactly one of Less(a,b), Less(b,a) holds (no tie is left to the algorithm);
// the component that alone breaks the last tie must be a byte-string comparison.
func (t *cmpTable) strictTotalOrder() (bool, string) {
	if t.Bad != "" {
		return false, t.Bad
	}
	flip := func(a string) string {
		out := []byte(a)
		for i := range out {
			switch out[i] {
			case '<':
				out[i] = '>'
			case '>':
				out[i] = '<'
			}
		}
		return string(out)
	}
	allEq := strings.Repeat("=", len(t.Keys))
	if t.Rows[allEq] {
		return false, "Less(x, x) is true"
	}
	var asgs []string
	for a := range t.Rows {
		asgs = append(asgs, a)
	}
	sort.Strings(asgs)
	for _, a := range asgs {
		if a == allEq {
			continue
		}
		if t.Rows[a] == t.Rows[flip(a)] {
			return false, fmt.Sprintf("for relations %v = %q neither or both of Less(a,b), Less(b,a) hold: the result is left to the sort algorithm", t.Keys, a)
		}
	}
	// some byte-compared component must be able to decide alone
	for i, k := range t.Keys {
		if !t.Bytes[k] {
			continue
		}
		a := []byte(allEq)
		a[i] = '<'
		if t.Rows[string(a)] != t.Rows[flip(string(a))] {
			return true, "unique key " + k
		}
	}
	return false, "no byte-string key decides when all other keys are equal"
}
