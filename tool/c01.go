package main

// C01 — replica determinism (DESIGN §3 C01, D-1 … D-5; D-6 see c01_writeback.go).

import (
	"fmt"
	"go/token"
	"go/types"
	"strings"

	"golang.org/x/tools/go/ssa"
)

func init() { register("C01", checkC01) }

// nondeterministic / node-local APIs (API classification table)
var nondetAPIs = map[string]map[string]bool{
	"time": {"Now": true, "Since": true, "Until": true, "After": true, "Tick": true, "NewTimer": true, "NewTicker": true, "Sleep": true},
	"github.com/tendermint/tendermint/types/time": {"Now": true},
	"math/rand":   nil, // every function
	"crypto/rand": nil,
	"os":          {"Getenv": true, "Hostname": true, "Getpid": true, "Getppid": true, "Getwd": true, "Environ": true, "LookupEnv": true, "Getuid": true, "Executable": true, "ReadFile": true, "ReadDir": true, "Stat": true},
	"runtime":     {"NumGoroutine": true, "Stack": true, "Caller": true, "Callers": true, "GOMAXPROCS": true, "NumCPU": true, "ReadMemStats": true, "GC": true},
	"reflect":     {"Pointer": true, "UnsafeAddr": true, "UnsafePointer": true},
	"os/user":     nil,
	"net":         nil,
}

var c01APIExceptions = map[string]string{
	"node.(*RigoApp).Info:time.Now": "legacy branch taken only when no block-context record exists (data directories written by old versions); the value becomes the time of the reconstructed last block context, which only feeds the expected block time handed to CheckTx contexts, never a DeliverTx result, a validator update or the app hash",
}

var c01MapRangeExceptions = map[string]string{
	"evm.(*StateDBWrapper).Finish:recv.accessedObjAddrs": "each iteration touches only the account at the iteration key (distinct keys, distinct accounts) and marks it in the overlay; the overlay is committed in sorted key order (D-2 on FinalityLedger.Commit)",
}

func consFuncs(x *ExecCtx) []*ssa.Function {
	var out []*ssa.Function
	for _, f := range x.funcs {
		if x.entry[f]&polT != 0 {
			out = append(out, f)
		}
	}
	return out
}

func checkC01(w *World, r *Report) {
	r.Explanation = "Structural clause of C01 over every module function that can run in consensus context (reachable from InitChain/BeginBlock/DeliverTx/EndBlock/Commit/Info, including go-ethereum's callbacks into the state wrapper): (D-1) no call of a node-local or nondeterministic API (wall clock, random numbers, environment, process, runtime introspection, pointer values, file reads) except one listed construct; (D-2) every `range` over a map is discharged by a recognised order-insensitive idiom — keys collected and sorted before any use, keyed copy into another map, effect executed at most once with a value independent of the iteration — or is a listed exception; the ledger's map-order-exposing iterators have no caller on that path; (D-3) every comparator handed to sort on that path ends in a full-width comparison of the element's unique key, so no tie is left to the sort algorithm (one listed exception); (D-4) no goroutine start, channel operation or select on that path, the asynchronous executor entry points have no caller there, and the executor is created with 0 workers; (D-5) every ledger item encoder reaches only encoding/json or protobuf marshalling, the protobuf messages have no map-typed field, and no floating-point value occurs on that path; (D-6) the write-back discipline (see the D-6 obligations): an overlay object mutated in place is marked in its overlay before the function that obtained it returns successfully; (D-7) node-local mempool traffic cannot reach consensus state inside the ledger: overlay isolation and no item object shared between the overlays (C18 L-1); (D-8) the age of the process is node-local: every in-memory controller field that block execution writes, or whose pointee it mutates in place, is block-scoped, rebuilt from committed state at start-up or handed over at Commit (C07 R-1), so that a restarted replica and one that was never restarted answer alike; (D-9) mempool checks and queries are node-local requests: they write no overlay, in-memory controller state (field stores, map updates, in-place 256-bit updates) or live EVM state that block execution reads (C06 X-1, X-2, X-4). An object taken from a sync.Pool (fresh or recycled, by this node's GC and scheduling) counts under D-1 unless it is overwritten as a whole before use."
	r.NotCovered = "nondeterminism inside dependencies (iavl, go-ethereum, encoding/json, protobuf); data races; different Go releases on different replicas (sort algorithm on non-total comparators, map iteration is never relied on); equality of the values computed."
	x := NewExecCtx(w)
	fns := consFuncs(x)
	r.Extra["consensus_functions"] = len(fns)
	if len(fns) < 200 {
		r.Undecided("D-0", "scope", fmt.Sprintf("only %d functions in consensus context (floor 200)", len(fns)))
	}
	d1(w, r, x, fns)
	d2(w, r, x, fns)
	d3(w, r, x, fns)
	d4(w, r, x, fns)
	d5(w, r, x, fns)
	d6(w, r, x, fns)
	d6b(w, r)
	d6c(w, r, x, fns)
	d6d(w, r, fns)
	// D-7: CheckTx traffic is node-local; inside the ledger it must not reach what
	// consensus reads or commits (C18 L-1, incl. object sharing between overlays)
	if r.importObs(w, func(t *Report) { l1(w, t) }, "L-1", "D-7") == 0 {
		r.Undecided("D-7", "ledger-isolation", "the ledger's overlay semantics could not be evaluated")
	}
	r.Floor("D-7", 2, "ledger isolation")
	// D-8: "independently started replicas": the process's age is node-local. Every
	// in-memory controller field that block execution writes (or whose pointee it
	// mutates) is block-scoped, rebuilt from committed state at start-up, or handed
	// over at Commit (C07 R-1) — otherwise a replica that was restarted answers
	// differently from one that was not
	// ... and what start-up installs is what the commits installed (C07 R-2, the constructor's part)
	{
		tmp := NewReport(r.Prop, r.Tier)
		r2(w, tmp)
		for _, o := range tmp.Obs {
			if o.Rule == "R-2" && strings.Contains(o.Key, "NewGovCtrler:") {
				o.Rule = "D-8"
				o.Key = "D-8:" + strings.TrimPrefix(o.Key, "R-2:")
				r.Obs = append(r.Obs, o)
			}
		}
	}
	if r.importObs(w, func(t *Report) { r1(w, t, x); startupLag(w, t, "R-1") }, "R-1", "D-8") < 12 {
		r.Undecided("D-8", "process-age", "fewer than 12 controller fields written during block execution were found")
	}
	// D-9: mempool checks and queries are node-local requests: what they do must not
	// reach the state block execution reads (C06 X-1 overlays, X-2 in-memory
	// controller state, X-4 the live EVM state)
	if r.importRules(w, func(t *Report) { x1(w, t, x); x2(w, t, x); x4(w, t, x) }, "D-9", "X-1a", "X-1b", "X-1c", "X-2", "X-4") < 40 {
		r.Undecided("D-9", "request-isolation", "the isolation rules (C06 X-1, X-2, X-4) matched fewer than 40 constructs")
	}
	r.Floor("D-1", 1, "API calls (positive control + exception)")
	r.Floor("D-2", 4, "map ranges + iterator who-may-call")
	r.Floor("D-3", 3, "comparators")
	r.Floor("D-4", 4, "serial execution")
	r.Floor("D-5", 7, "encoders")
	r.Floor("D-6", 8, "write-back sites")
}

func d1(w *World, r *Report, x *ExecCtx, fns []*ssa.Function) {
	matcher := func(c *ssa.CallCommon) (string, bool) {
		f := c.StaticCallee()
		if f == nil || w.InModule(f) {
			return "", false
		}
		p := w.FuncPkgPath(f)
		set, ok := nondetAPIs[p]
		if !ok {
			return "", false
		}
		if set == nil || set[f.Name()] {
			return p[strings.LastIndex(p, "/")+1:] + "." + f.Name(), true
		}
		return "", false
	}
	n := 0
	for _, fn := range fns {
		for _, c := range CallsIn(fn) {
			api, ok := matcher(c.Common())
			if !ok {
				continue
			}
			n++
			key := w.FName(fn) + ":" + api
			if why, ex := c01APIExceptions[key]; ex {
				r.OK("D-1", key, "excepted: "+why, site(w, c))
			} else if via, why := w.exceptedThroughCaller(fn, api); via != "" {
				// the construct moved into a helper that only the excepted function reaches
				r.OK("D-1", key, "excepted (helper reached only from "+via+"): "+why, site(w, c))
			} else {
				r.Violate("D-1", key, "a node-local / nondeterministic source is consulted while executing consensus calls", map[string]interface{}{"path": x.reachAll.Path(fn)}, site(w, c))
			}
		}
	}
	// recycled objects: what sync.Pool hands out is a fresh object or one used before —
	// which of the two depends on the garbage collector and the scheduler of this
	// node. It is harmless only if the taker overwrites every field before anything
	// else sees the object.
	for _, fn := range fns {
		for _, c := range CallsIn(fn) {
			f := c.Common().StaticCallee()
			if f == nil || f.Name() != "Get" || w.FuncPkgPath(f) != "sync" || f.Signature.Recv() == nil || !strings.HasSuffix(typeStr(f.Signature.Recv().Type()), "Pool") {
				continue
			}
			key := w.FName(fn) + ":sync.Pool.Get"
			ok, why := w.pooledObjectReinitialised(c)
			if ok {
				r.OK("D-1", key, "the recycled object is overwritten as a whole before use: "+why, site(w, c))
			} else {
				r.Violate("D-1", key, "an object taken from a sync.Pool (fresh or recycled, depending on this node's GC and scheduling) is used on a consensus path without every field being overwritten first: "+why, map[string]interface{}{"path": x.reachAll.Path(fn)}, site(w, c))
			}
		}
	}
	// positive control: the matcher must find the known uses outside the consensus path
	ctl := 0
	for _, fn := range w.ModuleFuncs() {
		for _, c := range CallsIn(fn) {
			if _, ok := matcher(c.Common()); ok {
				ctl++
			}
		}
	}
	r.Extra["d1_api_calls_in_module"] = ctl
	if ctl < 3 {
		r.Undecided("D-1", "positive-control", fmt.Sprintf("the API matcher finds only %d call(s) in the whole module (expected the known uses in NewTrx, goid, Info, sfile_pv)", ctl))
	} else {
		r.OK("D-1", "positive-control", fmt.Sprintf("matcher finds %d nondeterministic-API calls in the module, %d of them on the consensus path", ctl, n), "ctrlers/types/trx.go", "node/trx_executor.go")
	}
}

// loopBlocks: blocks of the loop headed by hdr (natural loop of its back edges).
func loopBlocks(hdr *ssa.BasicBlock) map[*ssa.BasicBlock]bool {
	in := map[*ssa.BasicBlock]bool{hdr: true}
	var stack []*ssa.BasicBlock
	for _, p := range hdr.Preds {
		if hdr.Dominates(p) {
			stack = append(stack, p)
		}
	}
	for len(stack) > 0 {
		b := stack[len(stack)-1]
		stack = stack[:len(stack)-1]
		if in[b] {
			continue
		}
		in[b] = true
		stack = append(stack, b.Preds...)
	}
	return in
}

func d2(w *World, r *Report, x *ExecCtx, fns []*ssa.Function) {
	seenOrigin := map[*ssa.Function]bool{}
	for _, fn := range fns {
		if o := fn.Origin(); o != nil {
			if seenOrigin[o] {
				continue // one instantiation of a generic function is enough
			}
			seenOrigin[o] = true
		}
		for _, b := range fn.Blocks {
			for _, in := range b.Instrs {
				rg, ok := in.(*ssa.Range)
				if !ok {
					continue
				}
				if _, isMap := rg.X.Type().Underlying().(*types.Map); !isMap {
					continue
				}
				key := w.FName(fn) + ":" + w.Canon(rg.X)
				if why, ex := c01MapRangeExceptions[key]; ex {
					r.OK("D-2", key, "excepted: "+why, site(w, in))
					continue
				}
				idiom, why := w.mapRangeIdiom(fn, rg)
				if idiom != "" {
					r.OK("D-2", key, "order-insensitive idiom: "+idiom, site(w, in))
				} else {
					r.Violate("D-2", key, "iteration over a map in unspecified order with order-sensitive effects: "+why, map[string]interface{}{"path": x.reachAll.Path(fn)}, site(w, in))
				}
			}
		}
	}
	// map-order-exposing iterators
	n := 0
	for _, nm := range []fref{{pkgLedger, "SimpleLedger", "IterateGotItems"}, {pkgLedger, "SimpleLedger", "IterateUpdatedItems"}, {pkgLedger, "FinalityLedger", "IterateFinalityGotItems"}, {pkgLedger, "FinalityLedger", "IterateFinalityUpdatedItems"}} {
		f := w.Method(nm.pkg, nm.typ, nm.name)
		if f == nil {
			continue
		}
		n++
		bad := ""
		for _, cs := range w.Callers(f) {
			if cs.Caller != nil && x.inSet[cs.Caller] && x.entry[cs.Caller]&polT != 0 && !inLedgerPkg(w, cs.Caller) {
				bad = w.FName(cs.Caller) + "@" + site(w, cs.Site)
			}
		}
		r.Check(bad == "", "D-2", "iterator-unused:"+nm.name, "the map-order-exposing iterator has no caller on the consensus path", "a ledger iterator that exposes map order is used on the consensus path: "+bad, fnSite(w, f))
	}
	it := w.Func(pkgLedger, "iterateItems")
	if it == nil || n < 4 {
		r.Undecided("D-2", "iterators", "ledger iterators not found (positive control)")
	}
}

// mapRangeIdiom recognises order-insensitive uses of a map range.
func (w *World) mapRangeIdiom(fn *ssa.Function, rg *ssa.Range) (string, string) {
	// the Next instruction and the loop
	var next *ssa.Next
	if rg.Referrers() != nil {
		for _, ref := range *rg.Referrers() {
			if n, ok := ref.(*ssa.Next); ok {
				next = n
			}
		}
	}
	if next == nil {
		return "", "no iteration found"
	}
	loop := loopBlocks(next.Block())
	var keyV, valV ssa.Value
	if next.Referrers() != nil {
		for _, ref := range *next.Referrers() {
			if e, ok := ref.(*ssa.Extract); ok {
				switch e.Index {
				case 1:
					keyV = e
				case 2:
					valV = e
				}
			}
		}
	}
	// classify the effects inside the loop
	var appends []*ssa.Call
	var mapups []*ssa.MapUpdate
	var others []ssa.Instruction
	for b := range loop {
		for _, in := range b.Instrs {
			switch y := in.(type) {
			case *ssa.MapUpdate:
				mapups = append(mapups, y)
			case *ssa.Store:
				// stores into locals / varargs arrays are fine; stores through fields are effects
				if _, isFA := y.Addr.(*ssa.FieldAddr); isFA {
					others = append(others, in)
				}
			case *ssa.Call:
				if bi, isB := y.Common().Value.(*ssa.Builtin); isB {
					if bi.Name() == "append" {
						appends = append(appends, y)
					} else if bi.Name() == "delete" {
						others = append(others, in)
					}
					continue
				}
				// pure helper calls are tolerated only when they are comparisons / getters
				nm := callName(y.Common())
				switch nm {
				case "Compare", "Equal", "String", "Key", "len":
				default:
					// a log line is not an output of the state machine
					if y.Common().IsInvoke() && strings.HasSuffix(typeStr(y.Common().Value.Type()), "log.Logger") {
						continue
					}
					others = append(others, in)
				}
			case *ssa.Go, *ssa.Defer, *ssa.Send:
				others = append(others, in)
			}
		}
	}
	// (v) the only effects are deletions of the iteration's own key from the ranged map
	// (safe during a range, and commutative) and calls of a function-typed parameter
	// to which every caller hands an effect-free function literal (a log line)
	if len(others) > 0 && len(mapups) == 0 && len(appends) == 0 {
		okAll := true
		nDel := 0
		for _, in := range others {
			c, isCall := in.(*ssa.Call)
			if !isCall {
				okAll = false
				break
			}
			if bi, isB := c.Common().Value.(*ssa.Builtin); isB && bi.Name() == "delete" {
				a := c.Common().Args
				// the key may live in an addressable loop variable (`k[:]` is taken elsewhere)
				isOwnKey := func(v ssa.Value) bool {
					if v == keyV {
						return true
					}
					if ld, isLd := v.(*ssa.UnOp); isLd && ld.Op == token.MUL {
						if al, isA := ld.X.(*ssa.Alloc); isA {
							if sv := singleStore(al); sv != nil && sv == keyV {
								return true
							}
						}
					}
					return false
				}
				if len(a) == 2 && (stripConv(a[0]) == stripConv(rg.X) || w.Canon(a[0]) == w.Canon(rg.X)) && keyV != nil && isOwnKey(a[1]) {
					nDel++
					continue
				}
				okAll = false
				break
			}
			if pr, isParam := c.Common().Value.(*ssa.Parameter); isParam && w.paramOnlyEffectFreeFuncs(fn, pr) {
				continue
			}
			okAll = false
			break
		}
		if okAll && nDel > 0 {
			return "each iteration only deletes its own key from the ranged map (and calls an effect-free callback)", ""
		}
	}
	switch {
	case len(others) == 0 && len(mapups) > 0 && len(appends) == 0:
		for _, m := range mapups {
			if !(keyV != nil && m.Key == keyV && (valV == nil || m.Value == valV)) {
				return "", "a map is updated with a key/value that is not the iteration's own"
			}
		}
		return "keyed copy: each iteration writes only m2[k] = v for its own key", ""
	case len(others) == 0 && len(mapups) == 0 && len(appends) == 1:
		ap := appends[0]
		// (a) collect keys then sort before any other use
		if sl := w.appendTargetPhi(ap); sl != nil {
			if ok, why := w.sortedBeforeUse(fn, sl, loop); ok {
				return "keys collected into a slice that is sorted (" + why + ") before any other use", ""
			}
		}
		// (c) the keys collected are used for nothing but deleting them from the ranged
		// map — here or, when the slice is handed back by a package-private helper, in
		// every caller: a set difference, whatever the order
		if sl := w.appendTargetPhi(ap); sl != nil && keyV != nil && len(ap.Common().Args) == 2 && strings.Contains(w.Canon(ap.Common().Args[1]), w.Canon(keyV)) {
			if w.onlyDeletedFrom(fn, sl, w.Canon(rg.X), loop, 0) {
				return "the keys collected are only used to delete them from the ranged map (a set difference)", ""
			}
		}
		// (b) at most once, value independent of the iteration
		if !reachesBlock(ap.Block(), next.Block()) {
			vals := w.Canon(ap.Common().Args[1])
			if !strings.Contains(vals, "next(range(") {
				return "the only effect runs at most once (the loop exits right after it) and its value does not depend on the iteration", ""
			}
		}
		return "", "a slice is built in map order and used without sorting"
	case len(others) == 0 && len(mapups) == 0 && len(appends) == 0:
		return "no effect inside the loop (pure search / commutative accumulation)", ""
	}
	return "", fmt.Sprintf("the loop body performs %d call(s)/store(s) whose order follows the map", len(others))
}

// paramOnlyEffectFreeFuncs: every (static) call site of fn hands, for the
// function-typed parameter pr, a function literal or function whose body has no
// effect: no store through a field, no map update, no call other than logger
// methods and pure conversions.
func (w *World) paramOnlyEffectFreeFuncs(fn *ssa.Function, pr *ssa.Parameter) bool {
	idx := -1
	for i, p := range fn.Params {
		if p == pr {
			idx = i
		}
	}
	cs := w.nodeCallers(fn)
	if idx < 0 || len(cs) == 0 {
		return false
	}
	for _, c := range cs {
		if c.Site == nil || c.Site.Common().StaticCallee() == nil || idx >= len(c.Site.Common().Args) {
			return false
		}
		f, _ := w.calleeOfValue(c.Site.Common().Args[idx])
		if f == nil || f.Blocks == nil {
			return false
		}
		for _, b := range f.Blocks {
			for _, in := range b.Instrs {
				switch y := in.(type) {
				case *ssa.MapUpdate, *ssa.Go, *ssa.Defer, *ssa.Send:
					return false
				case *ssa.Store:
					if _, isFA := y.Addr.(*ssa.FieldAddr); isFA {
						return false
					}
					if _, isFV := y.Addr.(*ssa.FreeVar); isFV {
						return false
					}
				case ssa.CallInstruction:
					cc := y.Common()
					if cc.IsInvoke() {
						if strings.Contains(typeStr(cc.Value.Type()), "Logger") {
							continue
						}
						return false
					}
					if _, isB := cc.Value.(*ssa.Builtin); isB {
						continue
					}
					if cal := cc.StaticCallee(); cal != nil && (pureLibrary(cal) || w.pureFn(cal, 0) || cal.Name() == "String") {
						continue
					}
					return false
				}
			}
		}
	}
	return true
}

// appendTargetPhi: the loop-carried slice an append feeds.
func (w *World) appendTargetPhi(ap *ssa.Call) *ssa.Phi {
	if ph, ok := ap.Common().Args[0].(*ssa.Phi); ok {
		return ph
	}
	return nil
}

// sortedBeforeUse: outside the loop, the slice is handed to sort.Sort / sort.Slice
// and every other use is dominated by that call.
func (w *World) sortedBeforeUse(fn *ssa.Function, sl *ssa.Phi, loop map[*ssa.BasicBlock]bool) (bool, string) {
	var sortCall ssa.CallInstruction
	var uses []ssa.Instruction
	var collect func(v ssa.Value, depth int)
	seen := map[ssa.Value]bool{}
	collect = func(v ssa.Value, depth int) {
		if seen[v] || depth > 4 || v.Referrers() == nil {
			return
		}
		seen[v] = true
		for _, ref := range *v.Referrers() {
			if loop[ref.Block()] {
				continue
			}
			switch y := ref.(type) {
			case *ssa.MakeInterface:
				collect(y, depth+1)
			case *ssa.ChangeType:
				collect(y, depth+1)
			case ssa.CallInstruction:
				if f := y.Common().StaticCallee(); f != nil && w.FuncPkgPath(f) == "sort" {
					sortCall = y
					continue
				}
				uses = append(uses, ref)
			default:
				uses = append(uses, ref)
			}
		}
	}
	collect(sl, 0)
	if sortCall == nil {
		return false, ""
	}
	for _, u := range uses {
		if !instrDominates(sortCall, u) {
			return false, ""
		}
	}
	return true, callName(sortCall.Common()) + " at " + w.InstrPos(sortCall)
}

var c01SortExceptions = map[string]string{
	"powerOrderVoteOptions": "ordered by votes only: the input order is the stored option order (deterministic) and sort.Sort is a deterministic function of its input sequence; two options cannot both reach the 2/3 majority, so a tie never decides the outcome",
	"startHeightOrder":      "not used on the consensus path",
	"refundHeightOrder":     "not used on the consensus path",
}

func d3(w *World, r *Report, x *ExecCtx, fns []*ssa.Function) {
	seen := map[string]bool{}
	for _, fn := range fns {
		for _, c := range CallsIn(fn) {
			f := c.Common().StaticCallee()
			if f == nil || w.FuncPkgPath(f) != "sort" {
				continue
			}
			switch f.Name() {
			case "Sort", "Stable":
				tn := w.sortArgType(c)
				if tn == "" {
					r.Undecided("D-3", w.FName(fn)+":sort-arg", "cannot determine the comparator of this sort call", site(w, c))
					continue
				}
				if seen[tn] {
					continue
				}
				seen[tn] = true
				var less *ssa.Function
				if mi, ok := c.Common().Args[0].(*ssa.MakeInterface); ok {
					if n, ok := mi.X.Type().(*types.Named); ok {
						for i := 0; i < n.NumMethods(); i++ {
							if n.Method(i).Name() == "Less" {
								less = w.Prog.FuncValue(n.Method(i))
							}
						}
					}
				}
				if why, ex := c01SortExceptions[tn]; ex {
					r.OK("D-3", tn+".Less", "excepted: "+why, site(w, c))
					continue
				}
				if less == nil {
					r.Undecided("D-3", tn+".Less", "comparator not found", site(w, c))
					continue
				}
				ok, desc := w.comparatorTable(less).strictTotalOrder()
				r.Check(ok, "D-3", tn+".Less", "the comparator's last key is a full-width byte comparison of the element's unique key: "+desc, "the comparator leaves ties to the sort algorithm (no final full-width comparison of a unique key): "+desc, fnSite(w, less), site(w, c))
			default:
				r.Undecided("D-3", w.FName(fn)+":sort."+f.Name(), "sort."+f.Name()+" on the consensus path is not analysed", site(w, c))
			}
		}
	}
}

// lessEndsInKeyCompare: the last decision of Less is bytes.Compare(a[i].K, a[j].K) <op> 0
// on the same field K of both elements (or the elements themselves).
func (w *World) lessEndsInKeyCompare(less *ssa.Function) (bool, string) {
	var cmps []string
	for _, c := range CallsIn(less) {
		if callName(c.Common()) == "Compare" {
			cmps = append(cmps, w.canonCall(c.Common(), 0))
		}
	}
	if len(cmps) == 0 {
		return false, "no byte comparison"
	}
	last := cmps[len(cmps)-1]
	// bytes.Compare(recv[p0]<suffix>, recv[p1]<suffix>)
	i := strings.Index(last, "(recv[p0]")
	j := strings.Index(last, ", recv[p1]")
	if i < 0 || j < 0 {
		return false, last
	}
	sa := last[i+len("(recv[p0]") : j]
	sb := strings.TrimSuffix(last[j+len(", recv[p1]"):], ")")
	if sa != sb {
		return false, last
	}
	// the comparison decides the result whenever it is reached: every return after it is a function of it
	for _, b := range less.Blocks {
		if ret, ok := lastInstr(b).(*ssa.Return); ok {
			c := w.Canon(ret.Results[0])
			if strings.Contains(c, last) {
				return true, last
			}
		}
	}
	// if/return true/false form
	for _, b := range less.Blocks {
		if ifi, ok := lastInstr(b).(*ssa.If); ok && strings.Contains(w.Canon(ifi.Cond), last) {
			return true, last
		}
	}
	return false, last
}

func d4(w *World, r *Report, x *ExecCtx, fns []*ssa.Function) {
	bad := 0
	for _, fn := range fns {
		for _, b := range fn.Blocks {
			for _, in := range b.Instrs {
				kind := ""
				switch y := in.(type) {
				case *ssa.Go:
					kind = "go statement"
				case *ssa.Send:
					kind = "channel send"
				case *ssa.Select:
					kind = "select"
				case *ssa.UnOp:
					if y.Op == token.ARROW {
						kind = "channel receive"
					}
				case *ssa.MakeChan:
					kind = "channel creation"
				}
				if kind != "" {
					bad++
					r.Violate("D-4", w.FName(fn)+":"+kind, kind+" on the consensus path: block execution would depend on scheduling", map[string]interface{}{"path": x.reachAll.Path(fn)}, site(w, in))
				}
			}
		}
	}
	// positive control: the matcher sees the executor's goroutines and channel use
	ctl := 0
	for _, nm := range []fref{{"node", "TrxExecutor", "Start"}, {"node", "TrxExecutor", "ExecuteAsync"}} {
		if f := w.Method(nm.pkg, nm.typ, nm.name); f != nil {
			for _, b := range f.Blocks {
				for _, in := range b.Instrs {
					switch in.(type) {
					case *ssa.Go, *ssa.Send:
						ctl++
					}
				}
			}
		}
	}
	if ctl >= 2 && bad == 0 {
		r.OK("D-4", "no-concurrency", fmt.Sprintf("no goroutine start, channel operation or select in %d consensus-path functions (matcher control: %d hits in the unused asynchronous executor)", len(fns), ctl), "node/trx_executor.go")
	} else if ctl < 2 {
		r.Undecided("D-4", "positive-control", "the concurrency matcher no longer finds the executor's goroutine start / channel send")
	}
	for _, nm := range []fref{{"node", "TrxExecutor", "ExecuteAsync"}, {"node", "RigoApp", "deliverTxAsync"}, {"node", "", "executionRoutine"}} {
		var f *ssa.Function
		if nm.typ == "" {
			f = w.Func(nm.pkg, nm.name)
		} else {
			f = w.Method(nm.pkg, nm.typ, nm.name)
		}
		if f == nil {
			continue
		}
		r.Check(!x.inSet[f], "D-4", "unreached:"+nm.name, "the asynchronous execution path is not reachable from any ABCI entry", "the asynchronous executor is reachable from an ABCI entry: transactions would execute concurrently", fnSite(w, f))
	}
	na := needFn(r, "D-4", w, fref{"node", "", "NewRigoApp"})
	if na != nil {
		ok := false
		for _, c := range w.callsTo(na, fref{"node", "", "NewTrxExecutor"}) {
			k, isK := constInt(c.Common().Args[0])
			ok = isK && k == 0
		}
		r.Check(ok, "D-4", "NewRigoApp:serial-executor", "the executor is created with 0 workers (serial execution)", "the transaction executor is created with worker goroutines", fnSite(w, na))
	}
	dt := needFn(r, "D-4", w, fref{"node", "RigoApp", "DeliverTx"})
	if dt != nil {
		c := w.findCall(dt, "recv.deliverTxSync(p0)")
		r.Check(c != nil, "D-4", "DeliverTx:sync", "DeliverTx executes synchronously", "DeliverTx does not call the synchronous delivery", fnSite(w, dt))
	}
}

func d5(w *World, r *Report, x *ExecCtx, fns []*ssa.Function) {
	items := []struct{ pkg, typ string }{{pkgCT, "Account"}, {pkgCT, "GovParams"}, {pkgStake, "Delegatee"}, {pkgStake, "Stake"}, {pkgStake, "Reward"}, {pkgProp, "GovProposal"}}
	for _, it := range items {
		fn := needFn(r, "D-5", w, fref{it.pkg, it.typ, "Encode"})
		if fn == nil {
			continue
		}
		enc := ""
		bad := ""
		var walk func(f *ssa.Function, d int)
		walk = func(f *ssa.Function, d int) {
			for _, c := range CallsIn(f) {
				cal := c.Common().StaticCallee()
				if cal == nil {
					if c.Common().IsInvoke() && c.Common().Method.Name() != "Error" {
						bad = "dynamic call " + c.Common().Method.Name()
					}
					continue
				}
				p := w.FuncPkgPath(cal)
				switch {
				case w.InModule(cal):
					if d < 2 && cal.Blocks != nil && !strings.HasSuffix(p, "/xerrors") {
						walk(cal, d+1)
					}
				case p == "encoding/json" && (cal.Name() == "Marshal"):
					enc = "encoding/json.Marshal"
				case (p == "google.golang.org/protobuf/proto" || p == "github.com/gogo/protobuf/proto") && cal.Name() == "Marshal":
					enc = "proto.Marshal"
				case p == "sync" || p == "github.com/holiman/uint256":
				default:
					bad = p + "." + cal.Name()
				}
			}
		}
		walk(fn, 0)
		r.Check(enc != "" && bad == "", "D-5", it.typ+".Encode", "the stored bytes come from "+enc+" only (canonical for a fixed schema: sorted map keys / field order)", "a ledger item encoder uses something other than JSON/protobuf marshalling: "+bad, fnSite(w, fn))
	}
	// protobuf messages used by the encoders have no map fields
	for _, pm := range []struct{ pkg, typ string }{{pkgCT, "AcctProto"}, {pkgCT, "GovParamsProto"}, {pkgStake, "RewardProto"}} {
		n := w.Named(pm.pkg, pm.typ)
		if n == nil {
			r.Undecided("D-5", "proto:"+pm.typ, "message type not found")
			continue
		}
		bad := ""
		for _, f := range structFields(n) {
			if _, isMap := f.Type().Underlying().(*types.Map); isMap {
				bad = f.Name()
			}
		}
		r.Check(bad == "", "D-5", "proto:"+pm.typ+":no-map-fields", "no map-typed field (protobuf map order is unspecified)", "protobuf message has a map field ("+bad+"): its encoding order is unspecified", w.Pos(n.Obj().Pos()))
	}
	// floats
	nf := 0
	for _, fn := range fns {
		for _, b := range fn.Blocks {
			for _, in := range b.Instrs {
				if v, ok := in.(ssa.Value); ok {
					if bt, isB := v.Type().Underlying().(*types.Basic); isB && bt.Info()&types.IsFloat != 0 {
						nf++
						r.Violate("D-5", w.FName(fn)+":float", "floating-point arithmetic on the consensus path", nil, site(w, in))
					}
				}
			}
		}
	}
	if nf == 0 {
		r.OK("D-5", "no-floats", "no floating-point value in any consensus-path function", "node/app.go")
	}
}

// exceptedThroughCaller: fn is reached only from functions F for which "F:api" is
// an exception (a helper extracted from an excepted function).
func (w *World) exceptedThroughCaller(fn *ssa.Function, api string) (string, string) {
	allowed := map[string]string{}
	for k, why := range c01APIExceptions {
		if strings.HasSuffix(k, ":"+api) {
			allowed[strings.TrimSuffix(k, ":"+api)] = why
		}
	}
	if len(allowed) == 0 {
		return "", ""
	}
	via, ok := w.onlyReachedFrom(fn, allowed, 0, map[*ssa.Function]bool{})
	if !ok {
		return "", ""
	}
	for _, v := range strings.Split(via, ", ") {
		if why, ok := allowed[v]; ok {
			return via, why
		}
	}
	return "", ""
}

// pooledObjectReinitialised: the value obtained by the sync.Pool.Get call c is
// asserted to *T (T a struct) and, in the same function, either stored as a whole
// or every field of T is stored through that pointer in the block of the assertion
// (before any call receives the pointer).
func (w *World) pooledObjectReinitialised(c ssa.CallInstruction) (bool, string) {
	cv := callValue(c)
	if cv == nil || cv.Referrers() == nil {
		return false, "the result is not used as a typed object"
	}
	var obj ssa.Value
	for _, ref := range *cv.Referrers() {
		if ta, ok := ref.(*ssa.TypeAssert); ok {
			obj = ta
			if ta.CommaOk {
				for _, r2 := range *ta.Referrers() {
					if ex, isE := r2.(*ssa.Extract); isE && ex.Index == 0 {
						obj = ex
					}
				}
			}
		}
	}
	if obj == nil {
		return false, "the result is not asserted to a concrete type here"
	}
	st, isS := deref(obj.Type()).Underlying().(*types.Struct)
	if !isS {
		return false, "the pooled object is not a struct"
	}
	set := map[int]bool{}
	escaped := false
	blk := obj.(ssa.Instruction).Block()
	for _, in := range blk.Instrs {
		switch y := in.(type) {
		case *ssa.Store:
			if y.Addr == obj {
				return true, "*obj = …"
			}
			if fa, ok := y.Addr.(*ssa.FieldAddr); ok && fa.X == obj && !escaped {
				set[fa.Field] = true
			}
		case ssa.CallInstruction:
			for ai, a := range y.Common().Args {
				if a != obj {
					continue
				}
				// a reset helper that overwrites the whole object first thing
				if cal := y.Common().StaticCallee(); cal != nil && w.InModule(cal) && len(cal.Blocks) > 0 && ai < len(cal.Params) && !escaped {
					for _, in2 := range cal.Blocks[0].Instrs {
						if st2, ok := in2.(*ssa.Store); ok && st2.Addr == ssa.Value(cal.Params[ai]) {
							return true, "*obj = … in " + w.FName(cal)
						}
						if _, isCall := in2.(ssa.CallInstruction); isCall {
							break
						}
					}
				}
				escaped = true
			}
		}
	}
	var missing []string
	for i := 0; i < st.NumFields(); i++ {
		if !set[i] {
			missing = append(missing, st.Field(i).Name())
		}
	}
	if len(missing) == 0 {
		return true, fmt.Sprintf("all %d fields assigned", st.NumFields())
	}
	return false, "fields keeping what an earlier user left: " + strings.Join(missing, ", ")
}

// onlyDeletedFrom: outside the collecting loop, the slice v (a list of map keys) is
// used only as the source of `delete(m, v[i])` with m the map of the given
// canonical name, for its length, or as the result of a package-private function
// all of whose callers use the result in that way.
func (w *World) onlyDeletedFrom(fn *ssa.Function, v ssa.Value, mapCanon string, loop map[*ssa.BasicBlock]bool, depth int) bool {
	if depth > 2 || v.Referrers() == nil {
		return false
	}
	seen := map[ssa.Value]bool{}
	nDel := 0
	var visit func(x ssa.Value) bool
	visit = func(x ssa.Value) bool {
		if seen[x] {
			return true
		}
		seen[x] = true
		if x.Referrers() == nil {
			return true
		}
		for _, ref := range *x.Referrers() {
			if loop != nil && loop[ref.Block()] {
				continue // the collecting loop itself
			}
			switch y := ref.(type) {
			case *ssa.Phi:
				if !visit(y) {
					return false
				}
			case *ssa.DebugRef:
			case *ssa.Call:
				if bi, isB := y.Common().Value.(*ssa.Builtin); isB && bi.Name() == "len" {
					continue
				}
				return false
			case *ssa.IndexAddr:
				// &v[i]: loaded and handed to delete(m, ·)
				if y.Referrers() == nil {
					continue
				}
				for _, r2 := range *y.Referrers() {
					ld, isLd := r2.(*ssa.UnOp)
					if !isLd || ld.Op != token.MUL || ld.Referrers() == nil {
						return false
					}
					for _, r3 := range *ld.Referrers() {
						switch z := r3.(type) {
						case *ssa.DebugRef:
						case *ssa.Call:
							bi, isB := z.Common().Value.(*ssa.Builtin)
							if !isB || bi.Name() != "delete" || len(z.Common().Args) != 2 || z.Common().Args[1] != ssa.Value(ld) || w.Canon(z.Common().Args[0]) != mapCanon {
								return false
							}
							nDel++
						default:
							return false
						}
					}
				}
			case *ssa.Return:
				// handed back: every caller of this package-private function does the same
				if fn.Object() != nil && fn.Object().Exported() {
					return false
				}
				cs := w.nodeCallers(fn)
				if len(cs) == 0 {
					return false
				}
				for _, c := range cs {
					cv := callValue(c.Site)
					if cv == nil || fn.Signature.Results().Len() != 1 {
						return false
					}
					// the map is named in the caller as in the helper (a field of the same receiver)
					if len(c.Site.Common().Args) == 0 || w.Canon(c.Site.Common().Args[0]) != "recv" {
						return false
					}
					if !w.onlyDeletedFrom(c.Caller, cv, mapCanon, nil, depth+1) {
						return false
					}
				}
				nDel++
			default:
				return false
			}
		}
		return true
	}
	return visit(v) && nDel > 0
}
