package main

// report.go — obligations, floors, known findings, evidence and violation files.

import (
	"bufio"
	"encoding/json"
	"fmt"
	"os"
	"path/filepath"
	"sort"
	"strings"
)

const (
	stOK        = "ok"
	stViolated  = "violated"
	stUndecided = "undecided"
)

type Ob struct {
	Rule    string      `json:"rule"`
	Key     string      `json:"key"` // rule + construct, never a line number
	Status  string      `json:"status"`
	Detail  string      `json:"detail,omitempty"`
	Sites   []string    `json:"sites,omitempty"`
	Witness interface{} `json:"witness,omitempty"`
	Known   string      `json:"known_finding,omitempty"`
}

type Report struct {
	Prop        string
	Tier        string
	Explanation string
	NotCovered  string
	Obs         []*Ob
	floors      map[string]int
	floorWhy    map[string]string
	Extra       map[string]interface{}
	Assumptions []string
	seen        map[string]bool
}

func NewReport(prop, tier string) *Report {
	return &Report{Prop: prop, Tier: tier, floors: map[string]int{}, floorWhy: map[string]string{}, Extra: map[string]interface{}{}, seen: map[string]bool{}}
}

func (r *Report) add(rule, key, status, detail string, sites []string, wit interface{}) *Ob {
	full := rule + ":" + key
	// keys must be unique per obligation; disambiguate repeated constructs
	if r.seen[full] {
		for i := 2; ; i++ {
			k := fmt.Sprintf("%s#%d", full, i)
			if !r.seen[k] {
				full = k
				break
			}
		}
	}
	r.seen[full] = true
	ob := &Ob{Rule: rule, Key: full, Status: status, Detail: detail, Sites: sites, Witness: wit}
	r.Obs = append(r.Obs, ob)
	return ob
}

func (r *Report) OK(rule, key, detail string, sites ...string) *Ob {
	return r.add(rule, key, stOK, detail, sites, nil)
}
func (r *Report) Violate(rule, key, detail string, wit interface{}, sites ...string) *Ob {
	return r.add(rule, key, stViolated, detail, sites, wit)
}
func (r *Report) Undecided(rule, key, detail string, sites ...string) *Ob {
	return r.add(rule, key, stUndecided, detail, sites, nil)
}

// Check records ok/violated by a boolean.
func (r *Report) Check(cond bool, rule, key, okDetail, badDetail string, sites ...string) bool {
	if cond {
		r.OK(rule, key, okDetail, sites...)
	} else {
		r.Violate(rule, key, badDetail, nil, sites...)
	}
	return cond
}

// Floor demands at least n obligations (of any status) under rule.
func (r *Report) Floor(rule string, n int, why string) {
	r.floors[rule] = n
	r.floorWhy[rule] = why
}

func (r *Report) count(rule string) int {
	n := 0
	for _, o := range r.Obs {
		if o.Rule == rule {
			n++
		}
	}
	return n
}

// ---- known findings

type knownFinding struct {
	Prop, Key, Text string
}

func loadKnown(path string) ([]knownFinding, error) {
	f, err := os.Open(path)
	if err != nil {
		if os.IsNotExist(err) {
			return nil, nil
		}
		return nil, err
	}
	defer f.Close()
	var out []knownFinding
	sc := bufio.NewScanner(f)
	sc.Buffer(make([]byte, 1<<20), 1<<20)
	for sc.Scan() {
		ln := strings.TrimSpace(sc.Text())
		if !strings.HasPrefix(ln, "known:") {
			continue // "fixed:" lines and comments suppress nothing
		}
		rest := strings.TrimSpace(strings.TrimPrefix(ln, "known:"))
		fs := strings.SplitN(rest, " ", 3)
		if len(fs) < 2 || !strings.HasPrefix(fs[0], "property=") || !strings.HasPrefix(fs[1], "key=") {
			return nil, fmt.Errorf("malformed known-findings line: %q", ln)
		}
		kf := knownFinding{Prop: strings.TrimPrefix(fs[0], "property="), Key: strings.TrimPrefix(fs[1], "key=")}
		if len(fs) == 3 {
			kf.Text = fs[2]
		}
		out = append(out, kf)
	}
	return out, sc.Err()
}

// ---- finishing: floors, known findings, evidence, VIOLATION lines

type evidence struct {
	PropertyID  string                 `json:"property_id"`
	Tier        string                 `json:"tier"`
	Seed        int                    `json:"seed"`
	Level       string                 `json:"level"`
	Coverage    map[string]interface{} `json:"coverage"`
	Assumptions []string               `json:"assumptions"`
	WallS       float64                `json:"wall_s"`
	Violations  int                    `json:"violations"`
}

func (r *Report) Finish(w *World, verifDir string, seed int, wall float64, quiet bool) int {
	// floors
	var rules []string
	for rule := range r.floors {
		rules = append(rules, rule)
	}
	sort.Strings(rules)
	for _, rule := range rules {
		if c := r.count(rule); c < r.floors[rule] {
			r.Undecided(rule, "floor", fmt.Sprintf("vacuous rule: %d instance(s) matched, floor is %d (%s)", c, r.floors[rule], r.floorWhy[rule]))
		}
	}
	known, kerr := loadKnown(filepath.Join(verifDir, "known_findings.txt"))
	if kerr != nil {
		r.Undecided("K", "known_findings", "cannot read known_findings.txt: "+kerr.Error())
	}
	isKnown := func(key string) (string, bool) {
		for _, k := range known {
			if k.Prop == r.Prop && k.Key == key {
				return k.Text, true
			}
		}
		return "", false
	}

	perRule := map[string]int{}
	nOK, nViol, nUndec, nKnown, nontrivial := 0, 0, 0, 0, 0
	var bad []*Ob
	var knownObs []*Ob
	for _, o := range r.Obs {
		perRule[o.Rule]++
		switch o.Status {
		case stOK:
			nOK++
			if len(o.Sites) > 0 {
				nontrivial++
			}
		case stViolated:
			if txt, ok := isKnown(o.Key); ok {
				o.Known = txt
				nKnown++
				knownObs = append(knownObs, o)
				if len(o.Sites) > 0 {
					nontrivial++
				}
			} else {
				nViol++
				bad = append(bad, o)
			}
		case stUndecided:
			nUndec++
			bad = append(bad, o)
		}
	}

	// human-readable report
	if !quiet {
		fmt.Printf("== %s (%s tier): %d obligations — %d ok, %d known finding(s), %d violated, %d undecided\n",
			r.Prop, r.Tier, len(r.Obs), nOK, nKnown, nViol, nUndec)
		var rs []string
		for k := range perRule {
			rs = append(rs, k)
		}
		sort.Strings(rs)
		for _, k := range rs {
			fmt.Printf("   rule %-6s %3d instance(s)\n", k, perRule[k])
		}
		if w != nil {
			fmt.Printf("   analysed: %d module packages (%d total), %d functions (%d in module)", w.NRootPkgs, w.NAllPkgs, w.NFuncs, w.NModFuncs)
			if w.cg != nil {
				fmt.Printf(", call graph %d edges (%d sites repaired with CHA)", w.CGEdges, w.CGRepairedSites)
			}
			fmt.Println()
		}
	}
	for _, o := range knownObs {
		fmt.Printf("KNOWN-FINDING: property=%s %s — %s [%s]\n", r.Prop, o.Key, o.Known, strings.Join(o.Sites, ", "))
	}

	// violation files
	vdir := filepath.Join(verifDir, "evidence", "violations")
	_ = os.MkdirAll(vdir, 0o755)
	old, _ := filepath.Glob(filepath.Join(vdir, r.Prop+"-*.json"))
	for _, f := range old {
		_ = os.Remove(f)
	}
	for i, o := range bad {
		p := filepath.Join(vdir, fmt.Sprintf("%s-%d.json", r.Prop, i+1))
		rec := map[string]interface{}{"property": r.Prop, "rule": o.Rule, "key": o.Key, "status": o.Status, "detail": o.Detail, "sites": o.Sites, "witness": o.Witness}
		bz, _ := json.MarshalIndent(rec, "", " ")
		_ = os.WriteFile(p, append(bz, '\n'), 0o644)
		fmt.Printf("   %s %s: %s [%s]\n", strings.ToUpper(o.Status), o.Key, o.Detail, strings.Join(o.Sites, ", "))
		fmt.Printf("VIOLATION property=%s replay=%s\n", r.Prop, p)
	}

	// evidence
	var samples []interface{}
	maxSamples := 40
	for _, o := range bad {
		samples = append(samples, o)
	}
	for _, o := range knownObs {
		samples = append(samples, o)
	}
	for _, o := range r.Obs {
		if len(samples) >= maxSamples {
			break
		}
		if o.Status == stOK && len(o.Sites) > 0 {
			samples = append(samples, o)
		}
	}
	if len(samples) == 0 {
		for _, o := range r.Obs {
			samples = append(samples, o)
			if len(samples) >= 5 {
				break
			}
		}
	}
	var kfs []string
	for _, o := range knownObs {
		kfs = append(kfs, o.Key)
	}
	cov := map[string]interface{}{
		"explanation":         r.Explanation + " NOT COVERED: " + r.NotCovered,
		"evaluations":         len(r.Obs),
		"distinct_nontrivial": nontrivial,
		"rule":                "one evaluation = one obligation (rule instance + resolved construct) decided on /repo's current source; non-trivial = the obligation matched at least one concrete site (file:line) and was decided; keys are unique per obligation, so the count is of distinct obligations",
		"samples":             samples,
		"instances_per_rule":  perRule,
		"obligations_ok":      nOK,
		"obligations_known":   nKnown,
		"obligations_bad":     len(bad),
		"known_findings":      kfs,
		"exhaustive":          false,
	}
	if w != nil {
		cov["packages_module"] = w.NRootPkgs
		cov["packages_total"] = w.NAllPkgs
		cov["functions_total"] = w.NFuncs
		cov["functions_module"] = w.NModFuncs
		cov["call_graph_edges"] = w.CGEdges
		cov["call_sites_repaired_with_cha"] = w.CGRepairedSites
		cov["timings_s"] = map[string]float64{"load": w.LoadS, "ssa": w.SSAS, "callgraph": w.CGS}
	}
	for k, v := range r.Extra {
		cov[k] = v
	}
	ev := evidence{
		PropertyID: r.Prop, Tier: r.Tier, Seed: seed, Level: "other", Coverage: cov,
		Assumptions: append([]string{
			"the Go type checker, golang.org/x/tools go/ssa and the VTA/CHA call graphs are correct for this program",
			"code outside the rigo-go module (iavl, tm-db, go-ethereum, tendermint, protobuf, encoding/json, uint256) behaves as documented; external calls are classified by the committed API tables",
		}, r.Assumptions...),
		WallS: wall, Violations: len(bad),
	}
	_ = os.MkdirAll(filepath.Join(verifDir, "evidence"), 0o755)
	bz, _ := json.MarshalIndent(ev, "", " ")
	if err := os.WriteFile(filepath.Join(verifDir, "evidence", r.Prop+".json"), append(bz, '\n'), 0o644); err != nil {
		fmt.Fprintln(os.Stderr, "cannot write evidence:", err)
		return 1
	}
	if len(bad) > 0 {
		return 1
	}
	return 0
}

// importObs runs another rule set into a scratch report and adopts its
// obligations under a new rule name (cross-cutting clauses shared by properties).
func (r *Report) importObs(w *World, run func(*Report), fromRule, toRule string) int {
	tmp := NewReport(r.Prop, r.Tier)
	run(tmp)
	n := 0
	for _, o := range tmp.Obs {
		if o.Rule != fromRule {
			continue
		}
		o.Rule = toRule
		o.Key = toRule + ":" + strings.TrimPrefix(o.Key, fromRule+":")
		r.Obs = append(r.Obs, o)
		n++
	}
	for k, v := range tmp.Extra {
		if _, ok := r.Extra[k]; !ok {
			r.Extra[k] = v
		}
	}
	return n
}

// importRules adopts the obligations of several rules of another rule set under
// one rule name, keeping the source rule in the key.
func (r *Report) importRules(w *World, run func(*Report), toRule string, fromRules ...string) int {
	tmp := NewReport(r.Prop, r.Tier)
	run(tmp)
	want := map[string]bool{}
	for _, f := range fromRules {
		want[f] = true
	}
	n := 0
	for _, o := range tmp.Obs {
		if !want[o.Rule] {
			continue
		}
		o.Key = toRule + ":" + o.Key
		o.Rule = toRule
		r.Obs = append(r.Obs, o)
		n++
	}
	return n
}

// importTreeReadOnly adopts, under toRule, the C18 L-2 obligations that the committed
// tree's readers (the iterators block execution builds on, and read) consult no
// overlay container; returns how many were adopted.
func (r *Report) importTreeReadOnly(w *World, toRule string) int {
	tmp := NewReport(r.Prop, r.Tier)
	l2(w, tmp)
	n := 0
	for _, o := range tmp.Obs {
		if o.Rule != "L-2" || !strings.Contains(o.Key, "tree-read-only:") {
			continue
		}
		o.Rule = toRule
		o.Key = toRule + ":" + strings.TrimPrefix(o.Key, "L-2:")
		r.Obs = append(r.Obs, o)
		n++
	}
	return n
}
