package main

// C09 — no externally supplied input can crash the node (DESIGN §3 C09, P-1 … P-5).

import (
	"fmt"
	"go/constant"
	"go/token"
	"go/types"
	"os"
	"regexp"
	"sort"
	"strings"

	"golang.org/x/tools/go/ssa"
)

func init() { register("C09", checkC09) }

// entry points of the ABCI application
func (w *World) appMethod(name string) *ssa.Function { return w.Method("node", "RigoApp", name) }

func (w *World) entrySet(names ...string) []*ssa.Function {
	var out []*ssa.Function
	for _, n := range names {
		if f := w.appMethod(n); f != nil {
			out = append(out, f)
		}
	}
	return out
}

// exception tables: key -> reason. One resolved construct each.
var c09PanicExceptions = map[string]string{
	"types.AmountToPower:panic":                             "needs amount/10^18 >= 2^63; every caller passes an amount the sender's balance covers (commonValidation1) or a governance parameter, and total supply is far below 2^63 RIGO",
	"stake.(*StakeCtrler).ValidateTrx:panic":                "power-overflow guard: totalPower+txPower <= 0 needs bonded power >= 2^63, i.e. a balance >= 2^63 RIGO",
	"stake.(*Reward).Withdraw:panic":                        "reward height is never above the current block height: it is only set from block heights of executed blocks (Issue/Withdraw), which do not decrease",
	"stake.(*Reward).Issue:panic":                           "same invariant as Withdraw (height order), block heights do not decrease",
	"account.(*ImmuAcctCtrler).ImmutableAcctCtrlerAt:panic": "not reachable at run time: EVMCtrler.acctHandler only ever holds *AcctCtrler (assigned once in NewEVMCtrler from NewRigoApp); the call graph reaches it only through the IAccountHandler interface",
	"evm.(*StateDBWrapper).Finish:must:MustFromBig":         "EVM balances are < 2^256 by construction (uint256 arithmetic in go-ethereum's state objects)",
	"ledger.(*SimpleLedger).Commit:panic":                   "SimpleLedger.Commit is reachable only through the ILedger interface from FinalityLedger call sites that dispatch to FinalityLedger.Commit; immutable ledgers are never committed (C19 Q-1 / C17 E-5 check that no query path commits)",
	"stake.(*Reward).UnmarshalJSON:must:MustFromDecimal":    "UnmarshalJSON of Reward is reached only from tmjson round-trips of values the node itself marshalled (query responses), never from request bytes",
	"types.DefaultGovParams:must:MustFromDecimal":           "constant argument",
	"node.(*RigoApp).BeginBlock:panic":                      "deliberate fail-stop: a block whose height is not the persisted height + 1, or a controller error while opening the block, halts the node instead of continuing on divergent state (C08 K-2 relies on it); no request bytes reach these tests",
	"node.(*RigoApp).EndBlock:panic":                        "deliberate fail-stop on a controller error while closing the block (ledger I/O, version mismatch); the runtime panics below the handlers are what P-3..P-5 decide",
}

var c09IndexExceptions = map[string]string{}

func checkC09(w *World, r *Report) {
	r.Explanation = "Structural clause of C09: over every module function reachable (repaired VTA call graph) from CheckTx, DeliverTx and Query — and from BeginBlock and EndBlock, which later process what accepted transactions stored —, (P-1) no explicit panic, always-panicking callee or Must* helper is reachable except a listed construct with its invariant; (P-2) every payload type assertion without comma-ok sits where the set of possible transaction types (dataflow over the tx-type tests, interprocedural) maps only to the payload type that Trx.fromProto allocates; (P-3) every slice/index expression on a slice whose bounds are not compile-time safe has a dominating length guard or clamp idiom; (P-4) results of module functions that return nil together with an error / may return nil are not dereferenced where the error is known non-nil or without a nil test; (P-5) every integer division by a non-constant has a dominating non-zero guard or a listed invariant; (P-7) every string stored in a ledger item (protobuf `string` fields must be valid UTF-8 or the encoder fails and Commit halts the node) originates from constants, fields or transaction text handed on unchanged — not from a conversion of bytes or a library routine that can yield arbitrary bytes; (P-6) every pointer-typed field of Trx / a payload type that the input paths dereference without a nil test is set non-nil on every success path of every function on the input paths that allocates such an object (directly or through a decoder call that establishes it, interprocedurally); (P-8) a pointer-typed controller field that start-up (constructor, and Info for the application) leaves nil and block execution creates is not dereferenced, without a nil test of the field, at a point that can run in a CheckTx or Query context (such a request can arrive after a restart and before the first BeginBlock); (P-9) an object filled by decoding request-supplied JSON may have any pointer field nil: what a getter hands back unchanged from such a field is not used as an operand before a nil test (until the object is handed to a module function, which may complete it). P-7 also requires that no value handed to a JSON marshaller in the state packages carries a json.RawMessage (the marshaller rejects bytes that are not JSON, and an item that can not be encoded stops Commit)."
	r.NotCovered = "whether an error a controller returns from BeginBlock/EndBlock (which RigoApp turns into a deliberate fail-stop panic) can be provoked by stored transaction data; panics inside dependencies on hostile input (protobuf, rlp, iavl, go-ethereum, tendermint rpc core used by vm_call); resource exhaustion; nil dereferences of struct fields other than those of the decoded request objects (P-6) that are nil by construction rather than by a returned nil; guards whose removal cannot cause a panic (address/hash length checks: every consumer clamps) are deliberately not obligations."

	roots := w.entrySet("CheckTx", "DeliverTx", "Query", "BeginBlock", "EndBlock")
	if len(roots) != 5 {
		r.Undecided("P-0", "entries", "RigoApp.CheckTx/DeliverTx/Query/BeginBlock/EndBlock do not all resolve")
		return
	}
	reach := w.ReachFrom(roots, nil)
	scope := reach.ModuleFuncs()
	r.Extra["scope_functions"] = len(scope)
	if len(scope) < 150 {
		r.Undecided("P-0", "scope", fmt.Sprintf("only %d module functions reachable from the request and block handlers (floor 150): call graph incomplete", len(scope)))
	}

	p1(w, r, reach, scope)
	p2(w, r, reach, scope)
	p3(w, r, reach, scope)
	p4(w, r, reach, scope)
	p5(w, r, reach, scope)
	p6(w, r, reach, scope)
	p7(w, r, scope)
	p7raw(w, r)
	p8(w, r)
	p9(w, r, scope)

	r.Floor("P-9", 1, "objects decoded from request JSON on the input paths")
	r.Floor("P-1", 2, "explicit panics / Must* on the input paths, each with its exception")
	r.Floor("P-2", 3, "payload assertions without comma-ok")
	r.Floor("P-3", 8, "slice/index sites on input-derived slices")
	r.Floor("P-4", 6, "dereferences of may-be-nil results")
	r.Floor("P-5", 1, "divisions by non-constants")
	r.Floor("P-6", 2, "pointer fields of decoded request objects and their producers")
}

// ---- P-8 : per-block objects that do not exist before the first block
//
// A pointer-typed field of a controller that the constructor leaves nil and that
// is created while a block executes (the EVM, its state wrapper, the gas pool) is
// nil in a process that has not executed a block yet — and CheckTx and Query can
// arrive before the first BeginBlock after a restart. Every dereference of such a
// field at a point that can run in a CheckTx or Query context needs a dominating
// nil test of the field.
func p8(w *World, r *Report) {
	x := NewExecCtx(w)
	n := 0
	var lazy []string
	for _, ci := range ctrls {
		ctor := w.Func(ci.pkg, ci.ctor)
		named := w.Named(ci.pkg, ci.typ)
		if ctor == nil || named == nil {
			continue
		}
		st, ok := named.Underlying().(*types.Struct)
		if !ok {
			continue
		}
		// fields the constructor (and what it calls) assigns
		inCtor := map[string]bool{}
		starts := w.withModuleCallees(ctor, 2)
		if ci.typ == "RigoApp" {
			// the handshake (Info) is part of start-up: Tendermint calls it before it
			// serves the mempool or the rpc
			if info := w.appMethod("Info"); info != nil {
				starts = append(starts, w.withModuleCallees(info, 2)...)
			}
		}
		for _, g := range starts {
			for _, fs := range w.fieldStores(g) {
				if fs.Owner != nil && fs.Owner.Obj() == named.Obj() {
					if c, isC := fs.Val.(*ssa.Const); isC && c.IsNil() {
						continue
					}
					inCtor[fs.Field.Name()] = true
				}
			}
		}
		// fields assigned somewhere else (created later)
		later := map[string]bool{}
		for _, fn := range x.funcs {
			for _, fs := range w.fieldStores(fn) {
				if fs.Owner != nil && fs.Owner.Obj() == named.Obj() && !inCtor[fs.Field.Name()] {
					if c, isC := fs.Val.(*ssa.Const); isC && c.IsNil() {
						continue
					}
					later[fs.Field.Name()] = true
				}
			}
		}
		for i := 0; i < st.NumFields(); i++ {
			f := st.Field(i)
			if !later[f.Name()] {
				continue
			}
			if _, isPtr := f.Type().Underlying().(*types.Pointer); !isPtr {
				continue
			}
			lazy = append(lazy, ci.typ+"."+f.Name())
			for _, fn := range x.funcs {
				for _, b := range fn.Blocks {
					p := x.PolAt(b)
					if p.within(polT) {
						continue
					}
					for _, in := range b.Instrs {
						ld, isLd := in.(*ssa.UnOp)
						if !isLd || ld.Op != token.MUL {
							continue
						}
						fa, isFA := ld.X.(*ssa.FieldAddr)
						if !isFA {
							continue
						}
						on, of := fieldOf(fa.X.Type(), fa.Field)
						if on == nil || of == nil || on.Obj() != named.Obj() || of.Name() != f.Name() {
							continue
						}
						ds := derefsOf(ld)
						if len(ds) == 0 {
							continue
						}
						n++
						key := fmt.Sprintf("%s:%s.%s", w.FName(fn), ci.typ, f.Name())
						if w.nilTestAt(ld, b) == 1 || w.fieldNilTested(fn, fa, ds[0].Block()) {
							r.OK("P-8", key, "dereference of a per-block object behind a nil test of the field", site(w, ds[0]))
						} else {
							r.Violate("P-8", key, fmt.Sprintf("%s.%s is nil until the first block of this process has begun (the constructor does not create it), and it is dereferenced here in context %s: a CheckTx or Query arriving after a restart and before the first BeginBlock panics", ci.typ, f.Name(), p), nil, site(w, ds[0]))
						}
					}
				}
			}
		}
	}
	r.Extra["p8_sites"] = n
	// positive control: the per-block objects of the EVM controller must be found
	sort.Strings(lazy)
	if len(lazy) >= 3 {
		r.OK("P-8", "per-block-objects", fmt.Sprintf("pointer fields created while a block executes and not by start-up: %v; none is dereferenced at a point that can run in a CheckTx or Query context without a nil test", lazy))
	} else {
		r.Undecided("P-8", "per-block-objects", fmt.Sprintf("only %d controller field(s) created after start-up were found %v (the EVM, its state wrapper and the gas pool are expected)", len(lazy), lazy))
	}
}

// fieldNilTested: block b is entered only where some load of the same field was
// found non-nil.
func (w *World) fieldNilTested(fn *ssa.Function, fa *ssa.FieldAddr, b *ssa.BasicBlock) bool {
	want := w.Canon(fa)
	for _, blk := range fn.Blocks {
		ifi, ok := lastInstr(blk).(*ssa.If)
		if !ok {
			continue
		}
		bo, ok := ifi.Cond.(*ssa.BinOp)
		if !ok || (bo.Op != token.NEQ && bo.Op != token.EQL) {
			continue
		}
		var other ssa.Value
		if c, isC := bo.Y.(*ssa.Const); isC && c.IsNil() {
			other = bo.X
		} else if c, isC := bo.X.(*ssa.Const); isC && c.IsNil() {
			other = bo.Y
		}
		if other == nil {
			continue
		}
		ld, isLd := stripConv(other).(*ssa.UnOp)
		if !isLd || ld.Op != token.MUL || w.Canon(ld.X) != want {
			continue
		}
		e := condEdge(ifi, b)
		if e == 0 {
			continue
		}
		if (e == 1) == (bo.Op == token.NEQ) {
			return true
		}
	}
	return false
}

// ---- P-1

func (w *World) alwaysPanics(fn *ssa.Function) bool {
	if fn == nil || fn.Blocks == nil {
		return false
	}
	for _, b := range fn.Blocks {
		if _, ok := lastInstr(b).(*ssa.Return); ok {
			return false
		}
	}
	for _, b := range fn.Blocks {
		if _, ok := lastInstr(b).(*ssa.Panic); ok {
			return true
		}
	}
	return false
}

var reRewardHeightCmp = regexp.MustCompile(`^\(recv\.height (<|<=|==|!=|>=|>) p\d\)$|^\(p\d (<|<=|==|!=|>=|>) recv\.height\)$`)

// rewardHeightPanics: fn is a method of stake.Reward and each of its panics is
// reached only through comparisons of the record's height with a parameter (the
// height-order invariant of Issue / Withdraw / Slash, wherever the test lives).
func (w *World) rewardHeightPanics(fn *ssa.Function) bool {
	if fn.Signature.Recv() == nil {
		return false
	}
	n, _ := deref(fn.Signature.Recv().Type()).(*types.Named)
	if n == nil || n.Obj().Name() != "Reward" || n.Obj().Pkg() == nil || !strings.HasSuffix(n.Obj().Pkg().Path(), "/ctrlers/stake") {
		return false
	}
	found := false
	for _, b := range fn.Blocks {
		if _, ok := lastInstr(b).(*ssa.Panic); !ok {
			continue
		}
		found = true
		nCond := 0
		for _, d := range fn.Blocks {
			ifi, ok := lastInstr(d).(*ssa.If)
			if !ok || condEdge(ifi, b) == 0 {
				continue
			}
			nCond++
			if !reRewardHeightCmp.MatchString(w.Canon(ifi.Cond)) {
				return false
			}
		}
		if nCond == 0 {
			return false
		}
	}
	return found
}

// rewardHeightPanicHelper: fn is an unexported helper that does nothing but panic,
// and every call of it sits in a method of Reward behind nothing but comparisons
// of the record's height with the block height — the same construct as
// rewardHeightPanics with the panic statement moved into a helper.
func (w *World) rewardHeightPanicHelper(fn *ssa.Function) bool {
	if fn.Parent() != nil || (fn.Object() != nil && fn.Object().Exported()) || len(fn.Blocks) != 1 {
		return false
	}
	if _, ok := lastInstr(fn.Blocks[0]).(*ssa.Panic); !ok {
		return false
	}
	cs := w.nodeCallers(fn)
	if len(cs) == 0 {
		return false
	}
	for _, c := range cs {
		caller := c.Caller
		if c.Site == nil || caller.Signature.Recv() == nil {
			return false
		}
		n, _ := deref(caller.Signature.Recv().Type()).(*types.Named)
		if n == nil || n.Obj().Name() != "Reward" || n.Obj().Pkg() == nil || !strings.HasSuffix(n.Obj().Pkg().Path(), "/ctrlers/stake") {
			return false
		}
		nCond := 0
		for _, d := range caller.Blocks {
			ifi, ok := lastInstr(d).(*ssa.If)
			if !ok || condEdge(ifi, c.Site.Block()) == 0 {
				continue
			}
			nCond++
			if !reRewardHeightCmp.MatchString(w.Canon(ifi.Cond)) {
				return false
			}
		}
		if nCond == 0 {
			return false
		}
	}
	return true
}

// failStopHelper: fn is an unexported helper reached only from RigoApp.BeginBlock /
// EndBlock (or their function literals), and each of its panics raises an error
// value it received as a parameter — the block handlers' deliberate fail-stop,
// written as a helper. Returns the handler it belongs to.
func (w *World) failStopHelper(fn *ssa.Function) (string, bool) {
	if fn.Parent() != nil || (fn.Object() != nil && fn.Object().Exported()) {
		return "", false
	}
	for _, b := range fn.Blocks {
		p, ok := lastInstr(b).(*ssa.Panic)
		if !ok {
			continue
		}
		v := stripConv(p.X)
		if mi, isMI := v.(*ssa.MakeInterface); isMI {
			v = stripConv(mi.X)
		}
		if pr, isParam := v.(*ssa.Parameter); isParam && isErrorType(pr.Type()) {
			continue
		}
		// ... or the error a controller's block handler returned to this helper
		if ex, isEx := v.(*ssa.Extract); isEx && isErrorType(ex.Type()) {
			if call, isCall := ex.Tuple.(*ssa.Call); isCall {
				if nm := callName(call.Common()); nm == "EndBlock" || nm == "BeginBlock" {
					continue
				}
			}
		}
		return "", false
	}
	allowed := map[string]string{"node.(*RigoApp).BeginBlock": "", "node.(*RigoApp).EndBlock": ""}
	via, ok := w.onlyReachedFrom(fn, allowed, 0, map[*ssa.Function]bool{})
	if !ok || strings.Contains(via, ",") {
		return "", false
	}
	return via, true
}

func p1(w *World, r *Report, reach *Reach, scope []*ssa.Function) {
	for _, fn := range scope {
		name := w.FName(fn)
		nPanic := 0
		var sites []string
		for _, b := range fn.Blocks {
			if p, ok := lastInstr(b).(*ssa.Panic); ok {
				nPanic++
				sites = append(sites, site(w, p))
			}
		}
		if nPanic > 0 {
			key := name + ":panic"
			// a function literal belongs to the function that contains it (a fail-stop
			// written as a local helper closure is the same construct)
			outer := fn
			for outer.Parent() != nil {
				outer = outer.Parent()
			}
			if why, ok := c09PanicExceptions[w.FName(outer)+":panic"]; ok {
				if outer != fn {
					key = w.FName(outer) + ":panic"
				}
				r.OK("P-1", key, "explicit panic excepted: "+why, sites...)
			} else if via, ok := w.failStopHelper(fn); ok {
				// a helper that only the block handlers' fail-stop uses, panicking with the error it was handed
				r.OK("P-1", via+":panic", "explicit panic excepted: "+c09PanicExceptions[via+":panic"], sites...)
			} else if w.rewardHeightPanics(fn) || w.rewardHeightPanicHelper(fn) {
				// keyed by what is tested, not by where: the reward record's height against the block height
				r.OK("P-1", key, "explicit panic excepted: "+c09PanicExceptions["stake.(*Reward).Withdraw:panic"], sites...)
			} else {
				r.Violate("P-1", key, "explicit panic reachable from the request and block handlers", map[string]interface{}{"path": reach.Path(fn)}, sites...)
			}
		}
		for _, c := range CallsIn(fn) {
			cal := c.Common().StaticCallee()
			if cal == nil {
				continue
			}
			cn := cal.Name()
			if strings.HasPrefix(cn, "Must") && !w.InModule(cal) {
				// constant argument cannot fail at run time differently per input
				allConst := true
				for _, a := range c.Common().Args {
					if !isConst(a) {
						allConst = false
					}
				}
				key := name + ":must:" + cn
				if allConst {
					r.OK("P-1", key, "Must* helper with constant arguments", site(w, c))
				} else if why, ok := c09PanicExceptions[key]; ok {
					r.OK("P-1", key, "Must* helper excepted: "+why, site(w, c))
				} else if cn == "MustFromBig" && len(c.Common().Args) == 1 && strings.Contains(w.Canon(c.Common().Args[0]), ".StateDB.GetBalance(") {
					// keyed by what is converted, not by where: a balance read from go-ethereum's state
					r.OK("P-1", key, "Must* helper excepted: "+c09PanicExceptions["evm.(*StateDBWrapper).Finish:must:MustFromBig"], site(w, c))
				} else {
					r.Violate("P-1", key, "panicking helper "+cn+" applied to a non-constant value on an input path", map[string]interface{}{"path": reach.Path(fn)}, site(w, c))
				}
			}
		}
	}
}

// ---- P-2 : tx-type dataflow

var reTxType = regexp.MustCompile(`^\((.+)\.Tx\.(?:GetType\(\)|Type) == (-?\d+)\)$`)
var reTxTypeSwap = regexp.MustCompile(`^\((-?\d+) == (.+)\.Tx\.(?:GetType\(\)|Type)\)$`)

type tyset map[int64]bool // tx type constants; key 0 = "any other value"

func universe() tyset {
	u := tyset{0: true}
	for i := int64(1); i <= 8; i++ {
		u[i] = true
	}
	return u
}
func (a tyset) clone() tyset {
	b := tyset{}
	for k := range a {
		b[k] = true
	}
	return b
}
func (a tyset) union(b tyset) bool {
	ch := false
	for k := range b {
		if !a[k] {
			a[k] = true
			ch = true
		}
	}
	return ch
}
func (a tyset) String() string {
	var ks []int
	for k := range a {
		ks = append(ks, int(k))
	}
	sort.Ints(ks)
	return fmt.Sprint(ks)
}

// constFlow is a forward dataflow of "set of possible constants" for one
// tested expression. match(cond) reports (k, true) when cond canonicalises to
// `<expr> == k`. It returns the set on entry to every block and on every edge.
type constFlow struct {
	in   map[*ssa.BasicBlock]tyset
	edge map[*ssa.BasicBlock][]tyset
}

func (w *World) constFlowOf(fn *ssa.Function, entry tyset, match func(c string) (int64, bool)) *constFlow {
	cf := &constFlow{in: map[*ssa.BasicBlock]tyset{}, edge: map[*ssa.BasicBlock][]tyset{}}
	if len(fn.Blocks) == 0 {
		return cf
	}
	cf.in[fn.Blocks[0]] = entry.clone()
	work := []*ssa.BasicBlock{fn.Blocks[0]}
	for len(work) > 0 {
		b := work[0]
		work = work[1:]
		cur := cf.in[b]
		outs := make([]tyset, len(b.Succs))
		for i := range outs {
			outs[i] = cur
		}
		if ifi, ok := lastInstr(b).(*ssa.If); ok && len(b.Succs) == 2 {
			c := w.Canon(ifi.Cond)
			neg := false
			for strings.HasPrefix(c, "!") {
				neg = !neg
				c = c[1:]
			}
			isNeq := false
			k, matched := match(c)
			if !matched && strings.Contains(c, " != ") {
				if k2, ok := match(strings.Replace(c, " != ", " == ", 1)); ok {
					k, matched, isNeq = k2, true, true
				}
			}
			if matched {
				eq := tyset{}
				if cur[k] {
					eq[k] = true
				}
				ne := cur.clone()
				delete(ne, k)
				t, f := eq, ne
				if neg != isNeq {
					t, f = ne, eq
				}
				outs[0], outs[1] = t, f
			}
		}
		cf.edge[b] = outs
		for i, s := range b.Succs {
			if cf.in[s] == nil {
				cf.in[s] = tyset{}
				cf.in[s].union(outs[i])
				work = append(work, s)
			} else if cf.in[s].union(outs[i]) {
				work = append(work, s)
			}
		}
	}
	return cf
}

// onEdge returns the set flowing along pred -> blk.
func (cf *constFlow) onEdge(pred, blk *ssa.BasicBlock) tyset {
	out := tyset{}
	for i, s := range pred.Succs {
		if s == blk && i < len(cf.edge[pred]) {
			out.union(cf.edge[pred][i])
		}
	}
	return out
}

func matchTxType(c string) (int64, bool) {
	var k int64
	if m := reTxType.FindStringSubmatch(c); m != nil {
		fmt.Sscan(m[2], &k)
		return k, true
	}
	if m := reTxTypeSwap.FindStringSubmatch(c); m != nil {
		fmt.Sscan(m[1], &k)
		return k, true
	}
	return 0, false
}

// txTypeFlow computes, per block of fn, the set of possible tx types given
// the set at entry.
func (w *World) txTypeFlow(fn *ssa.Function, entry tyset) map[*ssa.BasicBlock]tyset {
	return w.constFlowOf(fn, entry, matchTxType).in
}

// payloadTable extracts from Trx.fromProto the payload type allocated per tx
// type constant ("" = no payload, "!rejected" = fromProto fails). fromProto is
// evaluated once per tx type on its CFG (helpers expanded, values resolved
// along the path), so the table does not depend on how the switch is written.
func (w *World) payloadTable(r *Report) map[int64]string {
	if w.payloadTab != nil {
		return w.payloadTab
	}
	fn := needFn(r, "P-2", w, fref{"ctrlers/types", "Trx", "fromProto"})
	if fn == nil {
		return nil
	}
	table := w.payloadTableOf(fn, regexp.MustCompile(`^\(p0\.Type == (-?\d+)\)$`))
	if table == nil {
		r.Undecided("P-2", "fromProto:payload-store", "Trx.fromProto no longer stores tx.Payload")
		return nil
	}
	w.payloadTab = table
	return table
}

// payloadTableOf: tx type -> the payload type that fn stores in Trx.Payload on its
// successful paths, evaluated per type constant (helpers and factories resolved
// on the path); facts hold in addition (e.g. "the wire payload is not empty").
func (w *World) payloadTableOf(fn *ssa.Function, re *regexp.Regexp, facts ...atom) map[int64]string {
	table := map[int64]string{}
	stores := 0
	for _, k := range []int64{1, 2, 3, 4, 5, 6, 7, 8, 0} {
		kk := k
		if kk == 0 {
			kk = 9999 // any other value
		}
		base := func(c ssa.Value) (bool, bool) {
			if m := re.FindStringSubmatch(w.Canon(c)); m != nil {
				var x int64
				fmt.Sscan(m[1], &x)
				return x == kk, true
			}
			return false, false
		}
		eval := base
		if len(facts) > 0 {
			eval = w.newFactEval(base, facts...).eval
		}
		event := func(in ssa.Instruction) string {
			st, ok := in.(*ssa.Store)
			if !ok {
				return ""
			}
			fa, ok := st.Addr.(*ssa.FieldAddr)
			if !ok || fieldName(fa.X.Type(), fa.Field) != "Payload" {
				return ""
			}
			if n, _ := fieldOf(fa.X.Type(), fa.Field); n == nil || n.Obj().Name() != "Trx" {
				return ""
			}
			switch x := w.ResolveOnPath(st.Val).(type) {
			case *ssa.MakeInterface:
				return "payload=" + typeStr(x.X.Type())
			case *ssa.Const:
				if x.IsNil() {
					return "payload="
				}
			}
			return "payload=?" + w.Canon(st.Val)
		}
		e := &enumerator{w: w, eval: eval, event: event, max: 400, complete: true, evCache: map[ssa.Instruction]string{}, hasEv: map[*ssa.Function]int{}, pathSensitiveEvents: true}
		got := map[string]bool{}
		okPaths := 0
		// only successful paths of fn are read: what a helper hands back with an error is not stored by them
		w.successReturnsOnly = true
		defer func() { w.successReturnsOnly = false }()
		e.walkFn(fn, nil, 0, func(ev []string, ret *ssa.Return, term string) {
			if ret == nil || w.errState(ret) == triNonNil {
				return
			}
			okPaths++
			for _, x := range ev {
				got[x] = true
			}
		})
		w.cur = nil
		switch {
		case !e.complete:
			table[k] = "?incomplete"
		case okPaths == 0:
			table[k] = "!rejected"
		case len(got) == 1:
			for x := range got {
				table[k] = strings.TrimPrefix(x, "payload=")
				stores++
			}
		case len(got) == 0:
			table[k] = "?no-store"
		default:
			table[k] = "?conflict(" + strings.Join(sortedKeys(got), "|") + ")"
		}
	}
	if stores == 0 {
		return nil
	}
	return table
}

// p2Callers: the call sites of f, looking through method-expression thunks
// (`(*T).m` stored in a table and called as a function value).
func p2Callers(w *World, f *ssa.Function) []CallerSite {
	var out []CallerSite
	for _, cs := range w.Callers(f) {
		if cs.Caller != nil && thunkTarget(cs.Caller) == f {
			out = append(out, w.Callers(cs.Caller)...)
			continue
		}
		out = append(out, cs)
	}
	return out
}

// tableTypesFor: when the call at site picks its callee from a literal dispatch
// table keyed by the transaction type, the tx types whose entry is f; nil otherwise.
func (w *World) tableTypesFor(site ssa.CallInstruction, f *ssa.Function) tyset {
	if site.Common().StaticCallee() != nil || site.Common().IsInvoke() {
		return nil
	}
	var lk *ssa.Lookup
	switch y := stripConv(site.Common().Value).(type) {
	case *ssa.Lookup:
		lk = y
	case *ssa.Extract:
		lk, _ = y.Tuple.(*ssa.Lookup)
	}
	if lk == nil {
		return nil
	}
	lm := w.literalMap(stripConv(lk.X))
	if lm == nil {
		return nil
	}
	out := tyset{}
	for _, ent := range lm.Entries {
		k, ok := matchTxType("(" + w.Canon(lk.Index) + " == " + keyString(ent.Key) + ")")
		if !ok {
			return nil
		}
		if cal, _ := w.calleeOfValue(ent.Val); cal == f {
			out[k] = true
		}
	}
	return out
}

func p2(w *World, r *Report, reach *Reach, scope []*ssa.Function) {
	table := w.payloadTable(r)
	if table == nil {
		return
	}
	r.Extra["p2_payload_table"] = fmt.Sprint(table)
	inScope := map[*ssa.Function]bool{}
	for _, f := range scope {
		inScope[f] = true
	}
	hasCtx := func(fn *ssa.Function) bool {
		for _, p := range fn.Params {
			// the context, or the transaction itself handed to a helper
			if ts := typeStr(p.Type()); strings.HasSuffix(ts, "types.TrxContext") || strings.HasSuffix(ts, "types.Trx") {
				return true
			}
		}
		return false
	}
	// interprocedural entry sets
	entry := map[*ssa.Function]tyset{}
	for _, f := range scope {
		if !hasCtx(f) {
			continue
		}
		isRoot := true
		for _, cs := range p2Callers(w, f) {
			if inScope[cs.Caller] && hasCtx(cs.Caller) {
				isRoot = false
			}
		}
		if isRoot {
			entry[f] = universe()
		} else {
			entry[f] = tyset{}
		}
	}
	flows := map[*ssa.Function]map[*ssa.BasicBlock]tyset{}
	for iter := 0; iter < 20; iter++ {
		changed := false
		for _, f := range scope {
			if _, ok := entry[f]; !ok {
				continue
			}
			flows[f] = w.txTypeFlow(f, entry[f])
		}
		for _, f := range scope {
			if _, ok := entry[f]; !ok {
				continue
			}
			for _, cs := range p2Callers(w, f) {
				if cs.Site == nil || !inScope[cs.Caller] {
					continue
				}
				fl, ok := flows[cs.Caller]
				if !ok {
					continue
				}
				if s := fl[cs.Site.Block()]; s != nil {
					// a handler picked from a dispatch table keyed by the tx type runs only
					// for the types that map to it
					if only := w.tableTypesFor(cs.Site, f); only != nil {
						s2 := tyset{}
						for k := range s {
							if only[k] {
								s2[k] = true
							}
						}
						s = s2
					}
					if entry[f].union(s) {
						changed = true
					}
				}
			}
		}
		if !changed {
			break
		}
	}
	for _, fn := range scope {
		for _, b := range fn.Blocks {
			for _, in := range b.Instrs {
				ta, ok := in.(*ssa.TypeAssert)
				if !ok || ta.CommaOk {
					continue
				}
				c := w.Canon(ta.X)
				if _, isIface := ta.AssertedType.Underlying().(*types.Interface); isIface && types.AssignableTo(ta.X.Type(), ta.AssertedType) {
					// go/ssa's nil check for an interface method value (`l.Get` with l an
					// interface): panics only when the field itself is nil, not on input
					continue
				}
				if !strings.HasSuffix(c, ".Payload") {
					// other single-value assertions on an input path
					key := w.FName(fn) + ":assert:" + c + ".(" + typeStr(ta.AssertedType) + ")"
					if isErrorType(ta.X.Type()) || strings.Contains(typeStr(ta.AssertedType), "rigoLocalClient") {
						continue
					}
					r.Violate("P-2", key, "type assertion without comma-ok on an input path", map[string]interface{}{"path": reach.Path(fn)}, site(w, in))
					continue
				}
				key := w.FName(fn) + ":assert:" + typeStr(ta.AssertedType)
				fl := flows[fn]
				var S tyset
				if fl != nil {
					S = fl[b]
				}
				if S == nil {
					S = universe()
				}
				want := typeStr(ta.AssertedType)
				var bad []string
				for k := range S {
					got := table[k]
					if got == "!rejected" {
						continue
					}
					if got != want {
						bad = append(bad, fmt.Sprintf("type %d -> %q", k, got))
					}
				}
				sort.Strings(bad)
				if len(bad) == 0 {
					r.OK("P-2", key, fmt.Sprintf("possible tx types here %s all map to %s in Trx.fromProto", S, want), site(w, in))
				} else {
					r.Violate("P-2", key, fmt.Sprintf("payload asserted as %s without comma-ok where tx types %s are possible; fromProto allocates: %s", want, S, strings.Join(bad, ", ")), map[string]interface{}{"path": reach.Path(fn)}, site(w, in))
				}
			}
		}
	}
}

// ---- P-3 : slice / index bounds

// lenOf: is v == len(s) for slice value s (by identity or canonical path)?
func (w *World) isLenOf(v ssa.Value, s ssa.Value) bool {
	// s == make([]T, n): its length is n, however n is written
	if ms, isMake := stripConv(s).(*ssa.MakeSlice); isMake {
		if stripConv(ms.Len) == stripConv(v) {
			return true
		}
		if cv, cl := w.Canon(v), w.Canon(ms.Len); cv == cl && !strings.Contains(cv, "…") && !strings.HasPrefix(cv, "?") {
			if _, isConst := ms.Len.(*ssa.Const); !isConst {
				return true
			}
		}
	}
	c, ok := v.(*ssa.Call)
	if !ok {
		return false
	}
	b, ok := c.Common().Value.(*ssa.Builtin)
	if !ok || (b.Name() != "len" && b.Name() != "cap") || len(c.Common().Args) != 1 {
		return false
	}
	a := c.Common().Args[0]
	return sameSlice(w, a, s)
}

func sameSlice(w *World, a, s ssa.Value) bool {
	if stripConv(a) == stripConv(s) {
		return true
	}
	ca, cs := w.Canon(a), w.Canon(s)
	return ca == cs && !strings.Contains(ca, "…") && !strings.HasPrefix(ca, "?")
}

func constInt(v ssa.Value) (int64, bool) {
	c, ok := v.(*ssa.Const)
	if !ok || c.Value == nil || c.Value.Kind() != constant.Int {
		return 0, false
	}
	return c.Int64(), true
}

// provenLE: is v <= len(s) (strict: v < len(s)) known at block `at`?
func (w *World) provenLE(v ssa.Value, s ssa.Value, at *ssa.BasicBlock, strict bool, depth int) bool {
	if depth > 4 {
		return false
	}
	if cv, ok := v.(*ssa.Convert); ok {
		v = cv.X
	}
	if !strict && w.isLenOf(v, s) {
		return true
	}
	// len(s)-1 style
	if bo, ok := v.(*ssa.BinOp); ok && bo.Op == token.SUB {
		if k, ok := constInt(bo.Y); ok && k >= 1 && w.isLenOf(bo.X, s) {
			return true // len-1 < len ; may be -1 when empty: lower bound handled by caller
		}
		// x-k < len  <=  x <= len   (k >= 1)
		if k, ok := constInt(bo.Y); ok && k >= 1 && w.provenLE(bo.X, s, at, false, depth+1) {
			return true
		}
	}
	// x+1 <= len  <=  x < len
	if bo, ok := v.(*ssa.BinOp); ok && bo.Op == token.ADD && !strict {
		if k, ok := constInt(bo.Y); ok && k == 1 && w.provenLE(bo.X, s, at, true, depth+1) {
			return true
		}
	}
	// MIN(len(s), x)
	if c, ok := v.(*ssa.Call); ok {
		if f := c.Common().StaticCallee(); f != nil && strings.EqualFold(f.Name(), "min") {
			for _, a := range c.Common().Args {
				if w.isLenOf(a, s) && !strict {
					return true
				}
			}
		}
	}
	// dominating conditions on v itself (a loop index is a phi tested by the loop condition)
	fn := at.Parent()
	kv, vConst := constInt(v)
	for _, b := range fn.Blocks {
		ifi, ok := lastInstr(b).(*ssa.If)
		if !ok {
			continue
		}
		e := condEdge(ifi, at)
		if e == 0 {
			continue
		}
		if w.condImpliesLE(ifi.Cond, e == 1, v, vConst, kv, s, strict) {
			return true
		}
	}
	// a negative constant is below every length; 0 is at most every length
	if vConst && (kv < 0 || (kv == 0 && !strict)) {
		return true
	}
	if ph, ok := v.(*ssa.Phi); ok {
		// every leaf of the phi web must be bounded; a phi met again while it is
		// being proven contributes no new leaf
		if provenPhiBusy[ph] {
			return true
		}
		provenPhiBusy[ph] = true
		defer delete(provenPhiBusy, ph)
		for i, e := range ph.Edges {
			if e == v {
				continue
			}
			pred := ph.Block().Preds[i]
			if !w.provenLEEdge(e, s, pred, ph.Block(), strict, depth+1) {
				return false
			}
		}
		return true
	}
	return false
}

var provenPhiBusy = map[*ssa.Phi]bool{}

// provenLEEdge: like provenLE but for the value flowing along edge pred->blk.
func (w *World) provenLEEdge(v ssa.Value, s ssa.Value, pred, blk *ssa.BasicBlock, strict bool, depth int) bool {
	if w.provenLE(v, s, pred, strict, depth) {
		return true
	}
	// the edge itself may carry the condition
	if ifi, ok := lastInstr(pred).(*ssa.If); ok && len(pred.Succs) == 2 && pred.Succs[0] != pred.Succs[1] {
		kv, vConst := constInt(v)
		onTrue := pred.Succs[0] == blk
		if w.condImpliesLE(ifi.Cond, onTrue, v, vConst, kv, s, strict) {
			return true
		}
	}
	return false
}

// condImpliesLE: does cond (taken with polarity pol) imply v <= len(s) (or < when strict)?
func (w *World) condImpliesLE(cond ssa.Value, pol bool, v ssa.Value, vConst bool, kv int64, s ssa.Value, strict bool) bool {
	for {
		if u, ok := cond.(*ssa.UnOp); ok && u.Op == token.NOT {
			cond = u.X
			pol = !pol
			continue
		}
		break
	}
	bo, ok := cond.(*ssa.BinOp)
	if !ok {
		return false
	}
	op := bo.Op
	x, y := bo.X, bo.Y
	if cv, ok := x.(*ssa.Convert); ok {
		x = cv.X
	}
	if cv, ok := y.(*ssa.Convert); ok {
		y = cv.X
	}
	// normalise to  len(s) OP other
	var other ssa.Value
	// a value that is at most len(s) — MIN(len(s), n) — serves as well: every fact used
	// below is a lower bound on the length
	atMostLen := func(b ssa.Value) bool {
		if w.isLenOf(b, s) {
			return true
		}
		if c, ok := stripConv(b).(*ssa.Call); ok {
			if f := c.Common().StaticCallee(); f != nil && strings.EqualFold(f.Name(), "min") {
				for _, a := range c.Common().Args {
					if w.isLenOf(a, s) {
						return true
					}
				}
			}
		}
		return false
	}
	if atMostLen(x) {
		other = y
	} else if atMostLen(y) {
		other = x
		if f, ok := flipOp[op]; ok {
			op = f
		} else {
			return false
		}
	} else {
		return false
	}
	if !pol {
		n, ok := negOp[op]
		if !ok {
			return false
		}
		op = n
	}
	// now fact: len(s) op other
	if vConst {
		ko, ok := constInt(other)
		if !ok {
			return false
		}
		// need len >= kv (or > kv when strict)
		need := kv
		if strict {
			need = kv + 1
		}
		switch op {
		case token.GEQ:
			return ko >= need
		case token.GTR:
			return ko+1 >= need
		case token.EQL:
			return ko >= need
		}
		return false
	}
	if stripConv(other) != stripConv(v) && !(w.Canon(other) == w.Canon(v)) {
		return false
	}
	switch op {
	case token.GTR:
		return true
	case token.GEQ, token.EQL:
		return !strict
	}
	return false
}

func isSliceType(t types.Type) bool {
	switch t.Underlying().(type) {
	case *types.Slice:
		return true
	case *types.Basic:
		return t.Underlying().(*types.Basic).Info()&types.IsString != 0
	}
	return false
}

func p3(w *World, r *Report, reach *Reach, scope []*ssa.Function) {
	// exceptions with a side condition that is itself checked
	// under "the choice is negative" / "the choice is not below the number of options"
	// the validation of a voting transaction has no successful path (C15 Gv-2)
	choiceMemo := 0
	choiceGuard := func() bool {
		if choiceMemo != 0 {
			return choiceMemo == 1
		}
		choiceMemo = 2
		fn := w.Method("ctrlers/gov", "GovCtrler", "ValidateTrx")
		if fn == nil {
			return false
		}
		base := w.evalTxCond(txAbs{typ: 5})
		lo, _ := w.failsUnder(fn, base, AR(`TrxPayloadVoting\)#0\.Choice$`, "<", `^0$`))
		hi, _ := w.failsUnder(fn, base, AR(`TrxPayloadVoting\)#0\.Choice$`, ">=", `^int32\(len\(.*\.Options\)\)$`))
		if lo && hi {
			choiceMemo = 1
		}
		return lo && hi
	}
	exceptions := map[string]condEx{
		"proposal.(*GovProposal).doVote:index:recv.Options[p1]":            {"the choice is validated against len(Options) by GovCtrler.ValidateTrx before execVoting (guards `Choice < 0` and `Choice >= len(prop.Options)` present), and DoPunish re-casts a stored, already validated choice", choiceGuard},
		"proposal.(*GovProposal).cancelVote:index:recv.Options[p0.Choice]": {"a stored choice was validated when the vote was cast (same guards) and the option list never shrinks", choiceGuard},
		"proposal.(*GovProposal).updateMajorOption:index:recv.Options[0]": {"proposals are created only after GovCtrler.ValidateTrx rejected an empty option list, the stored option list is only ever built by NewVoteOptions, and NewVoteOptions keeps one stored option per submitted option", func() bool {
			fn := w.Method("ctrlers/gov", "GovCtrler", "ValidateTrx")
			if fn == nil {
				return false
			}
			guard := false
			for _, g := range w.GuardsDeep(fn, 2) {
				if strings.Contains(g.Cond, "len(") && strings.Contains(g.Cond, ".Options) == 0") {
					guard = true
				}
			}
			if !guard {
				return false
			}
			// every store to the stored option list takes the result of NewVoteOptions
			nStores := 0
			for _, f := range w.ModuleFuncs() {
				for _, fs := range w.fieldStores(f) {
					if fs.Field.Name() != "Options" || fs.Owner == nil || !strings.HasSuffix(fs.Owner.Obj().Pkg().Path(), "/gov/proposal") {
						continue
					}
					nStores++
					c, isCall := stripConv(fs.Val).(*ssa.Call)
					if !isCall || c.Common().StaticCallee() == nil || c.Common().StaticCallee().Name() != "NewVoteOptions" {
						return false
					}
				}
			}
			nv := w.Func("ctrlers/gov/proposal", "NewVoteOptions")
			return nStores >= 1 && nv != nil && w.keepsOnePerElement(nv)
		}},
	}
	for _, fn := range scope {
		name := w.FName(fn)
		for _, b := range fn.Blocks {
			for _, in := range b.Instrs {
				switch x := in.(type) {
				case *ssa.Slice:
					if !isSliceType(x.X.Type()) {
						continue // pointer to array: bounds are static or checked at compile time for constants
					}
					key := name + ":slice:" + w.Canon(x)
					okHi := x.High == nil || w.provenLE(x.High, x.X, b, false, 0)
					okLo := true
					if x.Low != nil {
						if k, isC := constInt(x.Low); isC && k == 0 {
							okLo = true
						} else if x.High == nil {
							okLo = w.provenLE(x.Low, x.X, b, false, 0)
						} else {
							kl, cl := constInt(x.Low)
							kh, ch := constInt(x.High)
							if cl && ch {
								okLo = kl <= kh
							} else {
								// low <= high: accept i / i+1 idioms proven through high's bound
								okLo = w.lowLEHigh(x.Low, x.High, b)
							}
						}
					}
					w.recordBound(r, "P-3", key, okHi && okLo, exceptionsLookup(exceptions, key), reach, fn, in)
				case *ssa.IndexAddr:
					if !isSliceType(x.X.Type()) {
						continue
					}
					key := name + ":index:" + w.Canon(x)
					ok := w.provenLE(x.Index, x.X, b, true, 0)
					w.recordBound(r, "P-3", key, ok, exceptionsLookup(exceptions, key), reach, fn, in)
				case *ssa.Lookup:
					if bt, ok := x.X.Type().Underlying().(*types.Basic); ok && bt.Info()&types.IsString != 0 {
						key := name + ":index:" + w.Canon(x)
						ok := w.provenLE(x.Index, x.X, b, true, 0)
						w.recordBound(r, "P-3", key, ok, exceptionsLookup(exceptions, key), reach, fn, in)
					}
				}
			}
		}
	}
}

// keepsOnePerElement: fn builds its slice result from its slice parameter with
// exactly one append per element: every iteration of the loop over the parameter
// passes an append on the way back to the loop header, and the returned value is
// that accumulator.
func (w *World) keepsOnePerElement(fn *ssa.Function) bool {
	if fn == nil || fn.Blocks == nil || len(fn.Params) != 1 {
		return false
	}
	p := fn.Params[0]
	if p.Referrers() == nil {
		return false
	}
	isAppend := func(in ssa.Instruction) bool {
		// result[i] = … into a result made with len(p)
		if st, isSt := in.(*ssa.Store); isSt {
			if ia, isIA := st.Addr.(*ssa.IndexAddr); isIA {
				if ms, isMS := stripConv(ia.X).(*ssa.MakeSlice); isMS && w.isLenOf(ms.Len, p) {
					return true
				}
			}
			return false
		}
		c, ok := in.(*ssa.Call)
		if !ok {
			return false
		}
		b, ok := c.Common().Value.(*ssa.Builtin)
		return ok && b.Name() == "append"
	}
	nLoops := 0
	var appends []ssa.Value
	for _, ref := range *p.Referrers() {
		ia, ok := ref.(*ssa.IndexAddr)
		if !ok || ia.X != p {
			if _, isLen := ref.(*ssa.Call); isLen {
				continue // len(p)
			}
			if _, isDbg := ref.(*ssa.DebugRef); isDbg {
				continue
			}
			return false
		}
		hdr := loopHeaderOf(ia.Block())
		if hdr == nil {
			return false
		}
		nLoops++
		seen := map[*ssa.BasicBlock]bool{}
		escaped := false
		var walk func(b *ssa.BasicBlock, i int)
		walk = func(b *ssa.BasicBlock, i int) {
			for ; i < len(b.Instrs); i++ {
				if isAppend(b.Instrs[i]) {
					if c, isC := b.Instrs[i].(*ssa.Call); isC {
						appends = append(appends, c)
					} else if st, isSt := b.Instrs[i].(*ssa.Store); isSt {
						appends = append(appends, stripConv(st.Addr.(*ssa.IndexAddr).X))
					}
					return
				}
			}
			for _, s := range b.Succs {
				if s == hdr {
					escaped = true
					return
				}
				if !seen[s] {
					seen[s] = true
					walk(s, 0)
				}
			}
		}
		pos := posOf(ia)
		walk(pos.b, pos.i+1)
		if escaped {
			return false
		}
	}
	if nLoops != 1 || len(appends) == 0 {
		return false
	}
	// the returned value is the accumulator the appends feed
	for _, b := range fn.Blocks {
		ret, ok := lastInstr(b).(*ssa.Return)
		if !ok || len(ret.Results) != 1 {
			continue
		}
		if c, isC := ret.Results[0].(*ssa.Const); isC && c.IsNil() {
			// an early `return nil` is the empty list for empty input only
			if w.condCanonHolds(b, "(len(p0) == 0)", 1) {
				continue
			}
			return false
		}
		reach := map[ssa.Value]bool{}
		var visit func(v ssa.Value)
		visit = func(v ssa.Value) {
			if reach[v] {
				return
			}
			reach[v] = true
			if ph, ok := v.(*ssa.Phi); ok {
				for _, e := range ph.Edges {
					visit(e)
				}
			}
		}
		visit(ret.Results[0])
		for _, a := range appends {
			if !reach[a] && !reach[stripConv(a)] {
				return false
			}
		}
	}
	return true
}

type condEx struct {
	why  string
	cond func() bool
}

type condExLite struct {
	why string
	ok  bool
	has bool
}

func exceptionsLookup(m map[string]condEx, key string) condExLite {
	if e, ok := m[key]; ok {
		return condExLite{e.why, e.cond(), true}
	}
	return condExLite{}
}

func (w *World) lowLEHigh(lo, hi ssa.Value, at *ssa.BasicBlock) bool {
	// hi == lo + k
	if bo, ok := hi.(*ssa.BinOp); ok && bo.Op == token.ADD {
		if k, ok := constInt(bo.Y); ok && k >= 0 && stripConv(bo.X) == stripConv(lo) {
			return true
		}
	}
	return stripConv(lo) == stripConv(hi)
}

func (w *World) recordBound(r *Report, rule, key string, proven bool, ex condExLite, reach *Reach, fn *ssa.Function, in ssa.Instruction) {
	switch {
	case proven:
		r.OK(rule, key, "bound proven by a dominating length guard / clamp idiom", site(w, in))
	case ex.has && ex.ok:
		r.OK(rule, key, "excepted with checked side condition: "+ex.why, site(w, in))
	case ex.has && !ex.ok:
		r.Violate(rule, key, "the guard this exception relies on is gone: "+ex.why, map[string]interface{}{"path": reach.Path(fn)}, site(w, in))
	default:
		r.Violate(rule, key, "slice/index expression without a dominating bound on an input path", map[string]interface{}{"path": reach.Path(fn)}, site(w, in))
	}
}

// ---- P-4 : nil results

// mayReturnNil: does module function fn have a return whose result #idx is the nil constant?
func (w *World) mayReturnNil(fn *ssa.Function, idx int, seen map[*ssa.Function]bool) bool {
	if fn == nil || fn.Blocks == nil || seen[fn] {
		return false
	}
	seen[fn] = true
	for _, b := range fn.Blocks {
		ret, ok := lastInstr(b).(*ssa.Return)
		if !ok || idx >= len(ret.Results) {
			continue
		}
		if w.valueMayBeNil(retResult(ret, idx), ret.Block(), seen, 0) {
			return true
		}
	}
	return false
}

func (w *World) valueMayBeNil(v ssa.Value, at *ssa.BasicBlock, seen map[*ssa.Function]bool, d int) bool {
	if d > 5 {
		return false
	}
	if at != nil && w.nilTestAt(v, at) == 1 {
		return false
	}
	switch x := stripConv(v).(type) {
	case *ssa.Const:
		return x.IsNil()
	case *ssa.Phi:
		for i, e := range x.Edges {
			if e == v {
				continue
			}
			// the edge itself may be the non-nil outcome of a test of e at the end of the
			// predecessor (`if x == nil { x = new }` merges x on the edge where x != nil)
			if nonNilOnEdge(e, x.Block().Preds[i], x.Block()) {
				continue
			}
			if w.valueMayBeNil(e, x.Block().Preds[i], seen, d+1) {
				return true
			}
		}
	case *ssa.Call:
		// a wrapper returning its callee's result
		for _, cal := range w.Callees(x) {
			if w.InModule(cal) && w.mayReturnNil(cal, 0, seen) {
				return true
			}
		}
	case *ssa.Extract:
		if c, ok := x.Tuple.(*ssa.Call); ok {
			for _, cal := range w.Callees(c) {
				if w.InModule(cal) && cal.Blocks != nil {
					if w.mayReturnNil(cal, x.Index, seen) {
						return true
					}
				} else if !w.InModule(cal) {
					continue
				}
			}
			// generic ledger getters return the zero T (nil) together with an error
		}
	case *ssa.Alloc:
		// `var emptyNil T` of pointer/interface type
		return false
	}
	return false
}

// derefs lists the instructions that dereference pointer value v.
func derefsOf(v ssa.Value) []ssa.Instruction {
	var out []ssa.Instruction
	if v.Referrers() == nil {
		return nil
	}
	for _, ref := range *v.Referrers() {
		switch x := ref.(type) {
		case *ssa.FieldAddr:
			if x.X == v {
				out = append(out, x)
			}
		case *ssa.UnOp:
			if x.Op == token.MUL && x.X == v {
				out = append(out, x)
			}
		case *ssa.IndexAddr:
			if x.X == v {
				out = append(out, x)
			}
		case ssa.CallInstruction:
			c := x.Common()
			if !c.IsInvoke() {
				if f := c.StaticCallee(); f != nil && f.Signature.Recv() != nil && len(c.Args) > 0 && c.Args[0] == v {
					if _, isPtr := f.Signature.Recv().Type().(*types.Pointer); isPtr {
						out = append(out, x)
					}
				}
			}
		case *ssa.Phi:
			// flows on; handled by the caller through phi chasing
		}
	}
	return out
}

// keyed by function + callee (independent of how the arguments are written)
var c09NilExceptions = map[string]string{
	"gov.(*GovCtrler).doPunish:deref:GetFinality":   "keys were collected from the same committed tree in the loop just above (IterateReadAllFinalityItems) and nothing deletes proposals in between",
	"evm.(*EVMCtrler).ExecuteTrx:deref:FindAccount": "the created contract address was added to the access list by the EVM's create (Berlin rules are active from block 0), so StateDBWrapper.Finish has just created/marked that account in the same overlay",
}

// nilException: the listed exceptions, and the created-contract lookup wherever
// it is written (keyed by what is looked up: the address the EVM has just created).
func (w *World) nilException(exKey string, call *ssa.Call) (string, bool) {
	if why, ok := c09NilExceptions[exKey]; ok {
		return why, true
	}
	if callName(call.Common()) == "FindAccount" && call.Parent() != nil && strings.HasSuffix(w.FuncPkgPath(call.Parent()), "/ctrlers/vm/evm") {
		_, a := callRecvArgs(call.Common())
		if call.Common().IsInvoke() {
			a = call.Common().Args
		}
		if len(a) >= 1 && strings.HasPrefix(w.Canon(a[0]), "crypto.CreateAddress(") && strings.Contains(w.Canon(a[0]), ".Tx.From") && strings.Contains(w.Canon(a[0]), ".Tx.Nonce") {
			return c09NilExceptions["evm.(*EVMCtrler).ExecuteTrx:deref:FindAccount"], true
		}
	}
	return "", false
}

func p4(w *World, r *Report, reach *Reach, scope []*ssa.Function) {
	for _, fn := range scope {
		name := w.FName(fn)
		for _, c := range CallsIn(fn) {
			call, ok := c.(*ssa.Call)
			if !ok {
				continue
			}
			sig := call.Common().Signature()
			res := sig.Results()
			if res.Len() == 0 {
				continue
			}
			_, isPtr := res.At(0).Type().Underlying().(*types.Pointer)
			if !isPtr {
				continue
			}
			callees := w.Callees(call)
			mod := false
			for _, cal := range callees {
				if w.InModule(cal) {
					mod = true
				}
			}
			if !mod {
				continue
			}
			var val ssa.Value = call
			var errV ssa.Value
			if res.Len() > 1 {
				e0 := extractOf(call, 0)
				if e0 == nil {
					continue
				}
				val = e0
				if isErrorType(res.At(res.Len() - 1).Type()) {
					if ee := extractOf(call, res.Len()-1); ee != nil {
						errV = ee
					}
				}
			}
			may := false
			for _, cal := range callees {
				if w.InModule(cal) && w.mayReturnNil(cal, 0, map[*ssa.Function]bool{}) {
					may = true
				}
			}
			// generic ledger getters: (T, XError) with `var emptyNil T`
			nilWithErr := false
			for _, cal := range callees {
				if w.InModule(cal) && res.Len() > 1 && w.returnsZeroWithErr(cal) {
					nilWithErr = true
				}
			}
			if !may && !nilWithErr {
				continue
			}
			// P-4b: a may-be-nil result parked in a struct field must be nil-guarded
			// before the function can succeed (the field is dereferenced elsewhere)
			if val.Referrers() != nil {
				for _, ref := range *val.Referrers() {
					st, ok := ref.(*ssa.Store)
					if !ok || st.Val != val {
						continue
					}
					fa, ok := st.Addr.(*ssa.FieldAddr)
					if !ok {
						continue
					}
					fkey := name + ":field-nil-guard:" + w.Canon(fa)
					// the callee returns nil only together with an error, and the store is
					// reached only on the edge where that error is nil
					if os.Getenv("RIGOCHECK_DEBUG") == "p4f" {
						var ns []string
						for _, cal := range callees {
							ns = append(ns, w.FName(cal)+fmt.Sprint(w.nilOnlyWithErr([]*ssa.Function{cal})))
						}
						fmt.Fprintln(os.Stderr, "P4F", fkey, "errV", errV != nil, ns)
					}
					if errV != nil && w.nilOnlyWithErr(callees) {
						protected := false
						for _, g := range w.Guards(fn) {
							if bo, isB := g.If.Cond.(*ssa.BinOp); isB && (sameValue(bo.X, errV) || sameValue(bo.Y, errV)) && g.Protects(st.Block()) {
								protected = true
							}
						}
						// or on the nil edge of a plain test of that error (`if err == nil { return &T{V: v}, nil }`)
						if !protected && w.nilTestAt(errV, st.Block()) == -1 {
							protected = true
						}
						if protected {
							r.OK("P-4", fkey, "the value is stored only where the callee's error is nil, and the callee returns nil only together with an error", site(w, st))
							continue
						}
					}
					var guards []*Guard
					for _, g := range w.Guards(fn) {
						bo, ok := g.If.Cond.(*ssa.BinOp)
						if !ok || bo.Op != token.EQL && bo.Op != token.NEQ {
							continue
						}
						isNilC := func(v ssa.Value) bool { c, ok := v.(*ssa.Const); return ok && c.IsNil() }
						var tested ssa.Value
						if isNilC(bo.Y) {
							tested = bo.X
						} else if isNilC(bo.X) {
							tested = bo.Y
						}
						if tested == nil || !strings.HasSuffix(g.Cond, " == nil)") {
							continue
						}
						if sameValue(tested, val) || w.Canon(tested) == w.Canon(fa) {
							guards = append(guards, g)
						}
					}
					bad := ""
					for _, ex := range exitsAvoiding(posOf(st), nil, nil) {
						ret, ok := ex.(*ssa.Return)
						if !ok {
							continue
						}
						if es := w.errState(ret); es == triNonNil {
							continue
						}
						prot := false
						for _, g := range guards {
							if g.Protects(ret.Block()) {
								prot = true
							}
						}
						if !prot {
							bad = site(w, ret)
						}
					}
					if bad == "" {
						r.OK("P-4", fkey, "a nil result stored in the field makes the function fail before any success return", site(w, st))
					} else {
						r.Violate("P-4", fkey, "a may-be-nil result is stored in a field and the function can still succeed (the field is dereferenced by its users)", map[string]interface{}{"path": reach.Path(fn), "success_return": bad}, site(w, st))
					}
				}
			}
			for _, d := range w.derefsThroughPhis(val) {
				blk := d.Block()
				key := name + ":deref:" + w.Canon(val)
				exKey := name + ":deref:" + callName(call.Common())
				if w.phiEdgeSafe(val, errV, d) {
					r.OK("P-4", key, "the result reaches this dereference only along the edge where the error is nil / the value is non-nil (other phi inputs are fresh objects)", site(w, d))
					continue
				}
				// known non-nil by a dominating nil test on the value?
				if w.nilTestAt(val, blk) == 1 || w.phiNilTested(val, d) {
					r.OK("P-4", key, "dereference dominated by a nil test of the result", site(w, d))
					continue
				}
				if errV != nil {
					switch w.nilTestAt(errV, blk) {
					case -1:
						if may && !nilWithErr {
							// error nil does not imply value non-nil for may-return-nil callees… but
							// the module's convention (nil iff error) holds when every nil return carries an error
							if w.nilOnlyWithErr(callees) {
								r.OK("P-4", key, "dereference on the err == nil branch of a callee that returns nil only together with an error", site(w, d))
								continue
							}
						} else {
							r.OK("P-4", key, "dereference on the err == nil branch of a callee that returns nil only together with an error", site(w, d))
							continue
						}
					case 1:
						if why, ok := w.nilException(exKey, call); ok {
							r.OK("P-4", key, "excepted: "+why, site(w, d))
						} else {
							r.Violate("P-4", key, "result dereferenced on the branch where the error is non-nil (callee returns nil with every error)", map[string]interface{}{"path": reach.Path(fn)}, site(w, call), site(w, d))
						}
						continue
					}
				}
				// value and error merged pairwise with those of a sibling call
				// (`if exec { v, err = a() } else { v, err = b() }; if err != nil { return }`)
				if errV != nil && (nilWithErr || w.nilOnlyWithErr(callees)) {
					if q := parallelErrPhi(val, errV); q != nil && w.nilTestAt(q, blk) == -1 {
						r.OK("P-4", key, "dereference on the err == nil branch (value and error are merged pairwise with a sibling call's) of a callee that returns nil only together with an error", site(w, d))
						continue
					}
				}
				// the error is tested through a variable that several steps share
				// (`v, err := get(); if err == nil { err = step(v) }; …; if err != nil { return }`):
				// decided on the paths — no feasible path reaches the dereference with the
				// getter's error non-nil
				if errV != nil && (nilWithErr || w.nilOnlyWithErr(callees)) && w.derefOnlyWhereErrNil(fn, d, errV) {
					r.OK("P-4", key, "every feasible path to this dereference passes a test that found the getter's error nil (the callee returns nil only together with an error)", site(w, d))
					continue
				}
				// the comma-ok convention: the callee hands back nil only together with
				// `false`, and the dereference sits where that flag is known to be true
				if res.Len() > 1 && isBoolType(res.At(res.Len()-1).Type()) {
					if okV := extractOf(call, res.Len()-1); okV != nil && w.nilOnlyWithFalse(callees) && w.boolTestAt(okV, blk) == 1 {
						r.OK("P-4", key, "dereference where the callee's ok flag is true; the callee returns nil only together with false", site(w, d))
						continue
					}
				}
				if why, ok := w.nilException(exKey, call); ok {
					r.OK("P-4", key, "excepted: "+why, site(w, d))
					continue
				}
				r.Violate("P-4", key, "result of a may-return-nil function dereferenced without a dominating nil / error test", map[string]interface{}{"path": reach.Path(fn), "callees": fnNames(w, callees)}, site(w, call), site(w, d))
			}
		}
	}
}

// parallelErrPhi: val flows into a phi whose block also merges errV along the
// same edges; returns that error phi.
func parallelErrPhi(val, errV ssa.Value) ssa.Value {
	if val.Referrers() == nil {
		return nil
	}
	for _, ref := range *val.Referrers() {
		p, ok := ref.(*ssa.Phi)
		if !ok {
			continue
		}
		for _, in := range p.Block().Instrs {
			q, ok := in.(*ssa.Phi)
			if !ok {
				break
			}
			if q == p {
				continue
			}
			match, n := true, 0
			for i, e := range p.Edges {
				if e == val {
					n++
					if q.Edges[i] != errV {
						match = false
					}
				}
			}
			if match && n > 0 {
				return q
			}
		}
	}
	return nil
}

func fnNames(w *World, fs []*ssa.Function) []string {
	var out []string
	for _, f := range fs {
		out = append(out, w.FName(f))
	}
	return out
}

// returnsZeroWithErr: fn returns (T, error) and some return with a non-nil /
// unknown error has result 0 equal to nil or to a load of a never-stored local
// (`var emptyNil T`).
func (w *World) returnsZeroWithErr(fn *ssa.Function) bool {
	if fn.Blocks == nil {
		return false
	}
	for _, b := range fn.Blocks {
		ret, ok := lastInstr(b).(*ssa.Return)
		if !ok || len(ret.Results) < 2 {
			continue
		}
		st := w.errState(ret)
		if st != triNonNil && st != triUnknown {
			continue
		}
		v := stripConv(retResult(ret, 0))
		if c, ok := v.(*ssa.Const); ok && c.IsNil() {
			return true
		}
		if c, ok := v.(*ssa.Const); ok && c.Value == nil {
			return true // zero value of a type parameter
		}
		if u, ok := v.(*ssa.UnOp); ok && u.Op == token.MUL {
			if a, ok := u.X.(*ssa.Alloc); ok && neverStored(a) {
				return true
			}
		}
	}
	return false
}

func neverStored(a *ssa.Alloc) bool {
	if a.Referrers() == nil {
		return true
	}
	for _, ref := range *a.Referrers() {
		if st, ok := ref.(*ssa.Store); ok && st.Addr == a {
			return false
		}
	}
	return true
}

// nilOnlyWithErr: every return of every callee that may yield nil for result 0
// carries a non-nil error (so err == nil implies non-nil).
func (w *World) nilOnlyWithErr(callees []*ssa.Function) bool {
	for _, fn := range callees {
		if !w.InModule(fn) || fn.Blocks == nil {
			continue
		}
		for _, b := range fn.Blocks {
			ret, ok := lastInstr(b).(*ssa.Return)
			if !ok || len(ret.Results) < 2 {
				continue
			}
			if w.valueMayBeNil(retResult(ret, 0), ret.Block(), map[*ssa.Function]bool{fn: true}, 0) {
				// the value of an inner call handed on where that call's error was found nil is
				// as good as the inner callee (`if item, err := l.read(k); err != nil {…} else { return item, nil }`)
				if ex, isE := stripConv(retResult(ret, 0)).(*ssa.Extract); isE && ex.Index == 0 && w.nilOnlyDepth < 3 {
					if ic, isC := ex.Tuple.(*ssa.Call); isC {
						if tup, isT := ic.Type().(*types.Tuple); isT && tup.Len() > 1 && isErrorType(tup.At(tup.Len()-1).Type()) {
							if ie := extractOf(ic, tup.Len()-1); ie != nil && w.nilTestAt(ie, ret.Block()) == -1 {
								w.nilOnlyDepth++
								inner := w.nilOnlyWithErr(w.Callees(ic))
								w.nilOnlyDepth--
								if inner {
									continue
								}
							}
						}
					}
				}
				if st := w.errState(ret); st == triNil {
					return false
				}
			}
		}
	}
	return true
}

// derefOnlyWhereErrNil: on every path of fn (as the enumerator walks them, with
// the nil tests a path passed remembered) that reaches instruction d, the error
// value errV was found nil.
func (w *World) derefOnlyWhereErrNil(fn *ssa.Function, d ssa.Instruction, errV ssa.Value) bool {
	seen, bad := 0, false
	ev := func(in ssa.Instruction) string {
		if in != d {
			return ""
		}
		seen++
		if w.cur == nil || w.cur.st == nil || w.cur.st.nilFact[w.cur.st.nk(stripConv(errV))] != -1 {
			bad = true
		}
		return "D"
	}
	w.psEvents = true
	_, complete := w.enumPaths(fn, func(ssa.Value) (bool, bool) { return false, false }, ev, 4000)
	w.psEvents = false
	return complete && seen > 0 && !bad
}

// nilOnlyWithFalse: every return of the callees whose first result may be nil has
// the constant false as its last (boolean) result.
func (w *World) nilOnlyWithFalse(callees []*ssa.Function) bool {
	n := 0
	for _, fn := range callees {
		if !w.InModule(fn) || fn.Blocks == nil {
			continue
		}
		for _, b := range fn.Blocks {
			ret, ok := lastInstr(b).(*ssa.Return)
			if !ok || len(ret.Results) < 2 || b == fn.Recover {
				continue
			}
			n++
			if w.valueMayBeNil(retResult(ret, 0), ret.Block(), map[*ssa.Function]bool{fn: true}, 0) {
				// the result of a getter that returns nil only with an error, handed on
				// where that error is nil
				if ex, isE := stripConv(retResult(ret, 0)).(*ssa.Extract); isE && ex.Index == 0 {
					if c2, isC2 := ex.Tuple.(*ssa.Call); isC2 {
						if ee := extractOf(c2, c2.Common().Signature().Results().Len()-1); ee != nil && isErrorType(ee.Type()) && w.nilTestAt(ee, ret.Block()) == -1 {
							inner := w.Callees(c2)
							if w.nilOnlyWithErr(inner) {
								continue
							}
						}
					}
				}
				c, isC := retResult(ret, len(ret.Results)-1).(*ssa.Const)
				if !isC || c.Value == nil || c.Value.Kind() != constant.Bool || constant.BoolVal(c.Value) {
					return false
				}
			}
		}
	}
	return n > 0
}

// boolTestAt: block p is entered only where the boolean v is true (+1) / false (-1); 0 unknown.
func (w *World) boolTestAt(v ssa.Value, p *ssa.BasicBlock) int {
	for _, b := range p.Parent().Blocks {
		ifi, ok := lastInstr(b).(*ssa.If)
		if !ok {
			continue
		}
		c := ifi.Cond
		neg := false
		for {
			if u, isU := c.(*ssa.UnOp); isU && u.Op == token.NOT {
				c, neg = u.X, !neg
				continue
			}
			break
		}
		if !sameValue(c, v) {
			continue
		}
		e := condEdge(ifi, p)
		if e == 0 {
			continue
		}
		if (e == 1) != neg {
			return 1
		}
		return -1
	}
	return 0
}

// derefsThroughPhis: dereferences of v or of phis v flows into (one level).
func (w *World) derefsThroughPhis(v ssa.Value) []ssa.Instruction {
	out := derefsOf(v)
	if v.Referrers() != nil {
		for _, ref := range *v.Referrers() {
			if ph, ok := ref.(*ssa.Phi); ok {
				for _, d := range derefsOf(ph) {
					out = append(out, d)
				}
			}
		}
	}
	return out
}

// nilTestOnEdge: nil-ness of v along the CFG edge pred->blk (+1 non-nil, -1 nil, 0 unknown).
func (w *World) nilTestOnEdge(v ssa.Value, pred, blk *ssa.BasicBlock) int {
	if ifi, ok := lastInstr(pred).(*ssa.If); ok && len(pred.Succs) == 2 && pred.Succs[0] != pred.Succs[1] {
		if bo, ok := ifi.Cond.(*ssa.BinOp); ok && (bo.Op == token.NEQ || bo.Op == token.EQL) {
			var other ssa.Value
			if sameValue(bo.X, v) {
				other = bo.Y
			} else if sameValue(bo.Y, v) {
				other = bo.X
			}
			if c, ok := other.(*ssa.Const); ok && c.IsNil() {
				onTrue := pred.Succs[0] == blk
				if onTrue == (bo.Op == token.NEQ) {
					return 1
				}
				return -1
			}
		}
	}
	return w.nilTestAt(v, pred)
}

// phiEdgeSafe: d dereferences a phi; the edge that carries val is one on which
// val is non-nil (tested directly or through its error companion).
func (w *World) phiEdgeSafe(val, errV ssa.Value, d ssa.Instruction) bool {
	var ph *ssa.Phi
	for _, op := range d.Operands(nil) {
		if p, ok := (*op).(*ssa.Phi); ok {
			ph = p
		}
	}
	if ph == nil {
		return false
	}
	found := false
	for i, e := range ph.Edges {
		if e != val {
			continue
		}
		found = true
		pred := ph.Block().Preds[i]
		if w.nilTestOnEdge(val, pred, ph.Block()) == 1 {
			continue
		}
		if errV != nil && w.nilTestOnEdge(errV, pred, ph.Block()) == -1 {
			continue
		}
		return false
	}
	return found
}

// phiNilTested: d dereferences a phi of v that is itself nil-tested.
func (w *World) phiNilTested(v ssa.Value, d ssa.Instruction) bool {
	if v.Referrers() == nil {
		return false
	}
	for _, ref := range *v.Referrers() {
		if ph, ok := ref.(*ssa.Phi); ok {
			if w.nilTestAt(ph, d.Block()) == 1 {
				return true
			}
		}
	}
	return false
}

// ---- P-5

var c09DivExceptions = map[string]string{
	"stake.(*Delegatee).SelfStakeRatio:div:(recv.TotalPower + p0)":                   "TotalPower >= 0 for a stored delegatee and the added power of a staking tx is >= 1 (ValidateTrx rejects amounts below one power unit before this call)",
	"stake.(*StakeLimiter).checkIndividualPowerLimit:div:(recv.baseTotalPower + p1)": "reached only with diffPower > 0 (early return above) and baseTotalPower >= 0",
	"stake.(*StakeLimiter).checkUpdatablePowerLimit:div:recv.baseTotalPower":         "CheckLimit runs only when at least 3 validators exist (len(lastValidators) >= 3 in StakeCtrler.ValidateTrx), each with positive power, so the base total is positive",
}

func p5(w *World, r *Report, reach *Reach, scope []*ssa.Function) {
	for _, fn := range scope {
		name := w.FName(fn)
		for _, b := range fn.Blocks {
			for _, in := range b.Instrs {
				bo, ok := in.(*ssa.BinOp)
				if !ok || (bo.Op != token.QUO && bo.Op != token.REM) {
					continue
				}
				bt, ok := bo.Type().Underlying().(*types.Basic)
				if !ok || bt.Info()&types.IsInteger == 0 {
					continue
				}
				if isConst(bo.Y) {
					continue
				}
				key := name + ":div:" + w.Canon(bo.Y)
				// dominating guard Y != 0 / Y > 0
				guarded := false
				for _, blk := range fn.Blocks {
					ifi, ok := lastInstr(blk).(*ssa.If)
					if !ok {
						continue
					}
					e := condEdge(ifi, b)
					if e == 0 {
						continue
					}
					c := w.Canon(ifi.Cond)
					y := w.Canon(bo.Y)
					if e == -1 {
						c = negateCond(c)
					}
					if c == "("+y+" != 0)" || c == "("+y+" > 0)" || c == "("+y+" >= 1)" {
						guarded = true
					}
				}
				switch {
				case guarded:
					r.OK("P-5", key, "division dominated by a non-zero test of the divisor", site(w, in))
				case c09DivExceptions[key] != "":
					r.OK("P-5", key, "excepted: "+c09DivExceptions[key], site(w, in))
				default:
					r.Violate("P-5", key, "integer division by a non-constant without a dominating non-zero guard on an input path", map[string]interface{}{"path": reach.Path(fn)}, site(w, in))
				}
			}
		}
	}
}

// ---- P-7: text stored in a ledger item must be encodable

// p7: the ledger encodes items with protobuf, whose `string` fields must hold
// valid UTF-8 — Marshal fails otherwise, and a failing Commit halts the node. Text
// arriving in a transaction was validated by the protobuf decoder; a string made
// from bytes or by an un-escaping routine need not be valid. Every value stored
// in a string field of an item type is traced to its origins (through setters,
// parameters and helpers, up to four call levels): constants, fields and text
// handed on unchanged are fine, a conversion from bytes or a library call that can
// produce arbitrary bytes is not.
func p7(w *World, r *Report, scope []*ssa.Function) {
	inScope := map[*ssa.Function]bool{}
	for _, f := range scope {
		inScope[f] = true
	}
	type origin struct {
		bad  string
		site string
	}
	var trace func(v ssa.Value, fn *ssa.Function, depth int, seen map[ssa.Value]bool) []origin
	trace = func(v ssa.Value, fn *ssa.Function, depth int, seen map[ssa.Value]bool) []origin {
		var out []origin
		var roots []rootVal
		w.rootsOf(v, &vframe{fn: fn}, 0, &roots, map[ssa.Value]bool{})
		for _, rt := range roots {
			if seen[rt.v] {
				continue
			}
			seen[rt.v] = true
			switch x := rt.v.(type) {
			case *ssa.Const:
			case *ssa.Parameter:
				if depth >= 4 || x.Parent() == nil {
					continue
				}
				idx := paramIndexIn(x.Parent(), x)
				for _, cs := range w.Callers(x.Parent()) {
					if !inScope[cs.Caller] {
						continue
					}
					args := cs.Site.Common().Args
					if cs.Site.Common().IsInvoke() {
						args = append([]ssa.Value{cs.Site.Common().Value}, args...)
					}
					if idx >= 0 && idx < len(args) {
						out = append(out, trace(args[idx], cs.Caller, depth+1, seen)...)
					}
				}
			case *ssa.Convert:
				if bt, ok := x.X.Type().Underlying().(*types.Slice); ok {
					_ = bt
					out = append(out, origin{"a conversion of bytes to string", site(w, x)})
				}
			case *ssa.Call, *ssa.Extract:
				var call *ssa.Call
				if c, isC := x.(*ssa.Call); isC {
					call = c
				} else if c, isC := x.(*ssa.Extract).Tuple.(*ssa.Call); isC {
					call = c
				}
				if call == nil {
					continue
				}
				cal := call.Common().StaticCallee()
				if cal == nil || w.InModule(cal) || cal.Pkg == nil {
					continue
				}
				switch pth := cal.Pkg.Pkg.Path(); {
				case pth == "strings" || pth == "strconv" || pth == "fmt" || pth == "unicode/utf8":
				default:
					out = append(out, origin{"the result of " + pth + "." + cal.Name(), site(w, call)})
				}
			}
		}
		return out
	}
	n := 0
	for _, fn := range scope {
		for _, fs := range w.fieldStores(fn) {
			if fs.Owner == nil || fs.Owner.Obj().Pkg() == nil || !isItemTypeName(fs.Owner.Obj().Pkg().Path(), fs.Owner.Obj().Name()) {
				continue
			}
			if bt, ok := fs.Field.Type().Underlying().(*types.Basic); !ok || bt.Info()&types.IsString == 0 {
				continue
			}
			if fn.Signature.Recv() != nil && itemDecoders[fn.Name()] {
				continue
			}
			n++
			key := "text:" + w.FName(fn) + ":" + fs.Owner.Obj().Name() + "." + fs.Field.Name()
			bad := trace(fs.Val, fn, 0, map[ssa.Value]bool{})
			if len(bad) == 0 {
				r.OK("P-7", key, "the text stored comes from constants, fields and transaction text handed on unchanged", site(w, fs.In))
			} else {
				r.Violate("P-7", key, "a string that need not be valid UTF-8 ("+bad[0].bad+") can be stored in a ledger item; the protobuf encoder rejects it and the failing Commit halts the node", nil, site(w, fs.In), bad[0].site)
			}
		}
	}
	if n == 0 {
		r.Undecided("P-7", "text", "no store to a string field of a ledger item found on the input paths")
	}
}

// ---- P-9 : partially decoded parameter objects
//
// A struct filled by json.Unmarshal from bytes a transaction supplied has every
// pointer field nil that the text left out (governance options may carry any
// subset of the parameters; MergeGovParams exists for that). A getter of that
// type that hands such a field back unchanged can therefore return nil, and
// handing that result to an operation (as receiver or argument of a call) without
// a nil test is a nil dereference the sender controls. The object stops being
// "partial" for this rule once it has been handed to a module function (which may
// fill it in).
func p9(w *World, r *Report, scope []*ssa.Function) {
	nilable := map[*ssa.Function]bool{}
	isNilableGetter := func(g *ssa.Function) bool {
		if v, ok := nilable[g]; ok {
			return v
		}
		res := false
		if g != nil && g.Blocks != nil && g.Signature.Recv() != nil && len(g.Params) == 1 && g.Signature.Results().Len() == 1 {
			if _, isPtr := g.Signature.Results().At(0).Type().Underlying().(*types.Pointer); isPtr {
				for _, b := range g.Blocks {
					ret, isR := lastInstr(b).(*ssa.Return)
					if !isR || b == g.Recover {
						continue
					}
					ld, isLd := retResult(ret, 0).(*ssa.UnOp)
					if !isLd || ld.Op != token.MUL {
						continue
					}
					fa, isFA := ld.X.(*ssa.FieldAddr)
					if !isFA || fa.X != ssa.Value(g.Params[0]) {
						continue
					}
					// handed back as it is, unless this return is behind a non-nil test of the field
					guarded := false
					for _, b2 := range g.Blocks {
						ifi, ok := lastInstr(b2).(*ssa.If)
						if !ok {
							continue
						}
						bo, ok := ifi.Cond.(*ssa.BinOp)
						if !ok || (bo.Op != token.EQL && bo.Op != token.NEQ) {
							continue
						}
						for _, pr := range [][2]ssa.Value{{bo.X, bo.Y}, {bo.Y, bo.X}} {
							c, isC := pr[1].(*ssa.Const)
							if !isC || !c.IsNil() || w.Canon(pr[0]) != w.Canon(ld) {
								continue
							}
							if e := condEdge(ifi, b); e != 0 && ((e == 1) == (bo.Op == token.NEQ)) {
								guarded = true
							}
						}
					}
					if !guarded {
						res = true
					}
				}
			}
		}
		nilable[g] = res
		return res
	}
	for _, fn := range scope {
		for _, c := range CallsIn(fn) {
			if !isAnyJSON(c.Common(), "Unmarshal") || len(c.Common().Args) != 2 {
				continue
			}
			tgt := ifaceOperand(c.Common().Args[1])
			n, _ := types.Unalias(deref(tgt.Type())).(*types.Named)
			if n == nil || n.Obj().Pkg() == nil || !w.InModulePkg(n.Obj().Pkg().Path()) {
				continue
			}
			if _, isS := n.Underlying().(*types.Struct); !isS {
				continue
			}
			key := "partial-object:" + w.FName(fn) + ":" + n.Obj().Name()
			bad := ""
			nUse := 0
			if refs := tgt.Referrers(); refs != nil {
				// calls that may complete the object
				var completers []ssa.Instruction
				for _, ref := range *refs {
					ci, isC := ref.(ssa.CallInstruction)
					if !isC || ci == c {
						continue
					}
					cal := ci.Common().StaticCallee()
					if cal != nil && w.InModule(cal) && !(cal.Signature.Recv() != nil && len(ci.Common().Args) > 0 && ci.Common().Args[0] == tgt && isNilableGetter(cal)) && cal.Signature.Recv() == nil {
						completers = append(completers, ci)
					}
				}
				for _, ref := range *refs {
					ci, isC := ref.(*ssa.Call)
					if !isC {
						continue
					}
					cal := ci.Common().StaticCallee()
					if cal == nil || len(ci.Common().Args) == 0 || ci.Common().Args[0] != tgt || !isNilableGetter(cal) || !instrReaches(c, ci) {
						continue
					}
					done := false
					for _, k := range completers {
						if instrDominates(k, ci) {
							done = true
						}
					}
					if done || ci.Referrers() == nil {
						continue
					}
					for _, use := range *ci.Referrers() {
						uc, isUC := use.(ssa.CallInstruction)
						if !isUC {
							continue
						}
						nUse++
						if w.nilTestAt(ci, use.Block()) != 1 {
							bad = fmt.Sprintf("%s() at %s is handed to %s without a nil test", cal.Name(), site(w, ci), callName(uc.Common()))
						}
					}
				}
			}
			r.Check(bad == "", "P-9", key, fmt.Sprintf("what getters hand back from the possibly incomplete object is tested before use (%d use(s))", nUse), "a field the request may have left out is used unchecked: "+bad+" (a partial parameter set is a supported input shape, so the sender decides whether this is nil)", site(w, c))
		}
	}
}

// p7raw — a json.RawMessage inside a value handed to a JSON marshaller is
// validated by the marshaller: bytes that are not JSON make it fail. In the
// encoder of a ledger item that failure surfaces in Commit, which panics. Items
// carry transaction text that is only partly validated (proposal options of the
// non-parameter kinds are free bytes), so no encoder of the state packages may
// hand raw message fields to the marshaller.
func p7raw(w *World, r *Report) {
	var hasRaw func(t types.Type, d int, seen map[types.Type]bool) string
	hasRaw = func(t types.Type, d int, seen map[types.Type]bool) string {
		if t == nil || d > 5 || seen[t] {
			return ""
		}
		seen[t] = true
		if n, ok := t.(*types.Named); ok {
			if n.Obj().Name() == "RawMessage" && n.Obj().Pkg() != nil && strings.HasSuffix(n.Obj().Pkg().Path(), "json") {
				return n.Obj().Pkg().Name() + ".RawMessage"
			}
		}
		switch u := t.Underlying().(type) {
		case *types.Pointer:
			return hasRaw(u.Elem(), d+1, seen)
		case *types.Slice:
			return hasRaw(u.Elem(), d+1, seen)
		case *types.Array:
			return hasRaw(u.Elem(), d+1, seen)
		case *types.Map:
			return hasRaw(u.Elem(), d+1, seen)
		case *types.Struct:
			for i := 0; i < u.NumFields(); i++ {
				if s := hasRaw(u.Field(i).Type(), d+1, seen); s != "" {
					return u.Field(i).Name() + " " + s
				}
			}
		}
		return ""
	}
	n := 0
	for _, fn := range w.nodeFuncs() {
		pp := w.FuncPkgPath(fn)
		if !(strings.Contains(pp, "/ctrlers/") || strings.HasSuffix(pp, "/ledger")) {
			continue
		}
		for _, c := range CallsIn(fn) {
			obj := calleeObj(c.Common())
			if obj == nil || obj.Pkg() == nil || !strings.HasSuffix(obj.Pkg().Path(), "/json") || !strings.HasPrefix(obj.Name(), "Marshal") || len(c.Common().Args) == 0 {
				continue
			}
			n++
			if raw := hasRaw(stripConv(c.Common().Args[0]).Type(), 0, map[types.Type]bool{}); raw != "" {
				r.Violate("P-7", "raw-json:"+w.FName(fn), "the value marshalled here carries a raw JSON message ("+raw+"): the marshaller rejects bytes that are not JSON, the item can not be encoded and the failing Commit halts the node — transaction text reaches ledger items only partly validated", nil, site(w, c))
			}
		}
	}
	r.Extra["p7_json_marshal_sites"] = n
	if n < 5 {
		r.Undecided("P-7", "raw-json", fmt.Sprintf("only %d JSON marshal sites found in the state packages (floor 5)", n))
		return
	}
	r.OK("P-7", "raw-json", fmt.Sprintf("none of the %d values handed to a JSON marshaller in the state packages carries a raw JSON message", n))
}

// nonNilOnEdge: pred ends in a test of v against nil and the edge pred→to is the one
// on which v is not nil.
func nonNilOnEdge(v ssa.Value, pred, to *ssa.BasicBlock) bool {
	ifi, ok := lastInstr(pred).(*ssa.If)
	if !ok || len(pred.Succs) != 2 || pred.Succs[0] == pred.Succs[1] {
		return false
	}
	bo, ok := ifi.Cond.(*ssa.BinOp)
	if !ok || (bo.Op != token.EQL && bo.Op != token.NEQ) {
		return false
	}
	isNilC := func(x ssa.Value) bool { c, ok := x.(*ssa.Const); return ok && c.IsNil() }
	var other ssa.Value
	switch {
	case isNilC(bo.Y):
		other = bo.X
	case isNilC(bo.X):
		other = bo.Y
	default:
		return false
	}
	if stripConv(other) != stripConv(v) {
		return false
	}
	nonNilSucc := 1 // for ==: the false edge
	if bo.Op == token.NEQ {
		nonNilSucc = 0
	}
	return pred.Succs[nonNilSucc] == to
}
