package main

// C20 — the signer never double-signs (DESIGN §3 C20, rules H-1 … H-6).

import (
	"fmt"
	"go/constant"
	"go/token"
	"go/types"
	"os"
	"regexp"
	"sort"
	"strings"

	"golang.org/x/tools/go/ssa"
)

func init() { register("C20", checkC20) }

const pkgCrypto = "types/crypto"

func checkC20(w *World, r *Report) {
	r.Explanation = "Structural clause of C20 decided from source: (H-1) CheckHRS, which touches its inputs only through comparisons and nil tests, is evaluated on all 108 sign/nil abstractions of its inputs over its CFG and compared with the lexicographic reference; (H-2) in signVote/signProposal the CheckHRS error returns before PrivKey.Sign, Sign is reachable only when sameHRS is false, and on sameHRS the only signature released is the stored one under bytes.Equal / only-differ-by-timestamp; (H-3) saveSigned(h,r,step,signBytes,sig) with the checked and signed values dominates the release of the signature; (H-4) saveSigned stores all five fields before Save(), Save() reaches tempfile.WriteFileAtomic(filePath, MarshalIndent(lss)) and panics on error, all five fields are exported and JSON-tagged; (H-5) the loader unmarshals the state file into the returned state when loadState is true, LoadSFilePV passes true, LoadOrGenSFilePV and the node use that path, step constants are ordered; (H-6) PrivKey.Sign on an SFilePV has no other caller. H-4 also requires that no return of saveSigned avoids the Save call."
	r.NotCovered = "atomicity/fsync of tendermint's tempfile.WriteFileAtomic; secp256k1; two processes sharing one key file; the canonical sign-bytes encoders of tendermint."

	h1(w, r)
	for _, nm := range []string{"signVote", "signProposal"} {
		h2h3(w, r, nm)
	}
	h4(w, r)
	h5(w, r)
	h6(w, r)
	r.Floor("H-1", 1, "CheckHRS decision table")
	r.Floor("H-2", 8, "2 signers x (error-before-sign, sign-only-when-not-same, reuse value, reuse condition)")
	r.Floor("H-3", 4, "2 signers x (save dominates release, save arguments)")
	r.Floor("H-4", 8, "5 field stores + Save call + write + tags")
	r.Floor("H-5", 5, "loader")
	r.Floor("H-6", 1, "Sign callers")
}

// ---- H-1

type hrsAbs struct {
	sgn    [3]int // sign(lss.X - x) for Height, Round, Step
	sbNil  bool
	sigNil bool
}

func h1(w *World, r *Report) {
	fn := needFn(r, "H-1", w, fref{pkgCrypto, "SFilePVLastSignState", "CheckHRS"})
	if fn == nil {
		return
	}
	if len(fn.Params) != 4 {
		r.Undecided("H-1", "CheckHRS:signature", "CheckHRS no longer takes (height, round, step)")
		return
	}
	fieldIdx := map[string]int{"Height": 0, "Round": 1, "Step": 2}
	// classify a condition: returns evaluator or error
	cur := fn // the function being interpreted (CheckHRS, or a stage it tail-calls on the same state)
	evalCond := func(c ssa.Value, a hrsAbs) (bool, error) {
		neg := false
		for {
			if u, ok := c.(*ssa.UnOp); ok && u.Op == token.NOT {
				c = u.X
				neg = !neg
				continue
			}
			break
		}
		bo, ok := c.(*ssa.BinOp)
		if !ok {
			return false, fmt.Errorf("condition %s is not a comparison", w.Canon(c))
		}
		fieldOfRecv := func(v ssa.Value) (string, bool) {
			v = stripConv(v)
			u, ok := v.(*ssa.UnOp)
			if !ok || u.Op != token.MUL {
				return "", false
			}
			fa, ok := u.X.(*ssa.FieldAddr)
			if !ok || fa.X != cur.Params[0] {
				return "", false
			}
			return fieldName(fa.X.Type(), fa.Field), true
		}
		paramIdx := func(v ssa.Value) (int, bool) {
			p, ok := v.(*ssa.Parameter)
			if !ok || cur != fn {
				return 0, false
			}
			for i, q := range fn.Params {
				if q == p {
					return i - 1, true
				}
			}
			return 0, false
		}
		x, y, op := bo.X, bo.Y, bo.Op
		// nil tests
		if c, ok := y.(*ssa.Const); ok && c.IsNil() {
			if f, ok := fieldOfRecv(x); ok && (op == token.EQL || op == token.NEQ) {
				var isNil bool
				switch f {
				case "SignBytes":
					isNil = a.sbNil
				case "Signature":
					isNil = a.sigNil
				default:
					return false, fmt.Errorf("nil test on unexpected field %s", f)
				}
				res := isNil == (op == token.EQL)
				return res != neg, nil
			}
		}
		// comparisons field vs param (either order)
		f, okf := fieldOfRecv(x)
		pi, okp := paramIdx(y)
		if !(okf && okp) {
			f2, okf2 := fieldOfRecv(y)
			pi2, okp2 := paramIdx(x)
			if !(okf2 && okp2) {
				return false, fmt.Errorf("condition %s is not <lss field> cmp <parameter>", w.Canon(c))
			}
			f, pi = f2, pi2
			if fl, ok := flipOp[op]; ok {
				op = fl
			}
		}
		fi, ok := fieldIdx[f]
		if !ok || fi != pi {
			return false, fmt.Errorf("condition %s compares field %s with parameter #%d", w.Canon(c), f, pi)
		}
		s := a.sgn[fi] // sign(field - param)
		var res bool
		switch op {
		case token.GTR:
			res = s > 0
		case token.GEQ:
			res = s >= 0
		case token.LSS:
			res = s < 0
		case token.LEQ:
			res = s <= 0
		case token.EQL:
			res = s == 0
		case token.NEQ:
			res = s != 0
		default:
			return false, fmt.Errorf("operator %s in %s", op, w.Canon(c))
		}
		return res != neg, nil
	}
	run := func(a hrsAbs) (string, error) {
		cur = fn
		defer func() { cur = fn }()
		b := fn.Blocks[0]
		for steps := 0; steps < 200; steps++ {
			switch t := lastInstr(b).(type) {
			case *ssa.If:
				v, err := evalCond(t.Cond, a)
				if err != nil {
					return "", err
				}
				if v {
					b = b.Succs[0]
				} else {
					b = b.Succs[1]
				}
			case *ssa.Jump:
				b = b.Succs[0]
			case *ssa.Return:
				if len(t.Results) != 2 {
					return "", fmt.Errorf("unexpected result arity")
				}
				// `return lss.stage()`: a last stage on the same state, interpreted in turn
				if e0, isE := t.Results[0].(*ssa.Extract); isE && e0.Index == 0 {
					if e1, isE1 := t.Results[1].(*ssa.Extract); isE1 && e1.Index == 1 && e1.Tuple == e0.Tuple {
						if call, isC := e0.Tuple.(*ssa.Call); isC {
							g := call.Common().StaticCallee()
							if g != nil && w.InModule(g) && g.Blocks != nil && len(g.Params) == 1 && len(call.Common().Args) == 1 && call.Common().Args[0] == ssa.Value(cur.Params[0]) && g != cur {
								cur = g
								b = g.Blocks[0]
								continue
							}
						}
					}
				}
				c, ok := t.Results[0].(*ssa.Const)
				if !ok || c.Value == nil || c.Value.Kind() != constant.Bool {
					return "", fmt.Errorf("first result is not a boolean constant")
				}
				st := w.errState(t)
				if st == triUnknown {
					return "", fmt.Errorf("error result at %s is not decidable", w.InstrPos(t))
				}
				return fmt.Sprintf("(%v,%s)", constant.BoolVal(c.Value), map[tri]string{triNil: "nil", triNonNil: "err"}[st]), nil
			case *ssa.Panic:
				return "panic", nil
			default:
				return "", fmt.Errorf("unexpected terminator %T", t)
			}
		}
		return "", fmt.Errorf("no termination")
	}
	ref := func(a hrsAbs) string {
		lex := 0
		for i := 0; i < 3; i++ {
			if a.sgn[i] != 0 {
				lex = a.sgn[i]
				break
			}
		}
		switch {
		case lex > 0:
			return "(false,err)"
		case lex < 0:
			return "(false,nil)"
		}
		if !a.sbNil {
			if a.sigNil {
				return "panic"
			}
			return "(true,nil)"
		}
		return "(false,err)"
	}
	n, bad := 0, 0
	var firstBad string
	for h := -1; h <= 1; h++ {
		for rr := -1; rr <= 1; rr++ {
			for s := -1; s <= 1; s++ {
				for _, sb := range []bool{true, false} {
					for _, sg := range []bool{true, false} {
						a := hrsAbs{[3]int{h, rr, s}, sb, sg}
						got, err := run(a)
						n++
						if err != nil {
							r.Undecided("H-1", "CheckHRS:table", "shape of CheckHRS not recognised: "+err.Error(), fnSite(w, fn))
							return
						}
						if want := ref(a); got != want {
							bad++
							if firstBad == "" {
								firstBad = fmt.Sprintf("sign(last-req) H=%d R=%d S=%d signBytesNil=%v signatureNil=%v: CheckHRS gives %s, reference %s", h, rr, s, sb, sg, got, want)
							}
						}
					}
				}
			}
		}
	}
	r.Extra["h1_abstract_inputs"] = n
	if bad > 0 {
		r.Violate("H-1", "CheckHRS:table", fmt.Sprintf("%d of %d abstract inputs disagree with the lexicographic HRS reference; first: %s", bad, n, firstBad), nil, fnSite(w, fn))
	} else {
		r.OK("H-1", "CheckHRS:table", fmt.Sprintf("all %d abstract inputs agree with the reference (regression ⇔ last HRS lexicographically greater; equal ⇒ reuse iff SignBytes present; greater request ⇒ sign)", n), fnSite(w, fn))
	}
}

// ---- H-2, H-3

// h2h3 evaluates signVote / signProposal on their paths under facts about what
// CheckHRS answered (helpers expanded, values resolved through helper results), so
// the verdict does not depend on how the branches are arranged or where Sign and
// the recorder are called from.
func h2h3(w *World, r *Report, name string) {
	fn := needFn(r, "H-2", w, fref{pkgCrypto, "SFilePV", name})
	if fn == nil {
		return
	}
	key := "crypto.(*SFilePV)." + name
	signBytesFn := map[string]string{"signVote": "VoteSignBytes", "signProposal": "ProposalSignBytes"}[name]
	wantSB := "types." + signBytesFn + "(p0, p1)"
	wantStep := map[string]string{"signVote": "crypto.voteToStep(p1)", "signProposal": "1"}[name]
	// is v the signer's last-sign state (its address, or a local copy initialised from it)?
	var lssKind func(v ssa.Value) string
	lssKind = func(v ssa.Value) string {
		v = stripConv(v)
		// a parameter of a helper that is being expanded: the argument it is bound to
		if pr, isP := v.(*ssa.Parameter); isP && pr.Parent() != fn {
			for i := len(w.inlineEnv) - 1; i >= 0; i-- {
				if s, ok := w.inlineEnv[i][pr]; ok {
					if av, ok := w.argVal[s]; ok && av != v {
						return lssKind(av)
					}
					break
				}
			}
		}
		if fa, ok := v.(*ssa.FieldAddr); ok && w.Canon(fa.X) == "recv" && fieldName(fa.X.Type(), fa.Field) == "LastSignState" {
			return "pv"
		}
		if a, ok := v.(*ssa.Alloc); ok && a.Referrers() != nil {
			n, good := 0, 0
			for _, ref := range *a.Referrers() {
				if st, isS := ref.(*ssa.Store); isS && st.Addr == a {
					n++
					if w.isFieldLoad(st.Val, "recv", "LastSignState") {
						good++
					}
				}
			}
			if n == 1 && good == 1 {
				return "copy"
			}
		}
		if w.Canon(v) == "recv.LastSignState" {
			return "pv"
		}
		return "other:" + w.Canon(v)
	}
	storedField := func(v ssa.Value, f string) bool { // lss.<f> of the state CheckHRS looked at
		v = stripConv(v)
		if cv, ok := v.(*ssa.ChangeType); ok {
			v = cv.X
		}
		if cv, ok := v.(*ssa.Convert); ok {
			v = cv.X
		}
		u, ok := v.(*ssa.UnOp)
		if !ok || u.Op != token.MUL {
			return false
		}
		fa, ok := u.X.(*ssa.FieldAddr)
		if !ok || fieldName(fa.X.Type(), fa.Field) != f {
			return false
		}
		k := lssKind(fa.X)
		return k == "pv" || k == "copy"
	}
	var nRecorders int
	event := func(in ssa.Instruction) string {
		switch x := in.(type) {
		case ssa.CallInstruction:
			cc := x.Common()
			switch {
			case w.callIs(cc, fref{pkgCrypto, "SFilePVLastSignState", "CheckHRS"}):
				rcv, args := callRecvArgs(cc)
				var as []string
				for _, a := range args {
					as = append(as, w.Canon(a))
				}
				return "CHK\x01" + lssKind(rcv) + "\x01" + strings.Join(as, ", ")
			case w.callIs(cc, fref{"github.com/tendermint/tendermint/crypto", "PrivKey", "Sign"}):
				_, args := callRecvArgs(cc)
				if len(args) == 1 {
					return "SIGN\x01" + w.Canon(args[0]) + "\x01" + w.canonCall(cc, 0)
				}
				return "SIGN\x01?"
			default:
				cal := cc.StaticCallee()
				if cal == nil || !w.InModule(cal) {
					return ""
				}
				sum := w.recordSummary(cal)
				if sum == nil || len(sum.stores) < 3 {
					return ""
				}
				nRecorders++
				c20Recorders[sum.fn] = sum
				get := func(f string) string {
					if i, ok := sum.fieldParam[f]; ok && i < len(cc.Args) {
						return w.canonResolved(cc.Args[i])
					}
					return "?"
				}
				loc := "other"
				if sum.baseParam < len(cc.Args) {
					base := cc.Args[sum.baseParam]
					if sum.viaField {
						if w.Canon(base) == "recv" {
							loc = "pv"
						}
					} else {
						loc = lssKind(base)
					}
				}
				return "REC\x01" + get("Height") + "\x01" + get("Round") + "\x01" + get("Step") + "\x01" + get("SignBytes") + "\x01" + get("Signature") + "\x01" + loc
			}
		case *ssa.Store:
			fa, ok := x.Addr.(*ssa.FieldAddr)
			if !ok {
				return ""
			}
			if w.Canon(fa.X) != "p1" {
				// a helper's own parameter of the message's type, seen before the helper is
				// expanded for a call: it bears an event (once expanded it prints as p1)
				if pr, isP := fa.X.(*ssa.Parameter); isP && pr.Parent() != fn && len(fn.Params) > 2 && types.Identical(pr.Type(), fn.Params[2].Type()) && fieldName(fa.X.Type(), fa.Field) == "Signature" {
					return "OUTX"
				}
				return ""
			}
			switch fieldName(fa.X.Type(), fa.Field) {
			case "Signature":
				if storedField(x.Val, "Signature") {
					return "OUT\x01stored"
				}
				return "OUT\x01" + w.canonResolved(x.Val)
			case "Timestamp":
				return "TS"
			}
		}
		return ""
	}
	run := func(facts ...atom) ([]pathEnd, bool) {
		w.resolveFallible = true
		defer func() { w.resolveFallible = false }()
		fe := w.newFactEval(nil, facts...)
		saved := w.branchMarkers
		w.branchMarkers = false
		e := &enumerator{w: w, eval: fe.eval, event: event, max: 4000, complete: true, evCache: map[ssa.Instruction]string{}, hasEv: map[*ssa.Function]int{}, pathSensitiveEvents: true}
		var out []pathEnd
		e.walkFn(fn, nil, 0, func(ev []string, ret *ssa.Return, term string) {
			out = append(out, pathEnd{append([]string(nil), ev...), term, ret, nil})
		})
		w.cur = nil
		w.branchMarkers = saved
		return out, e.complete
	}
	chkErr := AR(`\.CheckHRS\(.*\)#1$`, "!=", `^nil$`)
	chkOK := AR(`\.CheckHRS\(.*\)#1$`, "==", `^nil$`)
	same := TR(`\.CheckHRS\(.*\)#0$`)
	notSame := FR(`\.CheckHRS\(.*\)#0$`)
	has := func(p pathEnd, prefix string) []string {
		var out []string
		for _, e := range p.Events {
			if strings.HasPrefix(e, prefix) {
				out = append(out, e)
			}
		}
		return out
	}
	isOK := func(p pathEnd) bool { return p.Term == "ok" || p.Term == "unknown" }

	// (1) CheckHRS refused: nothing is signed, nothing released, no success
	pe, c1 := run(chkErr)
	guarded := c1 && len(pe) > 0
	for _, p := range pe {
		if isOK(p) || len(has(p, "SIGN\x01")) > 0 || len(has(p, "OUT\x01")) > 0 {
			guarded = false
		}
	}
	r.Check(guarded, "H-2", key+":error-before-sign", "when CheckHRS reports an error nothing is signed or released and the request fails", "PrivKey.Sign is reachable (or a signature is released) although CheckHRS returned an error (regression not refused)", fnSite(w, fn))

	// (2) a new height/round/step
	pn, c2 := run(chkOK, notSame)
	lssOK, hrOK, sbOK, argsOK, locOK, orderOK, noSuccessWithoutSave, freshOut := c2, c2, c2, c2, c2, c2, c2, c2
	nOKnew := 0
	for _, p := range pn {
		if os.Getenv("RIGOCHECK_DEBUG") != "" {
			fmt.Println("DBG", name, p.Term, p.Events)
		}
		chk, sign, rec, out := has(p, "CHK\x01"), has(p, "SIGN\x01"), has(p, "REC\x01"), has(p, "OUT\x01")
		if len(out) > 0 && len(rec) == 0 {
			orderOK = false // released without being recorded
		}
		if !isOK(p) {
			continue
		}
		nOKnew++
		if len(chk) != 1 || len(sign) != 1 {
			lssOK, sbOK = false, false
			continue
		}
		cf := strings.SplitN(chk[0], "\x01", 3)
		if cf[1] != "pv" && cf[1] != "copy" {
			lssOK = false
		}
		if cf[2] != "p1.Height, p1.Round, "+wantStep {
			hrOK = false
		}
		sf := strings.SplitN(sign[0], "\x01", 3)
		if sf[1] != wantSB {
			sbOK = false
		}
		if len(rec) != 1 {
			noSuccessWithoutSave = false
			continue
		}
		rf := strings.Split(rec[0], "\x01")
		if len(rf) != 7 || rf[1] != "p1.Height" || rf[2] != "p1.Round" || rf[3] != wantStep || rf[4] != sf[1] || rf[5] != sf[2]+"#0" {
			argsOK = false
		}
		if len(rf) == 7 && rf[6] != "pv" {
			locOK = false
		}
		if len(out) != 1 || out[0] != "OUT\x01"+sf[2]+"#0" {
			freshOut = false
		}
		// order: CHK < SIGN < REC < OUT
		pos := map[string]int{}
		for i, e := range p.Events {
			pos[e[:3]] = i
		}
		if !(pos["CHK"] < pos["SIG"] && pos["SIG"] < pos["REC"] && pos["REC"] < pos["OUT"]) {
			orderOK = false
		}
	}
	if nOKnew == 0 {
		r.Undecided("H-2", key+":shape", "no successful path signs a message with a new height/round/step", fnSite(w, fn))
		return
	}
	r.Check(lssOK, "H-2", key+":CheckHRS-on-last-sign-state", "CheckHRS is evaluated (once) on the signer's LastSignState", "CheckHRS is not evaluated on pv.LastSignState", fnSite(w, fn))
	r.Check(hrOK, "H-2", key+":checked-HRS-is-message-HRS", "CheckHRS receives the message's own height, round and step", "CheckHRS is not called with the message's height/round/step", fnSite(w, fn))
	r.Check(sbOK, "H-2", key+":signed-bytes-are-message-bytes", "the bytes signed are the canonical sign-bytes of (chainID, message), signed exactly once", "the bytes handed to PrivKey.Sign are not the canonical sign-bytes of this message", fnSite(w, fn))
	r.Check(freshOut, "H-3", key+":release", "the signature released for a new height/round/step is the one just produced", "the signature released is not the one just produced by PrivKey.Sign", fnSite(w, fn))
	r.Check(orderOK, "H-3", key+":save-before-release", "the last-sign state is recorded (and saved) before the fresh signature is stored into the message", "the fresh signature is released before the last-sign state is saved", fnSite(w, fn))
	r.Check(noSuccessWithoutSave, "H-3", key+":no-success-without-save", "every successful path that signs passes the recorder exactly once", "a success return is reachable after PrivKey.Sign without recording the last-sign state", fnSite(w, fn))
	r.Check(argsOK, "H-3", key+":save-arguments", "the recorder receives the checked (height, round, step), the signed bytes and the signature", "the recorder does not record the values that were checked and signed", fnSite(w, fn))
	r.Check(locOK, "H-3", key+":save-location", "the recorded state is the signer's own pv.LastSignState (the object every later CheckHRS reads)", "the last-sign record is not written to the signer's own state (e.g. into a local copy of pv.LastSignState: the in-memory state the next CheckHRS reads is not advanced)", fnSite(w, fn))

	// (3) the same height/round/step again
	ps, c3 := run(chkOK, same)
	noSign := c3
	reuseVal := c3
	nReuse := 0
	for _, p := range ps {
		if len(has(p, "SIGN\x01")) > 0 {
			noSign = false
		}
		for _, o := range has(p, "OUT\x01") {
			if o != "OUT\x01stored" {
				reuseVal = false
			} else if isOK(p) {
				nReuse++
			}
		}
	}
	r.Check(noSign, "H-2", key+":sign-only-when-not-sameHRS", "nothing is signed when CheckHRS reports the same height/round/step", "PrivKey.Sign is reachable when CheckHRS reported the same HRS (two signatures for one height/round/step)", fnSite(w, fn))
	if nReuse == 0 {
		r.Undecided("H-2", key+":reuse", "no re-release of the stored signature found on the sameHRS path (the property requires the original signature to be returned)", fnSite(w, fn))
	} else {
		r.Check(reuseVal, "H-2", key+":reuse-value", "the signature re-released on sameHRS is LastSignState.Signature", "a signature other than the stored one is released on the sameHRS path", fnSite(w, fn))
		// neither the same bytes nor a timestamp-only difference: refused, nothing released
		sb := regexp.QuoteMeta(wantSB)
		differ := AR(`^`+sb+`$`, "!=", `\.SignBytes$`)
		notTS := FR(`OnlyDifferByTimestamp\(.*\)#1$`)
		pc, c4 := run(chkOK, same, differ, notTS)
		cond := c4 && len(pc) > 0
		for _, p := range pc {
			if isOK(p) || len(has(p, "OUT\x01")) > 0 {
				cond = false
			}
		}
		r.Check(cond, "H-2", key+":reuse-condition", "stored signature released only under sameHRS and (bytes.Equal with the stored SignBytes or only-differ-by-timestamp); otherwise the request fails", "stored signature released without the same-message test (conflicting data would be signed off)", fnSite(w, fn))
	}
}

// canonResolved prints v with results of module helpers replaced by what the
// helper returns (when all its returns agree), parameters bound to the arguments.
func (w *World) canonResolved(v ssa.Value) string {
	v0 := v
	for i := 0; i < 4; i++ {
		var call *ssa.Call
		idx := 0
		switch y := stripConv(v).(type) {
		case *ssa.Call:
			call = y
		case *ssa.Extract:
			call, _ = y.Tuple.(*ssa.Call)
			idx = y.Index
		}
		if call == nil {
			break
		}
		cal := call.Common().StaticCallee()
		if cal == nil || !w.InModule(cal) || cal.Blocks == nil || len(cal.Params) != len(call.Common().Args) {
			break
		}
		// only plain value producers are looked through; a helper that can fail keeps
		// its identity (its result is "the result of that step", not an expression)
		if errResultIndex(cal) >= 0 && !w.resolveFallible {
			break
		}
		// exported functions and methods are vocabulary the rules use by name
		// (ctx.Height(), GasPrice()…): only package-private helpers are looked through
		if cal.Parent() == nil && token.IsExported(cal.Name()) {
			break
		}
		// and only helpers that merely compute a value: a helper with effects (it
		// removes a stake, writes a ledger …) is a step of its own
		if !w.readOnlyFn(cal, 0) && !w.resolveFallible {
			break
		}
		env := map[*ssa.Parameter]string{}
		for j, p := range cal.Params {
			env[p] = w.canonResolved(call.Common().Args[j])
		}
		savedShallow := w.shallowResolve
		w.shallowResolve = true
		var eval func(ssa.Value) (bool, bool) = func(ssa.Value) (bool, bool) { return false, false }
		if w.cur != nil && w.cur.eval != nil {
			eval = w.cur.eval
		}
		w.inlineEnv = append(w.inlineEnv, env)
		vals, complete := w.returnedValues(cal, idx, eval, 1)
		// success returns only: drop nil constants when a non-nil value exists
		var nonNil []ssa.Value
		for _, x := range vals {
			if c, ok := x.(*ssa.Const); ok && c.IsNil() {
				continue
			}
			nonNil = append(nonNil, x)
		}
		s := ""
		if complete && len(nonNil) == 1 {
			s = w.canonResolved(nonNil[0])
		}
		w.inlineEnv = w.inlineEnv[:len(w.inlineEnv)-1]
		w.shallowResolve = savedShallow
		if s != "" {
			return s
		}
		break
	}
	return w.Canon(v0)
}

// canonOnPathFallible: canonical form of v on the path being enumerated, looking
// through selection helpers (which may also return an error).
func (w *World) canonOnPathFallible(v ssa.Value) string {
	saved := w.resolveFallible
	w.resolveFallible = true
	defer func() { w.resolveFallible = saved }()
	return w.canonResolved(w.phiOnPath(v))
}

func (w *World) isLssField(v ssa.Value, lss ssa.Value, name string) bool {
	v = stripConv(v)
	// HexBytes -> []byte conversions
	if cv, ok := v.(*ssa.ChangeType); ok {
		v = cv.X
	}
	if cv, ok := v.(*ssa.Convert); ok {
		v = cv.X
	}
	if u, ok := v.(*ssa.UnOp); ok && u.Op == token.MUL {
		if fa, ok := u.X.(*ssa.FieldAddr); ok && fa.X == lss && fieldName(fa.X.Type(), fa.Field) == name {
			return true
		}
	}
	return false
}

// returnsErrOf: does ret return the error (#1) of call?
func (w *World) returnsErrOf(ret *ssa.Return, call ssa.Value) bool {
	idx := errResultIndex(ret.Parent())
	if idx < 0 || call == nil {
		return false
	}
	v := stripConv(ret.Results[idx])
	if e, ok := v.(*ssa.Extract); ok && e.Tuple == call {
		return true
	}
	return false
}

// ---- H-4

func h4(w *World, r *Report) {
	if len(c20Recorders) == 0 {
		r.Undecided("H-4", "recorder", "no function that records the last-sign state and saves it is called from signVote / signProposal")
	}
	var recs []*recSummary
	for _, s := range c20Recorders {
		recs = append(recs, s)
	}
	sort.Slice(recs, func(i, j int) bool { return w.FName(recs[i].fn) < w.FName(recs[j].fn) })
	for _, sum := range recs {
		nm := sum.fn.Name()
		// ... on every return: no exit of the recorder avoids the Save call
		if sum.save != nil {
			avoid := ""
			for _, ex := range exitsAvoiding(ipos{sum.fn.Blocks[0], 0}, func(in ssa.Instruction) bool { return in == ssa.Instruction(sum.save.(ssa.Instruction)) }, nil) {
				if ret, isRet := ex.(*ssa.Return); isRet {
					avoid = w.InstrPos(ret)
				}
			}
			r.Check(avoid == "", "H-4", nm+":Save:on-every-return", "every return of the recorder has passed Save(): whatever was signed is on disk before the signature is released", nm+" can return without saving the state (a signature is released for a record that only exists in memory; after a restart the same height/round/step is signed again): return at "+avoid, fnSite(w, sum.fn))
		}
		r.Check(sum.nSave == 1, "H-4", nm+":Save", "the recorder saves the state exactly once, on the object whose fields it stored", fmt.Sprintf("%s calls Save %d times (expected once)", nm, sum.nSave), site(w, sum.save))
		for _, f := range []string{"Height", "Round", "Step", "SignBytes", "Signature"} {
			st, ok := sum.stores[f]
			switch {
			case !ok:
				r.Violate("H-4", nm+":store:"+f, nm+" does not store LastSignState."+f+" (the record on disk would not identify the signed HRS/message)", nil, fnSite(w, sum.fn))
			default:
				_, fromParam := sum.fieldParam[f]
				r.Check(fromParam && instrDominates(st, sum.save), "H-4", nm+":store:"+f, "field stored from a parameter before Save()", "field "+f+" is not stored from a parameter before Save() (stale last-sign record on disk)", site(w, st))
			}
		}
	}
	sfn := needFn(r, "H-4", w, fref{pkgCrypto, "SFilePVLastSignState", "Save"})
	if sfn != nil {
		// in Save itself or in helpers it calls (marshal / write split off): read in Save's terms
		type hosted struct {
			c    ssa.CallInstruction
			host *ssa.Function
		}
		var wr, ms []hosted
		for _, g := range w.withModuleCallees(sfn, 1) {
			for _, c := range w.callsTo(g, fref{"github.com/tendermint/tendermint/libs/tempfile", "", "WriteFileAtomic"}) {
				wr = append(wr, hosted{c, g})
			}
			for _, c := range w.callsTo(g, fref{"github.com/tendermint/tendermint/libs/json", "", "MarshalIndent"}, fref{"github.com/tendermint/tendermint/libs/json", "", "Marshal"}) {
				ms = append(ms, hosted{c, g})
			}
		}
		if len(wr) != 1 || len(ms) != 1 {
			r.Violate("H-4", "Save:write", fmt.Sprintf("Save() must marshal the state and write it atomically exactly once (found %d marshal, %d WriteFileAtomic calls)", len(ms), len(wr)), nil, fnSite(w, sfn))
		} else {
			wa := wr[0].c.Common().Args
			ma := ms[0].c.Common().Args
			ok := false
			if wr[0].host == sfn && ms[0].host == sfn {
				bz := extractOf(callValue(ms[0].c), 0)
				ok = len(wa) >= 2 && w.Canon(wa[0]) == "recv.filePath" && bz != nil && sameValue(wa[1], bz) && len(ma) >= 1 && stripConv(ma[0]) == ssa.Value(sfn.Params[0])
			} else {
				okPath := len(wa) >= 2 && w.inCallerTerms(sfn, wr[0].host, func() bool { return w.Canon(wa[0]) == "recv.filePath" })
				okObj := len(ma) >= 1 && w.inCallerTerms(sfn, ms[0].host, func() bool { return w.Canon(stripConv(ma[0])) == "recv" })
				okBytes := false
				if len(wa) >= 2 {
					for _, c := range w.mayCanonsBelow(sfn, wa[1], 4) {
						if (strings.HasPrefix(c, "json.MarshalIndent(recv") || strings.HasPrefix(c, "json.Marshal(recv")) && strings.HasSuffix(c, "#0") {
							okBytes = true
						}
					}
				}
				ok = okPath && okObj && okBytes
			}
			r.Check(ok, "H-4", "Save:write", "Save() writes MarshalIndent(lss) to lss.filePath with WriteFileAtomic", "Save() does not atomically write the marshalled state to its own filePath", site(w, wr[0].c))
			// errors panic
			for i, hc := range []hosted{ms[0], wr[0]} {
				call := hc.c
				var ev ssa.Value
				if i == 0 {
					ev = extractOf(callValue(call), 1)
				} else {
					ev = callValue(call)
				}
				paniced := false
				if ev != nil {
					for _, b := range hc.host.Blocks {
						if _, isP := lastInstr(b).(*ssa.Panic); isP {
							if e, _ := w.underCond(b, func(c ssa.Value) bool {
								bo, ok := c.(*ssa.BinOp)
								return ok && bo.Op == token.NEQ && (sameValue(bo.X, ev) || sameValue(bo.Y, ev))
							}); e == 1 {
								paniced = true
							}
						}
					}
				}
				r.Check(paniced, "H-4", fmt.Sprintf("Save:error-panics:%s", callName(call.Common())), "a failed save panics (the signature is never released)", "an error of "+callName(call.Common())+" does not stop the signer (signature released without a durable record)", site(w, call))
			}
		}
	}
	// tags
	n := w.Named(pkgCrypto, "SFilePVLastSignState")
	if n == nil {
		r.Undecided("H-4", "tags", "type SFilePVLastSignState not found")
		return
	}
	for _, f := range []string{"Height", "Round", "Step", "Signature", "SignBytes"} {
		fv := w.Field(pkgCrypto, "SFilePVLastSignState", f)
		tag := structTag(n, f)
		ok := fv != nil && fv.Exported() && strings.Contains(tag, `json:"`) && !strings.Contains(tag, `json:"-"`)
		r.Check(ok, "H-4", "tags:"+f, "field is exported and JSON-tagged, so it is part of the saved record", "field "+f+" is not serialised into the state file", w.posOfVar(fv))
	}
}

func (w *World) posOfVar(v *types.Var) string {
	if v == nil {
		return "-"
	}
	return w.Pos(v.Pos())
}

// ---- H-5

func h5(w *World, r *Report) {
	fn := needFn(r, "H-5", w, fref{pkgCrypto, "", "loadSFilePV"})
	if fn != nil && len(fn.Params) == 4 {
		// the unmarshal into the state: its second argument is an Alloc of
		// SFilePVLastSignState — in loadSFilePV itself or in a helper it calls
		findUm := func(f *ssa.Function) (*ssa.Alloc, ssa.CallInstruction) {
			for _, c := range w.callsTo(f, fref{"github.com/tendermint/tendermint/libs/json", "", "Unmarshal"}) {
				a := c.Common().Args
				if len(a) == 2 {
					if al, ok := stripConv(a[1]).(*ssa.Alloc); ok && strings.HasSuffix(typeStr(deref(al.Type())), "SFilePVLastSignState") {
						return al, c
					}
				}
			}
			return nil, nil
		}
		host := fn
		var hostCall ssa.CallInstruction
		stateAlloc, umCall := findUm(fn)
		if stateAlloc == nil {
			for _, c := range CallsIn(fn) {
				cal := c.Common().StaticCallee()
				if cal == nil || !w.InModule(cal) || cal.Blocks == nil || len(cal.Params) != len(c.Common().Args) {
					continue
				}
				if al, uc := findUm(cal); al != nil {
					host, hostCall, stateAlloc, umCall = cal, c, al, uc
				}
			}
		}
		// outerParam: the parameter of loadSFilePV that a value of the host stands for (-1 if none)
		outerParam := func(v ssa.Value) int {
			if host != fn {
				j := paramIndexIn(host, v)
				if j < 0 {
					return -1
				}
				v = hostCall.Common().Args[j]
			}
			return paramIndexIn(fn, v)
		}
		if stateAlloc == nil {
			r.Violate("H-5", "loadSFilePV:unmarshal-state", "the loader never unmarshals the state file into the last-sign state", nil, fnSite(w, fn))
		} else {
			// read from stateFilePath (p1)
			rd := false
			if ex, ok := stripConv(umCall.Common().Args[0]).(*ssa.Extract); ok {
				if c, ok := ex.Tuple.(*ssa.Call); ok && w.callIs(c.Common(), fref{"os", "", "ReadFile"}) && outerParam(c.Common().Args[0]) == 1 {
					rd = true
				}
			}
			r.Check(rd, "H-5", "loadSFilePV:reads-state-file", "the state is unmarshalled from os.ReadFile(stateFilePath)", "the state is not read from stateFilePath", site(w, umCall))
			e, _ := w.underCond(umCall.Block(), func(c ssa.Value) bool { return outerParam(c) == 2 })
			r.Check(e == 1, "H-5", "loadSFilePV:under-loadState", "state loading is controlled by loadState=true", "state loading is not on the loadState=true branch", site(w, umCall))
			// the returned struct's LastSignState is the loaded state
			retOK := false
			loaded := func(v ssa.Value) bool {
				u, ok := v.(*ssa.UnOp)
				return ok && u.X == ssa.Value(stateAlloc)
			}
			hostReturnsIt := host != fn
			if host != fn {
				for _, b := range host.Blocks {
					if ret, isR := lastInstr(b).(*ssa.Return); isR && b != host.Recover {
						if len(ret.Results) != 1 || !loaded(ret.Results[0]) {
							hostReturnsIt = false
						}
					}
				}
			}
			for _, fs := range w.fieldStores(fn) {
				if fs.Field.Name() == "LastSignState" {
					if host == fn && loaded(fs.Val) {
						retOK = true
					}
					if host != fn && hostReturnsIt && fs.Val == callValue(hostCall) {
						retOK = true
					}
				}
			}
			r.Check(retOK, "H-5", "loadSFilePV:returns-loaded-state", "the returned SFilePV carries the loaded state", "the returned SFilePV does not carry the state that was loaded", fnSite(w, fn))
			// read/unmarshal errors exit
			exits := len(w.callsTo(fn, fref{"github.com/tendermint/tendermint/libs/os", "", "Exit"}))
			if host != fn {
				exits += len(w.callsTo(host, fref{"github.com/tendermint/tendermint/libs/os", "", "Exit"}))
			}
			r.Check(exits >= 4, "H-5", "loadSFilePV:errors-exit", fmt.Sprintf("%d error exits (key read, key parse, unlock, state read, state parse)", exits), "load errors no longer stop the process (signer could start with an empty last-sign state)", fnSite(w, fn))
		}
	} else if fn != nil {
		r.Undecided("H-5", "loadSFilePV:signature", "unexpected parameter list")
	}
	lf := needFn(r, "H-5", w, fref{pkgCrypto, "", "LoadSFilePV"})
	if lf != nil {
		cs := w.callsTo(lf, fref{pkgCrypto, "", "loadSFilePV"})
		ok := len(cs) == 1
		if ok {
			a := cs[0].Common().Args
			c, isC := a[2].(*ssa.Const)
			ok = isC && c.Value != nil && c.Value.Kind() == constant.Bool && constant.BoolVal(c.Value) && a[1] == ssa.Value(lf.Params[1]) && a[0] == ssa.Value(lf.Params[0])
		}
		r.Check(ok, "H-5", "LoadSFilePV:loadState-true", "LoadSFilePV loads the state file", "LoadSFilePV does not load the last-sign state", fnSite(w, lf))
	}
	lg := needFn(r, "H-5", w, fref{pkgCrypto, "", "LoadOrGenSFilePV"})
	if lg != nil {
		cs := w.callsTo(lg, fref{pkgCrypto, "", "LoadSFilePV"})
		ok := len(cs) == 1
		if ok {
			e, _ := w.underCond(cs[0].Block(), func(c ssa.Value) bool {
				call, ok := c.(*ssa.Call)
				return ok && w.callIs(call.Common(), fref{"github.com/tendermint/tendermint/libs/os", "", "FileExists"}) && call.Common().Args[0] == ssa.Value(lg.Params[0])
			})
			a := cs[0].Common().Args
			ok = e == 1 && a[0] == ssa.Value(lg.Params[0]) && a[1] == ssa.Value(lg.Params[1])
		}
		bad := len(w.callsTo(lg, fref{pkgCrypto, "", "LoadSFilePVEmptyState"}, fref{pkgCrypto, "SFilePV", "ResetWith"})) > 0
		r.Check(ok && !bad, "H-5", "LoadOrGenSFilePV:loads-state-when-key-exists", "an existing key is loaded together with its state file", "LoadOrGenSFilePV can start an existing key with an empty last-sign state", fnSite(w, lg))
	}
	// the node uses LoadOrGenSFilePV
	nn := needFn(r, "H-5", w, fref{"node", "", "NewRigoNode"})
	if nn != nil {
		use := len(w.callsTo(nn, fref{pkgCrypto, "", "LoadOrGenSFilePV"})) == 1
		bad := len(w.callsTo(nn, fref{pkgCrypto, "", "LoadSFilePVEmptyState"}, fref{pkgCrypto, "", "GenSFilePV"}, fref{pkgCrypto, "", "NewSFilePV"}, fref{pkgCrypto, "SFilePV", "ResetWith"})) > 0
		r.Check(use && !bad, "H-5", "NewRigoNode:signer", "the node's signer comes from LoadOrGenSFilePV", "the node builds its signer without loading the last-sign state", fnSite(w, nn))
	}
	// step order
	tp := w.TypesPkg(pkgCrypto)
	if tp != nil {
		val := func(n string) (int64, bool) {
			c, ok := tp.Scope().Lookup(n).(*types.Const)
			if !ok {
				return 0, false
			}
			v, ok := constant.Int64Val(c.Val())
			return v, ok
		}
		a, ok1 := val("stepPropose")
		b, ok2 := val("stepPrevote")
		c, ok3 := val("stepPrecommit")
		if !(ok1 && ok2 && ok3) {
			r.Undecided("H-5", "steps:order", "step constants not found")
		} else {
			r.Check(0 < a && a < b && b < c, "H-5", "steps:order", "stepNone < stepPropose < stepPrevote < stepPrecommit", "step constants are not ordered propose < prevote < precommit")
		}
		vs := w.Func(pkgCrypto, "voteToStep")
		if vs == nil {
			r.Undecided("H-5", "voteToStep", "voteToStep not found")
		} else {
			// every return is a constant equal to stepPrevote or stepPrecommit, one each
			seen := map[int64]bool{}
			okv := true
			for _, blk := range vs.Blocks {
				if ret, ok := lastInstr(blk).(*ssa.Return); ok {
					cst, isC := ret.Results[0].(*ssa.Const)
					if !isC {
						okv = false
						continue
					}
					v, _ := constant.Int64Val(cst.Value)
					seen[v] = true
				}
			}
			r.Check(okv && seen[b] && seen[c] && len(seen) == 2, "H-5", "voteToStep", "prevote and precommit map to distinct ordered steps, anything else panics", "voteToStep does not map prevote/precommit to their distinct steps", fnSite(w, vs))
		}
	}
}

// ---- H-6

func h6(w *World, r *Report) {
	var callers []string
	okAll := true
	for _, fn := range w.ModuleFuncs() {
		if w.FuncPkgPath(fn) != absPkg(pkgCrypto) {
			continue
		}
		for _, c := range w.callsTo(fn, fref{"github.com/tendermint/tendermint/crypto", "PrivKey", "Sign"}) {
			nm := w.FName(fn)
			callers = append(callers, nm+" @"+site(w, c))
			allowed := map[string]string{"crypto.(*SFilePV).signVote": "", "crypto.(*SFilePV).signProposal": ""}
			if _, ok := allowed[nm]; !ok {
				// a helper that only the two signers reach is still behind their HRS check
				if _, ok := w.onlyReachedFrom(fn, allowed, 0, map[*ssa.Function]bool{}); !ok {
					okAll = false
				}
			}
		}
	}
	if okAll && len(callers) >= 1 {
		r.OK("H-6", "PrivKey.Sign:callers", "the validator key signs only in signVote/signProposal", callers...)
	} else {
		r.Violate("H-6", "PrivKey.Sign:callers", "PrivKey.Sign is called outside signVote/signProposal (a signature that bypasses the HRS check)", nil, callers...)
	}
}

// ---- the recorder summary (location based, independent of names and receivers)

type recSummary struct {
	fn         *ssa.Function
	baseParam  int  // parameter through which the state object is reached
	viaField   bool // true: state is param.LastSignState; false: state is *param
	fieldParam map[string]int
	stores     map[string]ssa.Instruction
	save       ssa.CallInstruction
	nSave      int
}

var c20Recorders = map[*ssa.Function]*recSummary{}

// recordSummary: fn calls SFilePVLastSignState.Save on an object reached from
// one of its parameters and stores fields of that same object.
func (w *World) recordSummary(fn *ssa.Function) *recSummary {
	if fn == nil || fn.Blocks == nil {
		return nil
	}
	saves := w.callsTo(fn, fref{pkgCrypto, "SFilePVLastSignState", "Save"})
	if len(saves) == 0 {
		return nil
	}
	// root of a state pointer: (param index, viaField)
	root := func(v ssa.Value) (int, bool, bool) {
		v = stripConv(v)
		if p, ok := v.(*ssa.Parameter); ok {
			if i, ok := paramIndexRaw(fn, p); ok {
				return i, false, true
			}
		}
		if fa, ok := v.(*ssa.FieldAddr); ok && fieldName(fa.X.Type(), fa.Field) == "LastSignState" {
			if p, ok := stripConv(fa.X).(*ssa.Parameter); ok {
				if i, ok := paramIndexRaw(fn, p); ok {
					return i, true, true
				}
			}
		}
		return 0, false, false
	}
	rcv, _ := callRecvArgs(saves[0].Common())
	bp, via, ok := root(rcv)
	if !ok {
		return nil
	}
	sum := &recSummary{fn: fn, baseParam: bp, viaField: via, fieldParam: map[string]int{}, stores: map[string]ssa.Instruction{}, save: saves[0], nSave: len(saves)}
	// the fields may be set by a setter of the state object that fn hands its own
	// parameters to (`state.setLastSigned(h, r, s, bytes, sig)`): the setter's call
	// stands for the stores, its parameters are read as fn's
	for _, hc := range CallsIn(fn) {
		g := hc.Common().StaticCallee()
		if g == nil || !w.InModule(g) || g.Blocks == nil || g.Signature.Recv() == nil || len(hc.Common().Args) != len(g.Params) || g.Name() == "Save" {
			continue
		}
		i, v, ok := root(hc.Common().Args[0])
		if !ok || i != bp || v != via || !instrDominates(hc, saves[0]) {
			continue
		}
		for _, fs := range w.fieldStores(g) {
			fa := fs.Addr.(*ssa.FieldAddr)
			if stripConv(fa.X) != ssa.Value(g.Params[0]) {
				continue
			}
			sum.stores[fs.Field.Name()] = hc
			if gp, isP := stripConv(fs.Val).(*ssa.Parameter); isP {
				if gi, ok := paramIndexRaw(g, gp); ok {
					if fp, isFP := stripConv(hc.Common().Args[gi]).(*ssa.Parameter); isFP {
						if pi, ok := paramIndexRaw(fn, fp); ok {
							sum.fieldParam[fs.Field.Name()] = pi
						}
					}
				}
			}
		}
	}
	for _, fs := range w.fieldStores(fn) {
		fa := fs.Addr.(*ssa.FieldAddr)
		i, v, ok := root(fa.X)
		if !ok || i != bp || v != via {
			continue
		}
		sum.stores[fs.Field.Name()] = fs.In
		val := stripConv(fs.Val)
		if cv, ok := val.(*ssa.ChangeType); ok {
			val = cv.X
		}
		if cv, ok := val.(*ssa.Convert); ok {
			val = cv.X
		}
		if p, ok := val.(*ssa.Parameter); ok {
			if pi, ok := paramIndexRaw(fn, p); ok {
				sum.fieldParam[fs.Field.Name()] = pi
			}
		}
	}
	return sum
}

// paramIndexRaw: index of p in fn.Params (receiver included at 0).
func paramIndexRaw(fn *ssa.Function, p *ssa.Parameter) (int, bool) {
	for i, q := range fn.Params {
		if q == p {
			return i, true
		}
	}
	return 0, false
}
