package main

// C20 — the signer never double-signs (DESIGN §3 C20, rules H-1 … H-6).

import (
	"fmt"
	"go/constant"
	"go/token"
	"go/types"
	"sort"
	"strings"

	"golang.org/x/tools/go/ssa"
)

func init() { register("C20", checkC20) }

const pkgCrypto = "types/crypto"

func checkC20(w *World, r *Report) {
	r.Explanation = "Structural clause of C20 decided from source: (H-1) CheckHRS, which touches its inputs only through comparisons and nil tests, is evaluated on all 108 sign/nil abstractions of its inputs over its CFG and compared with the lexicographic reference; (H-2) in signVote/signProposal the CheckHRS error returns before PrivKey.Sign, Sign is reachable only when sameHRS is false, and on sameHRS the only signature released is the stored one under bytes.Equal / only-differ-by-timestamp; (H-3) saveSigned(h,r,step,signBytes,sig) with the checked and signed values dominates the release of the signature; (H-4) saveSigned stores all five fields before Save(), Save() reaches tempfile.WriteFileAtomic(filePath, MarshalIndent(lss)) and panics on error, all five fields are exported and JSON-tagged; (H-5) the loader unmarshals the state file into the returned state when loadState is true, LoadSFilePV passes true, LoadOrGenSFilePV and the node use that path, step constants are ordered; (H-6) PrivKey.Sign on an SFilePV has no other caller."
	r.NotCovered = "atomicity/fsync of tendermint's tempfile.WriteFileAtomic; secp256k1; two processes sharing one key file; the canonical sign-bytes encoders of tendermint."

	h1(w, r)
	for _, nm := range []string{"signVote", "signProposal"} {
		h2h3(w, r, nm)
	}
	h4(w, r)
	h5(w, r)
	h6(w, r)
	r.Floor("H-1", 1, "CheckHRS decision table")
	r.Floor("H-2", 8, "2 signers x (error-before-sign, sign-only-when-not-same, reuse value, reuse condition)")
	r.Floor("H-3", 4, "2 signers x (save dominates release, save arguments)")
	r.Floor("H-4", 8, "5 field stores + Save call + write + tags")
	r.Floor("H-5", 5, "loader")
	r.Floor("H-6", 1, "Sign callers")
}

// ---- H-1

type hrsAbs struct {
	sgn    [3]int // sign(lss.X - x) for Height, Round, Step
	sbNil  bool
	sigNil bool
}

func h1(w *World, r *Report) {
	fn := needFn(r, "H-1", w, fref{pkgCrypto, "SFilePVLastSignState", "CheckHRS"})
	if fn == nil {
		return
	}
	if len(fn.Params) != 4 {
		r.Undecided("H-1", "CheckHRS:signature", "CheckHRS no longer takes (height, round, step)")
		return
	}
	fieldIdx := map[string]int{"Height": 0, "Round": 1, "Step": 2}
	// classify a condition: returns evaluator or error
	evalCond := func(c ssa.Value, a hrsAbs) (bool, error) {
		neg := false
		for {
			if u, ok := c.(*ssa.UnOp); ok && u.Op == token.NOT {
				c = u.X
				neg = !neg
				continue
			}
			break
		}
		bo, ok := c.(*ssa.BinOp)
		if !ok {
			return false, fmt.Errorf("condition %s is not a comparison", w.Canon(c))
		}
		fieldOfRecv := func(v ssa.Value) (string, bool) {
			v = stripConv(v)
			u, ok := v.(*ssa.UnOp)
			if !ok || u.Op != token.MUL {
				return "", false
			}
			fa, ok := u.X.(*ssa.FieldAddr)
			if !ok || fa.X != fn.Params[0] {
				return "", false
			}
			return fieldName(fa.X.Type(), fa.Field), true
		}
		paramIdx := func(v ssa.Value) (int, bool) {
			p, ok := v.(*ssa.Parameter)
			if !ok {
				return 0, false
			}
			for i, q := range fn.Params {
				if q == p {
					return i - 1, true
				}
			}
			return 0, false
		}
		x, y, op := bo.X, bo.Y, bo.Op
		// nil tests
		if c, ok := y.(*ssa.Const); ok && c.IsNil() {
			if f, ok := fieldOfRecv(x); ok && (op == token.EQL || op == token.NEQ) {
				var isNil bool
				switch f {
				case "SignBytes":
					isNil = a.sbNil
				case "Signature":
					isNil = a.sigNil
				default:
					return false, fmt.Errorf("nil test on unexpected field %s", f)
				}
				res := isNil == (op == token.EQL)
				return res != neg, nil
			}
		}
		// comparisons field vs param (either order)
		f, okf := fieldOfRecv(x)
		pi, okp := paramIdx(y)
		if !(okf && okp) {
			f2, okf2 := fieldOfRecv(y)
			pi2, okp2 := paramIdx(x)
			if !(okf2 && okp2) {
				return false, fmt.Errorf("condition %s is not <lss field> cmp <parameter>", w.Canon(c))
			}
			f, pi = f2, pi2
			if fl, ok := flipOp[op]; ok {
				op = fl
			}
		}
		fi, ok := fieldIdx[f]
		if !ok || fi != pi {
			return false, fmt.Errorf("condition %s compares field %s with parameter #%d", w.Canon(c), f, pi)
		}
		s := a.sgn[fi] // sign(field - param)
		var res bool
		switch op {
		case token.GTR:
			res = s > 0
		case token.GEQ:
			res = s >= 0
		case token.LSS:
			res = s < 0
		case token.LEQ:
			res = s <= 0
		case token.EQL:
			res = s == 0
		case token.NEQ:
			res = s != 0
		default:
			return false, fmt.Errorf("operator %s in %s", op, w.Canon(c))
		}
		return res != neg, nil
	}
	run := func(a hrsAbs) (string, error) {
		b := fn.Blocks[0]
		for steps := 0; steps < 200; steps++ {
			switch t := lastInstr(b).(type) {
			case *ssa.If:
				v, err := evalCond(t.Cond, a)
				if err != nil {
					return "", err
				}
				if v {
					b = b.Succs[0]
				} else {
					b = b.Succs[1]
				}
			case *ssa.Jump:
				b = b.Succs[0]
			case *ssa.Return:
				if len(t.Results) != 2 {
					return "", fmt.Errorf("unexpected result arity")
				}
				c, ok := t.Results[0].(*ssa.Const)
				if !ok || c.Value == nil || c.Value.Kind() != constant.Bool {
					return "", fmt.Errorf("first result is not a boolean constant")
				}
				st := w.errState(t)
				if st == triUnknown {
					return "", fmt.Errorf("error result at %s is not decidable", w.InstrPos(t))
				}
				return fmt.Sprintf("(%v,%s)", constant.BoolVal(c.Value), map[tri]string{triNil: "nil", triNonNil: "err"}[st]), nil
			case *ssa.Panic:
				return "panic", nil
			default:
				return "", fmt.Errorf("unexpected terminator %T", t)
			}
		}
		return "", fmt.Errorf("no termination")
	}
	ref := func(a hrsAbs) string {
		lex := 0
		for i := 0; i < 3; i++ {
			if a.sgn[i] != 0 {
				lex = a.sgn[i]
				break
			}
		}
		switch {
		case lex > 0:
			return "(false,err)"
		case lex < 0:
			return "(false,nil)"
		}
		if !a.sbNil {
			if a.sigNil {
				return "panic"
			}
			return "(true,nil)"
		}
		return "(false,err)"
	}
	n, bad := 0, 0
	var firstBad string
	for h := -1; h <= 1; h++ {
		for rr := -1; rr <= 1; rr++ {
			for s := -1; s <= 1; s++ {
				for _, sb := range []bool{true, false} {
					for _, sg := range []bool{true, false} {
						a := hrsAbs{[3]int{h, rr, s}, sb, sg}
						got, err := run(a)
						n++
						if err != nil {
							r.Undecided("H-1", "CheckHRS:table", "shape of CheckHRS not recognised: "+err.Error(), fnSite(w, fn))
							return
						}
						if want := ref(a); got != want {
							bad++
							if firstBad == "" {
								firstBad = fmt.Sprintf("sign(last-req) H=%d R=%d S=%d signBytesNil=%v signatureNil=%v: CheckHRS gives %s, reference %s", h, rr, s, sb, sg, got, want)
							}
						}
					}
				}
			}
		}
	}
	r.Extra["h1_abstract_inputs"] = n
	if bad > 0 {
		r.Violate("H-1", "CheckHRS:table", fmt.Sprintf("%d of %d abstract inputs disagree with the lexicographic HRS reference; first: %s", bad, n, firstBad), nil, fnSite(w, fn))
	} else {
		r.OK("H-1", "CheckHRS:table", fmt.Sprintf("all %d abstract inputs agree with the reference (regression ⇔ last HRS lexicographically greater; equal ⇒ reuse iff SignBytes present; greater request ⇒ sign)", n), fnSite(w, fn))
	}
}

// ---- H-2, H-3

func h2h3(w *World, r *Report, name string) {
	fn := needFn(r, "H-2", w, fref{pkgCrypto, "SFilePV", name})
	if fn == nil {
		return
	}
	key := "crypto.(*SFilePV)." + name
	checks := w.callsTo(fn, fref{pkgCrypto, "SFilePVLastSignState", "CheckHRS"})
	signs := w.callsTo(fn, fref{"github.com/tendermint/tendermint/crypto", "PrivKey", "Sign"})
	// the recorder: the callee that stores the last-sign fields and calls Save()
	// (whatever its name and receiver)
	var saves []ssa.CallInstruction
	var sum *recSummary
	for _, c := range CallsIn(fn) {
		if cal := c.Common().StaticCallee(); cal != nil && w.InModule(cal) {
			if s := w.recordSummary(cal); s != nil {
				saves = append(saves, c)
				sum = s
			}
		}
	}
	if len(checks) != 1 || len(signs) != 1 || len(saves) != 1 {
		r.Undecided("H-2", key+":shape", fmt.Sprintf("expected exactly one CheckHRS call, one PrivKey.Sign call and one call of a function that records the last-sign state and saves it; found %d/%d/%d", len(checks), len(signs), len(saves)), fnSite(w, fn))
		return
	}
	chk, sign, save := checks[0], signs[0], saves[0]
	c20Recorders[sum.fn] = sum
	chkV := callValue(chk)
	same := extractOf(chkV, 0)
	cerr := extractOf(chkV, 1)
	if same == nil || cerr == nil {
		r.Violate("H-2", key+":CheckHRS-results-used", "a result of CheckHRS is discarded", nil, site(w, chk))
		return
	}
	// the receiver of CheckHRS must be a copy (or the address) of pv.LastSignState
	lssRecv, chkArgs := callRecvArgs(chk.Common())
	lssOK := false
	if a, ok := lssRecv.(*ssa.Alloc); ok {
		// local copy: initial store must be a load of recv.LastSignState
		if a.Referrers() != nil {
			for _, ref := range *a.Referrers() {
				if st, ok := ref.(*ssa.Store); ok && st.Addr == a && w.isFieldLoad(st.Val, "recv", "LastSignState") && instrDominates(st, chk) {
					lssOK = true
				}
			}
		}
	} else if w.isFieldLoad(lssRecv, "recv", "LastSignState") {
		lssOK = true
	}
	r.Check(lssOK, "H-2", key+":CheckHRS-on-last-sign-state", "CheckHRS is evaluated on the signer's LastSignState", "CheckHRS is not evaluated on pv.LastSignState", site(w, chk))

	// (a) error of CheckHRS returned before Sign
	guarded := false
	for _, g := range w.Guards(fn) {
		if bo, ok := g.If.Cond.(*ssa.BinOp); ok && (sameValue(bo.X, cerr) || sameValue(bo.Y, cerr)) && g.Protects(sign.Block()) {
			guarded = true
		}
	}
	r.Check(guarded, "H-2", key+":error-before-sign", "CheckHRS error returns before PrivKey.Sign", "PrivKey.Sign is reachable although CheckHRS returned an error (regression not refused)", site(w, chk), site(w, sign))

	// (b) Sign only when sameHRS is false
	e, _ := w.underCond(sign.Block(), func(c ssa.Value) bool { return sameValue(c, same) })
	r.Check(e == -1, "H-2", key+":sign-only-when-not-sameHRS", "PrivKey.Sign is dominated by the sameHRS=false edge", "PrivKey.Sign is reachable when CheckHRS reported the same HRS (two signatures for one height/round/step)", site(w, sign))

	// (c) signature releases
	var out ssa.Value // the vote / proposal parameter
	if len(fn.Params) == 3 {
		out = fn.Params[2]
	}
	signV := callValue(sign)
	sig := extractOf(signV, 0)
	var sigStores, reuseStores []fieldStore
	for _, fs := range w.fieldStores(fn) {
		if fs.Field.Name() != "Signature" {
			continue
		}
		fa := fs.Addr.(*ssa.FieldAddr)
		if fa.X != out {
			continue
		}
		if sig != nil && sameValue(fs.Val, sig) {
			sigStores = append(sigStores, fs)
		} else {
			reuseStores = append(reuseStores, fs)
		}
	}
	if len(sigStores) == 0 {
		r.Undecided("H-3", key+":release", "no store of the fresh signature into the message found", fnSite(w, fn))
	}
	for _, fs := range reuseStores {
		// must be the stored signature, under sameHRS and under equality / timestamp-only difference
		valOK := false
		if u, ok := stripConv(fs.Val).(*ssa.UnOp); ok && u.Op == token.MUL {
			if fa, ok := u.X.(*ssa.FieldAddr); ok && fa.X == lssRecv && fieldName(fa.X.Type(), fa.Field) == "Signature" {
				valOK = true
			}
		}
		r.Check(valOK, "H-2", key+":reuse-value", "the signature re-released on sameHRS is LastSignState.Signature", "a signature other than the stored one is released on the sameHRS path: "+w.Canon(fs.Val), site(w, fs.In))
		es, _ := w.underCond(fs.In.Block(), func(c ssa.Value) bool { return sameValue(c, same) })
		ec := w.condHolds(fs.In.Block(), 1, func(c ssa.Value) bool {
			c = stripConv(c)
			if call, ok := c.(*ssa.Call); ok && w.callIs(call.Common(), fref{"bytes", "", "Equal"}) {
				// bytes.Equal(signBytes, lss.SignBytes) in either order
				a0, a1 := call.Common().Args[0], call.Common().Args[1]
				return w.isLssField(a0, lssRecv, "SignBytes") || w.isLssField(a1, lssRecv, "SignBytes")
			}
			if ex, ok := c.(*ssa.Extract); ok && ex.Index == 1 {
				if call, ok := ex.Tuple.(*ssa.Call); ok {
					nm := callName(call.Common())
					if strings.HasPrefix(nm, "check") && strings.HasSuffix(nm, "OnlyDifferByTimestamp") && w.FuncPkgPath(call.Common().StaticCallee()) == absPkg(pkgCrypto) {
						return w.isLssField(call.Common().Args[0], lssRecv, "SignBytes")
					}
				}
			}
			return false
		})
		r.Check(es == 1 && ec, "H-2", key+":reuse-condition", "stored signature released only under sameHRS and (bytes.Equal with the stored SignBytes or only-differ-by-timestamp)", "stored signature released without the same-message test (conflicting data would be signed off)", site(w, fs.In))
	}
	if len(reuseStores) == 0 {
		r.Undecided("H-2", key+":reuse", "no re-release of the stored signature found on the sameHRS path (the property requires the original signature to be returned)", fnSite(w, fn))
	}

	// H-3: saveSigned dominates release, with the right arguments
	for _, fs := range sigStores {
		r.Check(instrDominates(save, fs.In), "H-3", key+":save-before-release", "saveSigned dominates the store of the fresh signature into the message", "the fresh signature is released before the last-sign state is saved", site(w, save), site(w, fs.In))
	}
	// every nil-error return after Sign must be dominated by saveSigned
	okRet := true
	var badRet ssa.Instruction
	for _, ex := range exitsAvoiding(posOf(sign), func(in ssa.Instruction) bool { return in == ssa.Instruction(save.(ssa.Instruction)) }, nil) {
		if ret, ok := ex.(*ssa.Return); ok {
			if st := w.errState(ret); st == triNil || st == triUnknown {
				// allowed only if it is the error return of Sign itself
				if st == triUnknown && w.returnsErrOf(ret, signV) {
					continue
				}
				okRet = false
				badRet = ret
			}
		}
	}
	if okRet {
		r.OK("H-3", key+":no-success-without-save", "no success return is reachable after Sign without passing saveSigned", site(w, sign))
	} else {
		r.Violate("H-3", key+":no-success-without-save", "a success return is reachable after PrivKey.Sign without saveSigned", nil, site(w, sign), site(w, badRet))
	}
	// the recorder's arguments, in terms of its summary: which actual value lands
	// in which field, and which object is updated
	sargs := save.Common().Args
	_, signArgs := callRecvArgs(sign.Common())
	arg := func(f string) ssa.Value {
		if i, ok := sum.fieldParam[f]; ok && i < len(sargs) {
			return sargs[i]
		}
		return nil
	}
	argsOK := len(chkArgs) == 3 && len(signArgs) == 1 && sig != nil
	if argsOK {
		for i, f := range []string{"Height", "Round", "Step"} {
			a := arg(f)
			argsOK = argsOK && a != nil && sameValue(a, chkArgs[i])
		}
		sb, sg := arg("SignBytes"), arg("Signature")
		argsOK = argsOK && sb != nil && sg != nil && sameValue(sb, signArgs[0]) && sameValue(sg, sig)
	}
	r.Check(argsOK, "H-3", key+":save-arguments", sum.fn.Name()+" records the checked (height, round, step), the signed bytes and the signature", sum.fn.Name()+" does not record the values that were checked and signed", site(w, save))
	// the object updated must be the signer's own LastSignState (the memory the
	// next CheckHRS reads), not a copy of it
	locOK, locWhy := false, ""
	if sum.baseParam < len(sargs) {
		base := stripConv(sargs[sum.baseParam])
		pv := ssa.Value(fn.Params[0])
		switch {
		case sum.viaField && base == pv:
			locOK = true
		case !sum.viaField:
			if fa, ok := base.(*ssa.FieldAddr); ok && stripConv(fa.X) == pv && fieldName(fa.X.Type(), fa.Field) == "LastSignState" {
				locOK = true
			} else if _, isAlloc := base.(*ssa.Alloc); isAlloc {
				locWhy = "the state is recorded into a local copy of pv.LastSignState: the signer's in-memory state, which the next CheckHRS reads, is not advanced"
			} else {
				locWhy = "the state is recorded into " + w.Canon(base) + ", not into pv.LastSignState"
			}
		default:
			locWhy = "the recorder is not applied to this signer (" + w.Canon(base) + ")"
		}
	}
	r.Check(locOK, "H-3", key+":save-location", "the recorded state is the signer's own pv.LastSignState (the object every later CheckHRS reads)", "the last-sign record is not written to the signer's own state: "+locWhy, site(w, save))

	// the checked HRS must be the message's own height/round (and step)
	hrOK := len(chkArgs) == 3 && w.isFieldLoad(chkArgs[0], "p1", "Height") && w.isFieldLoad(chkArgs[1], "p1", "Round")
	if hrOK {
		if name == "signVote" {
			c, ok := chkArgs[2].(*ssa.Call)
			hrOK = ok && callName(c.Common()) == "voteToStep" && len(c.Common().Args) == 1 && c.Common().Args[0] == out
		} else {
			c, ok := chkArgs[2].(*ssa.Const)
			hrOK = ok && c.Value != nil && c.Value.ExactString() == "1"
		}
	}
	r.Check(hrOK, "H-2", key+":checked-HRS-is-message-HRS", "CheckHRS receives the message's own height, round and step", "CheckHRS is not called with the message's height/round/step", site(w, chk))
	// the signed bytes are the sign-bytes of this message
	sbOK := false
	if len(signArgs) == 1 {
		if c, ok := signArgs[0].(*ssa.Call); ok {
			nm := callName(c.Common())
			want := map[string]string{"signVote": "VoteSignBytes", "signProposal": "ProposalSignBytes"}[name]
			sbOK = nm == want && len(c.Common().Args) == 2 && c.Common().Args[0] == fn.Params[1] && c.Common().Args[1] == out
		}
	}
	r.Check(sbOK, "H-2", key+":signed-bytes-are-message-bytes", "the bytes signed are the canonical sign-bytes of (chainID, message)", "the bytes handed to PrivKey.Sign are not the canonical sign-bytes of this message", site(w, sign))
}

func (w *World) isLssField(v ssa.Value, lss ssa.Value, name string) bool {
	v = stripConv(v)
	// HexBytes -> []byte conversions
	if cv, ok := v.(*ssa.ChangeType); ok {
		v = cv.X
	}
	if cv, ok := v.(*ssa.Convert); ok {
		v = cv.X
	}
	if u, ok := v.(*ssa.UnOp); ok && u.Op == token.MUL {
		if fa, ok := u.X.(*ssa.FieldAddr); ok && fa.X == lss && fieldName(fa.X.Type(), fa.Field) == name {
			return true
		}
	}
	return false
}

// returnsErrOf: does ret return the error (#1) of call?
func (w *World) returnsErrOf(ret *ssa.Return, call ssa.Value) bool {
	idx := errResultIndex(ret.Parent())
	if idx < 0 || call == nil {
		return false
	}
	v := stripConv(ret.Results[idx])
	if e, ok := v.(*ssa.Extract); ok && e.Tuple == call {
		return true
	}
	return false
}

// ---- H-4

func h4(w *World, r *Report) {
	if len(c20Recorders) == 0 {
		r.Undecided("H-4", "recorder", "no function that records the last-sign state and saves it is called from signVote / signProposal")
	}
	var recs []*recSummary
	for _, s := range c20Recorders {
		recs = append(recs, s)
	}
	sort.Slice(recs, func(i, j int) bool { return w.FName(recs[i].fn) < w.FName(recs[j].fn) })
	for _, sum := range recs {
		nm := sum.fn.Name()
		r.Check(sum.nSave == 1, "H-4", nm+":Save", "the recorder saves the state exactly once, on the object whose fields it stored", fmt.Sprintf("%s calls Save %d times (expected once)", nm, sum.nSave), site(w, sum.save))
		for _, f := range []string{"Height", "Round", "Step", "SignBytes", "Signature"} {
			st, ok := sum.stores[f]
			switch {
			case !ok:
				r.Violate("H-4", nm+":store:"+f, nm+" does not store LastSignState."+f+" (the record on disk would not identify the signed HRS/message)", nil, fnSite(w, sum.fn))
			default:
				_, fromParam := sum.fieldParam[f]
				r.Check(fromParam && instrDominates(st, sum.save), "H-4", nm+":store:"+f, "field stored from a parameter before Save()", "field "+f+" is not stored from a parameter before Save() (stale last-sign record on disk)", site(w, st))
			}
		}
	}
	sfn := needFn(r, "H-4", w, fref{pkgCrypto, "SFilePVLastSignState", "Save"})
	if sfn != nil {
		wr := w.callsTo(sfn, fref{"github.com/tendermint/tendermint/libs/tempfile", "", "WriteFileAtomic"})
		ms := w.callsTo(sfn, fref{"github.com/tendermint/tendermint/libs/json", "", "MarshalIndent"}, fref{"github.com/tendermint/tendermint/libs/json", "", "Marshal"})
		if len(wr) != 1 || len(ms) != 1 {
			r.Violate("H-4", "Save:write", fmt.Sprintf("Save() must marshal the state and write it atomically exactly once (found %d marshal, %d WriteFileAtomic calls)", len(ms), len(wr)), nil, fnSite(w, sfn))
		} else {
			wa := wr[0].Common().Args
			ma := ms[0].Common().Args
			bz := extractOf(callValue(ms[0]), 0)
			ok := len(wa) >= 2 && w.Canon(wa[0]) == "recv.filePath" && bz != nil && sameValue(wa[1], bz) && len(ma) >= 1 && stripConv(ma[0]) == ssa.Value(sfn.Params[0])
			r.Check(ok, "H-4", "Save:write", "Save() writes MarshalIndent(lss) to lss.filePath with WriteFileAtomic", "Save() does not atomically write the marshalled state to its own filePath", site(w, wr[0]))
			// errors panic
			for i, call := range []ssa.CallInstruction{ms[0], wr[0]} {
				var ev ssa.Value
				if i == 0 {
					ev = extractOf(callValue(call), 1)
				} else {
					ev = callValue(call)
				}
				paniced := false
				if ev != nil {
					for _, b := range sfn.Blocks {
						if _, isP := lastInstr(b).(*ssa.Panic); isP {
							if e, _ := w.underCond(b, func(c ssa.Value) bool {
								bo, ok := c.(*ssa.BinOp)
								return ok && bo.Op == token.NEQ && (sameValue(bo.X, ev) || sameValue(bo.Y, ev))
							}); e == 1 {
								paniced = true
							}
						}
					}
				}
				r.Check(paniced, "H-4", fmt.Sprintf("Save:error-panics:%s", callName(call.Common())), "a failed save panics (the signature is never released)", "an error of "+callName(call.Common())+" does not stop the signer (signature released without a durable record)", site(w, call))
			}
		}
	}
	// tags
	n := w.Named(pkgCrypto, "SFilePVLastSignState")
	if n == nil {
		r.Undecided("H-4", "tags", "type SFilePVLastSignState not found")
		return
	}
	for _, f := range []string{"Height", "Round", "Step", "Signature", "SignBytes"} {
		fv := w.Field(pkgCrypto, "SFilePVLastSignState", f)
		tag := structTag(n, f)
		ok := fv != nil && fv.Exported() && strings.Contains(tag, `json:"`) && !strings.Contains(tag, `json:"-"`)
		r.Check(ok, "H-4", "tags:"+f, "field is exported and JSON-tagged, so it is part of the saved record", "field "+f+" is not serialised into the state file", w.posOfVar(fv))
	}
}

func (w *World) posOfVar(v *types.Var) string {
	if v == nil {
		return "-"
	}
	return w.Pos(v.Pos())
}

// ---- H-5

func h5(w *World, r *Report) {
	fn := needFn(r, "H-5", w, fref{pkgCrypto, "", "loadSFilePV"})
	if fn != nil && len(fn.Params) == 4 {
		um := w.callsTo(fn, fref{"github.com/tendermint/tendermint/libs/json", "", "Unmarshal"})
		// the unmarshal into the state: its second argument is an Alloc of SFilePVLastSignState
		var stateAlloc *ssa.Alloc
		var umCall ssa.CallInstruction
		for _, c := range um {
			a := c.Common().Args
			if len(a) == 2 {
				if al, ok := stripConv(a[1]).(*ssa.Alloc); ok && strings.HasSuffix(typeStr(deref(al.Type())), "SFilePVLastSignState") {
					stateAlloc, umCall = al, c
				}
			}
		}
		if stateAlloc == nil {
			r.Violate("H-5", "loadSFilePV:unmarshal-state", "the loader never unmarshals the state file into the last-sign state", nil, fnSite(w, fn))
		} else {
			// read from stateFilePath (p1)
			rd := false
			if ex, ok := stripConv(umCall.Common().Args[0]).(*ssa.Extract); ok {
				if c, ok := ex.Tuple.(*ssa.Call); ok && w.callIs(c.Common(), fref{"os", "", "ReadFile"}) && c.Common().Args[0] == ssa.Value(fn.Params[1]) {
					rd = true
				}
			}
			r.Check(rd, "H-5", "loadSFilePV:reads-state-file", "the state is unmarshalled from os.ReadFile(stateFilePath)", "the state is not read from stateFilePath", site(w, umCall))
			e, _ := w.underCond(umCall.Block(), func(c ssa.Value) bool { return c == ssa.Value(fn.Params[2]) })
			r.Check(e == 1, "H-5", "loadSFilePV:under-loadState", "state loading is controlled by loadState=true", "state loading is not on the loadState=true branch", site(w, umCall))
			// returned struct's LastSignState is a load of stateAlloc
			retOK := false
			for _, fs := range w.fieldStores(fn) {
				if fs.Field.Name() == "LastSignState" {
					if u, ok := fs.Val.(*ssa.UnOp); ok && u.X == stateAlloc {
						retOK = true
					}
				}
			}
			r.Check(retOK, "H-5", "loadSFilePV:returns-loaded-state", "the returned SFilePV carries the loaded state", "the returned SFilePV does not carry the state that was loaded", fnSite(w, fn))
			// read/unmarshal errors exit
			exits := len(w.callsTo(fn, fref{"github.com/tendermint/tendermint/libs/os", "", "Exit"}))
			r.Check(exits >= 4, "H-5", "loadSFilePV:errors-exit", fmt.Sprintf("%d error exits (key read, key parse, unlock, state read, state parse)", exits), "load errors no longer stop the process (signer could start with an empty last-sign state)", fnSite(w, fn))
		}
	} else if fn != nil {
		r.Undecided("H-5", "loadSFilePV:signature", "unexpected parameter list")
	}
	lf := needFn(r, "H-5", w, fref{pkgCrypto, "", "LoadSFilePV"})
	if lf != nil {
		cs := w.callsTo(lf, fref{pkgCrypto, "", "loadSFilePV"})
		ok := len(cs) == 1
		if ok {
			a := cs[0].Common().Args
			c, isC := a[2].(*ssa.Const)
			ok = isC && c.Value != nil && c.Value.Kind() == constant.Bool && constant.BoolVal(c.Value) && a[1] == ssa.Value(lf.Params[1]) && a[0] == ssa.Value(lf.Params[0])
		}
		r.Check(ok, "H-5", "LoadSFilePV:loadState-true", "LoadSFilePV loads the state file", "LoadSFilePV does not load the last-sign state", fnSite(w, lf))
	}
	lg := needFn(r, "H-5", w, fref{pkgCrypto, "", "LoadOrGenSFilePV"})
	if lg != nil {
		cs := w.callsTo(lg, fref{pkgCrypto, "", "LoadSFilePV"})
		ok := len(cs) == 1
		if ok {
			e, _ := w.underCond(cs[0].Block(), func(c ssa.Value) bool {
				call, ok := c.(*ssa.Call)
				return ok && w.callIs(call.Common(), fref{"github.com/tendermint/tendermint/libs/os", "", "FileExists"}) && call.Common().Args[0] == ssa.Value(lg.Params[0])
			})
			a := cs[0].Common().Args
			ok = e == 1 && a[0] == ssa.Value(lg.Params[0]) && a[1] == ssa.Value(lg.Params[1])
		}
		bad := len(w.callsTo(lg, fref{pkgCrypto, "", "LoadSFilePVEmptyState"}, fref{pkgCrypto, "SFilePV", "ResetWith"})) > 0
		r.Check(ok && !bad, "H-5", "LoadOrGenSFilePV:loads-state-when-key-exists", "an existing key is loaded together with its state file", "LoadOrGenSFilePV can start an existing key with an empty last-sign state", fnSite(w, lg))
	}
	// the node uses LoadOrGenSFilePV
	nn := needFn(r, "H-5", w, fref{"node", "", "NewRigoNode"})
	if nn != nil {
		use := len(w.callsTo(nn, fref{pkgCrypto, "", "LoadOrGenSFilePV"})) == 1
		bad := len(w.callsTo(nn, fref{pkgCrypto, "", "LoadSFilePVEmptyState"}, fref{pkgCrypto, "", "GenSFilePV"}, fref{pkgCrypto, "", "NewSFilePV"}, fref{pkgCrypto, "SFilePV", "ResetWith"})) > 0
		r.Check(use && !bad, "H-5", "NewRigoNode:signer", "the node's signer comes from LoadOrGenSFilePV", "the node builds its signer without loading the last-sign state", fnSite(w, nn))
	}
	// step order
	tp := w.TypesPkg(pkgCrypto)
	if tp != nil {
		val := func(n string) (int64, bool) {
			c, ok := tp.Scope().Lookup(n).(*types.Const)
			if !ok {
				return 0, false
			}
			v, ok := constant.Int64Val(c.Val())
			return v, ok
		}
		a, ok1 := val("stepPropose")
		b, ok2 := val("stepPrevote")
		c, ok3 := val("stepPrecommit")
		if !(ok1 && ok2 && ok3) {
			r.Undecided("H-5", "steps:order", "step constants not found")
		} else {
			r.Check(0 < a && a < b && b < c, "H-5", "steps:order", "stepNone < stepPropose < stepPrevote < stepPrecommit", "step constants are not ordered propose < prevote < precommit")
		}
		vs := w.Func(pkgCrypto, "voteToStep")
		if vs == nil {
			r.Undecided("H-5", "voteToStep", "voteToStep not found")
		} else {
			// every return is a constant equal to stepPrevote or stepPrecommit, one each
			seen := map[int64]bool{}
			okv := true
			for _, blk := range vs.Blocks {
				if ret, ok := lastInstr(blk).(*ssa.Return); ok {
					cst, isC := ret.Results[0].(*ssa.Const)
					if !isC {
						okv = false
						continue
					}
					v, _ := constant.Int64Val(cst.Value)
					seen[v] = true
				}
			}
			r.Check(okv && seen[b] && seen[c] && len(seen) == 2, "H-5", "voteToStep", "prevote and precommit map to distinct ordered steps, anything else panics", "voteToStep does not map prevote/precommit to their distinct steps", fnSite(w, vs))
		}
	}
}

// ---- H-6

func h6(w *World, r *Report) {
	var callers []string
	okAll := true
	for _, fn := range w.ModuleFuncs() {
		if w.FuncPkgPath(fn) != absPkg(pkgCrypto) {
			continue
		}
		for _, c := range w.callsTo(fn, fref{"github.com/tendermint/tendermint/crypto", "PrivKey", "Sign"}) {
			nm := w.FName(fn)
			callers = append(callers, nm+" @"+site(w, c))
			if nm != "crypto.(*SFilePV).signVote" && nm != "crypto.(*SFilePV).signProposal" {
				okAll = false
			}
		}
	}
	if okAll && len(callers) >= 2 {
		r.OK("H-6", "PrivKey.Sign:callers", "the validator key signs only in signVote/signProposal", callers...)
	} else {
		r.Violate("H-6", "PrivKey.Sign:callers", "PrivKey.Sign is called outside signVote/signProposal (a signature that bypasses the HRS check)", nil, callers...)
	}
}

// ---- the recorder summary (location based, independent of names and receivers)

type recSummary struct {
	fn         *ssa.Function
	baseParam  int  // parameter through which the state object is reached
	viaField   bool // true: state is param.LastSignState; false: state is *param
	fieldParam map[string]int
	stores     map[string]ssa.Instruction
	save       ssa.CallInstruction
	nSave      int
}

var c20Recorders = map[*ssa.Function]*recSummary{}

// recordSummary: fn calls SFilePVLastSignState.Save on an object reached from
// one of its parameters and stores fields of that same object.
func (w *World) recordSummary(fn *ssa.Function) *recSummary {
	if fn == nil || fn.Blocks == nil {
		return nil
	}
	saves := w.callsTo(fn, fref{pkgCrypto, "SFilePVLastSignState", "Save"})
	if len(saves) == 0 {
		return nil
	}
	// root of a state pointer: (param index, viaField)
	root := func(v ssa.Value) (int, bool, bool) {
		v = stripConv(v)
		if p, ok := v.(*ssa.Parameter); ok {
			if i, ok := paramIndexRaw(fn, p); ok {
				return i, false, true
			}
		}
		if fa, ok := v.(*ssa.FieldAddr); ok && fieldName(fa.X.Type(), fa.Field) == "LastSignState" {
			if p, ok := stripConv(fa.X).(*ssa.Parameter); ok {
				if i, ok := paramIndexRaw(fn, p); ok {
					return i, true, true
				}
			}
		}
		return 0, false, false
	}
	rcv, _ := callRecvArgs(saves[0].Common())
	bp, via, ok := root(rcv)
	if !ok {
		return nil
	}
	sum := &recSummary{fn: fn, baseParam: bp, viaField: via, fieldParam: map[string]int{}, stores: map[string]ssa.Instruction{}, save: saves[0], nSave: len(saves)}
	for _, fs := range w.fieldStores(fn) {
		fa := fs.Addr.(*ssa.FieldAddr)
		i, v, ok := root(fa.X)
		if !ok || i != bp || v != via {
			continue
		}
		sum.stores[fs.Field.Name()] = fs.In
		val := stripConv(fs.Val)
		if cv, ok := val.(*ssa.ChangeType); ok {
			val = cv.X
		}
		if cv, ok := val.(*ssa.Convert); ok {
			val = cv.X
		}
		if p, ok := val.(*ssa.Parameter); ok {
			if pi, ok := paramIndexRaw(fn, p); ok {
				sum.fieldParam[fs.Field.Name()] = pi
			}
		}
	}
	return sum
}

// paramIndexRaw: index of p in fn.Params (receiver included at 0).
func paramIndexRaw(fn *ssa.Function, p *ssa.Parameter) (int, bool) {
	for i, q := range fn.Params {
		if q == p {
			return i, true
		}
	}
	return 0, false
}
