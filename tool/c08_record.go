package main

// c08_record.go — C08 K-4: what Commit writes is what the restarted node reads.
//
//   K-4a  the last-block record is written and read as the same Go type, and its
//         custom JSON codec is a matched pair: MarshalJSON and UnmarshalJSON use
//         identical wire structs (names, types, tags) and map every wire field
//         from / to the same field of the record;
//   K-4b  every encoding/json.Unmarshal target in the state packages (ledger item
//         decoders, meta store, block context) is decodable: it contains no
//         non-empty interface, channel or function type outside a type that
//         brings its own UnmarshalJSON/UnmarshalText. encoding/json refuses such
//         a field whenever the stored value is not null, and the meta store's
//         reader turns that failure into "no record", which makes Info fall back
//         to the legacy keys (height without app hash);
//   K-4c  Info takes height and app hash from the record when there is one.

import (
	"fmt"
	"go/token"
	"go/types"
	"reflect"
	"sort"
	"strings"

	"golang.org/x/tools/go/ssa"
)

func hasMethod(t types.Type, name string) bool {
	ms := types.NewMethodSet(t)
	for i := 0; i < ms.Len(); i++ {
		if ms.At(i).Obj().Name() == name {
			return true
		}
	}
	return false
}

// jsonUndecodable returns the path of the first component of t that
// encoding/json cannot decode a non-null value into ("" if none).
func jsonUndecodable(t types.Type, path string, seen map[types.Type]bool) string {
	t = types.Unalias(t)
	if seen[t] {
		return ""
	}
	seen[t] = true
	defer delete(seen, t)
	if n, ok := t.(*types.Named); ok {
		pt := types.NewPointer(n)
		if hasMethod(pt, "UnmarshalJSON") || hasMethod(pt, "UnmarshalText") {
			return ""
		}
	}
	switch u := t.Underlying().(type) {
	case *types.Pointer:
		return jsonUndecodable(u.Elem(), path, seen)
	case *types.Slice:
		return jsonUndecodable(u.Elem(), path+"[]", seen)
	case *types.Array:
		return jsonUndecodable(u.Elem(), path+"[]", seen)
	case *types.Map:
		return jsonUndecodable(u.Elem(), path+"[k]", seen)
	case *types.Struct:
		for i := 0; i < u.NumFields(); i++ {
			f := u.Field(i)
			if !f.Exported() && !f.Embedded() {
				continue
			}
			if tag := reflect.StructTag(u.Tag(i)).Get("json"); tag == "-" {
				continue
			}
			if f.Embedded() && !f.Exported() {
				if _, isStruct := deref(f.Type()).Underlying().(*types.Struct); !isStruct {
					continue
				}
			}
			if bad := jsonUndecodable(f.Type(), path+"."+f.Name(), seen); bad != "" {
				return bad
			}
		}
	case *types.Interface:
		if u.NumMethods() > 0 {
			return fmt.Sprintf("%s (interface %s)", path, types.TypeString(t, shortQual))
		}
	case *types.Chan, *types.Signature:
		return fmt.Sprintf("%s (%s)", path, types.TypeString(t, shortQual))
	case *types.Basic:
		if u.Info()&types.IsComplex != 0 {
			return path + " (complex)"
		}
	}
	return ""
}

func isStdJSON(c *ssa.CallCommon, name string) bool {
	f := c.StaticCallee()
	return f != nil && f.Pkg != nil && f.Pkg.Pkg.Path() == "encoding/json" && f.Name() == name && f.Signature.Recv() == nil
}

// isAnyJSON also accepts tendermint's libs/json, which defers to a type's own
// MarshalJSON / UnmarshalJSON.
func isAnyJSON(c *ssa.CallCommon, name string) bool {
	if isStdJSON(c, name) {
		return true
	}
	f := c.StaticCallee()
	return f != nil && f.Pkg != nil && f.Pkg.Pkg.Path() == "github.com/tendermint/tendermint/libs/json" && f.Name() == name
}

// ifaceOperand: the concrete value boxed into an interface argument.
func ifaceOperand(v ssa.Value) ssa.Value {
	if mi, ok := v.(*ssa.MakeInterface); ok {
		return mi.X
	}
	return v
}

func k4(w *World, r *Report) {
	// ---- K-4b: decodable targets in the state packages
	statePkgs := []string{"ctrlers/", "ledger", "node", "genesis"}
	inState := func(fn *ssa.Function) bool {
		p := w.FuncPkgPath(fn)
		for _, s := range statePkgs {
			if strings.HasPrefix(p, s) || strings.Contains(p, "/"+s) {
				return true
			}
		}
		return false
	}
	nTargets := 0
	var fns []*ssa.Function
	for _, fn := range w.ModuleFuncs() {
		if fn.Blocks != nil && inState(fn) {
			fns = append(fns, fn)
		}
	}
	sort.Slice(fns, func(i, j int) bool { return w.FName(fns[i]) < w.FName(fns[j]) })
	for _, fn := range fns {
		for _, c := range CallsIn(fn) {
			if !isStdJSON(c.Common(), "Unmarshal") || len(c.Common().Args) != 2 {
				continue
			}
			tgt := ifaceOperand(c.Common().Args[1])
			nTargets++
			key := "decodable:" + w.FName(fn)
			if bad := jsonUndecodable(tgt.Type(), "", map[types.Type]bool{}); bad != "" {
				r.Violate("K-4", key, "encoding/json cannot decode a stored value into "+bad+": reading this record back fails whenever that component was written non-null, so what a commit persisted is not what a restarted node loads", nil, site(w, c))
			} else {
				r.OK("K-4", key, "every component of the decode target is a basic/struct/slice/map type or brings its own UnmarshalJSON/UnmarshalText", site(w, c))
			}
		}
	}
	if nTargets < 6 {
		r.Undecided("K-4", "decodable:targets", fmt.Sprintf("only %d encoding/json.Unmarshal targets found in the state packages (8 confirmed by reading)", nTargets))
	}

	// ---- K-4a: the last-block record's codec pair
	put := needFn(r, "K-4", w, fref{"ctrlers/types", "MetaDB", "PutLastBlockContext"})
	get := needFn(r, "K-4", w, fref{"ctrlers/types", "MetaDB", "LastBlockContext"})
	if put == nil || get == nil {
		return
	}
	var wT, rT types.Type
	// in the accessor itself or in a helper it calls
	for _, hf := range w.withModuleCallees(put, 2) {
		for _, c := range CallsIn(hf) {
			if isAnyJSON(c.Common(), "Marshal") && wT == nil {
				wT = deref(ifaceOperand(c.Common().Args[0]).Type())
			}
		}
	}
	for _, hf := range w.withModuleCallees(get, 2) {
		for _, c := range CallsIn(hf) {
			if isAnyJSON(c.Common(), "Unmarshal") && rT == nil {
				rT = deref(ifaceOperand(c.Common().Args[1]).Type())
			}
		}
	}
	if wT == nil || rT == nil {
		r.Undecided("K-4", "record:type", "MetaDB.PutLastBlockContext / LastBlockContext no longer use encoding/json or tendermint's libs/json directly; the record's codec must be re-identified")
		return
	}
	r.Check(types.Identical(wT, rT), "K-4", "record:type", "the last-block record is written and read as "+types.TypeString(wT, shortQual), fmt.Sprintf("the last-block record is written as %s but read as %s", types.TypeString(wT, shortQual), types.TypeString(rT, shortQual)), fnSite(w, put), fnSite(w, get))
	n, _ := types.Unalias(wT).(*types.Named)
	if n == nil {
		return
	}
	var mj, uj *ssa.Function
	if m := w.Prog.LookupMethod(types.NewPointer(n), n.Obj().Pkg(), "MarshalJSON"); m != nil && m.Blocks != nil {
		mj = m
	}
	if m := w.Prog.LookupMethod(types.NewPointer(n), n.Obj().Pkg(), "UnmarshalJSON"); m != nil && m.Blocks != nil {
		uj = m
	}
	if mj == nil && uj == nil {
		r.OK("K-4", "record:codec-pair", "the record uses encoding/json's reflection codec in both directions")
		return
	}
	if mj == nil || uj == nil {
		r.Violate("K-4", "record:codec-pair", n.Obj().Name()+" has only one of MarshalJSON / UnmarshalJSON: the written and the read representation differ", nil)
		return
	}
	// wire structs and field maps
	var wireM, wireU ssa.Value
	for _, c := range CallsIn(mj) {
		if isStdJSON(c.Common(), "Marshal") {
			wireM = ifaceOperand(c.Common().Args[0])
		}
	}
	for _, c := range CallsIn(uj) {
		if isStdJSON(c.Common(), "Unmarshal") {
			wireU = ifaceOperand(c.Common().Args[1])
		}
	}
	if wireM == nil || wireU == nil {
		r.Undecided("K-4", "record:wire-struct", "MarshalJSON / UnmarshalJSON of the record no longer call encoding/json on a wire struct")
		return
	}
	sm, _ := deref(wireM.Type()).Underlying().(*types.Struct)
	su, _ := deref(wireU.Type()).Underlying().(*types.Struct)
	if sm == nil || su == nil {
		r.Undecided("K-4", "record:wire-struct", "the record's wire representation is not a struct")
		return
	}
	same := sm.NumFields() == su.NumFields()
	var diff []string
	if same {
		for i := 0; i < sm.NumFields(); i++ {
			if sm.Field(i).Name() != su.Field(i).Name() || !types.Identical(sm.Field(i).Type(), su.Field(i).Type()) || !strings.EqualFold(reflect.StructTag(sm.Tag(i)).Get("json"), reflect.StructTag(su.Tag(i)).Get("json")) {
				diff = append(diff, sm.Field(i).Name())
			}
		}
	} else {
		diff = append(diff, fmt.Sprintf("%d vs %d fields", sm.NumFields(), su.NumFields()))
	}
	r.Check(len(diff) == 0, "K-4", "record:wire-struct", fmt.Sprintf("MarshalJSON and UnmarshalJSON use identical wire structs (%d fields, same names, types and json tags)", sm.NumFields()), "the wire structs of MarshalJSON and UnmarshalJSON differ: "+strings.Join(diff, ", "), fnSite(w, mj), fnSite(w, uj))
	// marshal: wire.k <- recv.f ; unmarshal: recv.g <- wire.k
	// (by type, in the codec functions and the helpers of the type they call: the
	// wire struct may be built by one helper and consumed by another)
	wireMT, wireUT := deref(wireM.Type()), deref(wireU.Type())
	isRec := func(t types.Type) bool {
		nn, _ := types.Unalias(deref(t)).(*types.Named)
		return nn != nil && nn.Obj() == n.Obj()
	}
	fieldLoad := func(v ssa.Value, host func(types.Type) bool) string {
		ld, ok := stripConv(v).(*ssa.UnOp)
		if !ok || ld.Op != token.MUL {
			return ""
		}
		fa, ok := ld.X.(*ssa.FieldAddr)
		if !ok || !host(fa.X.Type()) {
			return ""
		}
		return fieldName(fa.X.Type(), fa.Field)
	}
	mapM := map[string]string{}
	for _, g := range w.withModuleCallees(mj, 2) {
		for _, b := range g.Blocks {
			for _, in := range b.Instrs {
				st, ok := in.(*ssa.Store)
				if !ok {
					continue
				}
				if fa, ok := st.Addr.(*ssa.FieldAddr); ok && types.Identical(deref(fa.X.Type()), wireMT) {
					k := fieldName(fa.X.Type(), fa.Field)
					f := fieldLoad(st.Val, isRec)
					if old, seen := mapM[k]; seen && old != f {
						f = "" // written from different sources
					}
					mapM[k] = f
				}
			}
		}
	}
	mapU := map[string]string{}
	for _, g := range w.withModuleCallees(uj, 2) {
		for _, b := range g.Blocks {
			for _, in := range b.Instrs {
				st, ok := in.(*ssa.Store)
				if !ok {
					continue
				}
				fa, ok := st.Addr.(*ssa.FieldAddr)
				if !ok || !isRec(fa.X.Type()) {
					continue
				}
				if k := fieldLoad(st.Val, func(t types.Type) bool { return types.Identical(deref(t), wireUT) }); k != "" {
					f := fieldName(fa.X.Type(), fa.Field)
					if old, seen := mapU[k]; seen && old != f {
						f = ""
					}
					mapU[k] = f
				}
			}
		}
	}
	var bad []string
	for i := 0; i < sm.NumFields(); i++ {
		k := sm.Field(i).Name()
		switch {
		case mapM[k] == "":
			bad = append(bad, k+" is not filled from a field of the record by MarshalJSON")
		case mapU[k] == "":
			bad = append(bad, k+" is not restored into the record by UnmarshalJSON")
		case mapM[k] != mapU[k]:
			bad = append(bad, fmt.Sprintf("%s is written from %s but restored into %s", k, mapM[k], mapU[k]))
		}
	}
	r.Check(len(bad) == 0, "K-4", "record:field-map", fmt.Sprintf("every wire field is written from and restored into the same field of the record: %v", mapM), "the record does not round-trip: "+strings.Join(bad, "; "), fnSite(w, mj), fnSite(w, uj))

	// ---- K-4c: Info reports the record's height and app hash
	info := needFn(r, "K-4", w, fref{"node", "RigoApp", "Info"})
	if info == nil {
		return
	}
	usesRecord, h, a := false, false, false
	// in Info or in a helper of the application that Info calls
	for _, g := range w.withModuleCallees(info, 2) {
		if g != info && w.FuncPkgPath(g) != w.FuncPkgPath(info) {
			continue
		}
		usesRecord = usesRecord || len(w.callsTo(g, fref{"ctrlers/types", "MetaDB", "LastBlockContext"})) > 0
		h = h || len(w.callsTo(g, fref{"ctrlers/types", "BlockContext", "Height"})) > 0
		a = a || len(w.callsTo(g, fref{"ctrlers/types", "BlockContext", "AppHash"})) > 0
	}
	r.Check(usesRecord && h && a, "K-4", "Info:reads-record", "Info loads the last-block record and reports its height and app hash", "Info no longer reports height and app hash from the last-block record that Commit writes last", fnSite(w, info))
}
