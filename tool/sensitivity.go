package main

// sensitivity.go — thorough tier: the sensitivity corpus (source mutants that
// each break one rule instance; the checker must report the named obligation on
// a scratch copy and stay silent on the unmutated copy).
// These results describe the checker, not rigo-go: they are recorded in the
// evidence and printed as SENSITIVITY lines and never change the verdict.

import (
	"bufio"
	"fmt"
	"os"
	"os/exec"
	"path/filepath"
	"sort"
	"strings"
	"sync"
)

type mutant struct {
	File   string
	Expect []string // substrings, each must occur in some BAD key
	What   string
}

func loadMutants(dir string) ([]mutant, error) {
	files, err := filepath.Glob(filepath.Join(dir, "*.diff"))
	if err != nil {
		return nil, err
	}
	sort.Strings(files)
	var out []mutant
	only := os.Getenv("RIGOCHECK_MUTANTS") // development aid: substring filter
	for _, f := range files {
		if only != "" && !strings.Contains(filepath.Base(f), only) {
			continue
		}
		fh, err := os.Open(f)
		if err != nil {
			return nil, err
		}
		m := mutant{File: f}
		sc := bufio.NewScanner(fh)
		for sc.Scan() {
			ln := sc.Text()
			if !strings.HasPrefix(ln, "#") {
				break
			}
			ln = strings.TrimSpace(strings.TrimPrefix(ln, "#"))
			if strings.HasPrefix(ln, "expect:") {
				for _, e := range strings.Split(strings.TrimPrefix(ln, "expect:"), ",") {
					if e = strings.TrimSpace(e); e != "" {
						m.Expect = append(m.Expect, e)
					}
				}
			} else if strings.HasPrefix(ln, "what:") {
				m.What = strings.TrimSpace(strings.TrimPrefix(ln, "what:"))
			}
		}
		fh.Close()
		out = append(out, m)
	}
	return out, nil
}

type mutResult struct {
	Mutant   string   `json:"mutant"`
	What     string   `json:"what"`
	Expect   []string `json:"expect"`
	Outcome  string   `json:"outcome"` // detected | missed | skipped | other-report
	Reported []string `json:"reported,omitempty"`
}

func scratchCopy(repo string) (string, error) {
	base := os.Getenv("RIGOCHECK_SCRATCH")
	if base == "" {
		base = os.TempDir()
	}
	dir, err := os.MkdirTemp(base, "rigocheck-scratch-")
	if err != nil {
		return "", err
	}
	cmd := exec.Command("rsync", "-a", "--exclude", ".git", repo+"/", dir+"/")
	if out, err := cmd.CombinedOutput(); err != nil {
		os.RemoveAll(dir)
		return "", fmt.Errorf("rsync: %v %s", err, out)
	}
	return dir, nil
}

func runSelf(repo, prop string, extraEnv []string) ([]string, string, error) {
	exe, err := os.Executable()
	if err != nil {
		return nil, "", err
	}
	cmd := exec.Command(exe, "-repo", repo, "-prop", prop, "-noevidence")
	cmd.Env = append(os.Environ(), extraEnv...)
	out, _ := cmd.CombinedOutput()
	var bad []string
	summary := ""
	for _, ln := range strings.Split(string(out), "\n") {
		if strings.HasPrefix(ln, "BAD ") {
			if i := strings.Index(ln, "key="); i >= 0 {
				k := ln[i+4:]
				if j := strings.Index(k, " detail="); j >= 0 {
					k = k[:j]
				}
				bad = append(bad, k)
			}
		}
		if strings.HasPrefix(ln, "SUMMARY ") {
			summary = ln
		}
		if strings.HasPrefix(ln, "ANALYSIS INCOMPLETE") {
			bad = append(bad, "A0:"+ln)
			summary = ln
		}
	}
	if summary == "" {
		return bad, "", fmt.Errorf("no summary from self-run: %s", tail(string(out), 400))
	}
	return bad, summary, nil
}

func tail(s string, n int) string {
	if len(s) > n {
		return s[len(s)-n:]
	}
	return s
}

// runThorough adds the thorough-tier records to r.Extra. baseline = keys that
// are bad on the unmutated tree (known findings); they are ignored in mutants.
func runThorough(w *World, r *Report, verifDir string) {
	baseline := map[string]bool{}
	for _, o := range r.Obs {
		if o.Status != stOK {
			baseline[o.Key] = true
		}
	}
	// The module has no build-tagged files and does not type-check with
	// CGO_ENABLED=0 (go-ethereum's secp256k1 binding), so the default build
	// configuration is the only one; recorded, not re-run.
	r.Extra["build_configurations"] = "default only: no //go:build files in the module; CGO_ENABLED=0 does not type-check"

	// (i) mutants
	muts, err := loadMutants(filepath.Join(verifDir, "mutants", r.Prop))
	if err != nil {
		r.Extra["mutants_error"] = err.Error()
		return
	}
	results := make([]mutResult, len(muts))
	var wg sync.WaitGroup
	sem := make(chan struct{}, 4)
	for i, m := range muts {
		wg.Add(1)
		go func(i int, m mutant) {
			defer wg.Done()
			sem <- struct{}{}
			defer func() { <-sem }()
			res := mutResult{Mutant: filepath.Base(m.File), What: m.What, Expect: m.Expect}
			dir, err := scratchCopy(w.RepoDir)
			if err != nil {
				res.Outcome = "skipped"
				res.Reported = []string{err.Error()}
				results[i] = res
				return
			}
			defer os.RemoveAll(dir)
			cmd := exec.Command("patch", "-p1", "--no-backup-if-mismatch", "-s", "-F", "3", "-i", m.File)
			cmd.Dir = dir
			if out, err := cmd.CombinedOutput(); err != nil {
				res.Outcome = "skipped"
				res.Reported = []string{"patch does not apply: " + tail(string(out), 200)}
				results[i] = res
				return
			}
			bad, _, err := runSelf(dir, r.Prop, nil)
			if err != nil {
				res.Outcome = "skipped"
				res.Reported = []string{err.Error()}
				results[i] = res
				return
			}
			var newBad []string
			for _, k := range bad {
				if !baseline[k] {
					newBad = append(newBad, k)
				}
			}
			res.Reported = newBad
			hit := len(m.Expect) > 0
			for _, e := range m.Expect {
				found := false
				for _, k := range newBad {
					if strings.Contains(k, e) {
						found = true
					}
				}
				if !found {
					hit = false
				}
			}
			switch {
			case hit:
				res.Outcome = "detected"
			case len(newBad) > 0:
				res.Outcome = "other-report"
			default:
				res.Outcome = "missed"
			}
			results[i] = res
		}(i, m)
	}
	wg.Wait()
	det, miss, skip, other := 0, 0, 0, 0
	for _, res := range results {
		switch res.Outcome {
		case "detected":
			det++
		case "missed":
			miss++
		case "skipped":
			skip++
		case "other-report":
			other++
		}
		fmt.Printf("SENSITIVITY: mutant %-40s %-12s expect=%v reported=%v\n", res.Mutant, res.Outcome, res.Expect, res.Reported)
	}
	r.Extra["mutants_total"] = len(muts)
	r.Extra["mutants_detected"] = det
	r.Extra["mutants_reported_under_other_key"] = other
	r.Extra["mutants_missed"] = miss
	r.Extra["mutants_skipped"] = skip
	r.Extra["mutants"] = results
	fmt.Printf("SENSITIVITY: %d mutants: %d detected, %d reported under another key, %d missed, %d skipped\n", len(muts), det, other, miss, skip)
}
