package main

// C15 — governance: validators only, 2/3 of snapshot power, timed application
// (DESIGN §3 C15, Gv-1 … Gv-5).

import (
	"fmt"
	"go/token"
	"go/types"
	"os"
	"regexp"
	"strings"

	"golang.org/x/tools/go/ssa"
)

func init() { register("C15", checkC15) }

const pkgGov = "ctrlers/gov"
const pkgProp = "ctrlers/gov/proposal"

func checkC15(w *World, r *Report) {
	r.Explanation = "Structural clause of C15 (Gv-7: no in-place 256-bit operation writes into a governance parameter object — accessors such as MinValidatorStake() hand out the stored object itself; shared with C06 X-6): (Gv-1) every success path of a proposal validation passes the guards: receiver is the zero address, sender is a current validator, payload type, no duplicate key in the exec-selected overlay, start > current height, min <= period <= max (governance limits), no overflow of start+period, applying height >= end + lazy-applying blocks, at least one option, and parseable options for parameter proposals; (Gv-2) every success path of a vote validation passes: zero receiver, payload type, the proposal exists in the exec-selected overlay, sender is one of its recorded voters, 0 <= choice < number of options, start <= height <= end; (Gv-3) a proposal's voters are the current validators with their current power, its total is their sum, majority = total x 2 / 3, end = start + period, a vote cancels the voter's previous vote before counting the new one with the recorded power; (Gv-4) a proposal leaves voting only when end < height, is frozen only if the top option (descending sort) holds at least the majority power, is applied only when applying height <= height, the winning option is merged with the current parameters, recorded and handed to Commit, which installs it; (Gv-5) MergeGovParams treats every parameter field, and the JSON/proto codecs cover every field; (Gv-6) tally integrity: votes name options by index and the winner is decided once, so GovProposal.MajorOption and the order of GovProposal.Options are written only by the constructor and by updateMajorOption, which is called only through UpdateMajorOption from the freeze scan (after the window has closed); no other function sorts or replaces elements of an option list; (Gv-8) punishment changes a proposal as the block has it so far: the object written back is the overlay's own, not a copy decoded from the committed tree, and the proposals punished are those whose voters contain the address (C01 D-6 stale-copy, C14 J-1). Gv-4 also requires that the document decoded at the applying height is the winning option's own text; a rewritten text may be decoded only where the stored text is known not to parse."
	r.NotCovered = "tallies over vote histories; two proposals applied in one block; JSON parsing details of the option documents; powerOrderVoteOptions ties (two options cannot both reach 2/3)."
	gv12(w, r)
	gv3(w, r)
	gv4(w, r)
	gv5(w, r)
	gv6(w, r)
	// Gv-9: the punishment of a voter keeps the tally equal to the recorded voters'
	// choices: the vote is cancelled before the power changes or the voter is removed
	// and re-cast afterwards (C14 J-2, the GovProposal.DoPunish obligations)
	{
		tmp := NewReport(r.Prop, r.Tier)
		j2(w, tmp)
		n := 0
		for _, o := range tmp.Obs {
			if o.Rule == "J-2" && (strings.Contains(o.Key, "DoPunish") || strings.Contains(o.Key, "GovProposal.")) {
				o.Rule = "Gv-9"
				o.Key = "Gv-9:" + strings.TrimPrefix(o.Key, "J-2:")
				r.Obs = append(r.Obs, o)
				n++
			}
		}
		if n < 3 {
			r.Undecided("Gv-9", "DoPunish", "the rules on GovProposal.DoPunish (C14 J-2) matched fewer than 3 constructs")
		}
	}
	r.Floor("Gv-6", 6, "tally integrity")
	// Gv-7: the parameters change ONLY through an applied proposal: no in-place 256-bit
	// operation anywhere in the node writes into a parameter object handed out by an
	// accessor that returns the stored object (C06 X-6)
	x6(w, r, "Gv-7", NewExecCtx(w).funcs)
	// Gv-8: a proposal's recorded powers and tally are changed by punishment too: every
	// byzantine validator of a block is applied to the proposal as the block has it so
	// far — the object written back is the overlay's own, not a copy decoded from the
	// committed tree, which would undo the previous punishment (C01 D-6 stale-copy),
	// and the proposals punished are those whose voters contain the address (C14 J-1)
	{
		x := NewExecCtx(w)
		tmp := NewReport(r.Prop, r.Tier)
		d6c(w, tmp, x, consFuncs(x))
		n := 0
		for _, o := range tmp.Obs {
			if strings.HasPrefix(o.Key, "D-6:stale-copy:gov.") {
				o.Rule = "Gv-8"
				o.Key = "Gv-8:" + strings.TrimPrefix(o.Key, "D-6:")
				r.Obs = append(r.Obs, o)
				n++
			}
		}
		tmp2 := NewReport(r.Prop, r.Tier)
		j1(w, tmp2)
		for _, o := range tmp2.Obs {
			if o.Rule == "J-1" && strings.Contains(o.Key, "GovCtrler") {
				o.Rule = "Gv-8"
				o.Key = "Gv-8:" + strings.TrimPrefix(o.Key, "J-1:")
				r.Obs = append(r.Obs, o)
				n++
			}
		}
		if n < 4 {
			r.Undecided("Gv-8", "punishment", "fewer than 4 obligations about the punishment of proposals")
		}
	}
	r.Floor("Gv-1", 9, "proposal guards")
	r.Floor("Gv-2", 7, "voting guards")
	r.Floor("Gv-3", 6, "snapshot")
	r.Floor("Gv-4", 8, "timing")
	r.Floor("Gv-5", 19, "parameter fields")
}

func gv12(w *World, r *Report) {
	fn := needFn(r, "Gv-1", w, fref{pkgGov, "GovCtrler", "ValidateTrx"})
	if fn == nil {
		return
	}
	// Each guard is stated as the FACT that violates it; under that fact (and the
	// tx type) the validation must have no successful path. Conditions are matched
	// as normalised atoms over operand patterns, so the spelling of a guard
	// (De Morgan, merged ifs, Compare/Equal, early returns, helpers) is free.
	PP := `TrxPayloadProposal\)#0`
	VV := `TrxPayloadVoting\)#0`
	led := `proposalLedger\.(Get|GetFinality)`
	type gd struct {
		key     string
		fact    atom
		ok, bad string
	}
	check := func(rule string, typ int64, gs []gd) {
		base := w.evalTxCond(txAbs{typ: typ})
		// sanity: without any fact the validation can succeed for this type
		if o := w.runUnder(fn, base, nil); !o.complete || o.ok == 0 {
			r.Undecided(rule, fmt.Sprintf("ValidateTrx:type-%d", typ), "no successful validation path found for this transaction type", fnSite(w, fn))
			return
		}
		for _, g := range gs {
			ok, why := w.failsUnder(fn, base, g.fact)
			if ok {
				r.OK(rule, "ValidateTrx:"+g.key, g.ok+" ("+why+" when "+g.fact.String()+")", fnSite(w, fn))
			} else {
				r.Violate(rule, "ValidateTrx:"+g.key, g.bad+": "+why+" when "+g.fact.String(), nil, fnSite(w, fn))
			}
		}
	}
	check("Gv-1", 4, []gd{
		{"proposal:to-zero", AR(`^p0\.Tx\.To$`, "!=", `^types\.ZeroAddress\(\)$`), "a proposal must be addressed to the zero address", "a proposal addressed to a non-zero address passes validation"},
		{"proposal:by-validator", FR(`^p0\.StakeHandler\.IsValidator\(p0\.Tx\.From\)$`), "only a current validator may propose", "a non-validator can submit a proposal"},
		{"proposal:payload-type", FR(`TrxPayloadProposal\)#1$`), "wrong payload type is refused", "a proposal with a wrong payload type is not refused"},
		{"proposal:no-duplicate", AR(led+`.*\(p0\.TxHash\.Array32\(\)\)#0\)?$`, "!=", `^nil$`), "an existing proposal with the same key is refused", "a duplicate proposal key is accepted (it would overwrite the votes)"},
		{"proposal:start-in-future", AR(PP+`\.StartVotingHeight$`, "<=", `^p0\.Height$`), "voting must start after the current height", "a proposal whose voting starts now or in the past is accepted"},
		{"proposal:period-max", AR(PP+`\.VotingPeriodBlocks$`, ">", `MaxVotingPeriodBlocks\(\)$`), "period above the governance maximum is refused", "a voting period above the governance maximum is accepted"},
		{"proposal:period-min", AR(PP+`\.VotingPeriodBlocks$`, "<", `MinVotingPeriodBlocks\(\)$`), "period below the governance minimum is refused", "a voting period below the governance minimum is accepted"},
		{"proposal:no-overflow", AR(`^p0\S*`+PP+`\.StartVotingHeight$`, ">", `^\(\S*StartVotingHeight \+ \S*VotingPeriodBlocks\)$`), "start + period must not overflow", "start + period may overflow"},
		{"proposal:applying-after-lazy", AR(PP+`\.ApplyingHeight$`, "<", `LazyApplyingBlocks\(\)\)$`), "applying height must be at least end of voting + lazy-applying blocks", "a proposal can take effect earlier than end of voting + lazy-applying blocks"},
		{"proposal:has-options", AR(`^len\(.*`+PP+`\.Options\)$`, "==", `^0$`), "at least one option is required", "a proposal without options is accepted"},
	})
	// parameter proposals: every option must parse
	P := "p0.Tx.Payload.(*types.TrxPayloadProposal)#0"
	var pg []*Guard
	for _, g := range w.GuardsDeep(fn, 2) {
		// in ValidateTrx or in the handler it dispatches to (which takes the same context)
		for _, c := range []string{g.Cond, g.CondI} {
			if strings.HasPrefix(c, "(json.Unmarshal("+P+".Options[") && strings.HasSuffix(c, ", new(types.GovParams)) != nil)") {
				pg = append(pg, g)
				break
			}
		}
	}
	okParse := len(pg) == 1 && w.condCanonHolds(pg[0].If.Block(), "("+P+".OptType == 257)", 1)
	if !okParse {
		// the loop over the options may sit in a helper that is handed the options: the
		// guard is read in ValidateTrx's terms, and the helper is called where the
		// proposal is a parameter proposal, its error failing the validation
		reG := regexp.MustCompile(`^\(json\.Unmarshal\((.+)\[.*\], new\(types\.GovParams\)\) != nil\)$`)
		for _, hf := range w.withModuleCallees(fn, 2) {
			if hf == fn {
				continue
			}
			for _, g := range w.Guards(hf) {
				g := g
				hit := w.inCallerTerms(fn, hf, func() bool {
					m := reG.FindStringSubmatch(w.Canon(g.If.Cond))
					return m != nil && m[1] == P+".Options"
				})
				if !hit {
					continue
				}
				// the call of the helper in ValidateTrx: under OptType == 257, result guarded
				for _, c := range CallsIn(fn) {
					call, isCall := c.(*ssa.Call)
					if !isCall || call.Common().StaticCallee() != hf {
						continue
					}
					guarded := false
					for _, g2 := range w.Guards(fn) {
						if bo, isB := g2.If.Cond.(*ssa.BinOp); isB && (sameValue(bo.X, call) || sameValue(bo.Y, call)) {
							guarded = true
						}
					}
					// or its result is what the validation returns
					if !guarded && call.Referrers() != nil {
						for _, ref := range *call.Referrers() {
							if _, isR := ref.(*ssa.Return); isR {
								guarded = true
							}
						}
					}
					if guarded && w.condCanonHolds(call.Block(), "("+P+".OptType == 257)", 1) {
						okParse = true
					}
				}
			}
		}
	}
	r.Check(okParse, "Gv-1", "ValidateTrx:proposal:options-parse", "every option of a parameter proposal must parse as governance parameters", "options of a parameter proposal are no longer parsed at validation", fnSite(w, fn))

	prop := led + `.*` + VV + `\.TxHash\.Array32\(\)\)#0\)?`
	check("Gv-2", 5, []gd{
		{"voting:to-zero", AR(`^p0\.Tx\.To$`, "!=", `^types\.ZeroAddress\(\)$`), "a vote must be addressed to the zero address", "a vote addressed to a non-zero address passes validation"},
		{"voting:payload-type", FR(`TrxPayloadVoting\)#1$`), "wrong payload type is refused", "a vote with a wrong payload type is not refused"},
		{"voting:proposal-exists", AR(led+`.*`+VV+`\.TxHash\.Array32\(\)\)#1\)?$`, "!=", `^nil$`), "the proposal must exist in the exec-selected overlay", "a vote for a missing proposal is not refused"},
		{"voting:is-voter", FR(prop + `\.IsVoter\(p0\.Tx\.From\)$`), "only validators recorded at submission may vote", "an account that is not among the proposal's recorded voters can vote"},
		{"voting:choice-lower", AR(VV+`\.Choice$`, "<", `^0$`), "negative choice refused", "a negative choice is accepted"},
		{"voting:choice-upper", AR(VV+`\.Choice$`, ">=", `^int32\(len\(.*`+prop+`\.Options\)\)$`), "choice must index an option", "a choice beyond the options is accepted"},
		{"voting:window-end", AR(`^p0\.Height$`, ">", prop+`\.GovProposalHeader\.EndVotingHeight$`), "no votes after the window", "a vote after the end of the window is accepted"},
		{"voting:window-start", AR(`^p0\.Height$`, "<", prop+`\.GovProposalHeader\.StartVotingHeight$`), "no votes before the window", "a vote before the start of the window is accepted"},
	})
	iv := needFn(r, "Gv-2", w, fref{pkgStake, "StakeCtrler", "IsValidator"})
	if iv != nil {
		ok := false
		for _, b := range iv.Blocks {
			for _, in := range b.Instrs {
				if c, isC := in.(ssa.CallInstruction); isC && strings.HasPrefix(w.canonCall(c.Common(), 0), "bytes.Compare(recv.lastValidators[") && strings.HasSuffix(w.canonCall(c.Common(), 0), "].Addr, p0)") {
					ok = true
				}
			}
		}
		r.Check(ok, "Gv-1", "IsValidator", "membership in the current validator set by full address", "IsValidator is not membership of the address in the current validator set", fnSite(w, iv))
	}
	ivt := needFn(r, "Gv-2", w, fref{pkgProp, "GovProposal", "IsVoter"})
	if ivt != nil {
		ok := false
		for _, b := range ivt.Blocks {
			if ret, isR := lastInstr(b).(*ssa.Return); isR {
				// however the lookup is packaged: a helper of the header, the key built by a helper
				c := w.CanonDeep(ret.Results[0])
				ok = c == "recv.GovProposalHeader.Voters[p0.String()]#1" || c == "recv.GovProposalHeader.Voters[strings.ToUpper(hex.EncodeToString(p0))]#1"
			}
		}
		r.Check(ok, "Gv-2", "IsVoter", "membership in the proposal's recorded voters", "IsVoter is not membership in the recorded voters", fnSite(w, ivt))
	}
}

func gv3(w *World, r *Report) {
	ep := needFn(r, "Gv-3", w, fref{pkgGov, "GovCtrler", "execProposing"})
	if ep != nil {
		v := "p0.StakeHandler.Validators()#0[(phi((φ + 1)|-1) + 1)]"
		// the snapshot may be taken in execProposing or in a helper it hands the validators to
		a, _ := w.findStoreDeep(ep, "new(proposal.Voter).Addr", v+".Address")
		p, _ := w.findStoreDeep(ep, "new(proposal.Voter).Power", v+".Power")
		c, _ := w.findStoreDeep(ep, "new(proposal.Voter).Choice", "-1")
		okMap := false
		var snapFn *ssa.Function // the helper that builds and returns the voter map, if any
		for _, fn := range w.withModuleCallees(ep, 2) {
			for _, b := range fn.Blocks {
				for _, in := range b.Instrs {
					mu, isM := in.(*ssa.MapUpdate)
					if !isM {
						continue
					}
					if w.inCallerTerms(ep, fn, func() bool { return w.Canon(mu.Key) == v+".Address.String()" }) {
						okMap = true
						if fn != ep {
							snapFn = fn
							for _, b2 := range fn.Blocks {
								if rt, isR := lastInstr(b2).(*ssa.Return); isR && (len(rt.Results) != 1 || w.Canon(rt.Results[0]) != "make(map[string]*proposal.Voter)") {
									snapFn = nil
								}
							}
						}
					}
				}
			}
		}
		r.Check(a != nil && p != nil && c != nil && okMap, "Gv-3", "execProposing:voters", "one voter per current validator, keyed by its address, with its current power and no choice", "the proposal's voters are not the current validators with their current power", fnSite(w, ep))
		P := "p0.Tx.Payload.(*types.TrxPayloadProposal)#0"
		var np ssa.CallInstruction
		for _, cl := range w.callsTo(ep, fref{pkgProp, "", "NewGovProposal"}) {
			np = cl
		}
		ok := np != nil
		if ok {
			ar := np.Common().Args
			want := []string{"p0.TxHash", P + ".OptType", P + ".StartVotingHeight", P + ".VotingPeriodBlocks", "p0.StakeHandler.Validators()#1", P + ".ApplyingHeight", "make(map[string]*proposal.Voter)", P + ".Options"}
			for i, wv := range want {
				if i < len(ar) && i == 6 && snapFn != nil {
					// the map the snapshot helper built from the current validators
					if sc, isC := ar[i].(*ssa.Call); isC && sc.Common().StaticCallee() == snapFn {
						continue
					}
				}
				if i >= len(ar) || w.Canon(ar[i]) != wv {
					ok = false
				}
			}
		}
		r.Check(ok, "Gv-3", "execProposing:proposal-from-payload", "the proposal is keyed by the tx hash and carries the payload's heights/options, the validators' total power and the voter snapshot", "the stored proposal is not built from the tx hash, the payload and the validator snapshot", fnSite(w, ep))
		// recorded
		rec := false
		recWhy := ""
		if np != nil {
			if pv := extractOf(callValue(np), 0); pv != nil {
				// on every success path after its construction the proposal is handed to an
				// overlay setter (directly, through the exec-selected method value, or in a helper)
				res := w.mustSink(ep, pv, np, overlayMarkSpec(w), 0)
				rec, recWhy = res.ok && len(res.funcParams) == 0, res.why
			}
		}
		_ = recWhy
		r.Check(rec, "Gv-3", "execProposing:recorded", "the new proposal is recorded in the exec-selected overlay", "the new proposal is not recorded", fnSite(w, ep))
	}
	ng := needFn(r, "Gv-3", w, fref{pkgProp, "", "NewGovProposal"})
	if ng != nil {
		// by field of the header type, wherever the header is assembled (in the proposal
		// itself or in a local that is copied in), with simple helpers looked through
		want := map[string]string{"MajorityPower": "((p4 * 2) / 3)", "TotalVotingPower": "p4", "EndVotingHeight": "(p2 + p3)", "StartVotingHeight": "p2", "ApplyingHeight": "p5", "Voters": "p6", "TxHash": "p0"}
		got := map[string]bool{}
		ok := true
		for _, fs := range w.fieldStores(ng) {
			wv, isH := want[fs.Field.Name()]
			if !isH || fs.Owner == nil || fs.Owner.Obj().Name() != "GovProposalHeader" {
				continue
			}
			if c := w.CanonDeep(fs.Val); c == wv || w.Canon(fs.Val) == wv {
				got[fs.Field.Name()] = true
			} else {
				ok = false
			}
		}
		ok = ok && len(got) == len(want)
		r.Check(ok, "Gv-3", "NewGovProposal:header", "majority = total x 2 / 3 (rounded down), end = start + period, voters and heights as given", "the proposal header is not {total, total x 2 / 3, start, start + period, applying, voters}", fnSite(w, ng))
	}
	vs := needFn(r, "Gv-3", w, fref{pkgStake, "StakeCtrler", "Validators"})
	if vs != nil {
		e := "recv.lastValidators[(phi((φ + 1)|-1) + 1)]"
		ok := w.findStore(vs, "new(types.Validator).Address", e+".Addr") != nil && w.findStore(vs, "new(types.Validator).Power", e+".TotalPower") != nil
		tot := false
		for _, b := range vs.Blocks {
			if ret, isR := lastInstr(b).(*ssa.Return); isR && b != vs.Recover && w.Canon(retResult(ret, 1)) == "phi((φ + "+e+".TotalPower)|0)" {
				tot = true
			}
		}
		r.Check(ok && tot, "Gv-3", "Validators:snapshot-source", "the snapshot lists the current validators with their total power and returns the sum", "Validators() does not return the current validators with their total power and the sum", fnSite(w, vs))
	}
	dv := needFn(r, "Gv-3", w, fref{pkgProp, "GovProposal", "DoVote"})
	if dv != nil {
		// the voter is the entry of the sender's address in the recorded voters,
		// however it is looked up (directly, or through an accessor)
		isVoter := func(v ssa.Value) bool {
			s := strings.TrimSuffix(w.CanonDeep(v), "#0")
			return strings.HasPrefix(s, "recv.GovProposalHeader.Voters[") && strings.HasSuffix(s, "]") && strings.Contains(s, "p0")
		}
		var c, d ssa.CallInstruction
		for _, cl := range CallsIn(dv) {
			_, args := callRecvArgs(cl.Common())
			switch {
			case callName(cl.Common()) == "cancelVote" && len(args) == 1 && isVoter(args[0]):
				c = cl
			case callName(cl.Common()) == "doVote" && len(args) == 2 && isVoter(args[0]) && w.Canon(args[1]) == "p1":
				d = cl
			}
		}
		if c == nil && d == nil {
			// both steps in a helper of the proposal that DoVote hands the voter and the
			// choice to: the helper's parameters are read as DoVote's arguments
			for _, hc := range CallsIn(dv) {
				g := hc.Common().StaticCallee()
				if g == nil || !w.InModule(g) || g.Blocks == nil || len(g.Params) != len(hc.Common().Args) || g.Name() == "cancelVote" || g.Name() == "doVote" {
					continue
				}
				up := func(v ssa.Value) ssa.Value {
					if pi := paramIndexIn(g, v); pi >= 0 {
						return hc.Common().Args[pi]
					}
					return v
				}
				var ic, id ssa.CallInstruction
				for _, cl := range CallsIn(g) {
					rcv, args := callRecvArgs(cl.Common())
					if rcv == nil || paramIndexIn(g, rcv) != 0 || w.Canon(hc.Common().Args[0]) != "recv" {
						continue
					}
					switch {
					case callName(cl.Common()) == "cancelVote" && len(args) == 1 && isVoter(up(args[0])):
						ic = cl
					case callName(cl.Common()) == "doVote" && len(args) == 2 && isVoter(up(args[0])) && w.Canon(up(args[1])) == "p1":
						id = cl
					}
				}
				if ic != nil && id != nil && instrDominates(ic, id) {
					// the helper's call is on every path of DoVote that votes: it stands for both
					c, d = hc, hc
				}
			}
		}
		r.Check(c != nil && d != nil && (c == d || instrDominates(c, d)), "Gv-3", "DoVote:cancel-then-vote", "the voter's earlier vote is cancelled before the new one is counted (latest vote wins, each voter counted once)", "a re-vote does not cancel the earlier vote first (a voter could be counted twice)", fnSite(w, dv))
	}
	cv := needFn(r, "Gv-3", w, fref{pkgProp, "GovProposal", "cancelVote"})
	if cv != nil {
		c := w.findCall(cv, "recv.Options[p0.Choice].CancelVote(p0.Power)")
		st := w.findStore(cv, "p0.Choice", "-1")
		r.Check(c != nil && st != nil && w.condCanonHolds(c.Block(), "(p0.Choice >= 0)", 1), "Gv-3", "cancelVote", "removes the voter's recorded power from the option it chose and clears the choice", "cancelVote does not remove the voter's power from its earlier choice", fnSite(w, cv))
	}
	dvv := needFn(r, "Gv-3", w, fref{pkgProp, "GovProposal", "doVote"})
	if dvv != nil {
		c := w.findCall(dvv, "recv.Options[p1].DoVote(p0.Power)")
		st := w.findStore(dvv, "p0.Choice", "p1")
		r.Check(c != nil && st != nil, "Gv-3", "doVote", "adds the voter's recorded power to the chosen option and records the choice", "doVote does not add the voter's recorded power to the chosen option", fnSite(w, dvv))
	}
}

func gv4(w *World, r *Report) {
	fz := w.anonOf(pkgGov, "GovCtrler", "freezeProposals", 1)
	if fz == nil {
		r.Undecided("Gv-4", "freezeProposals", "callback not found")
	} else {
		del := w.findCall(fz, "recv.proposalLedger.DelFinality(p0.Key())")
		upd := w.findCall(fz, "p0.UpdateMajorOption()")
		set := w.findCall(fz, "recv.frozenLedger.SetFinality(p0)")
		closed := "(p0.GovProposalHeader.EndVotingHeight < ^p0)"
		ok := del != nil && upd != nil && set != nil && w.condCanonHolds(del.Block(), closed, 1) && w.condCanonHolds(upd.Block(), closed, 1) && instrDominates(del, upd)
		okF := set != nil && upd != nil && w.condCanonHolds(set.Block(), "(p0.UpdateMajorOption() != nil)", 1)
		if !ok || !okF {
			// the three steps in a helper of the controller: decided on the callback's paths
			// (helpers expanded) under facts about the window and about the tally's answer
			fev := func(in ssa.Instruction) string {
				c, isC := in.(ssa.CallInstruction)
				if !isC {
					return ""
				}
				switch w.canonCall(c.Common(), 0) {
				case "recv.proposalLedger.DelFinality(p0.Key())":
					return "DEL"
				case "p0.UpdateMajorOption()":
					return "UPD"
				case "recv.frozenLedger.SetFinality(p0)":
					return "SET"
				}
				return ""
			}
			open := w.runUnder(fz, nil, fev, A("p0.GovProposalHeader.EndVotingHeight", ">=", "^p0"))
			okOpen := open.complete && open.allConsulted && open.ok > 0
			for _, evs := range open.okEvents {
				if len(evs) > 0 {
					okOpen = false
				}
			}
			all := w.runUnder(fz, nil, fev)
			okSeq, nFrozen := all.complete, 0
			for _, evs := range all.okEvents {
				j := strings.Join(evs, ",")
				switch j {
				case "", "DEL,UPD":
				case "DEL,UPD,SET":
					nFrozen++
				default:
					okSeq = false
				}
			}
			noMajor := w.runUnder(fz, nil, fev, AR(`^p0\.UpdateMajorOption\(\)$`, "==", `^nil$`))
			okNM := noMajor.complete && noMajor.allConsulted
			for _, evs := range noMajor.okEvents {
				for _, e := range evs {
					if e == "SET" {
						okNM = false
					}
				}
			}
			if okOpen && okSeq && nFrozen > 0 {
				ok = true
			}
			if okNM && okSeq && nFrozen > 0 {
				okF = true
			}
		}
		r.Check(ok, "Gv-4", "freeze:after-window", "a proposal leaves voting (and is tallied) only when its end height is below the current height", "a proposal is closed before its voting window has ended", fnSite(w, fz))
		r.Check(okF, "Gv-4", "freeze:only-with-majority", "only a proposal with a major option is kept for application", "a proposal without a major option is frozen for application", fnSite(w, fz))
	}
	um := needFn(r, "Gv-4", w, fref{pkgProp, "GovProposal", "updateMajorOption"})
	if um != nil {
		srt := false
		for _, c := range w.callsTo(um, fref{"sort", "", "Sort"}) {
			if w.sortArgType(c) == "powerOrderVoteOptions" && w.Canon(c.Common().Args[0]) == "recv.Options" {
				srt = true
			}
		}
		st := w.findStore(um, "recv.MajorOption", "recv.Options[0]")
		ok := srt && st != nil && w.condCanonHolds(st.Block(), "(recv.Options[0].Votes() >= recv.GovProposalHeader.MajorityPower)", 1) && len(w.storesTo(um, "recv.MajorOption")) == 1
		r.Check(ok, "Gv-4", "updateMajorOption:two-thirds", "the top option (descending by votes) wins iff its votes reach the recorded majority power", "the winning condition is not `top option's votes >= MajorityPower`", fnSite(w, um))
	}
	pl := needFn(r, "Gv-4", w, fref{pkgProp, "powerOrderVoteOptions", "Less"})
	if pl != nil {
		ok, _ := w.comparatorTable(pl).matchesLexicographic([]string{"#.votes"}, []int{-1})
		r.Check(ok, "Gv-4", "powerOrderVoteOptions:descending", "options are ordered by votes, descending", "options are not sorted by votes descending (Options[0] would not be the top option)", fnSite(w, pl))
	}
	if af := w.applyFlow(); af.fn == nil {
		r.Undecided("Gv-4", "applyProposals", "callback not found")
	} else {
		r.Check(af.dueOK, "Gv-4", "apply:at-applying-height", "a frozen proposal is applied only when its applying height has been reached and it has a major option", "a frozen proposal can be applied before its applying height (or without a major option): "+af.dueWhy, fnSite(w, af.fn))
		r.Check(af.docOK, "Gv-4", "apply:major-option-document", "the parameters applied are parsed from the winning option", "the parameters applied are not the winning option's document: "+af.docWhy, fnSite(w, af.fn))
	}
	// what is applied is the text that was validated: ValidateTrx parses every option
	// as it stands (Gv-1), so the document decoded at the applying height is the
	// winning option's bytes themselves. A rewritten text (the repair of records
	// stored by older releases) may only be decoded where the stored text is known
	// not to be valid JSON — such a text can not have passed validation.
	if af := w.applyFlow(); af.fn != nil {
		isOption := func(v ssa.Value) bool {
			for {
				v = stripConv(v)
				if cv, ok := v.(*ssa.Convert); ok {
					v = cv.X
					continue
				}
				break
			}
			return strings.HasSuffix(w.Canon(v), "p0.MajorOption.Option()") || strings.HasSuffix(w.CanonI(v), "p0.MajorOption.Option()")
		}
		// the option itself, also when it reaches a helper as a parameter
		var isOptionDeep func(v ssa.Value, in *ssa.Function, d int) bool
		isOptionDeep = func(v ssa.Value, in *ssa.Function, d int) bool {
			if isOption(v) {
				return true
			}
			for {
				v = stripConv(v)
				if cv, ok := v.(*ssa.Convert); ok {
					v = cv.X
					continue
				}
				break
			}
			if d > 3 || in == nil || in == af.fn {
				return false
			}
			pi := paramIndexIn(in, v)
			if pi < 0 {
				return false
			}
			n := 0
			for _, h := range w.withModuleCallees(af.fn, 2) {
				for _, cs := range w.callsToFn(h, in) {
					n++
					if !isOptionDeep(cs.Common().Args[pi], h, d+1) {
						return false
					}
				}
			}
			return n > 0
		}
		notValid := func(b *ssa.BasicBlock) bool {
			// json.Valid(option) is false here, or decoding the option's own text has failed
			if w.condHolds(b, -1, func(c ssa.Value) bool {
				cs := w.Canon(c)
				return strings.HasPrefix(cs, "json.Valid(") && strings.Contains(cs, "p0.MajorOption.Option()")
			}) {
				return true
			}
			return w.condHolds(b, 1, func(c ssa.Value) bool {
				bo, ok := c.(*ssa.BinOp)
				if !ok || bo.Op != token.NEQ {
					return false
				}
				k, isK := bo.Y.(*ssa.Const)
				call, isC := stripConv(bo.X).(*ssa.Call)
				if !isK || !k.IsNil() || !isC || callName(call.Common()) != "Unmarshal" || len(call.Common().Args) != 2 {
					return false
				}
				return isOptionDeep(call.Common().Args[0], call.Parent(), 0)
			})
		}
		nDoc := 0
		bad := ""
		scope := w.withModuleCallees(af.fn, 2)
		for _, g := range scope {
			for _, c := range CallsIn(g) {
				if obj := calleeObj(c.Common()); obj == nil || obj.Pkg() == nil || !strings.HasSuffix(obj.Pkg().Path(), "/json") || obj.Name() != "Unmarshal" {
					continue
				}
				a := c.Common().Args
				if len(a) != 2 || !strings.Contains(typeStr(stripConv(a[1]).Type()), "GovParams") {
					continue
				}
				nDoc++
				c := c
				var leaves func(v ssa.Value, in *ssa.Function, at *ssa.BasicBlock, guarded bool, d int)
				leaves = func(v ssa.Value, in *ssa.Function, at *ssa.BasicBlock, guarded bool, d int) {
					for {
						v = stripConv(v)
						if cv, ok := v.(*ssa.Convert); ok {
							v = cv.X
							continue
						}
						break
					}
					if d > 6 {
						bad = "the document decoded at " + w.InstrPos(c) + " could not be followed to its source"
						return
					}
					if ph, ok := v.(*ssa.Phi); ok {
						for i, e := range ph.Edges {
							leaves(e, in, ph.Block().Preds[i], guarded || notValid(ph.Block().Preds[i]), d+1)
						}
						return
					}
					// a helper's parameter: the arguments at its call sites below the callback
					if in != af.fn {
						if pi := paramIndexIn(in, v); pi >= 0 {
							n := 0
							for _, h := range scope {
								for _, cs := range w.callsToFn(h, in) {
									n++
									leaves(cs.Common().Args[pi], h, cs.Block(), guarded, d+1)
								}
							}
							if n == 0 {
								bad = "the document decoded at " + w.InstrPos(c) + " is a parameter of " + w.FName(in) + " without a call below the apply callback"
							}
							return
						}
					}
					if isOption(v) {
						return
					}
					blk := at
					if ins, ok := v.(ssa.Instruction); ok && ins.Block() != nil {
						blk = ins.Block()
					}
					if guarded || (blk != nil && notValid(blk)) || (at != nil && notValid(at)) {
						return
					}
					bad = "the document decoded at " + w.InstrPos(c) + " may be " + w.Canon(v) + ", which is not the text validation accepted"
				}
				leaves(a[0], g, c.Block(), notValid(c.Block()), 0)
			}
		}
		if nDoc == 0 {
			r.Undecided("Gv-4", "apply:document-as-validated", "no decoding of a parameter document found in the apply callback")
		} else {
			r.Check(bad == "", "Gv-4", "apply:document-as-validated", "the document decoded at the applying height is the winning option's own text (a rewritten text only where the stored text is not valid JSON)", "the text decoded at the applying height is not the text that was validated: an option accepted by ValidateTrx can fail to parse when it is applied, EndBlock returns the error and RigoApp.EndBlock panics on every node: "+bad, fnSite(w, af.fn))
		}
	}
	eb := needFn(r, "Gv-4", w, fref{pkgGov, "GovCtrler", "EndBlock"})
	if eb != nil {
		// the helpers may take further (non-height) arguments, e.g. a collector for the events
		withHeight := func(name string) ssa.Instruction {
			for _, c := range w.callsTo(eb, fref{pkgGov, "GovCtrler", name}) {
				n, ok := 0, true
				for _, a := range c.Common().Args[1:] {
					if b, isB := a.Type().Underlying().(*types.Basic); isB && b.Info()&types.IsInteger != 0 {
						n++
						ok = ok && w.Canon(a) == "p0.Height()"
					}
				}
				if ok && n > 0 {
					return c.(ssa.Instruction)
				}
			}
			return nil
		}
		f, a := withHeight("freezeProposals"), withHeight("applyProposals")
		r.Check(f != nil && a != nil && instrDominates(f, a), "Gv-4", "EndBlock:freeze-then-apply", "freezing and applying run once per block with the block's height", "EndBlock does not freeze and then apply with the block's height", fnSite(w, eb))
	}
	fp := needFn(r, "Gv-4", w, fref{pkgGov, "GovCtrler", "freezeProposals"})
	if fp != nil {
		c := w.findCall(fp, "recv.proposalLedger.IterateReadAllItems(closure(gov.(*GovCtrler).freezeProposals$1))")
		r.Check(c != nil, "Gv-4", "freezeProposals:scans-committed", "every committed open proposal is examined", "freezeProposals does not scan the proposal ledger", fnSite(w, fp))
	}
	// hand-over and install: C07 R-2
	rep := NewReport("C15", "quick")
	r2(w, rep)
	for _, o := range rep.Obs {
		if strings.Contains(o.Key, "applyProposals:params-persisted") || strings.Contains(o.Key, "GovCtrler.Commit:installs") || strings.Contains(o.Key, "NewGovCtrler:params") || strings.Contains(o.Key, "GovParams.Key") {
			o.Rule = "Gv-4"
			o.Key = "Gv-4:" + strings.TrimPrefix(o.Key, "R-2:")
			r.Obs = append(r.Obs, o)
		}
	}
}

// gv6 — tally integrity: a vote names its option by index into Options and the
// winner is decided once, when voting has closed. So the order of Options and
// the MajorOption field may change only on the freeze path.
func gv6(w *World, r *Report) {
	w.checkWriters(r, "Gv-6", pkgProp, "GovProposal", "MajorOption", map[string]string{
		"proposal.NewGovProposal":                   "constructor (nil)",
		"proposal.(*GovProposal).updateMajorOption": "the tally, reached only when voting has closed",
	})
	w.checkWriters(r, "Gv-6", pkgProp, "GovProposal", "Options", map[string]string{
		"proposal.NewGovProposal": "constructor",
	})
	w.checkCallers(r, "Gv-6", fref{pkgProp, "GovProposal", "updateMajorOption"}, map[string]string{
		"proposal.(*GovProposal).UpdateMajorOption": "locking wrapper",
	}, 1)
	w.checkCallers(r, "Gv-6", fref{pkgProp, "GovProposal", "UpdateMajorOption"}, map[string]string{
		"gov.(*GovCtrler).freezeProposals$1": "the freeze scan, under EndVotingHeight < height (Gv-4 freeze:after-window)",
	}, 1)
	// permutations of an option list: sort calls and element stores
	optsT := w.Named(pkgProp, "voteOption")
	isOptSlice := func(t types.Type) bool {
		sl, ok := t.Underlying().(*types.Slice)
		if !ok || optsT == nil {
			return false
		}
		pt, ok := sl.Elem().(*types.Pointer)
		if !ok {
			return false
		}
		n, _ := pt.Elem().(*types.Named)
		return n != nil && n.Obj() == optsT.Obj()
	}
	n := 0
	for _, fn := range w.ModuleFuncs() {
		name := w.FName(fn)
		for _, b := range fn.Blocks {
			for _, in := range b.Instrs {
				switch x := in.(type) {
				case *ssa.Store:
					ia, ok := x.Addr.(*ssa.IndexAddr)
					if !ok || !isOptSlice(ia.X.Type()) {
						continue
					}
					if _, fresh := stripConv(ia.X).(*ssa.MakeSlice); fresh {
						continue // filling a list that this function has just made: nothing is permuted
					}
					n++
					key := "options-permuted:" + name
					if name == "proposal.powerOrderVoteOptions.Swap" || name == "proposal.NewGovProposal" || name == "proposal.(*powerOrderVoteOptions).Swap" {
						r.OK("Gv-6", key, "element store in the sort adaptor / constructor", site(w, in))
					} else {
						r.Violate("Gv-6", key, "an element of an option list is replaced outside the tally's sort adaptor: votes name their option by index", nil, site(w, in))
					}
				case ssa.CallInstruction:
					f := x.Common().StaticCallee()
					if f == nil || f.Pkg == nil || (f.Pkg.Pkg.Path() != "sort" && f.Pkg.Pkg.Path() != "slices") {
						continue
					}
					perm := false
					for _, a := range x.Common().Args {
						a = ifaceOperand(a)
						if isOptSlice(a.Type()) {
							perm = true
						}
					}
					if !perm {
						continue
					}
					n++
					key := "options-sorted:" + name
					if name == "proposal.(*GovProposal).updateMajorOption" {
						r.OK("Gv-6", key, "the only reordering of the options is the tally at freeze time", site(w, in))
					} else {
						r.Violate("Gv-6", key, "an option list is reordered outside the tally: recorded choices (indices) would then name other options", nil, site(w, in))
					}
				}
			}
		}
	}
	if n < 2 {
		r.Undecided("Gv-6", "options-order", "the tally's sort and its Swap were not found")
	}
}

func gv5(w *World, r *Report) {
	gp := w.Named(pkgCT, "GovParams")
	mf := needFn(r, "Gv-5", w, fref{pkgCT, "", "MergeGovParams"})
	if gp == nil || mf == nil {
		r.Undecided("Gv-5", "GovParams", "type or MergeGovParams not found")
		return
	}
	var fields []string
	for _, f := range structFields(gp) {
		if f.Name() != "mtx" {
			fields = append(fields, f.Name())
		}
	}
	// per field, under the facts "the option leaves it unset" / "the option sets it":
	// what MergeGovParams finally leaves in new.f (values resolved through helpers)
	ftype := map[string]types.Type{}
	for _, f := range structFields(gp) {
		ftype[f.Name()] = f.Type()
	}
	for _, f := range fields {
		f := f
		ev := func(in ssa.Instruction) string {
			st, ok := in.(*ssa.Store)
			if !ok {
				return ""
			}
			// the field is written directly, or through a pointer handed to a helper
			// (`keep(&new.f, old.f)`: the parameter is bound to the field's address)
			_, viaParam := st.Addr.(*ssa.Parameter)
			if _, isField := st.Addr.(*ssa.FieldAddr); !isField && !viaParam {
				return ""
			}
			if w.Canon(st.Addr) != "p1."+f {
				if viaParam {
					return "SET?" // another field's helper call, or the helper seen before its parameters are bound
				}
				return ""
			}
			return "SET:" + w.Canon(w.ResolveOnPath(st.Val))
		}
		final := func(facts ...atom) (string, bool) {
			fe := w.newFactEval(nil, facts...)
			saved := w.branchMarkers
			w.branchMarkers = false
			e := &enumerator{w: w, eval: fe.eval, event: ev, max: 2000, complete: true, evCache: map[ssa.Instruction]string{}, hasEv: map[*ssa.Function]int{}, pathSensitiveEvents: true}
			res, n, agree := "", 0, true
			e.walkFn(mf, nil, 0, func(evs []string, ret *ssa.Return, term string) {
				if term == "panic" || term == "loop" {
					return
				}
				v := "p1." + f // untouched
				for _, e := range evs {
					if strings.HasPrefix(e, "SET:") {
						v = strings.TrimPrefix(e, "SET:")
					}
				}
				if n > 0 && v != res {
					agree = false
				}
				res = v
				n++
			})
			w.cur = nil
			w.branchMarkers = saved
			return res, e.complete && agree && n > 0 && len(fe.used) > 0
		}
		ok := true
		why := ""
		_, isPtr := ftype[f].Underlying().(*types.Pointer)
		type sc struct {
			facts []atom
			want  string
		}
		var scs []sc
		if isPtr {
			scs = []sc{
				{[]atom{A("p1."+f, "==", "nil")}, "p0." + f},
				{[]atom{A("p1."+f, "!=", "nil"), A("p1."+f, "==", "0")}, "p0." + f},
				{[]atom{A("p1."+f, "!=", "nil"), A("p1."+f, "!=", "0")}, "p1." + f},
			}
		} else {
			scs = []sc{
				{[]atom{A("p1."+f, "==", "0")}, "p0." + f},
				{[]atom{A("p1."+f, "!=", "0")}, "p1." + f},
			}
		}
		for _, c := range scs {
			got, decided := final(c.facts...)
			if !decided || got != c.want {
				ok = false
				why = fmt.Sprintf("under %v the merged %s is %q (decided: %v), expected %s", c.facts, f, got, decided, c.want)
			}
		}
		r.Check(ok, "Gv-5", "MergeGovParams:"+f, "an unset "+f+" keeps the current value; a set one is kept", "MergeGovParams does not fill an unset "+f+" from the current parameters (the parameter would silently become zero): "+why, fnSite(w, mf))
	}
	w.codecSymmetric(r, "Gv-5", pkgCT, "GovParams", "MarshalJSON", "UnmarshalJSON", fields)
	w.codecSymmetric(r, "Gv-5", pkgCT, "GovParams", "toProto", "fromProto", fields)
}

// applyFlowVerdict: what the callback of GovCtrler.applyProposals does with one
// frozen proposal, evaluated over its paths (helpers expanded).
type applyFlowVerdict struct {
	fn                      *ssa.Function
	dueOK, docOK, persistOK bool
	dueWhy, docWhy, persWhy string
}

// the parameters recorded are what a helper of the package computed from the option it was given
var reDecodeHelper = mustRe(`^gov\.\w+\((.*[^\w])?p0\.MajorOption\.Option\(\)\)*\)#0$`)

var (
	reApDel   = mustRe(`^recv\.frozenLedger\.DelFinality\(p0\.Key\(\)\)$`)
	reApMerge = mustRe(`^types\.MergeGovParams\(recv\.GovParams, (.*)\)$`)
	reApUnm   = mustRe(`^json\.Unmarshal\((.*), ([^,]*)\)$`)
	reApSet   = mustRe(`^recv\.paramsLedger\.SetFinality\((.*)\)$`)
)

func (w *World) applyFlow() *applyFlowVerdict {
	if w.apFlowMemo != nil {
		return w.apFlowMemo
	}
	v := &applyFlowVerdict{}
	w.apFlowMemo = v
	ap := w.anonOf(pkgGov, "GovCtrler", "applyProposals", 1)
	if ap == nil {
		return v
	}
	v.fn = ap
	ev := func(in ssa.Instruction) string {
		switch x := in.(type) {
		case ssa.CallInstruction:
			c := w.canonCall(x.Common(), 0)
			switch {
			case reApDel.MatchString(c):
				return "DEL"
			case reApMerge.MatchString(c):
				return "MERGE\x01" + reApMerge.FindStringSubmatch(c)[1]
			case reApUnm.MatchString(c):
				m := reApUnm.FindStringSubmatch(c)
				return "UNM\x01" + m[2] + "\x01" + m[1]
			case reApSet.MatchString(c):
				return "SET\x01" + reApSet.FindStringSubmatch(c)[1]
			}
		case *ssa.Store:
			if _, isField := x.Addr.(*ssa.FieldAddr); isField && w.Canon(x.Addr) == "recv.newGovParams" {
				return "STAGE\x01" + w.Canon(x.Val)
			}
		}
		return ""
	}
	has := func(evs []string, pre string) []string {
		var out []string
		for _, e := range evs {
			if e == pre || strings.HasPrefix(e, pre+"\x01") {
				out = append(out, strings.TrimPrefix(strings.TrimPrefix(e, pre), "\x01"))
			}
		}
		return out
	}
	// (1) not yet due: nothing happens; no major option: only the removal from the frozen ledger
	v.dueOK = true
	notDue := w.runUnder(ap, nil, ev, A("p0.GovProposalHeader.ApplyingHeight", ">", "^p0"))
	if !notDue.complete || !notDue.allConsulted || notDue.ok == 0 {
		v.dueOK, v.dueWhy = false, "the applying height is not compared with the block height"
	}
	for _, evs := range notDue.okEvents {
		if len(evs) > 0 {
			v.dueOK, v.dueWhy = false, "a proposal whose applying height lies ahead is processed: "+strings.Join(evs, ", ")
		}
	}
	noMajor := w.runUnder(ap, nil, ev, A("p0.MajorOption", "==", "nil"))
	if !noMajor.complete || !noMajor.allConsulted {
		v.dueOK, v.dueWhy = false, "the major option is not tested"
	}
	for _, evs := range noMajor.okEvents {
		if len(has(evs, "MERGE"))+len(has(evs, "SET"))+len(has(evs, "STAGE")) > 0 {
			v.dueOK, v.dueWhy = false, "parameters are applied for a proposal without a major option"
		}
	}
	// (2),(3) on every path that stages or records parameters: parsed from the major
	// option's document, merged with the current ones, recorded, then staged — one object
	all := w.runUnder(ap, nil, ev)
	v.docOK, v.persistOK = all.complete, all.complete
	nApplied := 0
	for _, evs := range all.okEvents {
		set, stage, merge, unm := has(evs, "SET"), has(evs, "STAGE"), has(evs, "MERGE"), has(evs, "UNM")
		if len(set)+len(stage)+len(merge) == 0 {
			continue
		}
		nApplied++
		if len(has(evs, "DEL")) != 1 {
			v.dueOK, v.dueWhy = false, "an applied proposal is not removed from the frozen ledger exactly once"
		}
		if len(set) != 1 || len(stage) != 1 || len(merge) != 1 || set[0] != stage[0] || merge[0] != set[0] {
			v.persistOK, v.persWhy = false, fmt.Sprintf("recorded %v, staged %v, merged %v", set, stage, merge)
			continue
		}
		pos := map[string]int{}
		for i, e := range evs {
			pos[strings.SplitN(e, "\x01", 2)[0]] = i
		}
		if !(pos["MERGE"] < pos["SET"] && pos["SET"] < pos["STAGE"]) {
			v.persistOK, v.persWhy = false, "the parameters are not merged, then recorded, then staged in that order"
		}
		if os.Getenv("RIGOCHECK_DEBUG") == "apdoc" {
			fmt.Fprintln(os.Stderr, "APDOC", evs)
		}
		okDoc := false
		for _, u := range unm {
			parts := strings.SplitN(u, "\x01", 2)
			sameObj := len(parts) == 2 && (parts[0] == set[0] || reDecodeHelper.MatchString(set[0]))
			if sameObj && strings.Contains(parts[1], "p0.MajorOption.Option()") && pos["UNM"] < pos["MERGE"] {
				okDoc = true
			}
		}
		if !okDoc {
			v.docOK, v.docWhy = false, fmt.Sprintf("decoded documents: %v", unm)
		}
	}
	if nApplied == 0 {
		v.docOK, v.persistOK = false, false
		v.docWhy, v.persWhy = "no path applies parameters", "no path applies parameters"
	}
	return v
}

// callsToFn: the call instructions in fn whose static callee is g.
func (w *World) callsToFn(fn, g *ssa.Function) []ssa.CallInstruction {
	var out []ssa.CallInstruction
	for _, c := range CallsIn(fn) {
		if c.Common().StaticCallee() == g {
			out = append(out, c)
		}
	}
	return out
}
