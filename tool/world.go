package main

// world.go — A0/A1/A2 of DESIGN.md: load /repo's current working tree,
// build SSA (generics instantiated) and the repaired VTA call graph.

import (
	"fmt"
	"go/ast"
	"go/token"
	"go/types"
	"os"
	"path/filepath"
	"sort"
	"strings"
	"time"

	"golang.org/x/tools/go/callgraph"
	"golang.org/x/tools/go/callgraph/cha"
	"golang.org/x/tools/go/callgraph/vta"
	"golang.org/x/tools/go/packages"
	"golang.org/x/tools/go/ssa"
	"golang.org/x/tools/go/ssa/ssautil"
)

const modPath = "github.com/rigochain/rigo-go"

// packages of the module that are test doubles / client-side test drivers and
// are excluded from every scope (they are not linked into the node binary and
// their mock implementations would pollute interface resolution).
var excludedPkgs = map[string]string{
	modPath + "/ctrlers/stake/mocks": "test doubles for the stake controller's handlers",
	modPath + "/test":                "end-to-end test driver, no production code",
}

type World struct {
	RepoDir string
	Env     []string
	Fset    *token.FileSet
	Roots   []*packages.Package
	ByPath  map[string]*packages.Package
	Prog    *ssa.Program
	SSAPkg  map[string]*ssa.Package
	cg      *callgraph.Graph
	chaG    *callgraph.Graph

	allFuncs    map[*ssa.Function]bool
	phiVisiting map[*ssa.Phi]bool
	// CanonI: inline simple pure helpers while rendering
	ledgerKindDepth int
	roMemo          map[*ssa.Function]bool
	// sinkAliases: further loads of the same slice element in one iteration (mustSink)
	sinkAliases map[ssa.Value][]ssa.Value
	errIsMemo   int                // errorsIsIsIdentity: 0 unknown, 1 yes, -1 no
	sinkCarrier map[ssa.Value]bool // carriers being followed by mustSink (cycle guard)
	// mayScope: callers considered when mayCanons resolves a helper parameter (nil: all)
	mayScope map[*ssa.Function]bool
	// successReturnsOnly: returnedValues skips returns whose error result is certainly non-nil
	successReturnsOnly bool
	// argVal: the argument value bound to a helper parameter, by the plain canonical
	// form the parameter prints as while the helper is expanded
	argVal          map[string]ssa.Value
	nilImplMemo     map[*ssa.Function][]nilImplication
	nilFilters      *[]string
	prefixFwdMemo   map[*ssa.Function]*ssa.Call
	boolNilTab      map[string]nilImplication
	nilOnlyDepth    int
	inlineDeep      bool
	inlTwin         map[string]string
	n4Deep          bool
	envRoot         *ssa.Function
	structArg       map[*ssa.Parameter]ssa.Value
	callResultsOn   bool
	inSinkOnPaths   bool
	inlineHelpers   bool
	shallowResolve  bool // resolveValue: do not replace helper results by callee-internal values
	resolveFallible bool // canonResolved: also look through helpers that return an error
	noHelperAtoms   bool
	lastRetBlocks   map[ssa.Value]*ssa.BasicBlock // returnedValues: the block each value was returned from
	lastRetOrig     map[ssa.Value]ssa.Value
	phiSubst        map[*ssa.Phi]ssa.Value // branch markers: phis print as the value of the edge the path took
	evmAtomic       bool                   // A-4 holds: EVMCtrler.ExecuteTrx reverts to its snapshot on every failure
	neverFails      func(*ssa.Call) bool   // steps whose error edge is dead (checked side conditions)
	payloadTab      map[int64]string
	cur             *pathCtxt // path being enumerated (event callbacks only)
	fwdMemo         map[*ssa.Function][]*ssa.Call
	apFlowMemo      *applyFlowVerdict
	p6Scope         map[*ssa.Function]bool
	endBlockMemo    map[string]int
	expandPanics    bool // the next enumPaths also expands callees that contain a panic
	expandAll       bool // the next enumPaths expands every module callee outside the ledger package
	enumDepth       int  // the next enumPaths expands callees to this depth (0 = default)
	psEvents        bool // the next enumPaths labels events per path (labels use CalleeOnPath / ResolveOnPath)
	pureMemo        map[*ssa.Function]bool
	inlineEnv       []map[*ssa.Parameter]string
	// enumPaths records the branch taken at every If as "?T:<cond>" / "?F:<cond>"
	branchMarkers bool

	// statistics (measured)
	NRootPkgs, NAllPkgs, NFuncs, NModFuncs int
	CGEdges, CGRepairedSites               int
	LoadS, SSAS, CGS                       float64
}

func shortPkg(path string) string {
	if path == modPath {
		return "."
	}
	return strings.TrimPrefix(path, modPath+"/")
}

func LoadWorld(repo string, extraEnv []string) (*World, error) {
	t0 := time.Now()
	env := append(os.Environ(),
		"GOFLAGS=-mod=mod", "GOPROXY=off", "GOSUMDB=off", "GOWORK=off", "GOTOOLCHAIN=local")
	env = append(env, extraEnv...)
	fset := token.NewFileSet()
	cfg := &packages.Config{
		Mode:  packages.LoadAllSyntax,
		Dir:   repo,
		Env:   env,
		Fset:  fset,
		Tests: false,
	}
	pkgs, err := packages.Load(cfg, "./...")
	if err != nil {
		return nil, fmt.Errorf("packages.Load: %w", err)
	}
	if len(pkgs) == 0 {
		return nil, fmt.Errorf("no packages loaded from %s", repo)
	}
	w := &World{RepoDir: repo, Env: env, Fset: fset, ByPath: map[string]*packages.Package{}, SSAPkg: map[string]*ssa.Package{}}
	var errs []string
	packages.Visit(pkgs, nil, func(p *packages.Package) {
		w.ByPath[p.PkgPath] = p
		if strings.HasPrefix(p.PkgPath, modPath) {
			for _, e := range p.Errors {
				errs = append(errs, e.Error())
			}
		}
	})
	if len(errs) > 0 {
		sort.Strings(errs)
		if len(errs) > 10 {
			errs = errs[:10]
		}
		return nil, fmt.Errorf("type errors in module packages (analysis incomplete): %s", strings.Join(errs, "; "))
	}
	for _, p := range pkgs {
		if _, ex := excludedPkgs[p.PkgPath]; ex {
			continue
		}
		w.Roots = append(w.Roots, p)
	}
	w.NRootPkgs = len(w.Roots)
	w.NAllPkgs = len(w.ByPath)
	if w.NRootPkgs < 30 {
		return nil, fmt.Errorf("only %d module packages loaded (floor 30): analysis incomplete", w.NRootPkgs)
	}
	w.LoadS = time.Since(t0).Seconds()

	t1 := time.Now()
	prog, spkgs := ssautil.Packages(w.Roots, ssa.InstantiateGenerics)
	for i, sp := range spkgs {
		if sp == nil {
			return nil, fmt.Errorf("no SSA package for %s", w.Roots[i].PkgPath)
		}
	}
	prog.Build()
	w.Prog = prog
	for _, sp := range prog.AllPackages() {
		w.SSAPkg[sp.Pkg.Path()] = sp
	}
	w.allFuncs = ssautil.AllFunctions(prog)
	w.NFuncs = len(w.allFuncs)
	for f := range w.allFuncs {
		if w.InModule(f) {
			w.NModFuncs++
		}
	}
	w.SSAS = time.Since(t1).Seconds()
	return w, nil
}

// CG builds (once) the repaired call graph: VTA edges, and at every call site
// where VTA resolved no callee but CHA did, the CHA edges.
func (w *World) CG() *callgraph.Graph {
	if w.cg != nil {
		return w.cg
	}
	t0 := time.Now()
	chaG := cha.CallGraph(w.Prog)
	vtaG := vta.CallGraph(w.allFuncs, chaG)
	// repair
	for fn, cn := range chaG.Nodes {
		if fn == nil {
			continue
		}
		vn := vtaG.Nodes[fn]
		have := map[ssa.CallInstruction]bool{}
		if vn != nil {
			for _, e := range vn.Out {
				have[e.Site] = true
			}
		}
		repaired := map[ssa.CallInstruction]bool{}
		for _, e := range cn.Out {
			if e.Site == nil || have[e.Site] {
				continue
			}
			caller := vtaG.CreateNode(fn)
			callee := vtaG.CreateNode(e.Callee.Func)
			callgraph.AddEdge(caller, e.Site, callee)
			repaired[e.Site] = true
		}
		w.CGRepairedSites += len(repaired)
	}
	for _, n := range vtaG.Nodes {
		w.CGEdges += len(n.Out)
	}
	w.cg = vtaG
	w.chaG = chaG
	w.CGS = time.Since(t0).Seconds()
	return w.cg
}

// InModule reports whether fn's code belongs to the rigo-go module.
func (w *World) InModule(fn *ssa.Function) bool {
	p := w.FuncPkgPath(fn)
	return p == modPath || strings.HasPrefix(p, modPath+"/")
}

// InModulePkg reports whether the package path belongs to the rigo-go module.
func (w *World) InModulePkg(p string) bool {
	return p == modPath || strings.HasPrefix(p, modPath+"/")
}

func (w *World) FuncPkgPath(fn *ssa.Function) string {
	if fn == nil {
		return ""
	}
	if fn.Pkg != nil {
		return fn.Pkg.Pkg.Path()
	}
	if o := fn.Origin(); o != nil && o != fn {
		return w.FuncPkgPath(o)
	}
	if fn.Parent() != nil {
		return w.FuncPkgPath(fn.Parent())
	}
	if obj := fn.Object(); obj != nil && obj.Pkg() != nil {
		return obj.Pkg().Path()
	}
	return ""
}

// FName is a stable printable name: pkg.(*T).M / pkg.F / pkg.F$1, module prefix
// stripped, generic instantiations reported by their origin.
func (w *World) FName(fn *ssa.Function) string {
	if fn == nil {
		return "<nil>"
	}
	if o := fn.Origin(); o != nil {
		fn = o
	}
	if fn.Parent() != nil {
		// anonymous function: parent$N
		n := fn.Name()
		if i := strings.LastIndex(n, "$"); i >= 0 {
			return w.FName(fn.Parent()) + n[i:]
		}
		return w.FName(fn.Parent()) + "$" + n
	}
	pp := w.FuncPkgPath(fn)
	pk := pp[strings.LastIndex(pp, "/")+1:]
	if recv := fn.Signature.Recv(); recv != nil {
		t := recv.Type()
		ptr := ""
		if p, ok := t.(*types.Pointer); ok {
			t = p.Elem()
			ptr = "*"
		}
		tn := typeStr(t)
		if n, ok := t.(*types.Named); ok {
			tn = n.Obj().Name()
		}
		if ptr != "" {
			return pk + ".(*" + tn + ")." + fn.Name()
		}
		return pk + "." + tn + "." + fn.Name()
	}
	return pk + "." + fn.Name()
}

// Pos renders a position relative to the repository root.
func (w *World) Pos(p token.Pos) string {
	if !p.IsValid() {
		return "-"
	}
	pp := w.Fset.Position(p)
	rel, err := filepath.Rel(w.RepoDir, pp.Filename)
	if err != nil || strings.HasPrefix(rel, "..") {
		rel = pp.Filename
	}
	return fmt.Sprintf("%s:%d", rel, pp.Line)
}

func (w *World) InstrPos(in ssa.Instruction) string {
	p := in.Pos()
	if !p.IsValid() {
		// fall back to the closest positioned instruction in the block
		if b := in.Block(); b != nil {
			for _, x := range b.Instrs {
				if x.Pos().IsValid() {
					p = x.Pos()
					break
				}
			}
		}
	}
	if !p.IsValid() && in.Parent() != nil {
		p = in.Parent().Pos()
	}
	return w.Pos(p)
}

// ---- lookups (roles). Every failed lookup is reported by the caller as an
// undecided obligation; lookups never panic.

func (w *World) Pkg(rel string) *packages.Package {
	if rel == "." || rel == "" {
		return w.ByPath[modPath]
	}
	return w.ByPath[modPath+"/"+rel]
}

func (w *World) TypesPkg(rel string) *types.Package {
	p := w.Pkg(rel)
	if p == nil {
		return nil
	}
	return p.Types
}

// Func finds a package-level function.
func (w *World) Func(pkgRel, name string) *ssa.Function {
	p := w.SSAPkg[modPath+"/"+pkgRel]
	if p == nil {
		return nil
	}
	return p.Func(name)
}

// Named finds a named type.
func (w *World) Named(pkgRel, name string) *types.Named {
	tp := w.TypesPkg(pkgRel)
	if tp == nil {
		return nil
	}
	o := tp.Scope().Lookup(name)
	if o == nil {
		return nil
	}
	tn, ok := o.(*types.TypeName)
	if !ok {
		return nil
	}
	n, _ := tn.Type().(*types.Named)
	return n
}

// Method finds method name on *T (or T), returning the generic origin for
// generic types.
func (w *World) Method(pkgRel, typ, name string) *ssa.Function {
	n := w.Named(pkgRel, typ)
	if n == nil {
		return nil
	}
	for i := 0; i < n.NumMethods(); i++ {
		m := n.Method(i)
		if m.Name() == name {
			return w.Prog.FuncValue(m)
		}
	}
	return nil
}

func (w *World) MethodObj(pkgRel, typ, name string) *types.Func {
	n := w.Named(pkgRel, typ)
	if n == nil {
		return nil
	}
	for i := 0; i < n.NumMethods(); i++ {
		m := n.Method(i)
		if m.Name() == name {
			return m
		}
	}
	return nil
}

// Field finds a struct field object.
func (w *World) Field(pkgRel, typ, name string) *types.Var {
	n := w.Named(pkgRel, typ)
	if n == nil {
		return nil
	}
	st, ok := n.Underlying().(*types.Struct)
	if !ok {
		return nil
	}
	for i := 0; i < st.NumFields(); i++ {
		if st.Field(i).Name() == name {
			return st.Field(i)
		}
	}
	return nil
}

// ModuleFuncs lists every module function that has a body (origins for
// generics, including anonymous functions), sorted by name.
func (w *World) ModuleFuncs() []*ssa.Function {
	seen := map[*ssa.Function]bool{}
	var out []*ssa.Function
	for f := range w.allFuncs {
		if f.Origin() != nil {
			f = f.Origin()
		}
		if seen[f] || f.Blocks == nil || !w.InModule(f) || f.Synthetic != "" {
			continue
		}
		if _, ex := excludedPkgs[w.FuncPkgPath(f)]; ex {
			continue
		}
		seen[f] = true
		out = append(out, f)
	}
	sort.Slice(out, func(i, j int) bool { return w.FName(out[i]) < w.FName(out[j]) })
	return out
}

// ---- reachability

type Reach struct {
	w    *World
	Set  map[*ssa.Function]bool
	pred map[*ssa.Function]*ssa.Function
	site map[*ssa.Function]ssa.CallInstruction
}

// ReachFrom computes module functions reachable from roots through the repaired
// call graph. Traversal continues only through module functions (and synthetic
// wrappers); external callees are leaves (recorded in Set but not expanded),
// except that calls *back* into the module from external code are not followed.
// stop(fn) = true prunes below fn (fn itself is still in the set).
// isPkgInit: the package initializer (it always runs: the function literals of
// package-level variables exist in every execution).
func isPkgInit(f *ssa.Function) bool {
	return f != nil && f.Name() == "init" && f.Synthetic != "" && f.Parent() == nil
}

func (w *World) ReachFrom(roots []*ssa.Function, stop func(*ssa.Function) bool, edgeOK ...func(caller *ssa.Function, site ssa.CallInstruction, callee *ssa.Function) bool) *Reach {
	g := w.CG()
	r := &Reach{w: w, Set: map[*ssa.Function]bool{}, pred: map[*ssa.Function]*ssa.Function{}, site: map[*ssa.Function]ssa.CallInstruction{}}
	var q []*ssa.Function
	for _, f := range roots {
		if f != nil && !r.Set[f] {
			r.Set[f] = true
			q = append(q, f)
		}
	}
	type deferredEdge struct {
		from, to *ssa.Function
		site     ssa.CallInstruction
	}
	var deferred []deferredEdge
	for len(q) > 0 || len(deferred) > 0 {
		if len(q) == 0 {
			// retry deferred closures whose parent has become reachable
			var rest []deferredEdge
			for _, d := range deferred {
				if r.Set[d.to] {
					continue
				}
				if par := d.to.Parent(); r.Set[par] || r.hasOrigin(par) {
					r.Set[d.to] = true
					r.pred[d.to] = d.from
					r.site[d.to] = d.site
					q = append(q, d.to)
				} else {
					rest = append(rest, d)
				}
			}
			deferred = rest
			if len(q) == 0 {
				break
			}
		}
		f := q[0]
		q = q[1:]
		if !w.InModule(f) {
			continue
		}
		if stop != nil && stop(f) {
			continue
		}
		n := g.Nodes[f]
		if n == nil {
			continue
		}
		// deterministic order
		outs := append([]*callgraph.Edge(nil), n.Out...)
		sort.Slice(outs, func(i, j int) bool {
			pi, pj := token.NoPos, token.NoPos
			if outs[i].Site != nil {
				pi = outs[i].Site.Pos()
			}
			if outs[j].Site != nil {
				pj = outs[j].Site.Pos()
			}
			if pi != pj {
				return pi < pj
			}
			return outs[i].Callee.Func.String() < outs[j].Callee.Func.String()
		})
		for _, e := range outs {
			c := e.Callee.Func
			if c == nil || r.Set[c] {
				continue
			}
			skip := false
			for _, ok := range edgeOK {
				if !ok(f, e.Site, c) {
					skip = true
				}
			}
			if skip {
				continue
			}
			// a closure exists only if its enclosing function ran: VTA merges all
			// closures flowing into one callback type, including those of dead code
			if par := c.Parent(); par != nil && !r.Set[par] && !r.hasOrigin(par) && !isPkgInit(par) {
				deferred = append(deferred, deferredEdge{f, c, e.Site})
				continue
			}
			r.Set[c] = true
			r.pred[c] = f
			r.site[c] = e.Site
			q = append(q, c)
		}
		// anonymous functions defined in f are reachable when f is (they are
		// created there; calling them goes through closures the CG resolves,
		// but deferred / stored closures are kept conservatively).
		for _, a := range f.AnonFuncs {
			if !r.Set[a] {
				r.Set[a] = true
				r.pred[a] = f
				q = append(q, a)
			}
		}
	}
	return r
}

func (r *Reach) hasOrigin(fn *ssa.Function) bool {
	for f := range r.Set {
		if f.Origin() == fn {
			return true
		}
	}
	return false
}

// Has reports whether fn (or, for a generic origin, any instantiation) is in the set.
func (r *Reach) Has(fn *ssa.Function) bool {
	if r.Set[fn] {
		return true
	}
	for f := range r.Set {
		if f.Origin() == fn {
			return true
		}
	}
	return false
}

// Path returns the call chain from a root to fn.
func (r *Reach) Path(fn *ssa.Function) []string {
	if !r.Set[fn] {
		for f := range r.Set {
			if f.Origin() == fn {
				fn = f
				break
			}
		}
	}
	var out []string
	seen := map[*ssa.Function]bool{}
	for f := fn; f != nil && !seen[f]; f = r.pred[f] {
		seen[f] = true
		out = append(out, r.w.FName(f))
	}
	for i, j := 0, len(out)-1; i < j; i, j = i+1, j-1 {
		out[i], out[j] = out[j], out[i]
	}
	return out
}

// ModuleFuncsIn lists the module functions of the set with bodies (deduplicated
// by origin), sorted.
func (r *Reach) ModuleFuncs() []*ssa.Function {
	seen := map[*ssa.Function]bool{}
	var out []*ssa.Function
	for f := range r.Set {
		if !r.w.InModule(f) || f.Blocks == nil {
			continue
		}
		if seen[f] {
			continue
		}
		seen[f] = true
		out = append(out, f)
	}
	sort.Slice(out, func(i, j int) bool {
		a, b := r.w.FName(out[i]), r.w.FName(out[j])
		if a != b {
			return a < b
		}
		return out[i].String() < out[j].String()
	})
	return out
}

// Callees of one call site in the repaired graph.
func (w *World) Callees(site ssa.CallInstruction) []*ssa.Function {
	if c := site.Common().StaticCallee(); c != nil {
		return []*ssa.Function{c}
	}
	g := w.CG()
	n := g.Nodes[site.Parent()]
	if n == nil {
		return nil
	}
	var out []*ssa.Function
	for _, e := range n.Out {
		if e.Site == site {
			out = append(out, e.Callee.Func)
		}
	}
	sort.Slice(out, func(i, j int) bool { return out[i].String() < out[j].String() })
	return out
}

// Callers lists (caller, site) pairs of fn (all instantiations for an origin).
type CallerSite struct {
	Caller *ssa.Function
	Site   ssa.CallInstruction
}

func (w *World) Callers(fn *ssa.Function) []CallerSite {
	g := w.CG()
	var out []CallerSite
	add := func(f *ssa.Function) {
		n := g.Nodes[f]
		if n == nil {
			return
		}
		for _, e := range n.In {
			out = append(out, CallerSite{e.Caller.Func, e.Site})
		}
	}
	add(fn)
	for f := range w.allFuncs {
		if f != fn && f.Origin() == fn {
			add(f)
		}
	}
	sort.Slice(out, func(i, j int) bool {
		a, b := w.FName(out[i].Caller), w.FName(out[j].Caller)
		if a != b {
			return a < b
		}
		var pa, pb token.Pos
		if out[i].Site != nil {
			pa = out[i].Site.Pos()
		}
		if out[j].Site != nil {
			pb = out[j].Site.Pos()
		}
		return pa < pb
	})
	return out
}

// ---- AST access

// FuncDecl returns the syntax of a source function.
func (w *World) FuncDecl(fn *ssa.Function) *ast.FuncDecl {
	if fn == nil {
		return nil
	}
	if o := fn.Origin(); o != nil {
		fn = o
	}
	if d, ok := fn.Syntax().(*ast.FuncDecl); ok {
		return d
	}
	return nil
}

// InfoFor returns the types.Info of the package that defines fn.
func (w *World) InfoFor(fn *ssa.Function) *types.Info {
	p := w.ByPath[w.FuncPkgPath(fn)]
	if p == nil {
		return nil
	}
	return p.TypesInfo
}
