package main

// C11 stake bookkeeping, C12 unbonding, C13 rewards, C14 slashing and jailing
// (DESIGN §3). These rule sets state the expected shape of a handful of small
// functions in canonical-expression vocabulary (canon.go): field paths, calls
// and arithmetic, independent of local names and statement layout.

import (
	"fmt"
	"go/constant"
	"go/token"
	"go/types"
	"os"
	"regexp"
	"sort"
	"strings"

	"golang.org/x/tools/go/ssa"
)

func init() {
	register("C11", checkC11)
	register("C12", checkC12)
	register("C13", checkC13)
	register("C14", checkC14)
}

func (w *World) findStore(fn *ssa.Function, addr, val string) *ssa.Store {
	for _, b := range fn.Blocks {
		for _, in := range b.Instrs {
			if st, ok := in.(*ssa.Store); ok && w.Canon(st.Addr) == addr && (val == "" || w.Canon(st.Val) == val || w.CanonI(st.Val) == val) {
				return st
			}
		}
	}
	return nil
}

func (w *World) storesTo(fn *ssa.Function, addr string) []*ssa.Store {
	var out []*ssa.Store
	for _, b := range fn.Blocks {
		for _, in := range b.Instrs {
			if st, ok := in.(*ssa.Store); ok && w.Canon(st.Addr) == addr {
				out = append(out, st)
			}
		}
	}
	return out
}

func (w *World) findCall(fn *ssa.Function, canon string) ssa.CallInstruction {
	for _, c := range CallsIn(fn) {
		if w.canonCall(c.Common(), 0) == canon {
			return c
		}
	}
	for _, c := range CallsIn(fn) {
		if w.plainThenInlinedArgs(c.Common()) == canon {
			return c
		}
	}
	// the call may have moved into a helper: look inside static module callees with
	// their parameters bound to the arguments; the call site in fn is returned
	return w.findCallDeep(fn, func(s string) bool { return s == canon }, 0)
}

// findCallDeep searches the bodies of fn's static module callees (two levels,
// parameters bound to the caller's arguments) for a call whose canonical form
// satisfies match, and returns the call site in fn through which it is reached.
func (w *World) findCallDeep(fn *ssa.Function, match func(string) bool, depth int) ssa.CallInstruction {
	if depth > 1 {
		return nil
	}
	for _, c := range CallsIn(fn) {
		cal := c.Common().StaticCallee()
		if cal == nil || !w.InModule(cal) || cal.Blocks == nil || cal == fn || len(cal.Params) != len(c.Common().Args) {
			continue
		}
		env := map[*ssa.Parameter]string{}
		for j, p := range cal.Params {
			env[p] = w.Canon(c.Common().Args[j])
		}
		w.inlineEnv = append(w.inlineEnv, env)
		found := false
		for _, c2 := range CallsIn(cal) {
			if match(w.canonCall(c2.Common(), 0)) {
				found = true
				break
			}
		}
		if !found && w.findCallDeep(cal, match, depth+1) != nil {
			found = true
		}
		w.inlineEnv = w.inlineEnv[:len(w.inlineEnv)-1]
		if found {
			return c
		}
	}
	return nil
}

// plainThenInlinedArgs renders a call keeping the callee itself but inlining
// simple helpers inside its receiver and arguments.
func (w *World) plainThenInlinedArgs(c *ssa.CallCommon) string {
	w.inlineHelpers = true
	w.inlineEnv = append(w.inlineEnv, nil, nil, nil) // depth guard: do not inline the outer call itself
	s := w.canonCall(c, 0)
	w.inlineEnv = w.inlineEnv[:len(w.inlineEnv)-3]
	w.inlineHelpers = false
	return s
}

func (w *World) findCallMatch(fn *ssa.Function, re *regexp.Regexp) []ssa.CallInstruction {
	var out []ssa.CallInstruction
	for _, c := range CallsIn(fn) {
		if re.MatchString(w.canonCall(c.Common(), 0)) {
			out = append(out, c)
		}
	}
	return out
}

// symCmp renders a == / != comparison the way canon.go orders its operands.
func symCmp(a, op, b string) string {
	if b < a && !isLiteral(b) && !strings.HasPrefix(b, "nil") {
		a, b = b, a
	}
	return "(" + a + " " + op + " " + b + ")"
}

// entryOnlyVia: every predecessor edge into b is the true edge of an If whose
// canonical condition is one of conds (the block of `if c1 || c2 { … }`).
func (w *World) entryOnlyVia(b *ssa.BasicBlock, conds ...string) bool {
	if len(b.Preds) == 0 {
		return false
	}
	for _, p := range b.Preds {
		ifi, ok := lastInstr(p).(*ssa.If)
		if !ok || len(p.Succs) != 2 || p.Succs[0] == p.Succs[1] || (p.Succs[0] != b && p.Succs[1] != b) {
			return false
		}
		c := w.Canon(ifi.Cond)
		if p.Succs[1] == b {
			// entered on the false edge: the negated test holds
			c = negateCond(c)
		}
		found := false
		for _, want := range conds {
			if c == want {
				found = true
			} else if a, ok1 := atomFromCanon(c); ok1 {
				// the same test in another spelling (bytes.Equal, operands swapped)
				if b2, ok2 := atomFromCanon(want); ok2 && a == b2 {
					found = true
				}
			}
		}
		if !found {
			// a boolean helper that stands for the disjunction of the wanted tests
			if call, isCall := ifi.Cond.(*ssa.Call); isCall && len(b.Preds) == 1 && p.Succs[0] == b && w.boolHelperIsOr(call, conds) {
				found = true
			}
		}
		if !found {
			return false
		}
	}
	return true
}

// boolHelperIsOr: the callee of call is a pure boolean module function of
// equality tests whose result, for every truth assignment to those tests, equals
// the disjunction of wants (canonical conditions in the caller's terms).
func (w *World) boolHelperIsOr(call *ssa.Call, wants []string) bool {
	fn := call.Common().StaticCallee()
	if fn == nil || !w.InModule(fn) || !isBoolType(call.Type()) || len(fn.Params) != len(call.Common().Args) || len(fn.Blocks) == 0 || len(fn.Blocks) > 12 || !w.pureFn(fn, 0) {
		return false
	}
	env := map[*ssa.Parameter]string{}
	for i, p := range fn.Params {
		env[p] = w.Canon(call.Common().Args[i])
	}
	w.inlineEnv = append(w.inlineEnv, env)
	defer func() { w.inlineEnv = w.inlineEnv[:len(w.inlineEnv)-1] }()
	type key struct{ L, R string }
	var keys []key
	idx := map[key]int{}
	atomKey := func(c string) (int, bool, bool) {
		a, ok := atomFromCanon(c)
		if !ok || (a.Rel != relEQ && a.Rel != relLT|relGT) {
			return 0, false, false
		}
		k := key{a.L, a.R}
		i, seen := idx[k]
		if !seen {
			i = len(keys)
			idx[k] = i
			keys = append(keys, k)
		}
		return i, a.Rel == relEQ, true
	}
	type lit struct {
		i   int
		pos bool
	}
	var want []lit
	for _, c := range wants {
		i, pos, ok := atomKey(c)
		if !ok {
			return false
		}
		want = append(want, lit{i, pos})
	}
	litOf := map[ssa.Value]lit{}
	var leaf func(v ssa.Value) bool
	leaf = func(v ssa.Value) bool {
		switch x := v.(type) {
		case *ssa.Const:
			return isBoolType(x.Type())
		case *ssa.Phi:
			return true
		case *ssa.UnOp:
			if x.Op == token.NOT {
				return leaf(x.X)
			}
		}
		i, pos, ok := atomKey(w.Canon(v))
		if !ok {
			return false
		}
		litOf[v] = lit{i, pos}
		return true
	}
	for _, b := range fn.Blocks {
		switch t := lastInstr(b).(type) {
		case *ssa.If:
			if !leaf(t.Cond) {
				return false
			}
		case *ssa.Return:
			if len(t.Results) != 1 || !leaf(t.Results[0]) {
				return false
			}
		}
		for _, in := range b.Instrs {
			if ph, ok := in.(*ssa.Phi); ok {
				for _, e := range ph.Edges {
					if !leaf(e) {
						return false
					}
				}
			}
		}
	}
	if len(keys) == 0 || len(keys) > 5 {
		return false
	}
	for mask := 0; mask < 1<<len(keys); mask++ {
		val := func(l lit) bool { return (mask>>l.i&1 == 1) == l.pos }
		phis := map[*ssa.Phi]bool{}
		var eval func(v ssa.Value) bool
		eval = func(v ssa.Value) bool {
			switch x := v.(type) {
			case *ssa.Const:
				return constant.BoolVal(x.Value)
			case *ssa.Phi:
				return phis[x]
			case *ssa.UnOp:
				if x.Op == token.NOT {
					return !eval(x.X)
				}
			}
			return val(litOf[v])
		}
		b := fn.Blocks[0]
		got, done := false, false
		for steps := 0; steps < 40 && !done; steps++ {
			var next *ssa.BasicBlock
			switch t := lastInstr(b).(type) {
			case *ssa.If:
				if eval(t.Cond) {
					next = b.Succs[0]
				} else {
					next = b.Succs[1]
				}
			case *ssa.Jump:
				next = b.Succs[0]
			case *ssa.Return:
				got, done = eval(t.Results[0]), true
				continue
			default:
				return false
			}
			pi := -1
			for i, p := range next.Preds {
				if p == b {
					pi = i
				}
			}
			nv := map[*ssa.Phi]bool{}
			for _, in := range next.Instrs {
				if ph, ok := in.(*ssa.Phi); ok && pi >= 0 {
					nv[ph] = eval(ph.Edges[pi])
				}
			}
			for ph, v := range nv {
				phis[ph] = v
			}
			b = next
		}
		if !done {
			return false
		}
		exp := false
		for _, l := range want {
			exp = exp || val(l)
		}
		if got != exp {
			return false
		}
	}
	return true
}

// stakePowerSum: result idx of the Delegatee method fn is the sum of s.Power over
// every stake s of recv.Stakes ("all"), or over the stakes whose From equals an
// owner — all of them when the owner is nil — ("owned", with the owner as fn
// names it: "p0", "recv.Addr"); "" when it is neither.
func (w *World) stakePowerSum(fn *ssa.Function, idx int) (string, string) {
	if fn == nil || fn.Blocks == nil {
		return "", ""
	}
	var acc *ssa.Phi
	for _, b := range fn.Blocks {
		rt, ok := lastInstr(b).(*ssa.Return)
		if !ok {
			continue
		}
		if idx >= len(rt.Results) {
			return "", ""
		}
		ph, ok := stripConv(retResult(rt, idx)).(*ssa.Phi)
		if !ok || (acc != nil && acc != ph) {
			return "", ""
		}
		acc = ph
	}
	if acc == nil {
		return "", ""
	}
	elemRe := regexp.MustCompile(`^recv\.Stakes\[(\(phi\(\(φ \+ 1\)\|-1\) \+ 1\)|phi\(\(φ \+ 1\)\|0\)|phi\(0\|\(φ \+ 1\)\))\]$`)
	// the accumulator: 0 on entry; every other incoming value is the accumulator
	// itself (element skipped) or the accumulator plus the element's power
	var add *ssa.BinOp
	elemC := ""
	zero := 0
	var visit func(v ssa.Value, d int) bool
	visit = func(v ssa.Value, d int) bool {
		if v == ssa.Value(acc) {
			return true
		}
		switch x := v.(type) {
		case *ssa.Phi:
			if d > 3 {
				return false
			}
			for _, e := range x.Edges {
				if !visit(e, d+1) {
					return false
				}
			}
			return true
		case *ssa.BinOp:
			if x.Op != token.ADD || (add != nil && add != x) {
				return false
			}
			for _, pr := range [][2]ssa.Value{{x.X, x.Y}, {x.Y, x.X}} {
				if pr[0] == ssa.Value(acc) {
					if c := w.Canon(pr[1]); strings.HasSuffix(c, ".Power") && elemRe.MatchString(strings.TrimSuffix(c, ".Power")) {
						add, elemC = x, strings.TrimSuffix(c, ".Power")
						return true
					}
				}
			}
		}
		return false
	}
	skipped := false
	for _, e := range acc.Edges {
		if k, ok := constInt(e); ok && k == 0 {
			zero++
			continue
		}
		if e == ssa.Value(acc) {
			skipped = true
			continue
		}
		if ph, isPhi := e.(*ssa.Phi); isPhi {
			for _, e2 := range ph.Edges {
				if e2 == ssa.Value(acc) {
					skipped = true
				}
			}
		}
		if !visit(e, 0) {
			return "", ""
		}
	}
	if zero != 1 || add == nil {
		return "", ""
	}
	if !skipped {
		return "all", ""
	}
	for _, owner := range []string{"p0", "recv.Addr"} {
		if w.entryOnlyVia(add.Block(), "("+owner+" == nil)", "(bytes.Compare("+owner+", "+elemC+".From) == 0)") {
			return "owned", owner
		}
	}
	return "", ""
}

// condCanonHolds: block b is dominated by the `want` edge of an If whose canonical condition is cond.
func (w *World) condCanonHolds(b *ssa.BasicBlock, cond string, want int) bool {
	if w.condHolds(b, want, func(c ssa.Value) bool { return w.Canon(c) == cond || w.CanonI(c) == cond }) {
		return true
	}
	// the same condition in another spelling (operands swapped, inverted test with
	// an early exit, Cmp/Lt/Equal, `== false`): compare as normalised atoms
	a, ok := atomFromCanon(cond)
	if !ok {
		return false
	}
	if want < 0 {
		a.Rel = relAll &^ a.Rel
	}
	return w.underFact(b, a)
}

const elem = `\[\(phi\(\(φ \+ 1\)\|-1\) \+ 1\)\]` // range element index

// ---------------------------------------------------------------- C11

func checkC11(w *World, r *Report) {
	r.Explanation = "Structural clause of C11: (B-1) every Delegatee method that changes the stake list adjusts TotalPower by the same stake's Power and SelfPower when the stake is a self stake (addStake, DelStake, DelStakeByIdx), or recomputes both from the list (doSlashAll); DelAllStakes subtracts every removed power from TotalPower and each of its call sites either runs where SelfPower == 0 or deletes the delegatee; the stake list has a closed set of writers; (B-2) every stake removed by DelStake / DelAllStakes in controller code is handed to the frozen ledger on the same success path, after its refund height was set; slashing is the only removal without destination; (B-3) a stake's owner, target and key are never written after construction; (B-4) the total-power query sums TotalPower over the immutable ledger; (B-5) several operations on one delegatee inside one block see each other through the overlay, including deletion and re-creation (C18 L-1). B-4 is evaluated per request path: every successful answer to stakes/total_power comes from one unfiltered scan of the immutable delegatee ledger (sum in the callback, or every delegatee collected and the whole list summed). B-1 also requires that every return of DelAllStakes is dominated by the emptying store and by the loop that subtracts the removed powers and hands back the whole former list, unless the list is known to be empty there. (B-7) no execution of the stake controller fails after its first effect: the delegatee it works on is the cached object itself (C05 A-3)."
	r.NotCovered = "the sums as numbers over a history; the ledger's overlay semantics (C18); JSON round-trip of delegatees."
	b1(w, r)
	b2(w, r)
	b3(w, r)
	b4(w, r)
	// B-5: several operations on one delegatee inside a block see each other (C18 L-1)
	if r.importObs(w, func(t *Report) { l1(w, t) }, "L-1", "B-5") == 0 {
		r.Undecided("B-5", "ledger-semantics", "the ledger's overlay semantics could not be evaluated")
	}
	r.Floor("B-5", 2, "ledger overlay semantics")
	// B-6: a delegatee (or stake record) that was deleted stays deleted: no write of
	// the same record after its deletion (the commit applies removals before updates,
	// so the emptied record — with stale SelfPower — would come back) (C01 D-6)
	importNoResurrect(w, r, "B-6")
	// B-7: the delegatee handed out by the ledger is the cached object itself: what a
	// staking or un-staking execution changes before it fails stays in the cache and is
	// written with the next successful operation on that delegatee — a stake removed
	// and recorded nowhere. No stake execution fails after its first effect (C05 A-3).
	{
		tmp := NewReport(r.Prop, r.Tier)
		a3(w, tmp)
		n := 0
		for _, o := range tmp.Obs {
			if o.Rule == "A-3" && strings.Contains(o.Key, "stake.(*StakeCtrler)") {
				o.Rule = "B-7"
				o.Key = "B-7:" + strings.TrimPrefix(o.Key, "A-3:")
				r.Obs = append(r.Obs, o)
				n++
			}
		}
		if n < 2 {
			r.Undecided("B-7", "stake-executions", "the no-error-after-effect rules (C05 A-3) matched fewer than 2 stake functions")
		}
	}
	r.Floor("B-1", 12, "power bookkeeping")
	r.Floor("B-2", 5, "one place per stake")
	r.Floor("B-3", 3, "immutable stake identity")
	r.Floor("B-4", 1, "query")
}

func b1(w *World, r *Report) {
	as := needFn(r, "B-1", w, fref{pkgStake, "Delegatee", "addStake"})
	if as != nil {
		e := "p0[(phi((φ + 1)|-1) + 1)]"
		r.Check(w.findStore(as, "recv.Stakes", "append(recv.Stakes, p0)") != nil, "B-1", "addStake:appends", "the new stakes are appended to the list", "addStake does not append the stakes to the list", fnSite(w, as))
		st := w.findStore(as, "recv.TotalPower", "(recv.TotalPower + "+e+".Power)")
		// the same sums accumulated in locals and added once after the loop
		var stBlk, ssBlk *ssa.BasicBlock
		if st != nil {
			stBlk = st.Block()
		}
		accumulated := func(field string) (*ssa.Store, *ssa.BasicBlock) {
			for _, s0 := range w.storesTo(as, field) {
				bo, isB := stripConv(s0.Val).(*ssa.BinOp)
				if !isB || bo.Op != token.ADD {
					continue
				}
				var acc ssa.Value
				switch {
				case w.Canon(bo.X) == field:
					acc = bo.Y
				case w.Canon(bo.Y) == field:
					acc = bo.X
				default:
					continue
				}
				if addend, blk, ok := loopAccum(acc); ok && w.Canon(addend) == e+".Power" {
					return s0, blk
				}
			}
			return nil, nil
		}
		if st == nil {
			st, stBlk = accumulated("recv.TotalPower")
		}
		r.Check(st != nil && len(w.storesTo(as, "recv.TotalPower")) == 1, "B-1", "addStake:TotalPower", "TotalPower grows by each added stake's power", "addStake does not add each stake's power to TotalPower", fnSite(w, as))
		ss := w.findStore(as, "recv.SelfPower", "(recv.SelfPower + "+e+".Power)")
		if ss != nil {
			ssBlk = ss.Block()
		} else {
			ss, ssBlk = accumulated("recv.SelfPower")
		}
		ok := ss != nil && len(w.storesTo(as, "recv.SelfPower")) == 1 && w.condCanonHolds(ssBlk, e+".IsSelfStake()", 1) && (st == nil || !w.condCanonHolds(stBlk, e+".IsSelfStake()", 1) && !w.condCanonHolds(stBlk, e+".IsSelfStake()", -1))
		r.Check(ok, "B-1", "addStake:SelfPower", "SelfPower grows by the power of self stakes only, TotalPower unconditionally", "addStake does not add exactly the self stakes' power to SelfPower", fnSite(w, as))
	}
	for _, m := range []struct{ name, removed string }{{"DelStake", "recv.delStakeByHash(p0)"}, {"DelStakeByIdx", "recv.delStakeByIdx(p0)"}} {
		fn := needFn(r, "B-1", w, fref{pkgStake, "Delegatee", m.name})
		if fn == nil {
			continue
		}
		// evaluated under facts (helpers expanded): removed == nil -> nothing changes;
		// removed != nil -> TotalPower loses removed.Power once, SelfPower loses it
		// exactly when the removed stake is a self stake
		ev := w.storeEvents("recv.TotalPower", "recv.SelfPower")
		subT := "set:recv.TotalPower=(recv.TotalPower - " + m.removed + ".Power)"
		subS := "set:recv.SelfPower=(recv.SelfPower - " + m.removed + ".Power)"
		nonNil := AR("^"+regexp.QuoteMeta(m.removed)+"$", "!=", "^nil$")
		isNil := AR("^"+regexp.QuoteMeta(m.removed)+"$", "==", "^nil$")
		self := "^" + regexp.QuoteMeta(m.removed+".IsSelfStake()") + "$"
		want := func(o outcome, evs ...string) bool {
			if !o.complete || o.ok == 0 {
				return false
			}
			for _, p := range o.okEvents {
				if strings.Join(p, "|") != strings.Join(evs, "|") && !(len(evs) == 2 && strings.Join(p, "|") == evs[1]+"|"+evs[0]) {
					return false
				}
			}
			return true
		}
		ok := want(w.runUnder(fn, nil, ev, nonNil, TR(self)), subT, subS) &&
			want(w.runUnder(fn, nil, ev, nonNil, FR(self)), subT) &&
			want(w.runUnder(fn, nil, ev, isNil))
		// the removed stake is returned
		ret := false
		if vals, complete := w.returnedValues(fn, 0, w.newFactEval(nil, nonNil).eval, 0); complete && len(vals) == 1 && w.Canon(vals[0]) == m.removed {
			ret = true
		}
		r.Check(ok && ret, "B-1", m.name+":powers", "the removed stake's power leaves TotalPower, and SelfPower when it is a self stake; the removed stake is returned", m.name+" does not subtract exactly the removed stake's power from the totals", fnSite(w, fn))
	}
	da := needFn(r, "B-1", w, fref{pkgStake, "Delegatee", "DelAllStakes"})
	if da != nil {
		st := w.findStore(da, "recv.TotalPower", "(recv.TotalPower - recv.Stakes[(phi((φ + 1)|-1) + 1)].Power)")
		nilSt := false
		for _, s := range w.storesTo(da, "recv.Stakes") {
			if c, ok := s.Val.(*ssa.Const); ok && c.IsNil() {
				nilSt = true
			}
		}
		r.Check(st != nil && nilSt && len(w.storesTo(da, "recv.TotalPower")) == 1, "B-1", "DelAllStakes:powers", "the list is emptied and every removed stake's power leaves TotalPower", "DelAllStakes does not subtract every removed stake's power from TotalPower", fnSite(w, da))
		// on every return: the list has been emptied, the subtraction loop has been
		// passed and the whole former list is handed back — or the list is known empty.
		// Its callers delete the delegatee or rely on SelfPower == 0 afterwards: a
		// return that leaves stakes behind loses them with the delegatee.
		{
			var nilStore, subStore *ssa.Store
			for _, s := range w.storesTo(da, "recv.Stakes") {
				if c, ok := s.Val.(*ssa.Const); ok && c.IsNil() {
					nilStore = s
				}
			}
			if ss := w.storesTo(da, "recv.TotalPower"); len(ss) == 1 {
				subStore = ss[0]
			}
			bad := ""
			nRet := 0
			for _, b := range da.Blocks {
				ret, isR := lastInstr(b).(*ssa.Return)
				if !isR || b == da.Recover {
					continue
				}
				nRet++
				if w.condCanonHolds(b, "(len(recv.Stakes) == 0)", 1) || w.condCanonHolds(b, "(recv.Stakes == nil)", 1) {
					continue
				}
				if nilStore == nil || !instrDominates(nilStore, ret) {
					bad = "a return at " + w.InstrPos(ret) + " is reached without emptying the list"
					continue
				}
				// the loop that subtracts: its header (the closest dominator of the
				// subtraction that ends in a branch) is passed on the way to the return
				if subStore != nil {
					h := subStore.Block().Idom()
					for h != nil {
						if _, isIf := lastInstr(h).(*ssa.If); isIf {
							break
						}
						h = h.Idom()
					}
					if h == nil || !(h == b || h.Dominates(b)) {
						bad = "a return at " + w.InstrPos(ret) + " is reached without passing the loop that subtracts the removed powers"
						continue
					}
				}
				if len(ret.Results) != 1 || w.Canon(ret.Results[0]) != "recv.Stakes" {
					bad = "a return at " + w.InstrPos(ret) + " does not hand back the whole former list: " + w.Canon(ret.Results[0])
				}
			}
			r.Check(bad == "" && nRet > 0, "B-1", "DelAllStakes:on-every-return", "every return of DelAllStakes has emptied the list, passed the subtraction of every removed power and hands back the whole former list (or the list is known to be empty)", "DelAllStakes can return leaving stakes bonded that its callers treat as released (they delete the delegatee, or count on SelfPower == 0): "+bad, fnSite(w, da))
		}
		// call sites: SelfPower == 0 or the delegatee is deleted afterwards. When the
		// call sits in a helper that receives the delegatee as a parameter, the
		// condition is looked for at the helper's own call sites (recursively).
		var siteOK func(caller *ssa.Function, site ssa.CallInstruction, rcv ssa.Value, depth int) bool
		siteOK = func(caller *ssa.Function, site ssa.CallInstruction, rcv ssa.Value, depth int) bool {
			rc := w.Canon(rcv)
			if w.condCanonHolds(site.Block(), "("+rc+".SelfPower == 0)", 1) {
				return true
			}
			for _, c := range CallsIn(caller) {
				for _, a := range w.ledgerArmsF(c) {
					if it := w.ledgerItemArg(c); a.Method == "DelFinality" && it != nil && w.Canon(it) == rc+".Key()" && instrReaches(site, c) {
						if w.postDominatesWithinIteration(c, site) {
							return true
						}
					}
				}
			}
			if pi := paramIndexIn(caller, rcv); pi >= 0 && depth < 3 {
				ups := w.nodeCallers(caller)
				if len(ups) == 0 {
					return false
				}
				for _, up := range ups {
					if pi >= len(up.Site.Common().Args) || !siteOK(up.Caller, up.Site, up.Site.Common().Args[pi], depth+1) {
						return false
					}
				}
				return true
			}
			return false
		}
		n := 0
		for _, cs := range w.nodeCallers(da) {
			n++
			rcv, _ := callRecvArgs(cs.Site.Common())
			key := "DelAllStakes:call-site:" + w.FName(cs.Caller)
			r.Check(siteOK(cs.Caller, cs.Site, rcv, 0), "B-1", key, "DelAllStakes leaves SelfPower untouched: here (or at every call of this helper) SelfPower is 0 or the delegatee is deleted right after", "DelAllStakes is called where SelfPower may be non-zero and the delegatee survives: SelfPower would exceed the sum of its stakes", site(w, cs.Site))
		}
		if n < 1 {
			r.Undecided("B-1", "DelAllStakes:call-sites", "no call site of DelAllStakes found")
		}
	}
	ds := needFn(r, "B-1", w, fref{pkgStake, "Delegatee", "doSlashAll"})
	if ds != nil {
		// the totals are recomputed by functions that sum the powers of the stake list
		// (of the delegatee's own stakes / of all stakes), however they are packaged
		var s1, s2 ssa.Instruction
		// the stores of doSlashAll itself, and those of a helper it calls on the same
		// delegatee (`recv.recount()`): the helper's call stands for them in doSlashAll
		type recStore struct {
			fs fieldStore
			at ssa.Instruction
		}
		var recs []recStore
		for _, fs := range w.fieldStores(ds) {
			recs = append(recs, recStore{fs, fs.In})
		}
		for _, hc := range CallsIn(ds) {
			g := hc.Common().StaticCallee()
			if g == nil || !w.InModule(g) || g.Blocks == nil || g.Signature.Recv() == nil || len(hc.Common().Args) == 0 || w.Canon(hc.Common().Args[0]) != "recv" {
				continue
			}
			for _, fs := range w.fieldStores(g) {
				recs = append(recs, recStore{fs, hc})
			}
		}
		for _, rs := range recs {
			fs := rs.fs
			c := w.Canon(fs.Addr)
			if c != "recv.SelfPower" && c != "recv.TotalPower" {
				continue
			}
			var call *ssa.Call
			idx := 0
			switch y := stripConv(fs.Val).(type) {
			case *ssa.Call:
				call = y
			case *ssa.Extract:
				call, _ = y.Tuple.(*ssa.Call)
				idx = y.Index
			}
			if call == nil {
				continue
			}
			g := call.Common().StaticCallee()
			if g == nil || len(call.Common().Args) != len(g.Params) || len(g.Params) == 0 || w.Canon(call.Common().Args[0]) != "recv" {
				continue
			}
			kind, owner := w.stakePowerSum(g, idx)
			if strings.HasPrefix(owner, "p") && len(owner) == 2 {
				if k := int(owner[1] - '0'); k+1 < len(call.Common().Args) {
					owner = w.Canon(call.Common().Args[k+1])
				}
			}
			if kind == "owned" && owner == "nil" {
				kind = "all"
			}
			if c == "recv.SelfPower" && kind == "owned" && owner == "recv.Addr" {
				s1 = rs.at
			}
			if c == "recv.TotalPower" && kind == "all" {
				s2 = rs.at
			}
		}
		ok := s1 != nil && s2 != nil
		if ok {
			// recomputation follows every change of the list / of a power and precedes the return
			for _, b := range ds.Blocks {
				for _, in := range b.Instrs {
					switch x := in.(type) {
					case *ssa.Store:
						if strings.HasSuffix(w.Canon(x.Addr), ".Power") && !instrReaches(x, s1) {
							ok = false
						}
					case ssa.CallInstruction:
						if callName(x.Common()) == "delStakeByHash" && !instrReaches(x, s1) {
							ok = false
						}
					}
				}
				if rt, isR := lastInstr(b).(*ssa.Return); isR && !(instrDominates(s1, rt) && instrDominates(s2, rt)) {
					ok = false
				}
			}
		}
		r.Check(ok, "B-1", "doSlashAll:recompute", "after slashing SelfPower and TotalPower are recomputed from the stake list before returning", "doSlashAll does not recompute both totals from the stake list after changing it", fnSite(w, ds))
	}
	sp := needFn(r, "B-1", w, fref{pkgStake, "Delegatee", "sumPowerOf"})
	if sp != nil {
		kind, owner := w.stakePowerSum(sp, 0)
		okAcc := kind == "owned" && owner == "p0"
		r.Check(okAcc, "B-1", "sumPowerOf", "sums the powers of all stakes, or of those owned by the given address", "sumPowerOf does not sum the stake powers (of the given owner)", fnSite(w, sp))
	}
	is := needFn(r, "B-1", w, fref{pkgStake, "Stake", "IsSelfStake"})
	if is != nil {
		ok := false
		for _, b := range is.Blocks {
			if rt, isR := lastInstr(b).(*ssa.Return); isR && b != is.Recover {
				c := w.Canon(retResult(rt, 0))
				ok = c == "(bytes.Compare(recv.From, recv.To) == 0)" || c == "bytes.Equal(recv.From, recv.To)"
			}
		}
		r.Check(ok, "B-1", "IsSelfStake", "a self stake is one whose owner is its delegatee", "IsSelfStake is not `owner == target`", fnSite(w, is))
	}
	w.checkWriters(r, "B-1", pkgStake, "Delegatee", "Stakes", map[string]string{
		"stake.(*Delegatee).addStake": "append", "stake.(*Delegatee).delStakeByIdx": "remove one", "stake.(*Delegatee).DelAllStakes": "remove all",
	})
}

// postDominatesWithinIteration: once `from` has executed, `to` executes before
// the function returns or the enclosing loop iterates again.
func (w *World) postDominatesWithinIteration(to, from ssa.Instruction) bool {
	toI := to.(ssa.Instruction)
	fromI := from.(ssa.Instruction)
	start := posOf(fromI)
	start.i++
	seen := map[*ssa.BasicBlock]bool{}
	okAll := true
	var walk func(b *ssa.BasicBlock, i int)
	walk = func(b *ssa.BasicBlock, i int) {
		for ; i < len(b.Instrs); i++ {
			if b.Instrs[i] == toI {
				return
			}
			if b.Instrs[i] == fromI {
				okAll = false // came around the loop without passing `to`
				return
			}
			switch b.Instrs[i].(type) {
			case *ssa.Return:
				okAll = false
				return
			case *ssa.Panic:
				return
			}
		}
		for _, s := range b.Succs {
			if s == fromI.Block() {
				// back to the block of `from`
				walk(s, 0)
				continue
			}
			if seen[s] {
				continue
			}
			seen[s] = true
			walk(s, 0)
		}
	}
	walk(start.b, start.i)
	return okAll
}

// frozenSink: handing a stake to the frozen (unbonding) ledger's Set/SetFinality.
func (w *World) frozenSink() *sinkSpec {
	isFrozenArms := func(arms []ledgerArm) bool {
		if len(arms) == 0 {
			return false
		}
		for _, a := range arms {
			if (a.Method != "Set" && a.Method != "SetFinality") || !strings.HasSuffix(w.Canon(a.Recv), ".frozenLedger") {
				return false
			}
		}
		return true
	}
	return &sinkSpec{
		isSink: func(c ssa.CallInstruction, arg int) bool {
			return arg == w.ledgerItemArgIndex(c) && isFrozenArms(w.ledgerArmsF(c))
		},
		isSinkFunc: func(v ssa.Value) bool {
			// every value the function variable may hold is a frozen-ledger setter
			srcs := w.funcValueSources(v, 0)
			if len(srcs) == 0 {
				return false
			}
			for _, sv := range srcs {
				if !isFrozenArms(w.ledgerArmsOfValue(sv, nil)) {
					return false
				}
			}
			return true
		},
	}
}

func b2(w *World, r *Report) {
	spec := w.frozenSink()
	// every stake taken out of a delegatee must reach the frozen ledger on every
	// successful path (value flow, helpers and function-valued setters followed)
	sunk := func(fn *ssa.Function, v ssa.Value, from ssa.Instruction) (bool, string) {
		res := w.mustSink(fn, v, from, spec, 0)
		if res.ok && len(res.funcParams) > 0 {
			// the destination is a function-typed parameter: every call site must pass a frozen-ledger setter
			var up func(f *ssa.Function, params []int, depth int) (bool, string)
			up = func(f *ssa.Function, params []int, depth int) (bool, string) {
				cs := w.nodeCallers(f)
				if len(cs) == 0 || depth > 2 {
					return false, "the destination is chosen by the callers of " + w.FName(f) + ", which could not be enumerated"
				}
				for _, c := range cs {
					for _, pi := range params {
						if pi >= len(c.Site.Common().Args) {
							return false, "call shape"
						}
						a := c.Site.Common().Args[pi]
						if spec.isSinkFunc(a) {
							continue
						}
						if qi := paramIndexIn(c.Caller, a); qi >= 0 {
							if ok, why := up(c.Caller, []int{qi}, depth+1); !ok {
								return false, why
							}
							continue
						}
						return false, "at " + w.InstrPos(c.Site) + " the destination passed is " + w.Canon(a) + ", not the frozen ledger's Set/SetFinality"
					}
				}
				return true, ""
			}
			return up(fn, res.funcParams, 0)
		}
		return res.ok, res.why
	}
	eu := needFn(r, "B-2", w, fref{pkgStake, "StakeCtrler", "exeUnstaking"})
	if eu != nil {
		// the stake named by the payload's tx hash: found with FindStake(h), removed with DelStake(h)
		var del, find *ssa.Call
		for _, c := range CallsIn(eu) {
			call, isCall := c.(*ssa.Call)
			if !isCall {
				continue
			}
			if w.callIs(c.Common(), fref{pkgStake, "Delegatee", "DelStake"}) {
				del = call
			}
			if w.callIs(c.Common(), fref{pkgStake, "Delegatee", "FindStake"}) {
				find = call
			}
		}
		ok, why := false, "exeUnstaking does not find and remove the stake named by the payload"
		// variant: the stake is found first (possibly in a helper) and removed by ITS hash:
		// DelStake(s.TxHash) with s = FindStake(payload hash) on the same delegatee
		if del != nil && find == nil {
			_, da := callRecvArgs(del.Common())
			dr, _ := callRecvArgs(del.Common())
			var S ssa.Value
			if len(da) == 1 {
				if ld, isLd := stripConv(da[0]).(*ssa.UnOp); isLd && ld.Op == token.MUL {
					if fa, isFA := ld.X.(*ssa.FieldAddr); isFA && fieldName(fa.X.Type(), fa.Field) == "TxHash" {
						S = fa.X
					}
				}
			}
			foundByPayload := func(c string) bool {
				return strings.HasPrefix(c, w.Canon(dr)+".FindStake(") && strings.HasSuffix(c, "TrxPayloadUnstaking).TxHash)#1")
			}
			if S != nil {
				good := foundByPayload(w.Canon(S))
				if !good {
					var call *ssa.Call
					idx := 0
					switch y := stripConv(S).(type) {
					case *ssa.Call:
						call = y
					case *ssa.Extract:
						call, _ = y.Tuple.(*ssa.Call)
						idx = y.Index
					}
					if call != nil {
						if cal := call.Common().StaticCallee(); cal != nil && w.InModule(cal) && cal.Blocks != nil && len(cal.Params) == len(call.Common().Args) {
							env := map[*ssa.Parameter]string{}
							for j, p := range cal.Params {
								env[p] = w.Canon(call.Common().Args[j])
							}
							w.inlineEnv = append(w.inlineEnv, env)
							savedSh := w.shallowResolve
							w.shallowResolve = true // the values as the helper writes them
							vals, complete := w.returnedValues(cal, idx, func(ssa.Value) (bool, bool) { return false, false }, 1)
							w.shallowResolve = savedSh
							n := 0
							good = complete
							for _, x := range vals {
								if c, isC := x.(*ssa.Const); isC && c.IsNil() {
									continue // returned together with an error
								}
								n++
								if !foundByPayload(w.Canon(x)) {
									good = false
								}
							}
							good = good && n > 0
							w.inlineEnv = w.inlineEnv[:len(w.inlineEnv)-1]
						}
					}
				}
				if good {
					ok, why = sunk(eu, S, del)
				} else {
					why = "the stake removed (" + w.canonCall(del.Common(), 0) + ") is not the stake found by the payload's hash on the same delegatee"
				}
			}
		}
		// variant: a helper finds the stake and hands back both the payload's hash and the
		// stake found by it: DelStake(h) and s with (h, s) = helper(…), where on every
		// successful return of the helper s is FindStake(h)#1 on the same delegatee
		if del != nil && find == nil && !ok {
			_, da := callRecvArgs(del.Common())
			dr, _ := callRecvArgs(del.Common())
			if len(da) == 1 {
				if hx, isEx := stripConv(da[0]).(*ssa.Extract); isEx {
					if hc, isC := hx.Tuple.(*ssa.Call); isC {
						if cal := hc.Common().StaticCallee(); cal != nil && w.InModule(cal) && cal.Blocks != nil && len(cal.Params) == len(hc.Common().Args) {
							env := map[*ssa.Parameter]string{}
							for j, p := range cal.Params {
								env[p] = w.Canon(hc.Common().Args[j])
							}
							w.inlineEnv = append(w.inlineEnv, env)
							sIdx := -1
							nOK := 0
							consistent := true
							for _, b := range cal.Blocks {
								rt, isR := lastInstr(b).(*ssa.Return)
								if !isR || b == cal.Recover || w.errState(rt) == triNonNil {
									continue
								}
								nOK++
								h := w.Canon(retResult(rt, hx.Index))
								found := -1
								for j := range rt.Results {
									if j != hx.Index && w.Canon(retResult(rt, j)) == w.Canon(dr)+".FindStake("+h+")#1" {
										found = j
									}
								}
								if !strings.HasSuffix(h, "TrxPayloadUnstaking).TxHash") || found < 0 || (sIdx >= 0 && sIdx != found) {
									consistent = false
								}
								sIdx = found
							}
							w.inlineEnv = w.inlineEnv[:len(w.inlineEnv)-1]
							if consistent && nOK > 0 && sIdx >= 0 {
								if sv := extractOf(hc, sIdx); sv != nil {
									ok, why = sunk(eu, sv, del)
								}
							}
						}
					}
				}
			}
		}
		// variant: a helper is handed the delegatee and the payload's hash and answers the
		// stake found by that hash: s = helper(d, h, …) with s = d.FindStake(h)#1 on every
		// successful return of the helper, and DelStake(h) on the same delegatee
		if del != nil && find == nil && !ok {
			_, da := callRecvArgs(del.Common())
			dr, _ := callRecvArgs(del.Common())
			if len(da) == 1 && strings.HasSuffix(w.Canon(da[0]), "TrxPayloadUnstaking).TxHash") {
				for _, c := range CallsIn(eu) {
					hc, isCall := c.(*ssa.Call)
					if !isCall || ok {
						continue
					}
					cal := hc.Common().StaticCallee()
					if cal == nil || !w.InModule(cal) || cal.Blocks == nil || len(cal.Params) != len(hc.Common().Args) || len(w.callsTo(cal, fref{pkgStake, "Delegatee", "FindStake"})) == 0 {
						continue
					}
					env := map[*ssa.Parameter]string{}
					for j, p := range cal.Params {
						env[p] = w.Canon(hc.Common().Args[j])
					}
					w.inlineEnv = append(w.inlineEnv, env)
					want := w.Canon(dr) + ".FindStake(" + w.Canon(da[0]) + ")#1"
					sIdx, nOK, consistent := -1, 0, true
					for _, b := range cal.Blocks {
						rt, isR := lastInstr(b).(*ssa.Return)
						if !isR || b == cal.Recover || w.errState(rt) == triNonNil {
							continue
						}
						nOK++
						found := -1
						for j := range rt.Results {
							if w.Canon(retResult(rt, j)) == want {
								found = j
							}
						}
						if found < 0 || (sIdx >= 0 && sIdx != found) {
							consistent = false
						}
						sIdx = found
					}
					w.inlineEnv = w.inlineEnv[:len(w.inlineEnv)-1]
					if consistent && nOK > 0 && sIdx >= 0 {
						var sv ssa.Value = hc
						if cal.Signature.Results().Len() > 1 {
							sv = extractOf(hc, sIdx)
						}
						if sv != nil {
							ok, why = sunk(eu, sv, del)
						}
					}
				}
			}
		}
		if del != nil && find != nil {
			_, da := callRecvArgs(del.Common())
			_, fa := callRecvArgs(find.Common())
			dr, _ := callRecvArgs(del.Common())
			fr, _ := callRecvArgs(find.Common())
			if len(da) == 1 && len(fa) == 1 && w.Canon(da[0]) == w.Canon(fa[0]) && w.Canon(dr) == w.Canon(fr) && strings.HasSuffix(w.Canon(da[0]), "TrxPayloadUnstaking).TxHash") {
				if st := extractOf(find, 1); st != nil {
					ok, why = sunk(eu, st, del)
				}
			} else {
				why = "the stake removed (" + w.canonCall(del.Common(), 0) + ") is not the stake found (" + w.canonCall(find.Common(), 0) + ")"
			}
		}
		r.Check(ok, "B-2", "exeUnstaking:removed-stake-frozen", "the stake removed from the delegatee (found by the payload's tx hash) is recorded in the frozen ledger on every success path", "the stake removed by DelStake is not handed to the frozen ledger: "+why, fnSite(w, eu))
	}
	// every list returned by DelAllStakes, wherever it is called
	nAll := 0
	for _, fn := range w.nodeFuncs() {
		for _, c := range CallsIn(fn) {
			call, isCall := c.(*ssa.Call)
			if !isCall || !w.callIs(c.Common(), fref{pkgStake, "Delegatee", "DelAllStakes"}) {
				continue
			}
			nAll++
			ok, why := sunk(fn, call, call)
			key := map[string]string{"stake.(*StakeCtrler).exeUnstaking": "exeUnstaking:all-stakes-frozen", "stake.(*StakeCtrler).BeginBlock": "BeginBlock:jailed-stakes-frozen"}[w.FName(fn)]
			if key == "" {
				key = w.FName(fn) + ":all-stakes-frozen"
			}
			r.Check(ok, "B-2", key, "every stake released by DelAllStakes here is recorded in the frozen ledger (each iteration hands its own stake over)", "stakes removed by DelAllStakes are not all handed to the frozen ledger: "+why, site(w, c))
		}
	}
	if nAll < 1 {
		r.Undecided("B-2", "DelAllStakes:sites", "no call of DelAllStakes found (forced unbonding and jailing expected)")
	}
	w.checkCallers(r, "B-2", fref{pkgStake, "Delegatee", "DelStake"}, map[string]string{"stake.(*StakeCtrler).exeUnstaking": "unstaking"}, 1)
	w.checkCallers(r, "B-2", fref{pkgStake, "Delegatee", "DelAllStakes"}, map[string]string{"stake.(*StakeCtrler).exeUnstaking": "forced unbonding of delegators", "stake.(*StakeCtrler).BeginBlock": "downtime jailing"}, 2)
	w.checkCallers(r, "B-2", fref{pkgStake, "Delegatee", "delStakeByHash"}, map[string]string{"stake.(*Delegatee).DelStake": "removal with bookkeeping", "stake.(*Delegatee).doSlashAll": "forfeit of a stake too small to be reduced (the only removal without destination)"}, 2)
	w.checkCallers(r, "B-2", fref{pkgStake, "Delegatee", "delStakeByIdx"}, map[string]string{"stake.(*Delegatee).DelStakeByIdx": "removal with bookkeeping", "stake.(*Delegatee).delStakeByHash": "removal by hash"}, 1)
}

func b3(w *World, r *Report) {
	for _, f := range []string{"From", "To", "TxHash", "StartHeight"} {
		ws := w.fieldWriters(pkgStake, "Stake", f)
		if len(ws) == 0 {
			r.OK("B-3", "Stake."+f+":never-rewritten", "written only by the constructor (fresh object) and the JSON decoder", "ctrlers/stake/stake.go")
			continue
		}
		for _, x := range ws {
			r.Violate("B-3", "Stake."+f+":writer:"+w.FName(x.Fn), "a stake's "+f+" is rewritten after construction", nil, site(w, x.In))
		}
	}
}

func b4(w *World, r *Report) {
	q := needFn(r, "B-4", w, fref{pkgStake, "StakeCtrler", "Query"})
	if q == nil {
		return
	}
	// under Query (closures and helpers included) the TotalPower of delegatees is accumulated
	ok := false
	seenFn := map[*ssa.Function]bool{}
	var scan func(f *ssa.Function, depth int)
	scan = func(f *ssa.Function, depth int) {
		if f == nil || f.Blocks == nil || seenFn[f] || depth > 2 {
			return
		}
		seenFn[f] = true
		for _, a := range f.AnonFuncs {
			scan(a, depth)
		}
		for _, b := range f.Blocks {
			for _, in := range b.Instrs {
				if bo, isB := in.(*ssa.BinOp); isB && bo.Op == token.ADD && strings.HasSuffix(w.Canon(bo), ".TotalPower)") && strings.Contains(w.Canon(bo), "φ") {
					ok = true // an accumulator (phi) plus some delegatee's TotalPower
				}
				if st, isS := in.(*ssa.Store); isS && strings.HasSuffix(w.Canon(st.Val), ".TotalPower)") && strings.Contains(w.Canon(st.Val), " + ") {
					ok = true
				}
				if c, isC := in.(*ssa.Call); isC {
					if cal := c.Common().StaticCallee(); cal != nil && w.InModule(cal) && w.FuncPkgPath(cal) == w.FuncPkgPath(q) {
						scan(cal, depth+1)
					}
				}
				// handlers picked from a dispatch table
				if lk, isL := in.(*ssa.Lookup); isL {
					if lm := w.literalMap(stripConv(lk.X)); lm != nil {
						for _, ent := range lm.Entries {
							if cal, _ := w.calleeOfValue(ent.Val); cal != nil && w.InModule(cal) && w.FuncPkgPath(cal) == w.FuncPkgPath(q) {
								scan(cal, depth+1)
							}
						}
					}
				}
			}
		}
	}
	scan(q, 0)
	r.Check(ok, "B-4", "Query:total_power", "the total-power query accumulates TotalPower of every delegatee of the immutable ledger", "the total-power query does not sum the delegatees' TotalPower", fnSite(w, q))
	// and it does so for every delegatee: on each successful path of the query for
	// "stakes/total_power" the one iteration over the ledger at the requested height
	// runs a callback that adds the visited delegatee's TotalPower on all its paths
	// (no filter), and the answer is built from that sum
	var listForm ssa.Value // the scan collects every delegatee into this list instead of summing
	bad, nOK := w.fullScanOnEveryAnswer(q, "stakes/total_power", func(mc *ssa.MakeClosure, cl *ssa.Function) (ssa.Value, bool) {
		var acc ssa.Value
		var add *ssa.Store
		// variant: every delegatee is appended to a list that is summed afterwards
		for _, b := range cl.Blocks {
			for _, in := range b.Instrs {
				st, isS := in.(*ssa.Store)
				if !isS {
					continue
				}
				if fv, isFV := st.Addr.(*ssa.FreeVar); isFV && w.Canon(st.Val) == "append("+w.Canon(fv)+", [p0])" {
					only := true
					for _, b2 := range cl.Blocks {
						for _, in2 := range b2.Instrs {
							if s2, ok := in2.(*ssa.Store); ok && s2 != st {
								if _, fv2 := s2.Addr.(*ssa.FreeVar); fv2 {
									only = false
								}
							}
						}
						if _, isR := lastInstr(b2).(*ssa.Return); isR && b2 != cl.Recover && !st.Block().Dominates(b2) {
							only = false
						}
					}
					if only {
						for i, f := range cl.FreeVars {
							if f == fv && i < len(mc.Bindings) {
								listForm = mc.Bindings[i]
								return mc.Bindings[i], true
							}
						}
					}
				}
			}
		}
		for _, b := range cl.Blocks {
			for _, in := range b.Instrs {
				st, isS := in.(*ssa.Store)
				if !isS {
					continue
				}
				fv, isFV := st.Addr.(*ssa.FreeVar)
				if !isFV {
					continue
				}
				want := "(" + w.Canon(fv) + " + p0.TotalPower)"
				if cv := w.Canon(st.Val); cv != want && cv != "(p0.TotalPower + "+w.Canon(fv)+")" {
					return nil, false // the sum is written in another way
				}
				if add != nil {
					return nil, false
				}
				add = st
				for i, f := range cl.FreeVars {
					if f == fv && i < len(mc.Bindings) {
						acc = mc.Bindings[i]
					}
				}
			}
		}
		if add == nil {
			return nil, false
		}
		for _, b := range cl.Blocks {
			if _, isR := lastInstr(b).(*ssa.Return); isR && b != cl.Recover && !add.Block().Dominates(b) {
				return nil, false // a path of the callback skips the delegatee
			}
		}
		return acc, true
	})
	if listForm != nil && bad == "" {
		// the list is handed on whole (never sliced or indexed here) to functions that
		// accumulate TotalPower over all of it
		consumers := 0
		if refs := listForm.Referrers(); refs != nil {
			for _, ref := range *refs {
				ld, isLd := ref.(*ssa.UnOp)
				if !isLd || ld.Op != token.MUL || ld.Referrers() == nil {
					continue
				}
				for _, use := range *ld.Referrers() {
					switch y := use.(type) {
					case *ssa.Slice, *ssa.IndexAddr, *ssa.Index:
						bad = "the collected list is cut before it is summed (" + w.InstrPos(use) + ")"
					case *ssa.Call:
						cal := y.Common().StaticCallee()
						if cal == nil || !w.InModule(cal) || cal.Blocks == nil {
							continue
						}
						sums, cuts := false, false
						for _, b := range cal.Blocks {
							for _, in := range b.Instrs {
								if bo, isB := in.(*ssa.BinOp); isB && bo.Op == token.ADD && strings.HasSuffix(w.Canon(bo), ".TotalPower)") && strings.Contains(w.Canon(bo), "φ") {
									sums = true
								}
								if sl, isSl := in.(*ssa.Slice); isSl {
									if _, ofParam := stripConv(sl.X).(*ssa.Parameter); ofParam {
										cuts = true
									}
								}
							}
						}
						if sums && !cuts {
							consumers++
						} else {
							bad = w.FName(cal) + " does not sum TotalPower over the whole list"
						}
					}
				}
			}
		}
		if consumers == 0 && bad == "" {
			bad = "the collected list is not summed"
		}
	}
	r.Check(bad == "" && nOK > 0, "B-4", "Query:total_power:every-delegatee", "on every successful path the answer is the sum of TotalPower over all delegatees at the requested height (the callback has no filter)", "the total-power query leaves delegatees out (or is not the plain sum over the ledger at the requested height): "+bad, fnSite(w, q))
}

// ---------------------------------------------------------------- C12

func checkC12(w *World, r *Report) {
	r.Explanation = "Structural clause of C12: (O-1) both the validation of an unstaking transaction (on every success path for that tx type) and its execution (dominating the removal) refuse a sender that is not the owner of the stake found by the payload's tx hash under the target delegatee; (O-2) every assignment of a stake's refund height is `height of the current block + the governance unbonding period`; (O-3) the refund is control-dependent on `RefundHeight <= current height`, goes to the stake's owner, is PowerToAmount(power), is followed by deletion of that stake (C02 V-2), and runs once per block from EndBlock; (O-4) frozen-ledger keys are unique per stake (C02 V-4); (O-5) a stake that was moved or refunded is gone: deleting a record from a ledger (the delegatee emptied by an unstaking, the frozen stake after its refund) takes effect at the commit even when the record was also updated in the same block, and a record moved to the frozen ledger is read back as written (C18 L-1); (O-6) a record is addressed by one key: where a ledger call names a record by ToLedgerKey(item.F), the item type's Key() is exactly that derivation on every return."
	r.NotCovered = "'exactly once' as a statement about histories (follows from O-3 and O-5, not computed); governance changing the period affects only stakes released afterwards (by construction of O-2)."
	o1(w, r)
	o2(w, r)
	o3(w, r)
	// O-4 = V-4
	rep := NewReport("C12", "quick")
	v4(w, rep)
	for _, o := range rep.Obs {
		o.Rule = "O-4"
		o.Key = "O-4:" + strings.TrimPrefix(o.Key, "V-4:")
		r.Obs = append(r.Obs, o)
	}
	// O-7: a released stake can be refunded only if it reaches the frozen ledger: every
	// stake removed from a delegatee in controller code is the one handed to the frozen
	// ledger on the same success path (C11 B-2)
	if r.importObs(w, func(t *Report) { b2(w, t) }, "B-2", "O-7") < 2 {
		r.Undecided("O-7", "released-stakes", "the rules on released stakes (C11 B-2) matched fewer than 2 constructs")
	}
	r.Floor("O-1", 3, "owner guards")
	r.Floor("O-2", 3, "refund height assignments")
	r.Floor("O-3", 4, "refund")
	r.Floor("O-4", 2, "key uniqueness")
	if r.importObs(w, func(t *Report) { l1(w, t) }, "L-1", "O-5") == 0 {
		r.Undecided("O-5", "ledger", "the ledger overlay analysis (C18 L-1) produced no obligation")
	}
	r.Floor("O-5", 2, "ledger overlay semantics")
	o6(w, r)
	r.Floor("O-6", 1, "ledger calls keyed by a field of the item")
}

// o6: a record is addressed by one key. Wherever a ledger call names an item by
// `ToLedgerKey(item.F)` instead of `item.Key()`, the item type's Key() must be
// exactly that derivation on every return — otherwise the record is written under
// one key and looked up / deleted under another (a refunded stake that is never
// removed is refunded again in every later block).
// keyExprOf: what the Key method of a ledger item type returns, over all its returns
// (in terms of `recv`).
func (w *World) keyExprOf(n *types.Named) string {
	out := "?no Key method"
	if km := methodOfNamed(w, n, "Key"); km != nil && km.Blocks != nil {
		set := map[string]bool{}
		for _, b := range km.Blocks {
			if rt, isR := lastInstr(b).(*ssa.Return); isR && b != km.Recover && len(rt.Results) == 1 {
				set[w.Canon(retResult(rt, 0))] = true
			}
		}
		out = strings.Join(sortedKeys(set), " | ")
	}
	return out
}

var reOwnKey = regexp.MustCompile(`^ledger\.ToLedgerKey\(recv\.(\w+)\)$`)

// ownKeyCall: v is `x.Key()` on a ledger item (a type with Key and Decode): x and the type.
func (w *World) ownKeyCall(v ssa.Value) (ssa.Value, *types.Named) {
	c, ok := stripConv(v).(*ssa.Call)
	if !ok {
		return nil, nil
	}
	var recv ssa.Value
	switch {
	case c.Common().IsInvoke() && c.Common().Method.Name() == "Key" && len(c.Common().Args) == 0:
		recv = c.Common().Value
	case c.Common().StaticCallee() != nil && c.Common().StaticCallee().Name() == "Key" && c.Common().Signature().Recv() != nil && len(c.Common().Args) == 1:
		recv = c.Common().Args[0]
	default:
		return nil, nil
	}
	n, _ := types.Unalias(deref(recv.Type())).(*types.Named)
	if n == nil || methodOfNamed(w, n, "Key") == nil || methodOfNamed(w, n, "Decode") == nil {
		return nil, nil
	}
	return recv, n
}

// ownKeyCanon: the canonical form of a key argument, with `x.Key()` of a ledger item
// written as the derivation its Key method returns on every path
// (`ledger.ToLedgerKey(x.TxHash)`); anything else as it is.
func (w *World) ownKeyCanon(v ssa.Value) string {
	if recv, n := w.ownKeyCall(v); recv != nil {
		if m := reOwnKey.FindStringSubmatch(w.keyExprOf(n)); m != nil {
			return "ledger.ToLedgerKey(" + w.Canon(recv) + "." + m[1] + ")"
		}
	}
	return w.Canon(v)
}

func o6(w *World, r *Report) {
	reKey := regexp.MustCompile(`^ledger\.ToLedgerKey\((.+)\.(\w+)\)$`)
	keyOf := map[*types.Named]string{}
	keyExpr := func(n *types.Named) string {
		if s, ok := keyOf[n]; ok {
			return s
		}
		keyOf[n] = w.keyExprOf(n)
		return keyOf[n]
	}
	seen := map[string]bool{}
	for _, fn := range w.nodeFuncs() {
		if inLedgerPkg(w, fn) {
			continue
		}
		for _, c := range CallsIn(fn) {
			arms := w.ledgerArmsF(c)
			if len(arms) == 0 {
				continue
			}
			karg := w.ledgerItemArg(c)
			if karg == nil {
				continue
			}
			// addressed by the record's own Key(): agrees by construction
			if recv, n := w.ownKeyCall(karg); recv != nil {
				if lt := typeStr(ledgerRoot(arms[0].Recv).Type()); strings.Contains(lt, n.Obj().Name()) {
					key := "key-agreement:" + w.FName(fn) + ":" + n.Obj().Name() + ".Key()"
					if !seen[key] {
						seen[key] = true
						r.OK("O-6", key, "the record is addressed by its own Key()", site(w, c))
					}
				}
				continue
			}
			m := reKey.FindStringSubmatch(w.Canon(karg))
			if m == nil {
				continue
			}
			// the value whose field is the key: a ledger item?
			var base ssa.Value
			if call, isCall := stripConv(karg).(*ssa.Call); isCall && len(call.Common().Args) == 1 {
				if ld, isLd := stripConv(call.Common().Args[0]).(*ssa.UnOp); isLd && ld.Op == token.MUL {
					if fa, isFA := ld.X.(*ssa.FieldAddr); isFA {
						base = fa.X
					}
				}
			}
			if base == nil {
				continue
			}
			n, _ := types.Unalias(deref(base.Type())).(*types.Named)
			if n == nil || methodOfNamed(w, n, "Key") == nil || methodOfNamed(w, n, "Decode") == nil {
				continue
			}
			// the ledger must hold items of that type (the key of a stake used on the delegatee
			// ledger is a reference, not the record's own key)
			lt := typeStr(ledgerRoot(arms[0].Recv).Type())
			if !strings.Contains(lt, n.Obj().Name()) {
				continue
			}
			key := "key-agreement:" + w.FName(fn) + ":" + n.Obj().Name() + "." + m[2]
			if seen[key] {
				continue
			}
			seen[key] = true
			want := "ledger.ToLedgerKey(recv." + m[2] + ")"
			got := keyExpr(n)
			r.Check(got == want, "O-6", key, "the record is addressed by "+n.Obj().Name()+"."+m[2]+", which is what "+n.Obj().Name()+".Key() returns on every path", n.Obj().Name()+".Key() is not `"+want+"` on every return ("+got+"): the record is stored under its Key() but addressed here by "+w.Canon(karg), site(w, c))
		}
	}
}

func o1(w *World, r *Report) {
	// facts (operand patterns): the sender is not the owner of the stake named by
	// the payload / that stake does not exist
	stake := `delegateeLedger\.(Get|GetFinality).*\(ledger\.ToLedgerKey\(p0\.Tx\.To\)\)#0\)?\.FindStake\(p0\.Tx\.Payload\.\(\*types\.TrxPayloadUnstaking\)(#0)?\.TxHash\)#1`
	notOwner := AR(`^p0\.Tx\.From$`, "!=", stake+`\.From$`)
	missing := AR(stake+`$`, "==", `^nil$`)
	sv := needFn(r, "O-1", w, fref{pkgStake, "StakeCtrler", "ValidateTrx"})
	if sv != nil {
		base := w.evalTxCond(txAbs{typ: 3})
		ok, why := w.failsUnder(sv, base, notOwner)
		sane := w.runUnder(sv, base, nil)
		r.Check(ok && sane.ok > 0, "O-1", "ValidateTrx(unstaking):owner", "an unstaking validation has no successful path when the sender does not own the stake named by the payload ("+why+")", "an unstaking transaction from someone who does not own the stake can pass validation: "+why, fnSite(w, sv))
	}
	eu := needFn(r, "O-1", w, fref{pkgStake, "StakeCtrler", "exeUnstaking"})
	if eu != nil {
		delEv := func(in ssa.Instruction) string {
			if c, ok := in.(ssa.CallInstruction); ok && w.callIs(c.Common(), fref{pkgStake, "Delegatee", "DelStake"}) {
				return "DelStake"
			}
			return ""
		}
		reaches := func(f atom) (bool, string) {
			saved := w.branchMarkers
			w.branchMarkers = false
			fe := w.newFactEval(nil, f)
			paths, complete := w.enumPaths(eu, fe.eval, delEv, 4000)
			w.branchMarkers = saved
			if !complete {
				return true, "path enumeration incomplete"
			}
			for _, p := range paths {
				for _, e := range p.Events {
					if e == "DelStake" {
						return true, "a path removes the stake"
					}
				}
				if p.Term == "ok" {
					return true, "a path succeeds"
				}
			}
			return false, fmt.Sprintf("none of %d paths removes a stake or succeeds", len(paths))
		}
		bad, why := reaches(notOwner)
		r.Check(!bad, "O-1", "exeUnstaking:owner", "when the sender does not own the stake nothing is removed and the execution fails (issue #43): "+why, "exeUnstaking removes the stake without checking that the sender owns it: "+why, fnSite(w, eu))
		bad2, why2 := reaches(missing)
		r.Check(!bad2, "O-1", "exeUnstaking:stake-exists", "a missing stake fails before anything is removed: "+why2, "exeUnstaking does not fail on a missing stake: "+why2, fnSite(w, eu))
		// sanity: without facts the stake can be removed
		if b, _ := reaches(AR(`^never$`, "==", `^never$`)); !b {
			r.Undecided("O-1", "exeUnstaking:removal", "no path of exeUnstaking removes a stake", fnSite(w, eu))
		}
	}
}

// w6: what a stored reward record says after decoding is what was written. Each
// 256-bit counter of Reward that Decode (helpers included) assigns is computed from
// one field of the decoded message and from nothing else — in particular not from
// other counters of the record (the per-block counters issued/withdrawn/slashed are
// not totals; a withdrawable amount "reconstructed" from them is not what was
// stored) — every assignment of a counter names the same message field, and no two
// counters share one.
func w6(w *World, r *Report) {
	dec := needFn(r, "W-6", w, fref{pkgStake, "Reward", "Decode"})
	if dec == nil {
		return
	}
	rec := w.Named(pkgStake, "Reward")
	type src struct{ owner, field string }
	loadsOf := func(v ssa.Value) (recReads []string, wire []src) {
		seen := map[ssa.Value]bool{}
		var visit func(v ssa.Value, d int)
		visit = func(v ssa.Value, d int) {
			if v == nil || seen[v] || d > 8 || len(seen) > 300 {
				return
			}
			seen[v] = true
			note := func(t types.Type, idx int) bool {
				n, f := fieldOf(t, idx)
				if n == nil || f == nil {
					return false
				}
				if rec != nil && n.Obj() == rec.Obj() {
					recReads = append(recReads, f.Name())
				} else {
					wire = append(wire, src{n.Obj().Name(), f.Name()})
				}
				return true
			}
			switch x := v.(type) {
			case *ssa.UnOp:
				if fa, ok := x.X.(*ssa.FieldAddr); ok && x.Op == token.MUL && note(fa.X.Type(), fa.Field) {
					return
				}
			case *ssa.Field:
				if note(x.X.Type(), x.Field) {
					return
				}
			}
			if in, ok := v.(ssa.Instruction); ok {
				for _, op := range in.Operands(nil) {
					if op != nil && *op != nil {
						visit(*op, d+1)
					}
				}
			}
		}
		visit(v, 0)
		return
	}
	byField := map[string]map[string]bool{}
	var fields []string
	for _, fn := range w.withModuleCallees(dec, 2) {
		if w.FuncPkgPath(fn) != absPkg(pkgStake) {
			continue
		}
		for _, fs := range w.fieldStores(fn) {
			if rec == nil || fs.Owner == nil || fs.Owner.Obj() != rec.Obj() || !strings.HasSuffix(typeStr(fs.Field.Type()), "uint256.Int") {
				continue
			}
			f := fs.Field.Name()
			recReads, wire := loadsOf(fs.Val)
			ws := map[string]bool{}
			for _, s := range wire {
				ws[s.owner+"."+s.field] = true
			}
			if byField[f] == nil {
				byField[f] = map[string]bool{}
				fields = append(fields, f)
			}
			for k := range ws {
				byField[f][k] = true
			}
			key := fmt.Sprintf("Reward.%s:decoded-from-its-own-wire-field:%s", f, w.FName(fn))
			if len(recReads) > 0 || len(ws) != 1 {
				sort.Strings(recReads)
				r.Violate("W-6", key, fmt.Sprintf("a decoded reward record's %s is computed from %d message field(s) %v and the record's own counters %v: the stored amount is not what decoding yields (the per-block counters are not totals)", f, len(ws), sortedKeys(ws), recReads), nil, site(w, fs.In))
			} else {
				r.OK("W-6", key, "assigned from the one message field "+sortedKeys(ws)[0]+" only", site(w, fs.In))
			}
		}
	}
	sort.Strings(fields)
	owner := map[string]string{}
	for _, f := range fields {
		ks := sortedKeys(byField[f])
		ok := len(ks) == 1
		why := fmt.Sprintf("%v", ks)
		if ok {
			if o, dup := owner[ks[0]]; dup {
				ok, why = false, ks[0]+" is also the source of "+o
			}
			owner[ks[0]] = f
		}
		r.Check(ok, "W-6", "Reward."+f+":one-wire-field", "every assignment of the counter in the decoder names the same message field, which no other counter uses", "the decoder fills "+f+" from "+why, fnSite(w, dec))
	}
}

var reRefund = regexp.MustCompile(`^\(p0\.Height(\(\))? \+ (p0\.GovHandler|recv\.govParams)\.LazyRewardBlocks\(\)\)$`)

func o2(w *World, r *Report) {
	n := 0
	allowedFns := map[string]string{"stake.(*StakeCtrler).exeUnstaking": "unstaking", "stake.(*StakeCtrler).BeginBlock": "jailing"}
	// valueOK: the stored value is `height + LazyRewardBlocks()`; a parameter is
	// followed to the arguments at every call site
	var valueOK func(fn *ssa.Function, v ssa.Value, depth int) (bool, string)
	valueOK = func(fn *ssa.Function, v ssa.Value, depth int) (bool, string) {
		cv := w.Canon(v)
		if fn.Parent() != nil {
			cv = strings.ReplaceAll(cv, "^", "") // a closure sees its enclosing function's parameters
		}
		if reRefund.MatchString(cv) {
			return true, ""
		}
		if depth < 3 && fn.Blocks != nil && !reRefund.MatchString(cv) {
			// the value may be built from parameters: evaluate it at every call site
			if strings.Contains(cv, "p") {
				all := true
				forms := w.CanonAtCallers(fn, v)
				for _, s2 := range forms {
					if !reRefund.MatchString(strings.ReplaceAll(s2, "^", "")) {
						all = false
					}
				}
				if all && len(forms) > 0 {
					return true, ""
				}
			}
		}
		if pi := paramIndexIn(fn, v); pi >= 0 && depth < 3 {
			cs := w.nodeCallers(fn)
			if len(cs) == 0 {
				return false, "no caller of " + w.FName(fn)
			}
			for _, c := range cs {
				if pi >= len(c.Site.Common().Args) {
					return false, "call shape"
				}
				if ok, why := valueOK(c.Caller, c.Site.Common().Args[pi], depth+1); !ok {
					return false, why
				}
			}
			return true, ""
		}
		return false, w.Canon(v)
	}
	for _, fn := range w.nodeFuncs() {
		for _, fs := range w.fieldStores(fn) {
			if fs.Field.Name() != "RefundHeight" || !namedIs(fs.Owner, absPkg(pkgStake), "Stake") || baseFresh(fs.Addr) {
				continue
			}
			n++
			okV, v := valueOK(fn, fs.Val, 0)
			_, okFn := allowedFns[w.FName(fn)]
			if !okFn {
				_, okFn = w.onlyReachedFrom(fn, allowedFns, 0, map[*ssa.Function]bool{})
			}
			r.Check(okV && okFn, "O-2", fmt.Sprintf("RefundHeight:%s", w.FName(fn)), "refund height = current block height + governance unbonding period", "a stake's refund height is set to "+v+" (not `current height + LazyRewardBlocks()`), or outside unstaking / jailing", site(w, fs.In))
		}
	}
	if n < 1 {
		r.Undecided("O-2", "RefundHeight:stores", "no assignment of RefundHeight found")
	}
	// each frozen Set is preceded by the refund-height assignment of the same stake
	for _, ref := range []fref{{pkgStake, "StakeCtrler", "exeUnstaking"}, {pkgStake, "StakeCtrler", "BeginBlock"}} {
		root := w.Method(ref.pkg, ref.typ, ref.name)
		if root == nil {
			continue
		}
		// the function itself, its closures and the helpers of the package it calls
		var hosts []*ssa.Function
		seenH := map[*ssa.Function]bool{}
		var addHost func(f *ssa.Function, d int)
		addHost = func(f *ssa.Function, d int) {
			if f == nil || f.Blocks == nil || seenH[f] || d > 2 || w.FuncPkgPath(f) != absPkg(pkgStake) {
				return
			}
			seenH[f] = true
			hosts = append(hosts, f)
			for _, a := range f.AnonFuncs {
				addHost(a, d)
			}
			for _, c := range CallsIn(f) {
				if cal := c.Common().StaticCallee(); cal != nil && cal.Signature.Recv() != nil && cal.Parent() == nil {
					if rn := recvNamed(c.Common()); rn != nil && rn.Obj().Name() == "StakeCtrler" {
						addHost(cal, d+1)
					}
				}
			}
		}
		addHost(root, 0)
		for _, fn := range hosts {
			for _, c := range CallsIn(fn) {
				isFrozenSet := false
				for _, a := range w.ledgerArmsF(c) {
					if (a.Method == "Set" || a.Method == "SetFinality") && strings.HasSuffix(w.Canon(ledgerRoot(a.Recv)), ".frozenLedger") {
						isFrozenSet = true
					}
				}
				if !isFrozenSet {
					continue
				}
				arg := w.ledgerItemArg(c)
				if arg == nil {
					continue
				}
				ok := false
				for _, fs := range w.fieldStores(fn) {
					if fs.Field.Name() == "RefundHeight" && w.Canon(fs.Addr.(*ssa.FieldAddr).X) == w.Canon(arg) && instrDominates(fs.In, c) {
						ok = true
					}
				}
				// a helper that only writes the stake it is handed: the refund height is assigned
				// by every caller before the call
				if pr, isParam := stripConv(arg).(*ssa.Parameter); !ok && isParam && fn != root {
					pi := -1
					for i, p := range fn.Params {
						if p == pr {
							pi = i
						}
					}
					cs := w.nodeCallers(fn)
					all := pi >= 0 && len(cs) > 0
					for _, cs1 := range cs {
						if cs1.Site == nil || pi >= len(cs1.Site.Common().Args) {
							all = false
							continue
						}
						passed := cs1.Site.Common().Args[pi]
						found := false
						for _, fs := range w.fieldStores(cs1.Caller) {
							if fs.Field.Name() == "RefundHeight" && w.Canon(fs.Addr.(*ssa.FieldAddr).X) == w.Canon(passed) && instrDominates(fs.In, cs1.Site) {
								found = true
							}
						}
						if !found {
							all = false
						}
					}
					ok = all
				}
				// `setFrozen(s.frozenUntil(h))`: the argument is handed back by a helper that
				// assigns the refund height of that very stake on every path
				if hc, isCall := stripConv(arg).(*ssa.Call); !ok && isCall {
					if cal := hc.Common().StaticCallee(); cal != nil && w.InModule(cal) && cal.Blocks != nil {
						for pi, p := range cal.Params {
							if !returnsParam(cal, pi) {
								continue
							}
							for _, fs := range w.fieldStores(cal) {
								if fs.Field.Name() != "RefundHeight" || stripConv(fs.Addr.(*ssa.FieldAddr).X) != ssa.Value(p) {
									continue
								}
								all := true
								for _, b := range cal.Blocks {
									if rt, isR := lastInstr(b).(*ssa.Return); isR && b != cal.Recover && !instrDominates(fs.In, rt) {
										all = false
									}
								}
								if all {
									ok = true
								}
							}
						}
					}
				}
				key := refStr(ref) + ":frozen-after-refund-height:" + w.Canon(arg)
				if fn != root {
					key = refStr(ref) + ":frozen-after-refund-height:" + w.FName(fn) + ":" + w.Canon(arg)
				}
				r.Check(ok, "O-2", key, "the stake's refund height is assigned before it enters the frozen ledger", "a stake enters the frozen ledger without a refund height (it would be refunded at once)", site(w, c))
			}
		}
	}
}

func o3(w *World, r *Report) {
	uf := w.anonOf(pkgStake, "StakeCtrler", "unfreezingStakes", 1)
	if uf == nil {
		r.Undecided("O-3", "unfreezingStakes", "refund callback not found")
		return
	}
	uv := w.unfreezeVerdict(uf)
	rew := w.findCall(uf, "^p1.Reward(p0.From, types.PowerToAmount(p0.Power), true)")
	ok := uv.maturity && uv.refundThenDelete
	r.Check(ok, "O-3", "unfreezingStakes:maturity", "the refund is control-dependent on RefundHeight <= current height", "a frozen stake is refunded without (or with a wrong) maturity test", fnSite(w, uf))
	r.Check(rew != nil, "O-3", "unfreezingStakes:to-owner-in-full", "the owner (stake.From) is credited PowerToAmount(stake.Power) in the consensus overlay", "the refund does not credit PowerToAmount(power) to the stake's owner", fnSite(w, uf))
	// iterates the frozen ledger's committed items
	un := w.Method(pkgStake, "StakeCtrler", "unfreezingStakes")
	okIt := false
	if un != nil {
		// every path through unfreezingStakes (helpers expanded) performs the scan: no
		// shortcut may skip a block's examination of the frozen ledger
		scanEv := func(in ssa.Instruction) string {
			if c, isC := in.(ssa.CallInstruction); isC && strings.HasPrefix(w.canonCall(c.Common(), 0), "recv.frozenLedger.IterateReadAllFinalityItems(") {
				return "SCAN"
			}
			return ""
		}
		paths, complete := w.enumPaths(un, func(ssa.Value) (bool, bool) { return false, false }, scanEv, 2000)
		okIt = complete && len(paths) > 0
		for _, p := range paths {
			if (p.Term == "ok" || p.Term == "unknown") && len(p.Events) != 1 {
				okIt = false
			}
		}
	}
	r.Check(okIt, "O-3", "unfreezingStakes:scans-frozen-ledger", "every committed frozen stake is examined, on every path, once per call", "unfreezingStakes can return without scanning the frozen ledger (a matured stake would stay locked)", fnSite(w, uf))
	w.checkCallers(r, "O-3", fref{pkgStake, "StakeCtrler", "unfreezingStakes"}, map[string]string{"stake.(*StakeCtrler).EndBlock": "once per block"}, 1)
	eb := needFn(r, "O-3", w, fref{pkgStake, "StakeCtrler", "EndBlock"})
	if eb != nil {
		c := w.findCall(eb, "recv.unfreezingStakes(p0.Height(), p0.AcctHandler)")
		r.Check(c != nil, "O-3", "EndBlock:unfreezing", "EndBlock runs the refund with the block's height and account handler", "EndBlock does not run the refund with the block's own height", fnSite(w, eb))
	}
	ae := needFn(r, "O-3", w, fref{"node", "RigoApp", "EndBlock"})
	if ae != nil {
		n := w.endBlockCalls()["recv.stakeCtrler"]
		r.Check(n == 1, "O-3", "RigoApp.EndBlock:stake-endblock-once", "the stake controller's EndBlock runs exactly once per block", "the stake controller's EndBlock does not run exactly once per block", fnSite(w, ae))
	}
}

// ---------------------------------------------------------------- C13

func checkC13(w *World, r *Report) {
	r.Explanation = "Structural clause of C13: (W-1) rewards are issued only under `vote.SignedLastBlock`, to the delegatee read by the vote's validator address from the immutable delegatee ledger at height-4 (clamped), and Reward.Issue has no other caller path; (W-2) per stake the issued amount is uint64(stake.Power) x RewardPerPower() on the reward object keyed by the stake's owner (existing or new), which is then recorded in the consensus overlay; (W-3) Issue adds its argument to the withdrawable total and Withdraw subtracts it; (W-4) a withdrawal passes validation only if the requested amount does not exceed the withdrawable total of the sender's reward object in the overlay selected by exec, on every success path for that tx type, and the execution moves one and the same amount (C02 V-2). (W-6) decoding a stored reward record yields what was stored: each 256-bit counter that Reward.Decode (helpers included) assigns is computed from one field of the decoded message and from nothing else — not from other counters of the record — every assignment of a counter names the same message field and no two counters share one."
	r.NotCovered = "reward totals over histories; that height-4 is the height consensus used for the voting power (the code additionally skips a validator whose recorded power differs from the vote's); the clamp for heights below 4."
	bb := needFn(r, "W-1", w, fref{pkgStake, "StakeCtrler", "BeginBlock"})
	if bb != nil {
		vote := "p0.BlockInfo().LastCommitInfo.Votes[(phi((φ + 1)|-1) + 1)]"
		immu := "recv.delegateeLedger.ImmutableLedgerAt(phi((p0.Height() - 4)|1), 128)#0"
		// found in BeginBlock or in a helper it hands the vote, the ledger and the height to
		drs := w.findCallsDeep(bb, "recv.doRewardTo("+immu+".Get(ledger.ToLedgerKey("+vote+".Validator.Address))#0, p0.Height())")
		var dr *deepCall
		if len(drs) == 1 {
			dr = &drs[0]
		}
		r.Check(dr != nil && w.condHoldsDeep(bb, dr.Fn, dr.Call, vote+".SignedLastBlock", 1, 0), "W-1", "BeginBlock:reward-only-signers", "doRewardTo runs only for votes with SignedLastBlock, on the delegatee of that vote's validator address", "rewards are issued for validators that did not sign (or not to the voter's delegatee)", fnSite(w, bb))
		r.Check(dr != nil, "W-1", "BeginBlock:stakes-at-height-minus-4", "the rewarded stakes are those recorded at height-4 (immutable ledger), at the block's height", "the rewarded stakes are not read from the immutable delegatee ledger at height-4", fnSite(w, bb))
		if dr != nil {
			// power agreement guard
			pw := w.condHoldsDeep(bb, dr.Fn, dr.Call, symCmp(immu+".Get(ledger.ToLedgerKey("+vote+".Validator.Address))#0.TotalPower", "!=", vote+".Validator.Power"), -1, 0)
			r.Check(pw, "W-1", "BeginBlock:power-agrees-with-vote", "a validator whose recorded power differs from the vote's power is skipped", "the recorded power is no longer compared with the vote's power", site(w, dr.Call))
		}
	}
	w.checkCallers(r, "W-1", fref{pkgStake, "Reward", "Issue"}, map[string]string{"stake.(*StakeCtrler).doRewardTo": "per-stake issuance"}, 1)
	w.checkCallers(r, "W-1", fref{pkgStake, "StakeCtrler", "doRewardTo"}, map[string]string{"stake.(*StakeCtrler).BeginBlock": "per signed vote", "stake.(*StakeCtrler).DoReward": "exported test entry (no caller in the node)"}, 1)
	dr := needFn(r, "W-2", w, fref{pkgStake, "StakeCtrler", "doRewardTo"})
	if dr != nil {
		// evaluated per stake under facts about the reward-ledger lookup (helpers
		// expanded, the reward object resolved along the path)
		st := "p0.Stakes[(phi((φ + 1)|-1) + 1)]"
		get := "recv.rewardLedger.GetFinality(ledger.ToLedgerKey(" + st + ".From))"
		amt := mulExpr("new(uint256.Int)", "uint256.NewInt(uint64("+st+".Power))", "recv.govParams.RewardPerPower()")
		ev := func(in ssa.Instruction) string {
			c, ok := in.(ssa.CallInstruction)
			if !ok {
				return ""
			}
			cc := c.Common()
			switch {
			case w.callIs(cc, fref{pkgStake, "Reward", "Issue"}):
				rcv, args := callRecvArgs(cc)
				if len(args) == 2 {
					return "ISS\x01" + w.Canon(w.phiOnPath(rcv)) + "\x01" + w.canonResolved(args[0]) + "\x01" + w.Canon(args[1])
				}
				return "ISS\x01?"
			case w.callIs(cc, fref{pkgStake, "", "NewReward"}):
				return "NEW\x01" + w.canonCall(cc, 0)
			default:
				if arms := w.ledgerArms(c); len(arms) == 1 && arms[0].Method == "SetFinality" && strings.HasSuffix(w.Canon(arms[0].Recv), ".rewardLedger") {
					return "SET\x01" + w.Canon(w.phiOnPath(cc.Args[len(cc.Args)-1]))
				}
			}
			return ""
		}
		run := func(facts ...atom) ([]pathEnd, bool) {
			fe := w.newFactEval(nil, facts...)
			saved := w.branchMarkers
			w.branchMarkers = false
			e := &enumerator{w: w, eval: fe.eval, event: ev, max: 4000, complete: true, evCache: map[ssa.Instruction]string{}, hasEv: map[*ssa.Function]int{}, pathSensitiveEvents: true, callResults: true}
			var out []pathEnd
			e.walkFn(dr, nil, 0, func(evs []string, ret *ssa.Return, term string) {
				out = append(out, pathEnd{append([]string(nil), evs...), term, ret, nil})
			})
			w.cur = nil
			w.branchMarkers = saved
			return out, e.complete && len(fe.used) > 0
		}
		errv := regexp.QuoteMeta(get) + `#1$`
		found := []atom{AR(errv, "==", `^nil$`), AR(errv, "!=", `^xerrors\.ErrNotFoundResult$`)}
		notFound := []atom{AR(errv, "==", `^xerrors\.ErrNotFoundResult$`), AR(errv, "!=", `^nil$`)}
		other := []atom{AR(errv, "!=", `^xerrors\.ErrNotFoundResult$`), AR(errv, "!=", `^nil$`)}
		// every ISS is followed by a SET of the same object before the next ISS; wantObj is the object issued to
		wellFormed := func(ps []pathEnd, wantObj string, wantNew bool) (issOK, setOK, newOK bool) {
			issOK, setOK, newOK = true, true, true
			n := 0
			for _, p := range ps {
				pending := ""
				sawNew := false
				for _, e := range p.Events {
					f := strings.Split(e, "\x01")
					switch f[0] {
					case "NEW":
						sawNew = true
						if !wantNew || f[1] != "stake.NewReward("+st+".From)" {
							newOK = false
						}
					case "ISS":
						n++
						if pending != "" {
							setOK = false
						}
						if len(f) != 4 || f[1] != wantObj || f[2] != amt || f[3] != "p1" {
							issOK = false
						}
						if wantNew && !sawNew {
							newOK = false
						}
						pending = f[1]
						sawNew = false
					case "SET":
						if pending == "" || f[1] != pending {
							setOK = false
						}
						pending = ""
					}
				}
				if pending != "" && (p.Term == "ok" || p.Term == "loop") {
					setOK = false
				}
			}
			if n == 0 {
				issOK = false
			}
			return
		}
		pf, c1 := run(found...)
		pn, c2 := run(notFound...)
		if os.Getenv("RIGOCHECK_DEBUG") != "" {
			for _, p := range pf {
				fmt.Println("DBG found", p.Term, p.Events)
			}
			for _, p := range pn {
				fmt.Println("DBG notfound", p.Term, p.Events)
			}
		}
		po, c3 := run(other...)
		i1, s1, n1 := wellFormed(pf, get+"#0", false)
		i2, s2, n2 := wellFormed(pn, "stake.NewReward("+st+".From)", true)
		skipOther := c3
		for _, p := range po {
			if len(p.Events) > 0 {
				skipOther = false
			}
		}
		r.Check(c1 && c2 && i1 && i2, "W-2", "doRewardTo:amount-and-owner", "each stake issues power x RewardPerPower() to the reward object of the stake's owner", "the per-stake reward is not `stake power x RewardPerPower()` issued to the stake owner's reward object", fnSite(w, dr))
		r.Check(c1 && c2 && s1 && s2, "W-2", "doRewardTo:recorded", "the updated reward object is recorded in the consensus overlay", "the updated reward object is not recorded", fnSite(w, dr))
		r.Check(c1 && c2 && n1 && n2 && skipOther, "W-2", "doRewardTo:new-only-if-absent", "a fresh reward object is used only when none exists; any other lookup error skips the stake", "an existing reward object can be replaced by a fresh one (or a failed lookup is rewarded)", fnSite(w, dr))
	}
	is := needFn(r, "W-3", w, fref{pkgStake, "Reward", "Issue"})
	if is != nil {
		c := w.findCall(is, "recv.cumulated.Add(recv.cumulated, p0)")
		ok := c != nil
		if ok {
			for _, b := range is.Blocks {
				if rt, isR := lastInstr(b).(*ssa.Return); isR && b != is.Recover && !instrDominates(c, rt) {
					ok = false
				}
			}
		}
		r.Check(ok, "W-3", "Reward.Issue:adds", "every issuance adds its amount to the withdrawable total", "Issue does not add the amount to the withdrawable total on every path", fnSite(w, is))
	}
	wd := needFn(r, "W-3", w, fref{pkgStake, "Reward", "Withdraw"})
	if wd != nil {
		c := w.findCall(wd, "recv.cumulated.Sub(recv.cumulated, p0)")
		ok := c != nil
		if ok {
			for _, b := range wd.Blocks {
				if rt, isR := lastInstr(b).(*ssa.Return); isR && b != wd.Recover && !instrDominates(c, rt) {
					ok = false
				}
			}
		}
		r.Check(ok, "W-3", "Reward.Withdraw:subtracts", "every withdrawal subtracts its amount from the withdrawable total", "Withdraw does not subtract the amount from the withdrawable total on every path", fnSite(w, wd))
	}
	for _, f := range []string{"cumulated"} {
		_ = f
	}
	sv := needFn(r, "W-4", w, fref{pkgStake, "StakeCtrler", "ValidateTrx"})
	if sv != nil {
		base := w.evalTxCond(txAbs{typ: 8})
		// under "requested amount > withdrawable (cumulated) reward of the sender's reward object
		// read through the exec-selected overlay" the validation has no successful path
		over := AR(`TrxPayloadWithdraw\)(#0)?\.ReqAmt$`, ">", `rewardLedger\.(Get|GetFinality).*\(ledger\.ToLedgerKey\(p0\.Tx\.From\)\)#0\)?\.(cumulated|GetCumulated\(\))$`)
		ok, _ := w.failsUnder(sv, base, over)
		n := w.runUnder(sv, base, nil).ok
		r.Check(ok && n > 0, "W-4", "ValidateTrx(withdraw):bounded", fmt.Sprintf("all %d success paths of a withdraw validation refuse a request above the sender's withdrawable reward", n), "a withdrawal above the withdrawable reward can pass validation", fnSite(w, sv))
	}
	rep := NewReport("C13", "quick")
	v2(w, rep)
	for _, o := range rep.Obs {
		if strings.Contains(o.Key, "exeWithdraw") || strings.Contains(o.Key, "AcctCtrler.Reward") {
			o.Rule = "W-4"
			o.Key = "W-4:" + strings.TrimPrefix(o.Key, "V-2:")
			r.Obs = append(r.Obs, o)
		}
	}
	// W-5: the counters of a reward record are separate objects. Issue and Withdraw
	// update `cumulated` (and, within a block, the per-block counters) in place; if two
	// fields of one record held the same 256-bit object, an addition to the one and a
	// subtraction from the other would cancel.
	nW5 := w.distinctCounterObjects(r, "W-5", pkgStake, "Reward")
	if nW5 == 0 {
		r.Undecided("W-5", "constructors", "no function assigns two 256-bit fields of a Reward")
	}
	w6(w, r)
	r.Floor("W-6", 4, "decoded counters of a reward record")
	r.Floor("W-1", 5, "issuance condition")
	r.Floor("W-2", 3, "issuance amount")
	r.Floor("W-3", 2, "reward arithmetic")
	r.Floor("W-4", 3, "withdrawal")
}

// ---------------------------------------------------------------- C14

func checkC14(w *World, r *Report) {
	r.Explanation = "Structural clause of C14: (J-1) RigoApp.BeginBlock runs the governance and the stake BeginBlock on the block's context; each ranges over all ByzantineValidators and punishes once per entry; the object slashed and recorded is the one looked up by the evidence's validator address, with the governance slash ratio; governance punishes exactly the proposals whose voters contain that address; (J-2) doSlashAll reduces each stake by power x ratio / 100, forfeits a stake whose reduction would be below 1 and recomputes the totals; GovProposal.DoPunish applies the same ratio expression to the voter's power, cancels the vote before and re-casts it after, and updates TotalVotingPower and MajorityPower = total x 2 / 3; (J-3) a non-signer is marked at height-1, its misses counted in [max(0, h-1-window), h-1], and only when window - missed < MinSignedBlocks all its stakes are moved to the frozen ledger (with refund height) and the delegatee is deleted; (J-4) the candidate list of a block is rebuilt into storage of its own, so the update that follows a jailing names the jailed validator (C10 U-1). J-2 recast-choice: no read of the voter's choice lies between cancelVote (which resets it) and the re-cast."
	r.NotCovered = "rounding effects summed over many stakes; the window behaviour over long histories (BlockMarker pruning); that no other validator changes is argued by the key used, not by an alias analysis."
	j1(w, r)
	j2(w, r)
	j3(w, r)
	// J-4: "exactly the offender" also holds for what consensus is told: the
	// candidate list of a block is rebuilt from the committed ledger into a list of
	// its own (not into the storage the previous selection still refers to), so the
	// removal that follows a jailing names the jailed validator (C10 U-1)
	{
		tmp := NewReport(r.Prop, r.Tier)
		u1(w, tmp)
		n := 0
		for _, o := range tmp.Obs {
			if o.Rule == "U-1" && strings.Contains(o.Key, "BeginBlock:candidates") {
				o.Rule = "J-4"
				o.Key = "J-4:" + strings.TrimPrefix(o.Key, "U-1:")
				r.Obs = append(r.Obs, o)
				n++
			}
		}
		if n < 1 {
			r.Undecided("J-4", "candidates", "the candidate-list rule (C10 U-1) produced no obligation")
		}
	}
	r.Floor("J-1", 7, "evidence frame")
	r.Floor("J-2", 7, "slashing arithmetic")
	r.Floor("J-3", 5, "downtime")
}

func j1(w *World, r *Report) {
	ab := needFn(r, "J-1", w, fref{"node", "RigoApp", "BeginBlock"})
	if ab != nil {
		g := w.findCall(ab, "recv.govCtrler.BeginBlock(recv.nextBlockCtx)")
		s := w.findCall(ab, "recv.stakeCtrler.BeginBlock(recv.nextBlockCtx)")
		r.Check(g != nil && s != nil, "J-1", "RigoApp.BeginBlock:both-controllers", "the governance and the stake controller both process the block's evidence", "RigoApp.BeginBlock does not run both controllers' BeginBlock on the block context", fnSite(w, ab))
	}
	evi := "p0.BlockInfo().ByzantineValidators[(phi((φ + 1)|-1) + 1)]"
	sb := needFn(r, "J-1", w, fref{pkgStake, "StakeCtrler", "BeginBlock"})
	if sb != nil {
		ok := false
		// the loop may live in BeginBlock or in a helper it calls on every path
		host, hc, outer := w.hostOfCall(sb, func(s string) bool { return strings.HasPrefix(s, "recv.doPunish(") }, 0)
		if host != nil {
			bound := false
			if outer != nil {
				cal := outer.Common().StaticCallee()
				env := map[*ssa.Parameter]string{}
				for j, p := range cal.Params {
					env[p] = w.Canon(outer.Common().Args[j])
				}
				w.inlineEnv = append(w.inlineEnv, env)
				bound = true
				// the helper runs on every normal path of BeginBlock
				for _, b := range sb.Blocks {
					if ret, isR := lastInstr(b).(*ssa.Return); isR && b != sb.Recover && w.errState(ret) != triNonNil && !instrDominates(outer, ret) {
						host = nil
					}
				}
			}
			if host != nil {
				_, a := callRecvArgs(hc.Common())
				if len(a) == 2 && w.Canon(a[1]) == "p0.GovHandler.SlashRatio()" && w.allocInitialisedFrom(a[0], evi) {
					ok = true
				}
			}
			if bound {
				w.inlineEnv = w.inlineEnv[:len(w.inlineEnv)-1]
			}
		}
		r.Check(ok, "J-1", "StakeCtrler.BeginBlock:evidence-loop", "doPunish runs once per evidence entry with the governance slash ratio", "the stake controller does not punish each evidence entry with the governance slash ratio", fnSite(w, sb))
	}
	gb := needFn(r, "J-1", w, fref{"ctrlers/gov", "GovCtrler", "BeginBlock"})
	if gb != nil {
		ok := false
		for _, c := range w.callsTo(gb, fref{"ctrlers/gov", "GovCtrler", "doPunish"}) {
			_, a := callRecvArgs(c.Common())
			if len(a) == 1 && w.allocInitialisedFrom(a[0], evi) {
				ok = true
			}
		}
		r.Check(ok, "J-1", "GovCtrler.BeginBlock:evidence-loop", "governance punishes once per evidence entry", "the governance controller does not punish each evidence entry", fnSite(w, gb))
	}
	sp := needFn(r, "J-1", w, fref{pkgStake, "StakeCtrler", "doPunish"})
	if sp != nil {
		d := "recv.delegateeLedger.GetFinality(ledger.ToLedgerKey(p0.Validator.Address))#0"
		sl := w.findCall(sp, d+".DoSlash(p1)")
		set := w.findCall(sp, "recv.delegateeLedger.SetFinality("+d+")")
		r.Check(sl != nil && set != nil && instrDominates(sl, set), "J-1", "StakeCtrler.doPunish:target", "the delegatee slashed and recorded is the one at the evidence's validator address, with the given ratio", "the stake controller slashes or records an object other than the delegatee at the evidence's validator address", fnSite(w, sp))
		// every evidence entry whose validator is found is slashed: once the lookup
		// succeeded, every path slashes and records, and none fails (the caller only logs
		// a failure and goes on, so a refusal is a silently skipped punishment)
		if sl != nil && set != nil {
			ev := func(in ssa.Instruction) string {
				switch in {
				case ssa.Instruction(sl.(ssa.Instruction)):
					return "SLASH"
				case ssa.Instruction(set.(ssa.Instruction)):
					return "RECORD"
				}
				return ""
			}
			fe := w.newFactEval(nil, AR(`^recv\.delegateeLedger\.GetFinality\(ledger\.ToLedgerKey\(p0\.Validator\.Address\)\)#1$`, "==", "^nil$"))
			saved := w.branchMarkers
			w.branchMarkers = false
			ps, complete := w.enumPaths(sp, fe.eval, ev, 2000)
			w.branchMarkers = saved
			bad, nP := "", 0
			if !complete || len(fe.used) == 0 {
				bad = "the paths after a successful lookup cannot be enumerated"
			}
			for _, p := range ps {
				if p.Term == "panic" {
					continue
				}
				nP++
				if p.Term == "err" {
					bad = "the punishment is refused although the validator was found"
				} else if strings.Join(p.Events, ",") != "SLASH,RECORD" {
					bad = "a path after the lookup runs [" + strings.Join(p.Events, ",") + "]"
				}
			}
			r.Check(bad == "" && nP > 0, "J-1", "StakeCtrler.doPunish:every-found-validator", "once the validator's delegatee is found, every path slashes it with the given ratio and records it", "evidence against a known validator can be skipped: "+bad, fnSite(w, sp))
		}
		g, ok := w.guardProtectsSuccess(sp, func(c string) bool {
			return c == "(recv.delegateeLedger.GetFinality(ledger.ToLedgerKey(p0.Validator.Address))#1 != nil)"
		})
		r.Check(g != nil && ok, "J-1", "StakeCtrler.doPunish:unknown-validator", "evidence against an unknown validator changes nothing", "evidence against an unknown validator is not an error", fnSite(w, sp))
	}
	ds := needFn(r, "J-1", w, fref{pkgStake, "Delegatee", "DoSlash"})
	if ds != nil {
		r.Check(w.findCall(ds, "recv.doSlashAll(p0)") != nil, "J-1", "DoSlash:all-stakes", "slashing applies to every stake bonded to the validator (issue #49)", "DoSlash does not slash all stakes", fnSite(w, ds))
	}
	gp := needFn(r, "J-1", w, fref{"ctrlers/gov", "GovCtrler", "doPunish"})
	if gp != nil {
		// somewhere under doPunish (closures and helpers included) a voter's address is
		// compared for equality with the evidence's validator address
		okSel := w.findAtomDeep(gp, 0, func(a atom) bool {
			if a.Rel != relEQ && a.Rel != relLT|relGT {
				return false
			}
			l, rr := strings.ReplaceAll(a.L, "^", ""), strings.ReplaceAll(a.R, "^", "")
			isAddr := func(x string) bool { return strings.HasSuffix(x, ".Addr") }
			isEvi := func(x string) bool {
				return strings.HasSuffix(x, "p0.Validator.Address") || strings.HasSuffix(x, "p0.Validator.Address)")
			}
			return (isAddr(l) && isEvi(rr)) || (isAddr(rr) && isEvi(l))
		})
		r.Check(okSel, "J-1", "GovCtrler.doPunish:selection", "only proposals whose voters contain the evidence's validator address are touched", "governance punishment is not restricted to proposals the offender votes in", fnSite(w, gp))
		okP := false
		var pc, sc ssa.CallInstruction
		for _, c := range CallsIn(gp) {
			s := w.canonCall(c.Common(), 0)
			// a forwarding getter of the controller (`recv.SlashRatio()`) is the embedded one
			sI := w.canonCallArgsI(c.Common())
			for _, s := range []string{s, sI} {
				if strings.HasSuffix(s, ".DoPunish(p0.Validator.Address, recv.GovParams.SlashRatio())") && strings.HasPrefix(s, "recv.proposalLedger.GetFinality(") {
					pc = c
				}
			}
			if strings.HasPrefix(s, "recv.proposalLedger.SetFinality(recv.proposalLedger.GetFinality(") {
				sc = c
			}
		}
		okP = pc != nil && sc != nil && instrDominates(pc, sc)
		r.Check(okP, "J-1", "GovCtrler.doPunish:target", "each selected proposal is punished for that address with the governance slash ratio and recorded", "governance does not punish and record the selected proposals for the offender with the governance slash ratio", fnSite(w, gp))
	}
}

// allocInitialisedFrom: v is the address of a local whose (single) initialising store has canonical value src.
func (w *World) allocInitialisedFrom(v ssa.Value, src string) bool {
	a, ok := v.(*ssa.Alloc)
	if !ok || a.Referrers() == nil {
		return false
	}
	n, good := 0, 0
	for _, ref := range *a.Referrers() {
		if st, isS := ref.(*ssa.Store); isS && st.Addr == a {
			n++
			if w.Canon(st.Val) == src {
				good++
			}
		}
	}
	return n == 1 && good == 1
}

func j2(w *World, r *Report) {
	ds := needFn(r, "J-2", w, fref{pkgStake, "Delegatee", "doSlashAll"})
	if ds != nil {
		// the three steps may sit in doSlashAll or in helpers it calls on the same
		// delegatee with the same ratio (a pipeline slash / drop / recompute); the
		// stake is the element of a range loop or of an index loop from 0
		hosts := []*ssa.Function{ds}
		ratioHost := map[*ssa.Function]bool{ds: true}
		for _, hc := range CallsIn(ds) {
			g := hc.Common().StaticCallee()
			if g == nil || !w.InModule(g) || g.Blocks == nil || g.Signature.Recv() == nil || len(hc.Common().Args) == 0 || w.Canon(hc.Common().Args[0]) != "recv" {
				continue
			}
			hosts = append(hosts, g)
			// a helper that takes the ratio takes doSlashAll's own
			if len(hc.Common().Args) > 1 && w.Canon(hc.Common().Args[1]) == "p0" {
				ratioHost[g] = true
			}
		}
		okRed, okThr, okAp := false, false, false
		var rm []ssa.CallInstruction
		for _, h := range hosts {
			rm = append(rm, w.findCallMatch(h, regexp.MustCompile(`^recv\.delStakeByHash\(.+\.TxHash\)$`))...)
			for _, s := range []string{"recv.Stakes[(phi((φ + 1)|-1) + 1)]", "recv.Stakes[phi(0|(φ + 1))]", "recv.Stakes[phi((φ + 1)|0)]"} {
				sl := "((" + s + ".Power * p0) / 100)"
				st := w.findStore(h, s+".Power", "("+s+".Power - "+sl+")")
				if st == nil || len(w.storesToSuffix(h, ".Power")) != 1 || !ratioHost[h] {
					continue
				}
				okRed = true
				if w.condCanonHolds(st.Block(), "("+sl+" < 1)", -1) {
					okThr = true
				}
				for _, b := range h.Blocks {
					for _, in := range b.Instrs {
						if c, isC := in.(*ssa.Call); isC {
							if bi, isB := c.Common().Value.(*ssa.Builtin); isB && bi.Name() == "append" && w.condCanonHolds(b, "("+sl+" < 1)", 1) {
								okAp = true
							}
						}
					}
				}
			}
		}
		nPow := 0
		for _, h := range hosts {
			nPow += len(w.storesToSuffix(h, ".Power"))
		}
		r.Check(okRed && nPow == 1, "J-2", "doSlashAll:reduction", "each stake loses power x ratio / 100 (rounded down)", "a stake's slashing is not `power x ratio / 100`", fnSite(w, ds))
		r.Check(okThr, "J-2", "doSlashAll:only-if-reducible", "the reduction applies only when it is at least one power unit", "the threshold `slashed < 1` for forfeiting a stake changed", fnSite(w, ds))
		// forfeited stakes are removed
		r.Check(len(rm) == 1 && okAp, "J-2", "doSlashAll:forfeit", "a stake too small to be reduced is removed (forfeited)", "stakes whose reduction would be below one unit are not forfeited", fnSite(w, ds))
	}
	dp := needFn(r, "J-2", w, fref{"ctrlers/gov/proposal", "GovProposal", "DoPunish"})
	if dp != nil {
		// DoPunish is evaluated on its paths (helpers expanded, simple helpers inlined
		// in values): what matters is the sequence multiply, divide, shrink the voter,
		// shrink the total, recompute the majority, with the vote cancelled before and
		// re-cast after the voter's power changes
		v := "recv.GovProposalHeader.Voters[p0.String()]#0"
		x := "uint256.NewInt(uint64(" + v + ".Power))"
		slash := "int64(" + x + ".Uint64())"
		calls := map[string]string{
			mulExpr(x, x, "uint256.NewInt(uint64(p1))"): "MUL",
			x + ".Div(" + x + ", uint256.NewInt(100))":  "DIV",
			"recv.cancelVote(" + v + ")":                "CV",
			"recv.doVote(" + v + ", " + v + ".Choice)":  "DV",
		}
		stores := map[string]string{
			v + ".Power=(" + v + ".Power - " + slash + ")":                                                      "SP",
			"recv.GovProposalHeader.TotalVotingPower=(recv.GovProposalHeader.TotalVotingPower - " + slash + ")": "ST",
			"recv.GovProposalHeader.MajorityPower=((recv.GovProposalHeader.TotalVotingPower * 2) / 3)":          "SM",
			// the same from the value that is being stored as the new total (a setter helper)
			"recv.GovProposalHeader.MajorityPower=(((recv.GovProposalHeader.TotalVotingPower - " + slash + ") * 2) / 3)": "SM",
		}
		// the voter is the record looked up under the offender's address, however the
		// lookup is packaged (a helper of the header, the key built by a helper)
		vRe := regexp.MustCompile(`^recv\.GovProposalHeader\.Voters\[[^\]]*\bp0\b[^\]]*\]#0$`)
		var vForms []string
		for _, b := range dp.Blocks {
			for _, in := range b.Instrs {
				if ex, isE := in.(*ssa.Extract); isE && ex.Index == 0 && !strings.Contains(w.CanonI(ex), "p1") && vRe.MatchString(w.CanonI(ex)) {
					for _, f := range []string{w.CanonI(ex), w.Canon(ex)} {
						if f != v {
							vForms = append(vForms, f)
						}
					}
				}
			}
		}
		sort.Slice(vForms, func(i, j int) bool { return len(vForms[i]) > len(vForms[j]) })
		normV := func(s string) string {
			for _, f := range vForms {
				s = strings.ReplaceAll(s, f, v)
			}
			return s
		}
		ev := func(in ssa.Instruction) string {
			switch y := in.(type) {
			case ssa.CallInstruction:
				if l, ok := calls[normV(w.canonCall(y.Common(), 0))]; ok {
					return l
				}
				// other 256-bit arithmetic (also what a helper's body looks like before its
				// parameters are bound, so that the helper is expanded)
				if f := y.Common().StaticCallee(); f != nil && f.Pkg != nil && f.Pkg.Pkg.Path() == "github.com/holiman/uint256" && (f.Name() == "Mul" || f.Name() == "Div") {
					return "ARITH?"
				}
			case *ssa.Store:
				if _, isF := y.Addr.(*ssa.FieldAddr); !isF {
					return ""
				}
				a := normV(w.Canon(y.Addr))
				val := normV(w.CanonI(y.Val))
				if l, ok := stores[a+"="+val]; ok {
					return l
				}
				if strings.HasSuffix(a, ".Power") || strings.HasSuffix(a, ".TotalVotingPower") || strings.HasSuffix(a, ".MajorityPower") {
					return "OTHER:" + a
				}
			}
			return ""
		}
		seq := func(evs []string) map[string][]int {
			pos := map[string][]int{}
			for i, e := range evs {
				pos[e] = append(pos[e], i)
			}
			return pos
		}
		one := func(pos map[string][]int, ks ...string) bool {
			for _, k := range ks {
				if len(pos[k]) != 1 {
					return false
				}
			}
			return true
		}
		all := w.runUnder(dp, nil, ev)
		if os.Getenv("RIGOCHECK_DEBUG") == "j2" {
			fmt.Fprintln(os.Stderr, "J2 vForms", vForms, "complete", all.complete, "ok", all.ok)
			for _, evs := range all.okEvents {
				fmt.Fprintln(os.Stderr, "J2 path", evs)
			}
			for _, b := range dp.Blocks {
				for _, in := range b.Instrs {
					if ex, isE := in.(*ssa.Extract); isE {
						fmt.Fprintln(os.Stderr, "J2 extract", w.Canon(ex), "|", w.CanonI(ex))
					}
				}
			}
		}
		okRatio, okTotals, okOrder := all.complete && all.ok > 0, all.complete && all.ok > 0, all.complete && all.ok > 0
		nPunish := 0
		for _, evs := range all.okEvents {
			pos := seq(evs)
			if len(evs) == 0 {
				continue // the voter is unknown: nothing happens
			}
			nPunish++
			for e := range pos {
				if strings.HasPrefix(e, "OTHER:") {
					okTotals = false
				}
				if e == "ARITH?" {
					okRatio = false
				}
			}
			if !one(pos, "MUL", "DIV", "SP", "ST") || !(pos["MUL"][0] < pos["DIV"][0] && pos["DIV"][0] < pos["SP"][0] && pos["DIV"][0] < pos["ST"][0]) {
				okRatio = false
			}
			if !one(pos, "SP", "ST", "SM") || !(pos["ST"][0] < pos["SM"][0]) {
				okTotals = false
			}
			if len(pos["SP"]) == 1 {
				for _, i := range pos["CV"] {
					if i > pos["SP"][0] {
						okOrder = false
					}
				}
				for _, i := range pos["DV"] {
					if i < pos["SP"][0] {
						okOrder = false
					}
				}
			}
		}
		if nPunish == 0 {
			okRatio, okTotals, okOrder = false, false, false
		}
		r.Check(okRatio, "J-2", "DoPunish:ratio", "the voter's weight loss is power x ratio / 100", "the voter's weight loss is not `power x ratio / 100`", fnSite(w, dp))
		r.Check(okTotals, "J-2", "DoPunish:totals", "voter power and total voting power shrink by the same amount; majority = total x 2 / 3 afterwards", "DoPunish does not shrink voter power and total by the same amount and recompute the 2/3 majority", fnSite(w, dp))
		// a voter that has voted and keeps some power: cancelled before, re-cast after
		votedFacts := []atom{A(v+".Choice", ">=", "0"), A(v+".Power", ">", "0")}
		for _, f := range vForms {
			votedFacts = append(votedFacts, A(f+".Choice", ">=", "0"), A(f+".Power", ">", "0"))
		}
		voted := w.runUnder(dp, nil, ev, votedFacts...)
		okV := okOrder && voted.complete && voted.ok > 0
		nV := 0
		for _, evs := range voted.okEvents {
			pos := seq(evs)
			if len(evs) == 0 {
				continue
			}
			nV++
			if len(pos["CV"]) != 1 || len(pos["DV"]) != 1 || len(pos["SP"]) != 1 {
				okV = false
			}
		}
		r.Check(okV && nV > 0, "J-2", "DoPunish:recast", "an existing vote is cancelled before the power shrinks and re-cast with the reduced power", "an existing vote keeps the offender's old weight (cancel/re-cast around the reduction is missing)", fnSite(w, dp))
		// cancelling resets the voter's choice: the choice the vote is re-cast with (and the
		// test whether there was one) must have been read before the cancellation
		{
			resets := false
			if cvf := w.Method("ctrlers/gov/proposal", "GovProposal", "cancelVote"); cvf != nil {
				for _, hf := range w.withModuleCallees(cvf, 1) {
					for _, fs := range w.fieldStores(hf) {
						if fs.Field.Name() == "Choice" {
							resets = true
						}
					}
				}
			}
			var cvs, dvs []ssa.CallInstruction
			for _, c := range CallsIn(dp) {
				switch callName(c.Common()) {
				case "cancelVote":
					cvs = append(cvs, c)
				case "doVote":
					dvs = append(dvs, c)
				}
			}
			stale := ""
			if resets {
				for _, b := range dp.Blocks {
					for _, in := range b.Instrs {
						ld, isLd := in.(*ssa.UnOp)
						if !isLd || ld.Op != token.MUL {
							continue
						}
						fa, isFA := ld.X.(*ssa.FieldAddr)
						if !isFA || fieldName(fa.X.Type(), fa.Field) != "Choice" {
							continue
						}
						for _, cv := range cvs {
							if !instrReaches(cv, ld) {
								continue
							}
							after := false
							for _, dv := range dvs {
								if instrDominates(dv, ld) {
									after = true
								}
							}
							if !after {
								stale = site(w, ld)
							}
						}
					}
				}
			}
			r.Check(stale == "" && len(cvs) > 0 && len(dvs) > 0, "J-2", "DoPunish:recast-choice", "the choice of the re-cast vote is the one read before the cancellation (which resets it)", "the voter's choice is read again after cancelVote has reset it ("+stale+"): the vote is never re-cast and the whole vote disappears", fnSite(w, dp))
		}
	}
	for _, m := range []struct{ fn, want string }{{"cancelVote", "recv.Options[p0.Choice].CancelVote(p0.Power)"}, {"doVote", "recv.Options[p1].DoVote(p0.Power)"}} {
		fn := needFn(r, "J-2", w, fref{"ctrlers/gov/proposal", "GovProposal", m.fn})
		if fn != nil {
			r.Check(w.findCall(fn, m.want) != nil, "J-2", "GovProposal."+m.fn, "votes are (un)counted with the voter's current power", m.fn+" does not use the voter's power on the chosen option", fnSite(w, fn))
		}
	}
}

func (w *World) storesToSuffix(fn *ssa.Function, suffix string) []*ssa.Store {
	var out []*ssa.Store
	for _, b := range fn.Blocks {
		for _, in := range b.Instrs {
			if st, ok := in.(*ssa.Store); ok && strings.HasSuffix(w.Canon(st.Addr), suffix) {
				if _, isFA := st.Addr.(*ssa.FieldAddr); isFA {
					out = append(out, st)
				}
			}
		}
	}
	return out
}

func j3(w *World, r *Report) {
	bb := needFn(r, "J-3", w, fref{pkgStake, "StakeCtrler", "BeginBlock"})
	if bb == nil {
		return
	}
	// BeginBlock is evaluated on its paths (helpers expanded) under facts about the
	// vote and about the signing-window threshold
	vote := "p0.BlockInfo().LastCommitInfo.Votes[(phi((φ + 1)|-1) + 1)]"
	d := "recv.delegateeLedger.GetFinality(ledger.ToLedgerKey(" + vote + ".Validator.Address))#0"
	wantCnt := d + ".GetNotSignedBlockCount(phi(((p0.Height() - 1) - recv.govParams.SignedBlocksWindow())|0), (p0.Height() - 1))"
	cntSeen, cntOK := false, true
	ev := func(in ssa.Instruction) string {
		c, ok := in.(ssa.CallInstruction)
		if !ok {
			return ""
		}
		sc := w.canonCall(c.Common(), 0)
		switch {
		case sc == d+".ProcessNotSignedBlock((p0.Height() - 1))":
			return "MARK"
		case strings.HasSuffix(sc, ".ProcessNotSignedBlock((p0.Height() - 1))") || strings.Contains(sc, ".ProcessNotSignedBlock("):
			return "MARK?" + sc
		case sc == "recv.delegateeLedger.SetFinality("+d+")":
			return "SETD"
		case sc == d+".DelAllStakes()":
			return "DELALL"
		case sc == "recv.delegateeLedger.DelFinality("+d+".Key())":
			return "DELD"
		case callName(c.Common()) == "DelAllStakes":
			return "DELALL?" + sc // also makes a helper that contains the call expandable
		case strings.HasPrefix(sc, "recv.delegateeLedger.DelFinality("):
			return "DELD?" + sc
		case callName(c.Common()) == "GetNotSignedBlockCount":
			if sc == wantCnt {
				return "CNT"
			}
			if os.Getenv("RIGOCHECK_DEBUG") != "" {
				fmt.Println("DBG J3 cnt", sc)
			}
			return "CNT?"
		}
		return ""
	}
	run := func(facts ...atom) ([]pathEnd, bool) {
		fe := w.newFactEval(nil, facts...)
		saved := w.branchMarkers
		w.branchMarkers = false
		ps, c := w.enumPaths(bb, fe.eval, ev, 6000)
		w.branchMarkers = saved
		// the count is a property of its own: take it out of the sequences
		for i := range ps {
			var keep []string
			for _, e := range ps[i].Events {
				switch e {
				case "CNT":
					cntSeen = true
				case "CNT?":
					cntSeen, cntOK = true, false
				default:
					keep = append(keep, e)
				}
			}
			ps[i].Events = keep
		}
		return ps, c && len(fe.used) > 0
	}
	signed := TR(`\.SignedLastBlock$`)
	notSigned := FR(`\.SignedLastBlock$`)
	thr := `^\(recv\.govParams\.SignedBlocksWindow\(\) - int64\(.*\.GetNotSignedBlockCount\(.*\)\)\)$`
	below := AR(thr, "<", `^recv\.govParams\.MinSignedBlocks\(\)$`)
	notBelow := AR(thr, ">=", `^recv\.govParams\.MinSignedBlocks\(\)$`)
	seq := func(p pathEnd) string { return strings.Join(p.Events, ",") }
	// a signer is never marked or jailed
	ps, c1 := run(signed)
	markOnlyMissed := c1
	for _, p := range ps {
		if len(p.Events) > 0 {
			markOnlyMissed = false
		}
	}
	// a non-signer below the threshold: MARK, SETD, then DELALL ... DELD, per iteration
	pj, c2 := run(notSigned, below)
	markRec, jail := c2, c2
	nJail := 0
	for _, p := range pj {
		evs := p.Events
		for k := 0; k < len(evs); k++ {
			switch evs[k] {
			case "MARK":
				want := []string{"SETD", "DELALL", "DELD"}
				got := evs[k+1:]
				if len(got) > 3 {
					got = got[:3]
				}
				truncated := p.Term == "loop" && len(got) < 3 && strings.Join(got, ",") == strings.Join(want[:len(got)], ",")
				if truncated {
					continue // the enumeration stopped inside a loop; the same iteration is seen in full on another path
				}
				if len(got) < 1 || got[0] != "SETD" {
					markRec = false
				}
				if strings.Join(got, ",") != strings.Join(want, ",") {
					jail = false
				} else {
					nJail++
				}
			default:
				if strings.HasPrefix(evs[k], "MARK?") {
					markOnlyMissed = false
				}
			}
		}
		_ = seq
	}
	if nJail == 0 {
		jail = false
	}
	// a non-signer at or above the threshold: marked and recorded, never released or deleted
	pk, c3 := run(notSigned, notBelow)
	thrOK := c3
	nMark := 0
	for _, p := range pk {
		for k, e := range p.Events {
			switch e {
			case "DELALL", "DELD":
				thrOK = false
			case "MARK":
				nMark++
				if k+1 >= len(p.Events) || p.Events[k+1] != "SETD" {
					markRec = false
				}
			}
		}
	}
	if nMark == 0 {
		thrOK, markRec = false, false
	}
	if os.Getenv("RIGOCHECK_DEBUG") != "" {
		fmt.Println("DBG J3", c1, c2, c3, nJail, nMark, cntSeen, cntOK, len(ps), len(pj), len(pk))
		for i, p := range pj {
			if i < 6 {
				fmt.Println("DBG J3 pj", p.Term, p.Events)
			}
		}
	}
	r.Check(markOnlyMissed && nMark > 0, "J-3", "BeginBlock:mark-missed", "a validator that did not sign is marked at height-1 (the block it missed), looked up by the vote's validator address; a signer is never marked", "missed signatures are not marked at height-1 for exactly the non-signing validators", fnSite(w, bb))
	r.Check(markRec, "J-3", "BeginBlock:mark-recorded", "the marked delegatee is recorded in the consensus overlay", "the marked delegatee is not recorded", fnSite(w, bb))
	r.Check(cntSeen && cntOK, "J-3", "BeginBlock:window", "misses are counted in [max(0, h-1-window), h-1]", "the signing window is not [max(0, h-1-window), h-1]", fnSite(w, bb))
	r.Check(thrOK && jail, "J-3", "BeginBlock:threshold", "stakes are force-released exactly when window - missed < MinSignedBlocks", "the jailing threshold is not `window - missed < MinSignedBlocks`", fnSite(w, bb))
	r.Check(jail, "J-3", "BeginBlock:jail-deletes-delegatee", "the jailed validator's stakes are released and its delegatee record is deleted (it leaves the validator set)", "a jailed validator is not removed from the delegatee ledger", fnSite(w, bb))
	// marking is a no-op failure: BlockMarker.Mark appends strictly increasing heights
	bm := needFn(r, "J-3", w, fref{pkgStake, "BlockMarker", "Mark"})
	if bm != nil {
		ap := w.findStore(bm, "recv.BlockHeights", "append(recv.BlockHeights, [p0])")
		r.Check(ap != nil, "J-3", "BlockMarker.Mark", "a missed height is appended to the marker", "Mark does not record the missed height", fnSite(w, bm))
	}
	cw := needFn(r, "J-3", w, fref{pkgStake, "BlockMarker", "CountInWindow"})
	if cw != nil {
		h := "recv.BlockHeights[(phi((φ + 1)|-1) + 1)]"
		ok := false
		for _, b := range cw.Blocks {
			for _, in := range b.Instrs {
				if bo, isB := in.(*ssa.BinOp); isB && strings.HasSuffix(w.Canon(bo), " + 1)") && w.condCanonHolds(b, "("+h+" >= p0)", 1) && w.condCanonHolds(b, "("+h+" <= p1)", 1) {
					ok = true
				}
			}
		}
		r.Check(ok, "J-3", "BlockMarker.CountInWindow", "counts the marked heights h with h0 <= h <= h1", "CountInWindow does not count the marks inside [h0, h1]", fnSite(w, cw))
	}
}

// hostOfCall finds a call whose canonical form (in terms of the root function)
// satisfies match, in root itself or in a static module callee (two levels,
// methods on the same receiver keep `recv`). It returns the function that
// contains the call, the call, and the call site in root through which the host
// is reached (nil when host == root).
func (w *World) hostOfCall(root *ssa.Function, match func(string) bool, depth int) (*ssa.Function, ssa.CallInstruction, ssa.CallInstruction) {
	for _, c := range CallsIn(root) {
		if match(w.canonCall(c.Common(), 0)) {
			return root, c, nil
		}
	}
	if depth > 1 {
		return nil, nil, nil
	}
	for _, c := range CallsIn(root) {
		cal := c.Common().StaticCallee()
		if cal == nil || !w.InModule(cal) || cal.Blocks == nil || cal == root || len(cal.Params) != len(c.Common().Args) {
			continue
		}
		// only helpers that see the same receiver under the same name
		if len(cal.Params) == 0 || w.Canon(c.Common().Args[0]) != "recv" || cal.Signature.Recv() == nil {
			continue
		}
		if h, in, _ := w.hostOfCall(cal, match, depth+1); h != nil {
			return h, in, c
		}
	}
	return nil, nil, nil
}

// funcValueSources: the function values a function-typed expression may hold —
// through phis, through a local variable captured by a closure (all stores into
// its cell) and through a free variable bound by the enclosing function.
func (w *World) funcValueSources(v ssa.Value, depth int) []ssa.Value {
	if depth > 4 {
		return nil
	}
	switch x := stripConv(v).(type) {
	case *ssa.MakeClosure:
		return []ssa.Value{x}
	case *ssa.Phi:
		var out []ssa.Value
		for _, e := range x.Edges {
			if e == ssa.Value(x) {
				continue
			}
			s := w.funcValueSources(e, depth+1)
			if s == nil {
				return nil
			}
			out = append(out, s...)
		}
		return out
	case *ssa.UnOp:
		if x.Op != token.MUL {
			return nil
		}
		cell := x.X
		if fv, ok := cell.(*ssa.FreeVar); ok {
			b := w.freeVarBinding(fv)
			if b == nil {
				return nil
			}
			cell = b
		}
		a, ok := cell.(*ssa.Alloc)
		if !ok || a.Referrers() == nil {
			return nil
		}
		var out []ssa.Value
		for _, ref := range *a.Referrers() {
			if st, isS := ref.(*ssa.Store); isS && st.Addr == ssa.Value(a) {
				s := w.funcValueSources(st.Val, depth+1)
				if s == nil {
					return nil
				}
				out = append(out, s...)
			}
		}
		return out
	case *ssa.FreeVar:
		if b := w.freeVarBinding(x); b != nil {
			return w.funcValueSources(b, depth+1)
		}
	}
	return nil
}

// findAtomDeep: some branch condition under fn — its closures and static module
// callees included, parameters bound to arguments — normalises to an atom that
// satisfies pred.
func (w *World) findAtomDeep(fn *ssa.Function, depth int, pred func(atom) bool) bool {
	if fn == nil || fn.Blocks == nil || depth > 2 {
		return false
	}
	for _, b := range fn.Blocks {
		if ifi, ok := lastInstr(b).(*ssa.If); ok {
			for _, plain := range []bool{true, false} {
				w.noHelperAtoms = plain
				a, ok := w.atomOf(ifi.Cond)
				w.noHelperAtoms = false
				if ok && pred(a) {
					return true
				}
			}
		}
	}
	for _, a := range fn.AnonFuncs {
		if w.findAtomDeep(a, depth, pred) {
			return true
		}
	}
	for _, c := range CallsIn(fn) {
		cal := c.Common().StaticCallee()
		if cal == nil || !w.InModule(cal) || cal.Blocks == nil || cal == fn || len(cal.Params) != len(c.Common().Args) || cal.Parent() != nil {
			continue
		}
		env := map[*ssa.Parameter]string{}
		for j, p := range cal.Params {
			env[p] = w.Canon(c.Common().Args[j])
		}
		w.inlineEnv = append(w.inlineEnv, env)
		hit := w.findAtomDeep(cal, depth+1, pred)
		w.inlineEnv = w.inlineEnv[:len(w.inlineEnv)-1]
		if hit {
			return true
		}
	}
	return false
}

// importNoResurrect adopts the D-6 no-resurrect obligations under another rule name.
func importNoResurrect(w *World, r *Report, rule string) {
	tmp := NewReport(r.Prop, r.Tier)
	d6d(w, tmp, consFuncs(NewExecCtx(w)))
	n := 0
	for _, o := range tmp.Obs {
		if strings.HasPrefix(o.Key, "D-6:no-resurrect:") {
			o.Rule = rule
			o.Key = rule + ":" + strings.TrimPrefix(o.Key, "D-6:")
			r.Obs = append(r.Obs, o)
			n++
		}
	}
	if n < 2 {
		r.Undecided(rule, "no-resurrect", "fewer than 2 record deletions found in consensus context")
	}
}

// findCallMatchI: findCallMatch on the form with simple helpers (accessors) looked through.
func (w *World) findCallMatchI(fn *ssa.Function, re *regexp.Regexp) []ssa.CallInstruction {
	var out []ssa.CallInstruction
	w.inlineDeep = true
	defer func() { w.inlineDeep = false }()
	for _, c := range CallsIn(fn) {
		if re.MatchString(w.canonCallI(c.Common())) {
			out = append(out, c)
		}
	}
	return out
}

// flowsToResult: what is read from the local variable cell reaches a result of the
// function (through conversions, calls that take it as an argument, variadic
// argument arrays and named-result cells): a may-flow (taint) answer.
func flowsToResult(cell ssa.Value) bool {
	fn := cell.Parent()
	if fn == nil {
		return false
	}
	results := map[ssa.Value]bool{}
	for _, b := range fn.Blocks {
		if ret, ok := lastInstr(b).(*ssa.Return); ok {
			for _, rv := range ret.Results {
				results[rv] = true
				if ld, isLd := rv.(*ssa.UnOp); isLd && ld.Op == token.MUL {
					results[ld.X] = true // a named result returned after the deferred calls
				}
			}
		}
	}
	seen := map[ssa.Value]bool{}
	var cells []ssa.Value
	work := []ssa.Value{}
	addCell := func(c ssa.Value) {
		if seen[c] {
			return
		}
		seen[c] = true
		if results[c] {
			work = append(work, c)
		}
		cells = append(cells, c)
		if refs := c.Referrers(); refs != nil {
			for _, r := range *refs {
				switch y := r.(type) {
				case *ssa.UnOp:
					if y.Op == token.MUL {
						work = append(work, y)
					}
				case *ssa.Slice:
					work = append(work, y)
				}
			}
		}
	}
	addCell(cell)
	for len(work) > 0 {
		v := work[len(work)-1]
		work = work[:len(work)-1]
		if results[v] {
			return true
		}
		if seen[v] && v != cell {
			if _, isCell := v.(*ssa.Alloc); !isCell {
				continue
			}
		}
		seen[v] = true
		refs := v.Referrers()
		if refs == nil {
			continue
		}
		for _, r := range *refs {
			switch y := r.(type) {
			case *ssa.Return:
				return true
			case *ssa.Store:
				if y.Val != v {
					continue
				}
				switch a := y.Addr.(type) {
				case *ssa.Alloc:
					if results[a] {
						return true
					}
					addCell(a)
				case *ssa.IndexAddr:
					if al, ok := a.X.(*ssa.Alloc); ok {
						addCell(al)
					}
				}
			case *ssa.MakeInterface, *ssa.Convert, *ssa.ChangeType, *ssa.Slice, *ssa.BinOp, *ssa.Phi, *ssa.Extract, *ssa.TypeAssert, *ssa.ChangeInterface:
				if val, ok := y.(ssa.Value); ok && !seen[val] {
					work = append(work, val)
				}
			case *ssa.Call:
				if !seen[y] {
					work = append(work, y)
				}
			}
		}
	}
	return false
}

// fullScanOnEveryAnswer evaluates the stake controller's Query for one request path:
// on each successful path exactly one iteration over the immutable delegatee ledger
// must run, with a callback that cb accepts (cb returns the local variable the
// callback collects into), nothing else may write that variable, and the answer
// must be built from it. Returns what is wrong ("" if nothing) and the number of
// successful paths.
func (w *World) fullScanOnEveryAnswer(q *ssa.Function, path string, cb func(*ssa.MakeClosure, *ssa.Function) (ssa.Value, bool)) (string, int) {
	var acc ssa.Value
	callbackOK := func(c ssa.CallInstruction) bool {
		args := c.Common().Args
		if len(args) == 0 {
			return false
		}
		mc, isMC := args[len(args)-1].(*ssa.MakeClosure)
		if !isMC {
			return false
		}
		cl, _ := mc.Fn.(*ssa.Function)
		if cl == nil || len(cl.Params) != 1 {
			return false
		}
		a, ok := cb(mc, cl)
		if ok {
			acc = a
		}
		return ok
	}
	ev := func(in ssa.Instruction) string {
		c, isC := in.(ssa.CallInstruction)
		if !isC {
			return ""
		}
		nm := callName(c.Common())
		if strings.HasPrefix(nm, "Iterate") && (c.Common().IsInvoke() || w.ledgerArms(c) != nil) {
			rcv := c.Common().Value
			if !c.Common().IsInvoke() {
				rcv, _ = callRecvArgs(c.Common())
			}
			// the immutable ledger of delegatees (that it is opened at the requested height is C19 Q-3)
			if rcv != nil && strings.Contains(typeStr(rcv.Type()), "Delegatee") {
				if k, _ := w.ledgerKind(rcv); k == "scratch" && callbackOK(c) {
					return "SCAN"
				}
			}
			return "ITER?" + w.canonCall(c.Common(), 0)
		}
		return ""
	}
	eval := func(v ssa.Value) (bool, bool) {
		if bo, isB := v.(*ssa.BinOp); isB && (bo.Op == token.EQL || bo.Op == token.NEQ) {
			for _, pr := range [][2]ssa.Value{{bo.X, bo.Y}, {bo.Y, bo.X}} {
				if c, isC := pr[1].(*ssa.Const); isC && c.Value != nil && c.Value.Kind() == constant.String && w.Canon(pr[0]) == "p0.Path" {
					return (constant.StringVal(c.Value) == path) == (bo.Op == token.EQL), true
				}
			}
		}
		return false, false
	}
	saved := w.branchMarkers
	w.branchMarkers = false
	// helpers of the handler (openers, formatters) are walked in line, so that a
	// return that forwards a helper's result is known to succeed or fail
	w.enumDepth, w.expandAll = 3, true
	ps, complete := w.enumPaths(q, eval, ev, 4000)
	w.enumDepth, w.expandAll = 0, false
	w.branchMarkers = saved
	bad, nOK := "", 0
	if !complete {
		bad = "path enumeration incomplete"
	}
	for _, p := range ps {
		if p.Term != "ok" {
			continue
		}
		nOK++
		if len(p.Events) != 1 || p.Events[0] != "SCAN" {
			bad = "a successful answer is built from [" + strings.Join(p.Events, ", ") + "]"
		} else if acc == nil || !flowsToResult(acc) {
			bad = "the answer is not built from what the scan collected"
		}
	}
	// nothing but the scan's callback fills the collection
	if acc != nil && bad == "" {
		for _, b := range q.Blocks {
			for _, in := range b.Instrs {
				if st, isS := in.(*ssa.Store); isS && st.Addr == acc {
					if c, isC := st.Val.(*ssa.Const); isC && (c.IsNil() || c.Value != nil && c.Value.Kind() == constant.Int && c.Int64() == 0) {
						continue // the initial empty value
					}
					bad = "the collection is also written outside the scan (" + w.InstrPos(in) + ")"
				}
			}
		}
	}
	return bad, nOK
}

// distinctCounterObjects: in every function that assigns two or more *uint256.Int
// fields of one object of the given type, the assigned values are pairwise
// different SSA values (no object is shared between two fields at construction or
// decoding). Returns the number of functions examined.
func (w *World) distinctCounterObjects(r *Report, rule, pkgRel, typ string) int {
	n := 0
	for _, fn := range w.ModuleFuncs() {
		if fn.Blocks == nil {
			continue
		}
		type asg struct {
			field string
			val   ssa.Value
			in    ssa.Instruction
		}
		byBase := map[ssa.Value][]asg{}
		for _, fs := range w.fieldStores(fn) {
			if !namedIs(fs.Owner, absPkg(pkgRel), typ) {
				continue
			}
			if !strings.HasSuffix(typeStr(fs.Field.Type()), "uint256.Int") {
				continue
			}
			if c, isC := fs.Val.(*ssa.Const); isC && c.IsNil() {
				continue
			}
			fa, isFA := fs.Addr.(*ssa.FieldAddr)
			if !isFA {
				continue
			}
			byBase[fa.X] = append(byBase[fa.X], asg{fs.Field.Name(), stripConv(fs.Val), fs.In})
		}
		for _, as := range byBase {
			fields := map[string]bool{}
			for _, a := range as {
				fields[a.field] = true
			}
			if len(fields) < 2 {
				continue
			}
			n++
			bad := ""
			for i := range as {
				for j := i + 1; j < len(as); j++ {
					if as[i].field != as[j].field && as[i].val == as[j].val {
						bad = fmt.Sprintf("%s and %s are assigned the same object (%s)", as[i].field, as[j].field, site(w, as[j].in))
					}
				}
			}
			r.Check(bad == "", rule, "distinct-objects:"+w.FName(fn), "every 256-bit field assigned here gets an object of its own", "two counters of one record share one 256-bit object, so in-place updates of the one change the other: "+bad, fnSite(w, fn))
		}
	}
	return n
}

// loopAccum: v is a loop accumulator that starts at 0 and grows by one addend per
// iteration — `acc = phi(0, acc + x)`, or with the addition under a condition
// `acc = phi(0, phi(acc + x, acc))`. Returns the addend and the block of the addition.
func loopAccum(v ssa.Value) (ssa.Value, *ssa.BasicBlock, bool) {
	ph, ok := stripConv(v).(*ssa.Phi)
	if !ok || len(ph.Edges) != 2 {
		return nil, nil, false
	}
	var next ssa.Value
	for i, e := range ph.Edges {
		if c, isC := e.(*ssa.Const); isC && c.Value != nil && c.Int64() == 0 {
			next = ph.Edges[1-i]
		}
	}
	if next == nil {
		return nil, nil, false
	}
	addOf := func(x ssa.Value) (ssa.Value, *ssa.BasicBlock, bool) {
		bo, isB := x.(*ssa.BinOp)
		if !isB || bo.Op != token.ADD {
			return nil, nil, false
		}
		switch {
		case bo.X == ssa.Value(ph):
			return bo.Y, bo.Block(), true
		case bo.Y == ssa.Value(ph):
			return bo.X, bo.Block(), true
		}
		return nil, nil, false
	}
	if a, b, ok := addOf(next); ok {
		return a, b, true
	}
	if mp, isP := next.(*ssa.Phi); isP && len(mp.Edges) == 2 {
		for i, e := range mp.Edges {
			if e == ssa.Value(ph) {
				return addOf(mp.Edges[1-i])
			}
		}
	}
	return nil, nil, false
}
