package main

// C16 — fee and gas rules (DESIGN §3 C16, F-1 … F-4).

import (
	"fmt"
	"go/token"
	"go/types"
	"sort"
	"strings"

	"golang.org/x/tools/go/ssa"
)

func init() { register("C16", checkC16) }

var feeExpr = mulExpr("new(uint256.Int)", "p0.Tx.GasPrice", "uint256.NewInt(p0.Tx.Gas)")

// guardProtectsSuccess: guard with failing condition cond exists in fn and lies
// on every path to a success return.
func (w *World) guardProtectsSuccess(fn *ssa.Function, match func(string) bool) (*Guard, bool) {
	for _, g := range w.Guards(fn) {
		if !match(g.Cond) && !match(g.CondI) {
			continue
		}
		ok := true
		for _, b := range fn.Blocks {
			if ret, isR := lastInstr(b).(*ssa.Return); isR && w.errState(ret) != triNonNil && !g.Protects(b) {
				ok = false
			}
		}
		return g, ok
	}
	// The guard may be spelled differently (operands swapped, Cmp/Lt/Equal, inverted
	// with an early return) or sit in a helper: look at every branch condition of fn
	// and of its static module callees as a normalised atom, render the atom (and its
	// complement) in the usual spellings, and let the rule's own predicate pick the
	// one it means. The verdict is then guard necessity: under that fact fn has no
	// successful path.
	var found *ssa.If
	var fact atom
	var scan func(f *ssa.Function, depth int) bool
	scan = func(f *ssa.Function, depth int) bool {
		for _, b := range f.Blocks {
			ifi, ok := lastInstr(b).(*ssa.If)
			if !ok {
				continue
			}
			for _, plain := range []bool{true, false} {
				w.noHelperAtoms = plain
				a, ok := w.atomOf(ifi.Cond)
				w.noHelperAtoms = false
				if !ok {
					continue
				}
				for _, cand := range []atom{a, {L: a.L, R: a.R, Rel: relAll &^ a.Rel}} {
					for _, sp := range spellings(cand) {
						if match(sp) {
							found, fact = ifi, cand
							return true
						}
					}
				}
			}
		}
		if depth >= 2 {
			return false
		}
		for _, c := range CallsIn(f) {
			cal := c.Common().StaticCallee()
			if cal == nil || !w.InModule(cal) || cal.Blocks == nil || cal == f || len(cal.Params) != len(c.Common().Args) {
				continue
			}
			env := map[*ssa.Parameter]string{}
			for j, p := range cal.Params {
				env[p] = w.Canon(c.Common().Args[j])
			}
			w.inlineEnv = append(w.inlineEnv, env)
			hit := scan(cal, depth+1)
			w.inlineEnv = w.inlineEnv[:len(w.inlineEnv)-1]
			if hit {
				return true
			}
		}
		return false
	}
	if !scan(fn, 0) {
		return nil, false
	}
	ok, _ := w.failsUnder(fn, nil, fact)
	return &Guard{If: found, Cond: fact.String(), CondI: fact.String()}, ok
}

// spellings renders an atom in the forms conditions are usually written in.
func spellings(a atom) []string {
	var out []string
	ops := map[relSet]string{relLT: "<", relLT | relEQ: "<=", relGT: ">", relGT | relEQ: ">=", relEQ: "==", relLT | relGT: "!="}
	if a.R == "true" {
		switch a.Rel {
		case relEQ:
			out = append(out, a.L, "("+a.L+" == true)", "("+a.L+" != false)")
		case relLT | relGT:
			out = append(out, "!"+a.L, "("+a.L+" == false)", "("+a.L+" != true)")
		}
		return out
	}
	for _, v := range []struct {
		l, r string
		rel  relSet
	}{{a.L, a.R, a.Rel}, {a.R, a.L, a.Rel.mirror()}} {
		op, ok := ops[v.rel]
		if !ok {
			continue
		}
		out = append(out, "("+v.l+" "+op+" "+v.r+")", "("+v.l+".Cmp("+v.r+") "+op+" 0)", "("+v.l+".Compare("+v.r+") "+op+" 0)", "(bytes.Compare("+v.l+", "+v.r+") "+op+" 0)")
		switch v.rel {
		case relLT:
			out = append(out, v.l+".Lt("+v.r+")")
		case relGT:
			out = append(out, v.l+".Gt("+v.r+")")
		case relEQ:
			out = append(out, v.l+".Eq("+v.r+")", "bytes.Equal("+v.l+", "+v.r+")")
		case relLT | relGT:
			out = append(out, "!"+v.l+".Eq("+v.r+")", "!bytes.Equal("+v.l+", "+v.r+")")
		}
	}
	return out
}

func checkC16(w *World, r *Report) {
	r.Explanation = "Structural clause of C16: (F-1) commonValidation0 rejects a gas price different from the governance gas price (equality, both directions) and a fee gas x price below the governance minimum fee, the contract validation rejects gas below the intrinsic gas of the payload, each guard lying on every path to a success return, and the governance handler of every context is the node's governance controller; (F-2) the routing decision table (C04 N-3) shows every natively executed transaction is debited exactly gas-limit x price once and reports GasUsed = gas limit; (F-3) on the EVM route the transaction's gas limit and the governance gas price reach the EVM message unchanged and GasUsed is the execution result's UsedGas; (F-4) deliverTxSync adds GasToFee(GasUsed, governance price) to the block's fee sum only on the success branch, the fee sum starts at zero in a context created afresh in BeginBlock, has a closed set of writers, and AcctCtrler.EndBlock credits exactly SumFee() to the header's proposer address in the consensus overlay. (F-5) the fee of a contract transaction is credited to the proposer once, by EndBlock: the EVM itself pays nothing to the coinbase — every EVM is created with NoBaseFee and every message carries fee cap = tip cap = 0 (constants), the combination under which go-ethereum's state transition skips the coinbase payment. (F-6) what the EVM charges is charged to the account of the executing block: the wrapper synchronises balances in and out through the exec-selected overlay, the flag being set before the first address is synchronised (C17 E-1, E-2). F-1 also requires that what the governance controller answers for GasPrice, MinTrxFee, MinTrxGas and MaxTrxGas is the getter of its embedded current parameter set (promoted, or returned verbatim): never a value kept across calls. (F-9) what the executor routes to the EVM is executed and charged there: the EVM controller never hands such a transaction back (C05 A-4)."
	r.NotCovered = "UsedGas <= gas limit and gas purchase/refund inside go-ethereum; sums over a block as numbers; blocks without a proposer address."
	f1(w, r)
	routingTable(w, r, "F-2")
	f3(w, r)
	f4(w, r)
	f5(w, r)
	r.Floor("F-5", 3, "the EVM pays no fee to the coinbase")
	// F-6: the gas the EVM charges is charged to the sender's account of the executing
	// block: sync-in / write-back of the wrapper use the exec-selected overlay, set before
	// the first address is synchronised (C17 E-1, E-2)
	if r.importRules(w, func(t *Report) { e1(w, t); e2(w, t) }, "F-6", "E-1", "E-2") < 8 {
		r.Undecided("F-6", "evm-bridge", "the EVM/native-ledger synchronisation rules (C17 E-1, E-2) matched fewer than 8 constructs")
	}
	// F-7: the decision table's "receiver has code" input is the same at routing and
	// at the fee step (C04 N-9)
	codeMarkerStable(w, r, "F-7")
	r.Floor("F-7", 3, "code marker writers")
	// F-9: the EVM route charges: what is routed there is executed there (C05 A-4)
	if r.importObs(w, func(t *Report) { a4(w, t) }, "A-4", "F-9") < 2 {
		r.Undecided("F-9", "evm-route", "the EVM route rules (C05 A-4) matched fewer than 2 constructs")
	}
	r.Floor("F-1", 10, "admission guards")
	r.Floor("F-2", 18, "decision table rows")
	r.Floor("F-3", 4, "EVM charge")
	r.Floor("F-4", 8, "proposer credit")
}

func f1(w *World, r *Report) {
	cv0 := needFn(r, "F-1", w, fref{"node", "", "commonValidation0"})
	if cv0 != nil {
		// under the fact no validation succeeds (however the comparison and the fee are written)
		ok, why := w.failsUnder(cv0, nil, A("p0.Tx.GasPrice", "!=", "p0.GovHandler.GasPrice()"))
		r.Check(ok, "F-1", "commonValidation0:gas-price-equality", "a gas price different from the governance gas price (either direction) is rejected on every path ("+why+")", "a gas price different from the governance gas price is accepted: "+why, fnSite(w, cv0))
		ok, why = w.failsUnder(cv0, nil, A(feeExpr, "<", "p0.GovHandler.MinTrxFee()"))
		r.Check(ok, "F-1", "commonValidation0:min-fee", "gas x price below the minimum fee is rejected on every path ("+why+")", "gas x price below the governance minimum fee is accepted: "+why, fnSite(w, cv0))
	}
	gp := needFn(r, "F-1", w, fref{pkgCT, "GovParams", "GasPrice"})
	if gp != nil {
		ok := false
		for _, b := range gp.Blocks {
			if ret, isR := lastInstr(b).(*ssa.Return); isR && ret.Block() != gp.Recover {
				ok = w.zValue(retResult(ret, 0)) == "recv.gasPrice"
			}
		}
		r.Check(ok, "F-1", "GovParams.GasPrice", "returns the gasPrice parameter", "GovParams.GasPrice() does not return the gasPrice parameter", fnSite(w, gp))
	}
	mf := needFn(r, "F-1", w, fref{pkgCT, "GovParams", "MinTrxFee"})
	if mf != nil {
		ok := false
		for _, b := range mf.Blocks {
			if ret, isR := lastInstr(b).(*ssa.Return); isR && ret.Block() != mf.Recover {
				ok = w.zValue(retResult(ret, 0)) == "zmul(recv.gasPrice|u(recv.minTrxGas))"
			}
		}
		r.Check(ok, "F-1", "GovParams.MinTrxFee", "minimum fee = minTrxGas x gasPrice", "MinTrxFee is not minTrxGas x gasPrice", fnSite(w, mf))
	}
	// the handler the guards ask is the governance controller: what it answers for
	// the price and the minimum fee is computed from its current parameter set at
	// the time of the call (the promoted GovParams getter, or a method of the
	// controller that returns exactly that getter's answer) — never a value kept
	// from an earlier call, which survives a parameter change
	if gc := w.Named("ctrlers/gov", "GovCtrler"); gc != nil {
		ms := w.Prog.MethodSets.MethodSet(types.NewPointer(gc))
		for _, nm := range []string{"GasPrice", "MinTrxFee", "MinTrxGas", "MaxTrxGas"} {
			sel := ms.Lookup(nil, nm)
			if sel == nil {
				for i := 0; i < ms.Len(); i++ {
					if ms.At(i).Obj().Name() == nm {
						sel = ms.At(i)
					}
				}
			}
			if sel == nil {
				r.Undecided("F-1", "GovCtrler."+nm+":current-parameters", "the governance controller has no method "+nm)
				continue
			}
			fo, _ := sel.Obj().(*types.Func)
			ok, why := false, ""
			if rcv := fo.Type().(*types.Signature).Recv(); rcv != nil && namedIs(derefNamed(rcv.Type()), absPkg(pkgCT), "GovParams") {
				ok = true
				why = "promoted from the embedded parameter set"
			} else if fn := w.Prog.MethodValue(sel); fn != nil && fn.Blocks != nil {
				ok = true
				why = "returns recv.GovParams." + nm + "()"
				nRet := 0
				for _, b := range fn.Blocks {
					if ret, isR := lastInstr(b).(*ssa.Return); isR && b != fn.Recover {
						nRet++
						if c := w.Canon(retResult(ret, 0)); c != "recv.GovParams."+nm+"()" {
							ok = false
							why = "returns " + c
						}
					}
				}
				ok = ok && nRet > 0
			}
			r.Check(ok, "F-1", "GovCtrler."+nm+":current-parameters", "the controller's answer is that of its current parameter set ("+why+")", "the governance controller answers "+nm+"() with something other than its current parameter set's value: "+why+" — a value kept across calls outlives a parameter change", "ctrlers/gov/ctrler.go")
		}
	}
	ev := needFn(r, "F-1", w, fref{"ctrlers/vm/evm", "EVMCtrler", "ValidateTrx"})
	if ev != nil {
		// under "gas limit < intrinsic gas" the validation has no successful path
		ok, why := w.failsUnder(ev, nil, AR(`^p0\.Tx\.Gas$`, "<", `^core\.IntrinsicGas\(.*\)#0$`))
		// the intrinsic gas is computed on the transaction's own payload and creation flag
		// (the payload extraction may sit in a helper: expanded canonical form)
		okArgs := false
		for _, c := range w.callsTo(ev, fref{"github.com/ethereum/go-ethereum/core", "", "IntrinsicGas"}) {
			a := c.Common().Args
			a0 := w.CanonI(a[0])
			if !strings.Contains(a0, "TrxPayloadContract") {
				// a multi-block helper: its returned values must come from the contract payload
				if call, isCall := a[0].(*ssa.Call); isCall {
					if cal := call.Common().StaticCallee(); cal != nil && w.InModule(cal) {
						vals, complete := w.returnedValues(cal, 0, func(ssa.Value) (bool, bool) { return false, false }, 0)
						for _, v := range vals {
							if complete && strings.Contains(w.Canon(v), "TrxPayloadContract") {
								a0 = w.Canon(v)
							}
						}
					}
				}
			}
			okArgs = strings.Contains(a0, "TrxPayloadContract") && w.Canon(a[2]) == "types.IsZeroAddress(p0.Tx.To)"
		}
		r.Check(ok && okArgs, "F-1", "EVMCtrler.ValidateTrx:intrinsic-gas", "gas limit below the intrinsic gas of this transaction's payload is rejected on every success path ("+why+")", "the intrinsic-gas check is bypassed or not computed on this transaction's own payload: "+why, fnSite(w, ev))
	}
	n := 0
	for _, fn := range w.nodeFuncs() {
		for _, fs := range w.fieldStores(fn) {
			if fs.Field.Name() == "GovHandler" && namedIs(fs.Owner, absPkg(pkgCT), "TrxContext") {
				n++
				r.Check(strings.HasSuffix(w.Canon(fs.Val), ".govCtrler"), "F-1", "TrxContext.GovHandler:"+w.FName(fn), "the context's governance handler is the node's governance controller", "a context gets a governance handler that is not the node's controller: "+w.Canon(fs.Val), site(w, fs.In))
			}
		}
	}
	if n == 0 {
		r.Violate("F-1", "TrxContext.GovHandler", "no function sets TrxContext.GovHandler", nil)
	}
}

func f3(w *World, r *Report) {
	ex := needFn(r, "F-3", w, fref{"ctrlers/vm/evm", "EVMCtrler", "ExecuteTrx"})
	if ex != nil {
		cs := w.callsTo(ex, fref{"ctrlers/vm/evm", "EVMCtrler", "execVM"})
		ok := len(cs) == 1
		var res ssa.Value
		if ok {
			_, a := callRecvArgs(cs[0].Common())
			ok = len(a) == 8 && w.Canon(a[3]) == "p0.Tx.Gas" && w.Canon(a[4]) == "p0.GovHandler.GasPrice()"
			res = extractOf(callValue(cs[0]), 0)
		}
		var deep *evmMsgSite
		if !ok {
			// the message ExecuteTrx reaches, in ExecuteTrx's own terms
			if deep = w.evmMessageDeep(ex); deep != nil {
				ok = deep.Args[3] == "p0.Tx.Gas" && deep.Args[4] == "p0.GovHandler.GasPrice()"
				// the execution result: what the helper that applies the message hands back
				for _, c := range CallsIn(ex) {
					if call, isCall := c.(*ssa.Call); isCall {
						if cal := call.Common().StaticCallee(); cal != nil && w.InModule(cal) {
							for _, g := range w.withModuleCallees(cal, 2) {
								if g == deep.Fn {
									res = extractOf(call, 0)
								}
							}
						}
					}
				}
			}
		}
		r.Check(ok, "F-3", "ExecuteTrx:gas-and-price", "execVM receives the transaction's gas limit and the governance gas price", "execVM is not given (Tx.Gas, GovHandler.GasPrice())", fnSite(w, ex))
		okU := false
		// in ExecuteTrx or in a helper it hands the result to (read in ExecuteTrx's terms)
		if res != nil {
			wantU := w.Canon(res) + ".UsedGas"
			for _, hf := range w.withModuleCallees(ex, 2) {
				for _, fs := range w.fieldStores(hf) {
					if fs.Field.Name() == "GasUsed" && fs.Owner != nil && fs.Owner.Obj().Name() == "TrxContext" && w.inCallerTerms(ex, hf, func() bool {
						return w.Canon(fs.Val) == wantU && w.Canon(fs.Addr) == "p0.GasUsed"
					}) {
						okU = true
					}
				}
			}
		}
		r.Check(okU, "F-3", "ExecuteTrx:GasUsed", "GasUsed is the execution result's UsedGas", "ctx.GasUsed is not set from the EVM execution result", fnSite(w, ex))
		if ok && deep != nil {
			r.Check(deep.Args[5] == "p0.Tx.Amount", "F-3", "execVM:passes-gas-price-amount", "gas limit, gas price and amount reach the message unchanged", "execVM alters gas limit, price or amount on the way to the message", site(w, deep.Call))
			w.n4Deep = true
		}
	}
	evf := needFn(r, "F-3", w, fref{"ctrlers/vm/evm", "EVMCtrler", "execVM"})
	if w.n4Deep {
		evf = nil
		w.n4Deep = false
	}
	if evf != nil {
		cs := w.callsTo(evf, fref{"ctrlers/vm/evm", "", "evmMessage"})
		ok := len(cs) == 1
		if ok {
			a := cs[0].Common().Args
			ok = w.Canon(a[3]) == "p3" && w.Canon(a[4]) == "p4" && w.Canon(a[5]) == "p5"
		}
		r.Check(ok, "F-3", "execVM:passes-gas-price-amount", "gas limit, gas price and amount reach the message unchanged", "execVM alters gas limit, price or amount on the way to the message", fnSite(w, evf))
	}
	em := needFn(r, "F-3", w, fref{"ctrlers/vm/evm", "", "evmMessage"})
	if em != nil {
		cs := w.callsTo(em, fref{"github.com/ethereum/go-ethereum/core/types", "", "NewMessage"})
		ok := len(cs) == 1
		if ok {
			a := cs[0].Common().Args
			ok = w.Canon(a[3]) == "p5.ToBig()" && w.Canon(a[4]) == "p3" && w.Canon(a[5]) == "p4.ToBig()"
		}
		r.Check(ok, "F-3", "evmMessage:gas-price-amount", "NewMessage(amount, gasLimit, gasPrice) from the arguments", "evmMessage does not hand amount/gas limit/gas price to NewMessage unchanged", fnSite(w, em))
	}
}

func f4(w *World, r *Report) {
	dt := needFn(r, "F-4", w, fref{"node", "RigoApp", "deliverTxSync"})
	if dt != nil {
		// deliverTxSync is evaluated on its paths (helpers expanded) under the facts
		// "ExecuteSync failed" / "ExecuteSync succeeded"
		ntc := w.callsTo(dt, fref{pkgCT, "", "NewTrxContext"})
		var ctx ssa.Value
		if len(ntc) == 1 {
			ctx = extractOf(callValue(ntc[0]), 0)
		}
		if ctx == nil {
			r.Violate("F-4", "deliverTxSync:AddFee", "deliverTxSync does not build exactly one transaction context", nil, fnSite(w, dt))
		} else {
			cs := w.Canon(ctx)
			want := "types.GasToFee(" + cs + ".GasUsed, recv.govCtrler.GovParams.GasPrice())"
			var addSite string
			ev := func(in ssa.Instruction) string {
				// the fee sum is touched: the event sits at the primitive, wherever it is
				// wrapped (AddFee, a variant taking gas and price, a lock-free core)
				if fe := w.feeSumEvent(in); fe != "" {
					addSite = site(w, in)
					return "ADD\x01" + fe
				}
				c, isC := in.(ssa.CallInstruction)
				if !isC {
					return ""
				}
				switch callName(c.Common()) {
				case "ExecuteSync":
					_, a := callRecvArgs(c.Common())
					if len(a) == 1 {
						return "EXEC\x01" + w.Canon(a[0])
					}
				}
				return ""
			}
			reExec := `^[A-Za-z0-9_.]*\.txExecutor\.ExecuteSync\(.*\)$`
			run := func(f atom) ([]pathEnd, bool) {
				fe := w.newFactEval(nil, f)
				saved := w.branchMarkers
				w.branchMarkers = false
				// the primitive may sit below a helper of the application, the context's
				// method and its lock-free core
				w.enumDepth = 4
				ps, complete := w.enumPaths(dt, fe.eval, ev, 6000)
				w.enumDepth = 0
				w.branchMarkers = saved
				return ps, complete && len(fe.used) > 0
			}
			count := func(p pathEnd, pre string) (n int, last string) {
				for _, e := range p.Events {
					if strings.HasPrefix(e, pre+"\x01") {
						n++
						last = strings.TrimPrefix(e, pre+"\x01")
					}
				}
				return
			}
			failed, c1 := run(AR(reExec, "!=", "^nil$"))
			onlyOnSuccess := c1
			for _, p := range failed {
				if n, _ := count(p, "ADD"); n > 0 {
					onlyOnSuccess = false
				}
			}
			okd, c2 := run(AR(reExec, "==", "^nil$"))
			everySuccess, amount := c2, c2
			nOK := 0
			for _, p := range okd {
				ne, arg := count(p, "EXEC")
				if ne == 0 || p.Term == "panic" {
					continue // the context could not be built
				}
				nOK++
				if ne != 1 || arg != cs {
					everySuccess = false
				}
				na, add := count(p, "ADD")
				if na != 1 {
					everySuccess = false
					continue
				}
				if add != "recv.nextBlockCtx\x01"+want {
					amount = false
				}
			}
			if nOK == 0 {
				everySuccess, amount = false, false
			}
			if addSite == "" {
				addSite = fnSite(w, dt)
			}
			r.Check(onlyOnSuccess, "F-4", "deliverTxSync:AddFee:only-on-success", "the fee is added only where ExecuteSync of this context returned nil", "AddFee is reachable for a failed transaction (a fee charged to nobody would be credited to the proposer)", addSite)
			r.Check(amount, "F-4", "deliverTxSync:AddFee:amount", "fee = GasToFee(this tx's GasUsed, governance gas price), added to the executing block's context", "the amount added to the fee sum is not GasUsed x governance gas price of this transaction", addSite)
			r.Check(everySuccess, "F-4", "deliverTxSync:AddFee:on-every-success", "every successful delivery adds its fee exactly once", "a successful delivery returns without adding its fee (or adds it more than once)", addSite)
		}
	}
	gf := needFn(r, "F-4", w, fref{pkgCT, "", "GasToFee"})
	if gf != nil {
		ok := false
		for _, b := range gf.Blocks {
			if ret, isR := lastInstr(b).(*ssa.Return); isR {
				ok = w.zValue(ret.Results[0]) == "zmul(p1|u(p0))"
			}
		}
		r.Check(ok, "F-4", "GasToFee", "fee = gas x price in 256-bit arithmetic", "GasToFee is not gas x price", fnSite(w, gf))
	}
	// the methods of the block context that can change the fee sum: each is called
	// only where a delivery succeeded
	adders := w.feeAdders()
	feeCallers := map[string]string{"node.(*RigoApp).deliverTxSync": "the success branch of a delivery", "node.(*RigoApp).deliverTxAsync$1$1": "unused asynchronous delivery (no caller reaches deliverTxAsync: C01 D-4)"}
	nCallers := 0
	for _, ad := range adders {
		w.checkCallers(r, "F-4", fref{pkgCT, "BlockContext", ad.Name()}, feeCallers, 0)
		nCallers += len(w.nodeCallers(ad))
	}
	if nCallers < 1 {
		r.Undecided("F-4", "types.(*BlockContext).AddFee:callers", "0 caller(s) found, expected at least 1: the primitive is no longer used where the property needs it")
	}
	// feeSum writers
	allowedW := map[string]string{"types.NewBlockContext": "starts at zero", "types.(*BlockContext).UnmarshalJSON": "reloads the persisted context"}
	for _, ad := range adders {
		allowedW[w.FName(ad)] = "adds one fee (its callers are checked)"
	}
	for _, fn := range w.nodeFuncs() {
		for _, b := range fn.Blocks {
			for _, in := range b.Instrs {
				if w.feeSumEvent(in) == "" {
					continue
				}
				name := w.FName(fn)
				key := "BlockContext.feeSum:writer:" + name
				if why, ok := allowedW[name]; ok {
					r.OK("F-4", key, "allowed writer: "+why, site(w, in))
				} else if via, ok := w.onlyReachedFrom(fn, allowedW, 0, map[*ssa.Function]bool{}); ok && (fn.Object() == nil || !fn.Object().Exported()) {
					r.OK("F-4", key, "helper of an allowed writer: every call of it comes from "+via, site(w, in))
				} else {
					r.Violate("F-4", key, "the block fee sum is written outside NewBlockContext/AddFee/UnmarshalJSON", nil, site(w, in))
				}
			}
		}
	}
	nb := needFn(r, "F-4", w, fref{pkgCT, "", "NewBlockContext"})
	if nb != nil {
		ok := false
		for _, fs := range w.fieldStores(nb) {
			if fs.Field.Name() == "feeSum" && w.Canon(fs.Val) == "uint256.NewInt(0)" {
				ok = true
			}
		}
		r.Check(ok, "F-4", "NewBlockContext:feeSum-zero", "a new block context starts with a zero fee sum", "a new block context does not start with a zero fee sum", fnSite(w, nb))
	}
	if len(adders) == 0 {
		r.Violate("F-4", "AddFee:adds", "no method of the block context adds to the fee sum", nil)
	}
	for _, af := range adders {
		// every path through it adds to the running sum exactly once (the amount is
		// checked where it is called: deliverTxSync:AddFee:amount)
		saved := w.branchMarkers
		w.branchMarkers = false
		ps, complete := w.enumPaths(af, func(ssa.Value) (bool, bool) { return false, false }, func(in ssa.Instruction) string { return w.feeSumEvent(in) }, 500)
		w.branchMarkers = saved
		ok := complete && len(ps) > 0
		for _, p := range ps {
			if p.Term == "panic" {
				continue
			}
			if len(p.Events) != 1 || !strings.HasPrefix(p.Events[0], "recv\x01") {
				ok = false
			}
		}
		r.Check(ok, "F-4", af.Name()+":adds", "feeSum += fee, once on every path", af.Name()+" does not add the fee to the running sum", fnSite(w, af))
	}
	bb := needFn(r, "F-4", w, fref{"node", "RigoApp", "BeginBlock"})
	if bb != nil {
		ok := false
		for _, fs := range w.fieldStores(bb) {
			if fs.Field.Name() == "nextBlockCtx" && strings.HasPrefix(w.Canon(fs.Val), "types.NewBlockContext(p0, ") {
				ok = true
			}
		}
		r.Check(ok, "F-4", "BeginBlock:fresh-context", "every block starts with a fresh context built from its own BeginBlock request", "BeginBlock does not install a fresh block context (fees of earlier blocks would leak into this block's proposer credit)", fnSite(w, bb))
	}
	eb := needFn(r, "F-4", w, fref{"ctrlers/account", "AcctCtrler", "EndBlock"})
	if eb != nil {
		// the credit and the mark, in EndBlock itself or in a helper it calls (read in
		// EndBlock's terms)
		var add, mark ssa.CallInstruction
		var hf *ssa.Function
		for _, f := range w.withModuleCallees(eb, 2) {
			var a, m ssa.CallInstruction
			for _, c := range CallsIn(f) {
				switch callName(c.Common()) {
				case "AddBalance":
					a = c
				case "setAccountCommittable":
					m = c
				}
			}
			if a != nil && m != nil && (add == nil || f == eb) {
				add, mark, hf = a, m, f
			}
		}
		ok := add != nil && mark != nil
		if ok {
			rcv, a := callRecvArgs(add.Common())
			_, ma := callRecvArgs(mark.Common())
			ok = w.inCallerTerms(eb, hf, func() bool {
				rc := w.Canon(rcv)
				// the account is the one at the header's proposer address (found or created), in the consensus overlay
				okAcct := strings.Contains(rc, ".GetProposerAddress(), true)") && strings.HasPrefix(rc, "phi(recv.findAccount(") && strings.Contains(rc, "|types.NewAccount(") && strings.Count(rc, "GetProposerAddress()") == 2
				if !okAcct {
					// found-or-created by a helper that is given the proposer address
					hasFind, hasNew := false, false
					for _, c := range w.mayCanons(rcv, 3) {
						if strings.HasPrefix(c, "recv.findAccount(") && strings.HasSuffix(c, ".GetProposerAddress(), true)") {
							hasFind = true
						}
						if strings.HasPrefix(c, "types.NewAccount(") && strings.HasSuffix(c, ".GetProposerAddress())") {
							hasNew = true
						}
					}
					okAcct = hasFind && hasNew
				}
				tr, isC := constBool(ma[1])
				return okAcct && len(a) == 1 && w.Canon(a[0]) == "p0.SumFee()" && sameValue(ma[0], rcv) && isC && tr && instrDominates(add, mark)
			})
			// header is the block's own header
			hdr := false
			for _, b := range eb.Blocks {
				for _, in := range b.Instrs {
					if st, isS := in.(*ssa.Store); isS && w.Canon(st.Val) == "p0.BlockInfo().Header" {
						hdr = true
					}
				}
			}
			ok = ok && hdr
		}
		r.Check(ok, "F-4", "AcctCtrler.EndBlock:proposer-credit", "exactly SumFee() is credited to the account at the block header's proposer address and the account is marked in the consensus overlay", "EndBlock does not credit exactly the block's fee sum to the header's proposer in the consensus overlay", fnSite(w, eb))
		// AddBalance error returned before marking; success return carries the mark
		okRet := false
		if mark != nil {
			returns := func(f *ssa.Function, v ssa.Value, idx int) bool {
				for _, b := range f.Blocks {
					if ret, isR := lastInstr(b).(*ssa.Return); isR && ret.Block() != f.Recover && idx < len(ret.Results) {
						if sameValue(retResult(ret, idx), v) {
							return true
						}
					}
				}
				return false
			}
			if hf == eb {
				okRet = returns(eb, callValue(mark), 1)
			} else if hf.Signature.Results().Len() == 1 && returns(hf, callValue(mark), 0) {
				// the helper hands the mark's result back and EndBlock returns the helper's
				for _, c := range CallsIn(eb) {
					if c.Common().StaticCallee() == hf && returns(eb, callValue(c), 1) {
						okRet = true
					}
				}
			}
		}
		r.Check(okRet, "F-4", "AcctCtrler.EndBlock:mark-result-returned", "the result of marking the proposer account is returned (a failure stops the block)", "the result of marking the proposer's account is dropped", fnSite(w, eb))
	}
	ae := needFn(r, "F-4", w, fref{"node", "RigoApp", "EndBlock"})
	if ae != nil {
		ok := w.endBlockCalls()["recv.acctCtrler"] == 1
		r.Check(ok, "F-4", "RigoApp.EndBlock:account-endblock", "the account controller's EndBlock runs once per block on the executing block's context", "RigoApp.EndBlock does not run the account controller's EndBlock on the executing block's context", fnSite(w, ae))
	}
}

// f5 — go-ethereum v1.10 credits gasUsed x effectiveTip to the block's coinbase at
// the end of TransitionDb unless the EVM was configured with NoBaseFee and the
// message's fee cap and tip cap are both zero. The node credits the proposer
// itself in EndBlock, so the EVM must stay in that mode.
func f5(w *World, r *Report) {
	em := needFn(r, "F-5", w, fref{"ctrlers/vm/evm", "", "evmMessage"})
	if em != nil {
		cs := w.callsTo(em, fref{"github.com/ethereum/go-ethereum/core/types", "", "NewMessage"})
		ok := len(cs) == 1
		why := ""
		if ok {
			a := cs[0].Common().Args
			for _, i := range []int{6, 7} {
				if i >= len(a) || !w.isZeroBig(a[i]) {
					ok = false
					why = "argument " + w.Canon(a[i]) + " is not a constant zero"
				}
			}
		}
		r.Check(ok, "F-5", "evmMessage:zero-fee-caps", "every EVM message carries gasFeeCap = gasTipCap = 0 (constants never written after initialisation)", "the EVM message's fee cap / tip cap are not constant zero: go-ethereum would credit the fee to the coinbase in addition to the proposer credit in EndBlock ("+why+")", fnSite(w, em))
	}
	n := 0
	for _, fn := range w.ModuleFuncs() {
		for _, c := range w.callsTo(fn, fref{"github.com/ethereum/go-ethereum/core/vm", "", "NewEVM"}) {
			n++
			a := c.Common().Args
			ok := false
			if len(a) == 5 {
				ok = w.configHasNoBaseFee(a[4])
			}
			r.Check(ok, "F-5", "NewEVM:NoBaseFee:"+w.FName(fn), "the EVM is created with NoBaseFee: true", "an EVM is created without NoBaseFee: the state transition would charge a base fee and pay the coinbase", site(w, c))
		}
	}
	if n < 2 {
		r.Undecided("F-5", "NewEVM:sites", fmt.Sprintf("%d vm.NewEVM call(s) found, 2 expected (block execution and read-only call)", n))
	}
}

// isZeroBig: v is X.ToBig() / big.NewInt(0) where X is a package-level uint256
// initialised to NewInt(0) and never stored to again, or a literal zero.
func (w *World) isZeroBig(v ssa.Value) bool {
	// what a module helper hands back: every return of it must be such a zero
	helperZero := func(call *ssa.Call, idx int) (bool, bool) {
		g := call.Common().StaticCallee()
		if g == nil || !w.InModule(g) || g.Blocks == nil {
			return false, false
		}
		n := 0
		for _, b := range g.Blocks {
			if ret, isR := lastInstr(b).(*ssa.Return); isR && b != g.Recover {
				n++
				if idx >= len(ret.Results) || !w.isZeroBig(ret.Results[idx]) {
					return false, true
				}
			}
		}
		return n > 0, true
	}
	if ex, isEx := stripConv(v).(*ssa.Extract); isEx {
		if call, isCall := ex.Tuple.(*ssa.Call); isCall {
			z, _ := helperZero(call, ex.Index)
			return z
		}
		return false
	}
	c, ok := stripConv(v).(*ssa.Call)
	if !ok {
		return false
	}
	if z, isHelper := helperZero(c, 0); isHelper {
		return z
	}
	cc := c.Common()
	f := cc.StaticCallee()
	if f == nil || f.Pkg == nil {
		return false
	}
	switch {
	case f.Pkg.Pkg.Path() == "math/big" && f.Name() == "NewInt" && len(cc.Args) == 1:
		k, isC := constInt(cc.Args[0])
		return isC && k == 0
	case f.Pkg.Pkg.Path() == "github.com/holiman/uint256" && f.Name() == "ToBig" && len(cc.Args) == 1:
		ld, ok := stripConv(cc.Args[0]).(*ssa.UnOp)
		if !ok || ld.Op != token.MUL {
			return false
		}
		g, ok := ld.X.(*ssa.Global)
		if !ok {
			return false
		}
		// every store to the global, anywhere in the module, is NewInt(0) in the package initialiser
		n := 0
		fns := append([]*ssa.Function(nil), w.ModuleFuncs()...)
		if g.Pkg != nil {
			if ini := g.Pkg.Func("init"); ini != nil {
				fns = append(fns, ini)
			}
		}
		for _, fn := range fns {
			for _, b := range fn.Blocks {
				for _, in := range b.Instrs {
					st, isS := in.(*ssa.Store)
					if !isS || st.Addr != ssa.Value(g) {
						continue
					}
					n++
					call, isCall := stripConv(st.Val).(*ssa.Call)
					if !isCall || fn.Name() != "init" {
						return false
					}
					cf := call.Common().StaticCallee()
					if cf == nil || cf.Name() != "NewInt" || len(call.Common().Args) != 1 {
						return false
					}
					if k, isC := constInt(call.Common().Args[0]); !isC || k != 0 {
						return false
					}
				}
			}
		}
		// the value must not be mutated through the pointer either: no destination-receiver call on it
		for _, fn := range w.ModuleFuncs() {
			for _, cI := range CallsIn(fn) {
				if rv, mut := mutatesZ(cI.Common()); mut && rv != nil {
					if l2, ok := stripConv(rv).(*ssa.UnOp); ok && l2.Op == token.MUL && l2.X == ssa.Value(g) {
						return false
					}
				}
			}
		}
		return n == 1
	}
	return false
}

// configHasNoBaseFee: v is a vm.Config composite literal (or a load of one) whose NoBaseFee field is stored true.
func (w *World) configHasNoBaseFee(v ssa.Value) bool {
	v = stripConv(v)
	if ld, ok := v.(*ssa.UnOp); ok && ld.Op == token.MUL {
		v = ld.X
	}
	a, ok := v.(*ssa.Alloc)
	if !ok || a.Referrers() == nil {
		return false
	}
	for _, ref := range *a.Referrers() {
		fa, ok := ref.(*ssa.FieldAddr)
		if !ok || fieldName(fa.X.Type(), fa.Field) != "NoBaseFee" || fa.Referrers() == nil {
			continue
		}
		for _, r2 := range *fa.Referrers() {
			if st, ok := r2.(*ssa.Store); ok {
				if c, isC := st.Val.(*ssa.Const); isC && c.Value != nil && c.Value.ExactString() == "true" {
					return true
				}
			}
		}
	}
	return false
}

// feeSumEvent: in changes the fee sum of a block context. For `sum.Add(sum, x)` the
// answer is "<context>\x01<x>" in canonical form; any other change (a store to the
// field, another 256-bit mutation) is "?<what>".
func (w *World) feeSumEvent(in ssa.Instruction) string {
	isFee := func(v ssa.Value) ssa.Value {
		v = stripConv(v)
		if u, ok := v.(*ssa.UnOp); ok && u.Op == token.MUL {
			v = u.X
		}
		if fa, ok := v.(*ssa.FieldAddr); ok {
			if n, f := fieldOf(fa.X.Type(), fa.Field); f != nil && f.Name() == "feeSum" && namedIs(n, absPkg(pkgCT), "BlockContext") {
				return fa.X
			}
		}
		return nil
	}
	switch x := in.(type) {
	case *ssa.Store:
		if fa, ok := x.Addr.(*ssa.FieldAddr); ok && isFee(fa) != nil {
			if _, fresh := stripConv(fa.X).(*ssa.Alloc); fresh {
				return "" // the literal of a constructor
			}
			return "?store " + w.Canon(x.Val)
		}
	case ssa.CallInstruction:
		rv, ok := mutatesZ(x.Common())
		if !ok {
			return ""
		}
		base := isFee(rv)
		if base == nil {
			return ""
		}
		if f := x.Common().StaticCallee(); f != nil && f.Name() == "Add" && len(x.Common().Args) == 3 {
			a, b := x.Common().Args[1], x.Common().Args[2]
			switch {
			case isFee(a) != nil && isFee(b) == nil:
				return w.Canon(base) + "\x01" + w.Canon(b)
			case isFee(b) != nil && isFee(a) == nil:
				return w.Canon(base) + "\x01" + w.Canon(a)
			}
		}
		return "?" + w.canonCall(x.Common(), 0)
	}
	return ""
}

// feeAdders: the methods of *BlockContext (other than the decoder) from which a
// change of the fee sum is reachable within the package.
func (w *World) feeAdders() []*ssa.Function {
	var out []*ssa.Function
	for _, fn := range w.ModuleFuncs() {
		if fn.Signature.Recv() == nil || fn.Parent() != nil || fn.Name() == "UnmarshalJSON" || fn.Object() == nil || !fn.Object().Exported() {
			continue
		}
		rn, _ := types.Unalias(deref(fn.Signature.Recv().Type())).(*types.Named)
		if rn == nil || !namedIs(rn, absPkg(pkgCT), "BlockContext") {
			continue
		}
		hit := false
		for _, hf := range w.withModuleCallees(fn, 2) {
			if hf != fn && (hf.Object() == nil || hf.Object().Exported()) {
				continue // another method of the API: counted on its own
			}
			for _, b := range hf.Blocks {
				for _, in := range b.Instrs {
					if w.feeSumEvent(in) != "" {
						hit = true
					}
				}
			}
		}
		if hit {
			out = append(out, fn)
		}
	}
	sort.Slice(out, func(i, j int) bool { return out[i].Name() < out[j].Name() })
	return out
}
