package main

// execctx.go — A6 of DESIGN.md: the exec-context analysis. Every program point
// of every module function reachable from an ABCI entry gets a context
//   T  consensus execution (DeliverTx / BeginBlock / EndBlock / Commit / InitChain / Info)
//   F  mempool check (CheckTx)
//   Q  query
//   ⊤  shared (reached from several contexts and not separated by an exec test)
// derived from (i) the entry the function is reached from (join over call
// sites), refined by (ii) dominating branches on exec-valued conditions
// (TrxContext.Exec, StateDBWrapper.exec, bool parameters that receive the flag).

import (
	"go/token"
	"go/types"
	"sort"
	"strings"

	"golang.org/x/tools/go/ssa"
)

type pol int // bit set of contexts

const (
	polBot pol = 0
	polT   pol = 1
	polF   pol = 2
	polQ   pol = 4
)

func (p pol) String() string {
	if p == polBot {
		return "⊥"
	}
	var ss []string
	if p&polT != 0 {
		ss = append(ss, "T")
	}
	if p&polF != 0 {
		ss = append(ss, "F")
	}
	if p&polQ != 0 {
		ss = append(ss, "Q")
	}
	return "{" + strings.Join(ss, ",") + "}"
}

func joinPol(a, b pol) pol { return a | b }

// within: every context of p is one of allowed (and p is not empty).
func (p pol) within(allowed pol) bool { return p != polBot && p&^allowed == 0 }

type callEdge struct {
	caller *ssa.Function
	site   ssa.CallInstruction
	callee *ssa.Function
}

type ExecCtx struct {
	w         *World
	roots     map[*ssa.Function]pol
	funcs     []*ssa.Function
	inSet     map[*ssa.Function]bool
	entry     map[*ssa.Function]pol
	execParam map[*ssa.Function]map[int]bool // Params index (receiver included)
	in        map[*ssa.Function][]callEdge
	lexical   map[*ssa.Function][]*ssa.BasicBlock
	reachAll  *Reach
	// impliesMemo: trueImpliesExec per function (1 yes, 2 no, 3 in progress)
	impliesMemo map[*ssa.Function]int
}

// evmCallbacks: module functions go-ethereum calls back while a message is applied.
func (w *World) evmCallbacks() []*ssa.Function {
	var out []*ssa.Function
	n := w.Named("ctrlers/vm/evm", "StateDBWrapper")
	if n != nil {
		ms := w.Prog.MethodSets.MethodSet(types.NewPointer(n))
		for i := 0; i < ms.Len(); i++ {
			if f := w.Prog.MethodValue(ms.At(i)); f != nil && w.InModule(f) && f.Blocks != nil && f.Synthetic == "" {
				out = append(out, f)
			}
		}
	}
	for _, nm := range []string{"CanTransfer", "Transfer", "GetHash"} {
		if f := w.Func("ctrlers/vm/evm", nm); f != nil {
			out = append(out, f)
		}
	}
	sort.Slice(out, func(i, j int) bool { return w.FName(out[i]) < w.FName(out[j]) })
	return out
}

func (w *World) isApplyMessage(c *ssa.CallCommon) bool {
	f := c.StaticCallee()
	return f != nil && f.Name() == "ApplyMessage" && w.FuncPkgPath(f) == "github.com/ethereum/go-ethereum/core"
}

func NewExecCtx(w *World) *ExecCtx {
	x := &ExecCtx{w: w, roots: map[*ssa.Function]pol{}, inSet: map[*ssa.Function]bool{}, entry: map[*ssa.Function]pol{}, execParam: map[*ssa.Function]map[int]bool{}, in: map[*ssa.Function][]callEdge{}, lexical: map[*ssa.Function][]*ssa.BasicBlock{}}
	for _, n := range []string{"InitChain", "BeginBlock", "DeliverTx", "EndBlock", "Commit", "Info"} {
		if f := w.appMethod(n); f != nil {
			x.roots[f] = polT
		}
	}
	if f := w.appMethod("CheckTx"); f != nil {
		x.roots[f] = polF
	}
	if f := w.appMethod("Query"); f != nil {
		x.roots[f] = polQ
	}
	var roots []*ssa.Function
	for f := range x.roots {
		roots = append(roots, f)
	}
	sort.Slice(roots, func(i, j int) bool { return roots[i].Name() < roots[j].Name() })
	x.reachAll = w.ReachFrom(roots, nil)
	cbs := w.evmCallbacks()
	// EVM callbacks are reachable wherever ApplyMessage is called
	hasApply := false
	for _, f := range x.reachAll.ModuleFuncs() {
		for _, c := range CallsIn(f) {
			if w.isApplyMessage(c.Common()) {
				hasApply = true
			}
		}
	}
	if hasApply {
		r2 := w.ReachFrom(append(roots, cbs...), nil)
		x.reachAll = r2
	}
	x.funcs = x.reachAll.ModuleFuncs()
	for _, f := range x.funcs {
		x.inSet[f] = true
	}
	// call edges among the functions of the set
	for _, f := range x.funcs {
		for _, c := range CallsIn(f) {
			if w.isApplyMessage(c.Common()) {
				for _, cb := range cbs {
					x.in[cb] = append(x.in[cb], callEdge{f, c, cb})
				}
				continue
			}
			for _, cal := range w.Callees(c) {
				if x.inSet[cal] && cal.Parent() == nil {
					x.in[cal] = append(x.in[cal], callEdge{f, c, cal})
				}
			}
		}
		// a closure runs in the context of the point that created it (callbacks
		// here are synchronous: ledger iterators, NewTrxContext callbacks, defers);
		// call edges into closures are ignored because the call graph merges all
		// closures of one callback type
		for _, b := range f.Blocks {
			for _, in := range b.Instrs {
				if mc, ok := in.(*ssa.MakeClosure); ok {
					if a, ok := mc.Fn.(*ssa.Function); ok && x.inSet[a] && a.Parent() == f {
						x.lexical[a] = append(x.lexical[a], b)
					}
					continue
				}
				// a function literal that captures nothing is a plain function value:
				// it runs in the context of the points that use it
				for _, op := range in.Operands(nil) {
					if a, ok := (*op).(*ssa.Function); ok && a.Parent() == f && x.inSet[a] {
						x.lexical[a] = append(x.lexical[a], b)
					}
				}
			}
		}
	}
	x.findExecParams()
	// entry contexts: fixpoint
	for f, p := range x.roots {
		x.entry[f] = p
	}
	for iter := 0; iter < 50; iter++ {
		changed := false
		for _, f := range x.funcs {
			if _, isRoot := x.roots[f]; isRoot {
				continue
			}
			p := polBot
			for _, e := range x.in[f] {
				p = joinPol(p, x.PolAt(e.site.Block()))
			}
			for _, b := range x.lexical[f] {
				p = joinPol(p, x.PolAt(b))
			}
			if p != x.entry[f] {
				x.entry[f] = p
				changed = true
			}
		}
		if !changed {
			break
		}
	}
	return x
}

// execVal: is v exec-valued? neg = its truth is the negation of the flag.
func (x *ExecCtx) execVal(v ssa.Value) (ok bool, neg bool) {
	v = stripConv(v)
	switch y := v.(type) {
	case *ssa.UnOp:
		if y.Op == token.NOT {
			o, n := x.execVal(y.X)
			return o, !n
		}
		if y.Op == token.MUL {
			// a local copy of the flag that a closure captured: loads go through its cell
			switch cell := y.X.(type) {
			case *ssa.FreeVar:
				return x.execVal(cell)
			case *ssa.Alloc:
				if sv := singleStore(cell); sv != nil {
					return x.execVal(sv)
				}
			}
			if fa, isFA := y.X.(*ssa.FieldAddr); isFA {
				n, f := fieldOf(fa.X.Type(), fa.Field)
				if f != nil && (f.Name() == "Exec" && namedIs(n, absPkg(pkgCT), "TrxContext") ||
					f.Name() == "exec" && namedIs(n, absPkg("ctrlers/vm/evm"), "StateDBWrapper")) {
					return true, false
				}
			}
		}
	case *ssa.BinOp:
		if y.Op == token.EQL || y.Op == token.NEQ {
			if b, isC := constBool(y.Y); isC {
				o, n := x.execVal(y.X)
				return o, n != (b == (y.Op == token.NEQ))
			}
			if b, isC := constBool(y.X); isC {
				o, n := x.execVal(y.Y)
				return o, n != (b == (y.Op == token.NEQ))
			}
		}
	case *ssa.Parameter:
		fn := y.Parent()
		for i, p := range fn.Params {
			if p == y && x.execParam[fn][i] {
				return true, false
			}
		}
	case *ssa.FreeVar:
		if b := x.w.freeVarBinding(y); b != nil {
			// captured variable: look at the value stored in it
			if a, isA := b.(*ssa.Alloc); isA {
				if sv := singleStore(a); sv != nil {
					return x.execVal(sv)
				}
			}
			return x.execVal(b)
		}
	}
	return false, false
}

func (x *ExecCtx) findExecParams() {
	for iter := 0; iter < 20; iter++ {
		changed := false
		for _, f := range x.funcs {
			for _, c := range CallsIn(f) {
				for _, cal := range x.w.Callees(c) {
					if !x.inSet[cal] && !x.w.InModule(cal) {
						continue
					}
					for ai, a := range c.Common().Args {
						if b, isB := a.Type().Underlying().(*types.Basic); !isB || b.Kind() != types.Bool {
							continue
						}
						if ok, _ := x.execVal(a); !ok {
							continue
						}
						pi := ai
						if c.Common().IsInvoke() {
							pi = ai + 1
						}
						if pi >= len(cal.Params) {
							continue
						}
						if x.execParam[cal] == nil {
							x.execParam[cal] = map[int]bool{}
						}
						if !x.execParam[cal][pi] {
							x.execParam[cal][pi] = true
							changed = true
						}
					}
				}
			}
		}
		if !changed {
			break
		}
	}
}

// localPol: refinement by dominating exec tests inside the function.
func (x *ExecCtx) localPol(b *ssa.BasicBlock) pol {
	fn := b.Parent()
	res := polBot
	for _, blk := range fn.Blocks {
		ifi, ok := lastInstr(blk).(*ssa.If)
		if !ok {
			continue
		}
		isE, neg := x.execVal(ifi.Cond)
		if !isE {
			// a boolean helper that can only answer true in consensus execution
			// (`func limited(ctx) bool { return ctx.Exec && … }`): its true edge is exec
			c, cneg := ifi.Cond, false
			for {
				if u, isU := c.(*ssa.UnOp); isU && u.Op == token.NOT {
					c, cneg = u.X, !cneg
					continue
				}
				break
			}
			if call, isCall := c.(*ssa.Call); isCall && x.trueImpliesExec(call) {
				e := condEdge(ifi, b)
				if cneg {
					e = -e
				}
				if e == 1 {
					res = joinPol(res, polT)
				}
			}
			continue
		}
		e := condEdge(ifi, b)
		if e == 0 {
			continue
		}
		if neg {
			e = -e
		}
		if e == 1 {
			res = joinPol(res, polT)
		} else {
			res = joinPol(res, polF)
		}
	}
	return res
}

// trueImpliesExec: the callee is a module function with one boolean result that
// returns true only on paths where the exec flag was tested true.
func (x *ExecCtx) trueImpliesExec(call *ssa.Call) bool {
	fn := call.Common().StaticCallee()
	if fn == nil || !x.w.InModule(fn) || fn.Blocks == nil || len(fn.Blocks) > 16 || fn.Signature.Results().Len() != 1 || !isBoolType(fn.Signature.Results().At(0).Type()) {
		return false
	}
	if x.impliesMemo == nil {
		x.impliesMemo = map[*ssa.Function]int{}
	}
	switch x.impliesMemo[fn] {
	case 1:
		return true
	case 2, 3:
		return false
	}
	x.impliesMemo[fn] = 3 // in progress
	onEdge := func(pred, blk *ssa.BasicBlock) bool {
		if x.localPol(pred) == polT {
			return true
		}
		if ifi, ok := lastInstr(pred).(*ssa.If); ok && len(pred.Succs) == 2 && pred.Succs[0] != pred.Succs[1] {
			if isE, neg := x.execVal(ifi.Cond); isE {
				return (pred.Succs[0] == blk) != neg
			}
		}
		return false
	}
	var ok func(v ssa.Value, at *ssa.BasicBlock, d int) bool
	ok = func(v ssa.Value, at *ssa.BasicBlock, d int) bool {
		if d > 4 {
			return false
		}
		if b, isC := constBool(v); isC {
			return !b || x.localPol(at) == polT
		}
		if isE, neg := x.execVal(v); isE && !neg {
			return true // the flag itself
		}
		if ph, isPhi := v.(*ssa.Phi); isPhi {
			for i, e := range ph.Edges {
				if b, isC := constBool(e); isC && !b {
					continue
				}
				if onEdge(ph.Block().Preds[i], ph.Block()) {
					continue
				}
				if !ok(e, ph.Block().Preds[i], d+1) {
					return false
				}
			}
			return true
		}
		if in, isIn := v.(ssa.Instruction); isIn && in.Block() != nil {
			return x.localPol(in.Block()) == polT
		}
		return false
	}
	res := true
	n := 0
	for _, b := range fn.Blocks {
		if rt, isR := lastInstr(b).(*ssa.Return); isR && b != fn.Recover {
			n++
			if len(rt.Results) != 1 || !ok(rt.Results[0], b, 0) {
				res = false
			}
		}
	}
	res = res && n > 0
	if res {
		x.impliesMemo[fn] = 1
	} else {
		x.impliesMemo[fn] = 2
	}
	return res
}

// PolAt: context of a block. The flag is true only in consensus execution and
// false in both CheckTx and Query.
func (x *ExecCtx) PolAt(b *ssa.BasicBlock) pol {
	return refine(x.entry[b.Parent()], x.localPol(b))
}

func refine(entry, local pol) pol {
	switch {
	case local == polBot:
		return entry
	case local == polT:
		return polT
	case local == polF:
		if e := entry & (polF | polQ); e != polBot {
			return e
		}
		return polF
	}
	return entry // contradictory tests: unreachable, keep entry
}

// PolOnEdge: context of the CFG edge pred -> blk.
func (x *ExecCtx) PolOnEdge(pred, blk *ssa.BasicBlock) pol {
	if ifi, ok := lastInstr(pred).(*ssa.If); ok && len(pred.Succs) == 2 && pred.Succs[0] != pred.Succs[1] {
		if isE, neg := x.execVal(ifi.Cond); isE {
			onTrue := pred.Succs[0] == blk
			if onTrue != neg {
				return polT
			}
			return refine(x.PolAt(pred), polF)
		}
	}
	return x.PolAt(pred)
}

// ---- ledger vocabulary

const pkgLedger = "ledger"

var consensusOverlay = map[string]bool{"SetFinality": true, "GetFinality": true, "DelFinality": true, "CancelSetFinality": true, "CancelDelFinality": true, "Commit": true, "IterateFinalityGotItems": true, "IterateFinalityUpdatedItems": true}
var mempoolOverlay = map[string]bool{"Set": true, "Get": true, "Del": true, "CancelSet": true, "CancelDel": true, "IterateGotItems": true, "IterateUpdatedItems": true}
var overlayMutator = map[string]bool{"SetFinality": true, "DelFinality": true, "CancelSetFinality": true, "CancelDelFinality": true, "Commit": true, "Set": true, "Del": true, "CancelSet": true, "CancelDel": true}
var treeRead = map[string]bool{"Read": true, "IterateReadAllItems": true, "IterateReadAllFinalityItems": true, "Version": true, "ImmutableLedgerAt": true}

type ledgerArm struct {
	Method string
	Recv   ssa.Value // the ledger value the method is invoked on
	Site   ssa.CallInstruction
	Pred   *ssa.BasicBlock // for phi-selected method values: the incoming edge's source
	PhiBlk *ssa.BasicBlock
	// At: for an accessor picked by a helper (handed back in a struct): the helper's
	// return that picks it; the exec polarity of the arm is the one there
	At ssa.Instruction
}

func isLedgerType(t types.Type) bool {
	t = deref(t)
	if a, ok := t.(*types.Alias); ok {
		t = types.Unalias(a)
	}
	n, ok := t.(*types.Named)
	if !ok {
		return false
	}
	o := n.Origin().Obj()
	if o.Pkg() == nil || o.Pkg().Path() != absPkg(pkgLedger) {
		return false
	}
	switch o.Name() {
	case "ILedger", "IFinalityLedger", "SimpleLedger", "FinalityLedger":
		return true
	}
	return false
}

// ledgerArms decodes a call into ledger-method arms (nil when it is not a ledger call).
func (w *World) ledgerArms(c ssa.CallInstruction) []ledgerArm {
	cc := c.Common()
	if cc.IsInvoke() {
		if isLedgerType(cc.Value.Type()) {
			return []ledgerArm{{Method: cc.Method.Name(), Recv: cc.Value, Site: c}}
		}
		// an element of a literal table of ledgers, seen through a narrower interface:
		// the path being enumerated says which ledger it is
		if w.cur != nil && w.cur.st != nil {
			if rv := stripConv(w.resolveValue(cc.Value, w.cur.st, w.cur.eval, 3)); rv != cc.Value && isLedgerType(rv.Type()) {
				return []ledgerArm{{Method: cc.Method.Name(), Recv: rv, Site: c}}
			}
		}
		return nil
	}
	_, viaClosure := cc.Value.(*ssa.MakeClosure)
	if f := cc.StaticCallee(); f != nil && !viaClosure {
		if f.Signature.Recv() != nil && isLedgerType(f.Signature.Recv().Type()) && len(cc.Args) > 0 {
			return []ledgerArm{{Method: callName(cc), Recv: cc.Args[0], Site: c}}
		}
		return nil
	}
	// call through a (phi of) bound method value(s)
	return w.ledgerArmsOfValue(cc.Value, c)
}

// ledgerArmsF: like ledgerArms, and also a call of a package-private selector
// that does nothing but forward to ledger methods (`func (c) setX(x, exec) { if
// exec { return L.SetFinality(x) }; return L.Set(x) }`). The arms' receivers are
// values of the selector's frame (they print like the caller's). Used where a
// rule asks WHAT is done to a ledger; rules that ask WHERE an overlay is touched
// (C06, C19) look at the selector's own body instead.
func (w *World) ledgerArmsF(c ssa.CallInstruction) []ledgerArm {
	if a := w.ledgerArms(c); a != nil {
		return a
	}
	arms, _ := w.fwdLedger(c)
	return arms
}

// fwdLedger: the arms of a forwarding selector call and the index (in the call's
// arguments) of the argument that reaches the ledger methods' last parameter (-1 if none).
func (w *World) fwdLedger(c ssa.CallInstruction) ([]ledgerArm, int) {
	cc := c.Common()
	f := cc.StaticCallee()
	if f == nil || cc.IsInvoke() {
		return nil, -1
	}
	if _, viaClosure := cc.Value.(*ssa.MakeClosure); viaClosure {
		return nil, -1
	}
	fw := w.forwardedCalls(f)
	if fw == nil || len(f.Params) != len(cc.Args) {
		return nil, -1
	}
	var arms []ledgerArm
	item := -2
	for _, inner := range fw {
		ia := w.ledgerArms(inner)
		if len(ia) != 1 {
			return nil, -1
		}
		arms = append(arms, ledgerArm{Method: ia[0].Method, Recv: ia[0].Recv, Site: c})
		idx := -1
		if n := len(inner.Common().Args); n > 0 {
			if pi := paramIndexIn(f, inner.Common().Args[n-1]); pi >= 0 {
				idx = pi
			}
		}
		if item == -2 {
			item = idx
		} else if item != idx {
			item = -1
		}
	}
	if item < 0 {
		item = -1
	}
	return arms, item
}

// ledgerItemArg: the argument of a ledger call that names the item / key it acts on.
func (w *World) ledgerItemArg(c ssa.CallInstruction) ssa.Value {
	if w.ledgerArms(c) == nil {
		if arms, idx := w.fwdLedger(c); arms != nil {
			if idx >= 0 {
				return c.Common().Args[idx]
			}
			return nil
		}
	}
	if n := len(c.Common().Args); n > 0 {
		return c.Common().Args[n-1]
	}
	return nil
}

// ledgerItemArgIndex: position of that argument in the call's argument list (-1 if none).
func (w *World) ledgerItemArgIndex(c ssa.CallInstruction) int {
	if w.ledgerArms(c) == nil {
		if arms, idx := w.fwdLedger(c); arms != nil {
			return idx
		}
	}
	return len(c.Common().Args) - 1
}

// ledgerArmsOfValue: the ledger methods a function value (bound method value or
// phi of bound method values) stands for; nil if it is anything else.
func (w *World) ledgerArmsOfValue(fv ssa.Value, c ssa.CallInstruction) []ledgerArm {
	var arms []ledgerArm
	var walk func(v ssa.Value, pred, phiBlk *ssa.BasicBlock, depth int) bool
	var resultArms func(call *ssa.Call, f int, depth int) bool
	var fieldArms func(a *ssa.Alloc, f int, at ssa.Instruction, depth int) bool
	walk = func(v ssa.Value, pred, phiBlk *ssa.BasicBlock, depth int) bool {
		if depth > 3 {
			return false
		}
		switch y := v.(type) {
		case *ssa.MakeClosure:
			f, ok := y.Fn.(*ssa.Function)
			if !ok || !strings.HasSuffix(f.Name(), "$bound") || len(y.Bindings) != 1 || !isLedgerType(y.Bindings[0].Type()) {
				return false
			}
			arms = append(arms, ledgerArm{Method: strings.TrimSuffix(f.Name(), "$bound"), Recv: y.Bindings[0], Site: c, Pred: pred, PhiBlk: phiBlk})
			return true
		case *ssa.Phi:
			for i, e := range y.Edges {
				if !walk(e, y.Block().Preds[i], y.Block(), depth+1) {
					return false
				}
			}
			return true
		case *ssa.UnOp:
			// a field of a local parameter object (a set of accessors picked by a helper)
			if fa, ok := y.X.(*ssa.FieldAddr); ok && y.Op == token.MUL {
				if a, isA := fa.X.(*ssa.Alloc); isA && privateStruct(a) {
					return fieldArms(a, fa.Field, y, depth)
				}
			}
		case *ssa.Field:
			switch z := y.X.(type) {
			case *ssa.UnOp:
				if a, isA := z.X.(*ssa.Alloc); isA && z.Op == token.MUL && privateStruct(a) {
					return fieldArms(a, y.Field, z, depth)
				}
			case *ssa.Call:
				return resultArms(z, y.Field, depth)
			}
		}
		return false
	}
	// the accessors a helper hands back in a struct: one arm per return of the
	// helper, located at that return (its exec polarity is the helper's there)
	resultArms = func(call *ssa.Call, f int, depth int) bool {
		fn := call.Common().StaticCallee()
		if fn == nil || !w.InModule(fn) || fn.Blocks == nil || depth > 3 {
			return false
		}
		n := 0
		for _, b := range fn.Blocks {
			rt, ok := lastInstr(b).(*ssa.Return)
			if !ok || b == fn.Recover {
				continue
			}
			if len(rt.Results) != 1 {
				return false
			}
			ld, ok := rt.Results[0].(*ssa.UnOp)
			if !ok || ld.Op != token.MUL {
				return false
			}
			a, ok := ld.X.(*ssa.Alloc)
			if !ok || !privateStruct(a) || !assembledByField(a) {
				return false
			}
			defs, zero := fieldDefsAt(a, f, ld)
			if zero || len(defs) != 1 {
				return false
			}
			if _, whole := defs[0].(wholeDef); whole {
				return false
			}
			before := len(arms)
			if !walk(defs[0], nil, nil, depth+1) {
				return false
			}
			for i := before; i < len(arms); i++ {
				if arms[i].Pred == nil {
					arms[i].At = rt
				}
			}
			n++
		}
		return n > 0
	}
	fieldArms = func(a *ssa.Alloc, f int, at ssa.Instruction, depth int) bool {
		defs, zero := fieldDefsAt(a, f, at)
		if zero || len(defs) == 0 {
			return false
		}
		for _, dv := range defs {
			if wd, whole := dv.(wholeDef); whole {
				call, isCall := wd.Value.(*ssa.Call)
				if !isCall || !resultArms(call, f, depth+1) {
					return false
				}
				continue
			}
			if !walk(dv, nil, nil, depth+1) {
				return false
			}
		}
		return true
	}
	if walk(fv, nil, nil, 0) {
		return arms
	}
	return nil
}

// ledgerRoot strips interface conversions / nil-check assertions from a ledger value.
func ledgerRoot(v ssa.Value) ssa.Value {
	for {
		switch y := v.(type) {
		case *ssa.ChangeInterface:
			v = y.X
		case *ssa.MakeInterface:
			v = y.X
		case *ssa.TypeAssert:
			v = y.X
		case *ssa.ChangeType:
			v = y.X
		default:
			return v
		}
	}
}

// ledgerKind classifies a ledger value: "live" (a controller's ledger field: the
// node's store), "scratch" (from ImmutableLedgerAt / Clone / a constructor, or
// held by ImmuAcctCtrler), "self" (receiver inside the ledger package) or
// "unknown".
func (w *World) ledgerKind(v ssa.Value) (kind string, desc string) {
	v = ledgerRoot(v)
	desc = w.Canon(v)
	switch y := v.(type) {
	case *ssa.UnOp:
		// a local copy of the ledger handle (possibly captured by a closure)
		if y.Op == token.MUL && w.ledgerKindDepth < 3 {
			var cell ssa.Value = y.X
			if fv, isFV := cell.(*ssa.FreeVar); isFV {
				cell = w.freeVarBinding(fv)
			}
			if a, isA := cell.(*ssa.Alloc); isA {
				if sv := singleStore(a); sv != nil {
					w.ledgerKindDepth++
					k, _ := w.ledgerKind(sv)
					w.ledgerKindDepth--
					if k != "unknown" {
						return k, desc
					}
				}
			}
		}
		if fa, ok := y.X.(*ssa.FieldAddr); ok {
			n, f := fieldOf(fa.X.Type(), fa.Field)
			if n != nil && f != nil {
				switch n.Obj().Name() {
				case "AcctCtrler", "StakeCtrler", "GovCtrler":
					return "live", desc
				case "ImmuAcctCtrler":
					return "scratch", desc
				case "FinalityLedger", "SimpleLedger":
					return "self", desc
				}
			}
		}
	case *ssa.FieldAddr:
		n, _ := fieldOf(y.X.Type(), y.Field)
		if n != nil && (n.Obj().Name() == "FinalityLedger" || n.Obj().Name() == "SimpleLedger") {
			return "self", desc
		}
	case *ssa.Extract:
		if c, ok := y.Tuple.(*ssa.Call); ok {
			nm := callName(c.Common())
			if nm == "ImmutableLedgerAt" || nm == "NewFinalityLedger" || nm == "NewSimpleLedger" {
				return "scratch", desc
			}
		}
	case *ssa.Call:
		if callName(y.Common()) == "Clone" {
			return "scratch", desc
		}
	case *ssa.Parameter:
		if i, ok := paramIndex(y); ok && i < 0 {
			return "self", desc
		}
		// a ledger handed to a package-private helper: what its call sites agree on
		if fn := y.Parent(); fn != nil && w.ledgerKindDepth < 3 && (fn.Object() == nil || !fn.Object().Exported()) {
			idx := -1
			for i, p := range fn.Params {
				if p == y {
					idx = i
				}
			}
			cs := w.nodeCallers(fn)
			kind := ""
			for _, c := range cs {
				if idx < 0 || c.Site == nil || c.Site.Common().StaticCallee() == nil || idx >= len(c.Site.Common().Args) {
					kind = "unknown"
					break
				}
				w.ledgerKindDepth++
				k, _ := w.ledgerKind(c.Site.Common().Args[idx])
				w.ledgerKindDepth--
				if kind == "" {
					kind = k
				} else if kind != k {
					kind = "unknown"
				}
			}
			if kind != "" && kind != "unknown" {
				return kind, desc
			}
		}
	}
	// a ledger handed out by a module helper: what every feasible return of the helper is
	var call *ssa.Call
	idx := 0
	switch y := v.(type) {
	case *ssa.Extract:
		call, _ = y.Tuple.(*ssa.Call)
		idx = y.Index
	case *ssa.Call:
		call = y
	}
	if call != nil && w.ledgerKindDepth < 2 {
		if cal := call.Common().StaticCallee(); cal != nil && w.InModule(cal) && cal.Blocks != nil {
			saved := w.shallowResolve
			w.shallowResolve = true
			vals, complete := w.returnedValues(cal, idx, func(ssa.Value) (bool, bool) { return false, false }, 1)
			w.shallowResolve = saved
			kind := ""
			for _, x := range vals {
				if c, isC := x.(*ssa.Const); isC && c.IsNil() {
					continue
				}
				w.ledgerKindDepth++
				k, _ := w.ledgerKind(x)
				w.ledgerKindDepth--
				if kind == "" {
					kind = k
				} else if kind != k {
					kind = "unknown"
				}
			}
			if complete && kind != "" && kind != "unknown" {
				return kind, desc
			}
		}
	}
	return "unknown", desc
}
