package main

import (
	"encoding/json"
	"flag"
	"fmt"
	"os"
	"path/filepath"
	"runtime/debug"
	"sort"
	"strconv"
	"strings"
	"time"

	"golang.org/x/tools/go/ssa"
)

type propFunc func(w *World, r *Report)

var props = map[string]propFunc{}

func register(id string, f propFunc) { props[id] = f }

func main() {
	prop := flag.String("prop", "", "property id (C01..C20) or 'all'")
	tier := flag.String("tier", "quick", "quick|thorough")
	repo := flag.String("repo", "/repo", "repository to analyse")
	verif := flag.String("verif", "", "verification directory (default: parent of the binary's dir)")
	dump := flag.String("dump", "", "debug: dump guards/calls of a function, e.g. node.commonValidation0 or stake.(*StakeCtrler).ValidateTrx")
	explain := flag.String("explain", "", "re-derive the obligation recorded in a violation file")
	noEvidence := flag.Bool("noevidence", false, "do not write evidence (used by the sensitivity corpus on scratch copies)")
	describe := flag.Bool("describe", false, "with -noevidence: print each property's clause text (explanation / not covered) as JSON lines")
	list := flag.Bool("list", false, "with -noevidence: print every obligation, not only the bad ones")
	flag.Parse()

	vdir := *verif
	if vdir == "" {
		exe, _ := os.Executable()
		vdir = filepath.Dir(filepath.Dir(exe))
		if _, err := os.Stat(filepath.Join(vdir, "properties.jsonl")); err != nil {
			vdir = "/verif"
		}
	}
	if t := os.Getenv("VERIF_TIER"); t != "" && *tier == "" {
		*tier = t
	}
	seed := 0
	if s := os.Getenv("VERIF_SEED"); s != "" {
		seed, _ = strconv.Atoi(s)
	}

	if *explain != "" {
		os.Exit(doExplain(*explain, *repo, vdir))
	}

	t0 := time.Now()
	w, err := LoadWorld(*repo, nil)
	if err != nil {
		fmt.Println("ANALYSIS INCOMPLETE:", err)
		if *prop != "" && *prop != "all" {
			r := NewReport(*prop, *tier)
			r.Explanation = "analysis could not start"
			r.Undecided("A0", "load", err.Error())
			os.Exit(r.Finish(nil, vdir, seed, time.Since(t0).Seconds(), false))
		}
		os.Exit(1)
	}

	if *dump != "" {
		doDump(w, *dump)
		return
	}

	var ids []string
	if *prop == "all" {
		for id := range props {
			ids = append(ids, id)
		}
		sort.Strings(ids)
	} else {
		for _, id := range strings.Split(*prop, ",") {
			if _, ok := props[id]; !ok {
				fmt.Fprintf(os.Stderr, "unknown property %q\n", id)
				os.Exit(2)
			}
			ids = append(ids, id)
		}
	}
	if len(ids) == 0 {
		fmt.Fprintln(os.Stderr, "no property given")
		os.Exit(2)
	}
	exit := 0
	for _, id := range ids {
		tp := time.Now()
		r := NewReport(id, *tier)
		func() {
			defer func() {
				if e := recover(); e != nil {
					r.Undecided("A0", "panic", fmt.Sprintf("checker panic: %v\n%s", e, debug.Stack()))
				}
			}()
			props[id](w, r)
			if *tier == "thorough" && !*noEvidence {
				runThorough(w, r, vdir)
			}
		}()
		wall := time.Since(tp).Seconds()
		if len(ids) == 1 {
			wall = time.Since(t0).Seconds()
		}
		var code int
		if *noEvidence {
			if *describe {
				bz, _ := json.Marshal(map[string]string{"id": id, "explanation": r.Explanation, "not_covered": r.NotCovered})
				fmt.Printf("DESCRIBE %s\n", bz)
			}
			if *list {
				for _, o := range r.Obs {
					fmt.Printf("OB %s %s: %s [%s]\n", o.Status, o.Key, strings.ReplaceAll(o.Detail, "\n", " "), strings.Join(o.Sites, ", "))
				}
			}
			code = r.FinishNoEvidence(w)
		} else {
			code = r.Finish(w, vdir, seed, wall, false)
		}
		if code != 0 {
			exit = 1
		}
	}
	os.Exit(exit)
}

// FinishNoEvidence prints the bad obligations only (used on scratch copies).
func (r *Report) FinishNoEvidence(w *World) int {
	var rules []string
	for rule := range r.floors {
		rules = append(rules, rule)
	}
	sort.Strings(rules)
	for _, rule := range rules {
		if c := r.count(rule); c < r.floors[rule] {
			r.Undecided(rule, "floor", fmt.Sprintf("vacuous rule: %d instance(s), floor %d", c, r.floors[rule]))
		}
	}
	bad := 0
	for _, o := range r.Obs {
		if o.Status != stOK {
			fmt.Printf("BAD property=%s status=%s key=%s detail=%s sites=%s\n", r.Prop, o.Status, o.Key, strings.ReplaceAll(o.Detail, "\n", " "), strings.Join(o.Sites, ","))
			bad++
		}
	}
	fmt.Printf("SUMMARY property=%s obligations=%d bad=%d\n", r.Prop, len(r.Obs), bad)
	if bad > 0 {
		return 1
	}
	return 0
}

func doExplain(path, repo, vdir string) int {
	bz, err := os.ReadFile(path)
	if err != nil {
		fmt.Println("cannot read", path, err)
		return 2
	}
	s := string(bz)
	// property id from the file
	i := strings.Index(s, `"property": "`)
	if i < 0 {
		fmt.Println("no property in", path)
		return 2
	}
	id := s[i+13 : i+16]
	k := strings.Index(s, `"key": "`)
	key := ""
	if k >= 0 {
		rest := s[k+8:]
		key = rest[:strings.Index(rest, `"`)]
	}
	w, err := LoadWorld(repo, nil)
	if err != nil {
		fmt.Println("ANALYSIS INCOMPLETE:", err)
		return 1
	}
	f, ok := props[id]
	if !ok {
		fmt.Println("unknown property", id)
		return 2
	}
	r := NewReport(id, "quick")
	f(w, r)
	found := false
	for _, o := range r.Obs {
		if o.Key == key {
			found = true
			fmt.Printf("obligation %s\n  status: %s\n  detail: %s\n  sites: %s\n", o.Key, o.Status, o.Detail, strings.Join(o.Sites, ", "))
			if o.Status != stOK {
				fmt.Printf("VIOLATION property=%s replay=%s\n", id, path)
				return 1
			}
		}
	}
	if !found {
		fmt.Printf("obligation %s is no longer produced on the current tree\n", key)
	}
	return 0
}

func doDump(w *World, name string) {
	var fns []*ssa.Function
	for _, f := range w.ModuleFuncs() {
		if w.FName(f) == name || strings.HasSuffix(w.FName(f), "."+name) || strings.HasSuffix(w.FName(f), name) {
			fns = append(fns, f)
		}
	}
	for _, f := range fns {
		fmt.Println("=== ", w.FName(f), w.Pos(f.Pos()))
		for _, g := range w.Guards(f) {
			fmt.Printf("  guard @%s fails-if %s\n", w.InstrPos(g.If), g.Cond)
		}
		for _, c := range CallsIn(f) {
			fmt.Printf("  call  @%s %s\n", w.InstrPos(c), w.canonCall(c.Common(), 0))
			if c.Common().StaticCallee() == nil {
				for _, cal := range w.Callees(c) {
					fmt.Printf("        -> %s\n", w.FName(cal))
				}
			}
		}
		for _, b := range f.Blocks {
			for _, in := range b.Instrs {
				switch x := in.(type) {
				case *ssa.Store:
					fmt.Printf("  store @%s %s = %s\n", w.InstrPos(in), w.Canon(x.Addr), w.Canon(x.Val))
				case *ssa.Return:
					var rs []string
					for _, v := range x.Results {
						rs = append(rs, w.Canon(v))
					}
					fmt.Printf("  ret   @%s (%s) err=%d\n", w.InstrPos(in), strings.Join(rs, ", "), w.errState(x))
				case *ssa.MapUpdate:
					fmt.Printf("  mapup @%s %s[%s] = %s\n", w.InstrPos(in), w.Canon(x.Map), w.Canon(x.Key), w.Canon(x.Value))
				case *ssa.Panic:
					fmt.Printf("  panic @%s\n", w.InstrPos(in))
				}
			}
		}
	}
	if len(fns) == 0 {
		fmt.Println("no function matches", name)
	}
}
