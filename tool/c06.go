package main

// C06 — block execution is isolated from CheckTx and Query (DESIGN §3 C06, X-1 … X-5).

import (
	"fmt"
	"go/token"
	"go/types"
	"strings"

	"golang.org/x/tools/go/ssa"
)

func init() { register("C06", checkC06) }

// controller-state types: in-memory state of the node that consensus execution reads
var csTypes = map[string]string{
	"RigoApp": "node", "AcctCtrler": "ctrlers/account", "StakeCtrler": "ctrlers/stake", "StakeLimiter": "ctrlers/stake", "powerObj": "ctrlers/stake",
	"GovCtrler": "ctrlers/gov", "EVMCtrler": "ctrlers/vm/evm", "StateDBWrapper": "ctrlers/vm/evm", "BlockContext": pkgCT, "MetaDB": pkgCT,
}

func isCSType(n *types.Named) bool {
	if n == nil || n.Obj().Pkg() == nil {
		return false
	}
	p, ok := csTypes[n.Obj().Name()]
	return ok && n.Obj().Pkg().Path() == absPkg(p)
}

type csEffect struct {
	In    ssa.Instruction
	Owner *types.Named
	Field string
	Base  ssa.Value
	Kind  string // store | mapupdate | sort
}

// baseFresh: the object written is allocated in this very function (composite
// literal / new) or was just returned by a constructor that returns a fresh object.
func baseFresh(v ssa.Value) bool {
	for {
		switch y := v.(type) {
		case *ssa.Alloc:
			return true
		case *ssa.FieldAddr:
			v = y.X
		case *ssa.IndexAddr:
			v = y.X
		case *ssa.Call:
			if f := y.Common().StaticCallee(); f != nil {
				return returnsFresh(f, 0)
			}
			return false
		default:
			return false
		}
	}
}

var returnsFreshMemo = map[*ssa.Function]bool{}

// returnsFresh: every return of fn yields (as result 0) an object allocated in fn
// or by another constructor of this kind.
func returnsFresh(fn *ssa.Function, depth int) bool {
	if v, ok := returnsFreshMemo[fn]; ok {
		return v
	}
	if fn.Blocks == nil || depth > 3 {
		return false
	}
	res := true
	n := 0
	for _, b := range fn.Blocks {
		ret, ok := lastInstr(b).(*ssa.Return)
		if !ok || b == fn.Recover || len(ret.Results) == 0 {
			continue
		}
		n++
		switch y := retResult(ret, 0).(type) {
		case *ssa.Alloc:
		case *ssa.Call:
			f := y.Common().StaticCallee()
			if f == nil || !returnsFresh(f, depth+1) {
				res = false
			}
		default:
			res = false
		}
	}
	res = res && n > 0
	returnsFreshMemo[fn] = res
	return res
}

// csEffects lists the writes of fn to controller-state fields.
func (w *World) csEffects(fn *ssa.Function) []csEffect {
	var out []csEffect
	fieldOfLoad := func(v ssa.Value) (*types.Named, string, ssa.Value, bool) {
		v = stripConv(v)
		for {
			if ct, ok := v.(*ssa.ChangeType); ok {
				v = ct.X
				continue
			}
			if sl, ok := v.(*ssa.Slice); ok {
				v = sl.X
				continue
			}
			break
		}
		u, ok := v.(*ssa.UnOp)
		if !ok || u.Op != token.MUL {
			return nil, "", nil, false
		}
		fa, ok := u.X.(*ssa.FieldAddr)
		if !ok {
			return nil, "", nil, false
		}
		n, f := fieldOf(fa.X.Type(), fa.Field)
		if f == nil {
			return nil, "", nil, false
		}
		return n, f.Name(), fa.X, true
	}
	for _, b := range fn.Blocks {
		for _, in := range b.Instrs {
			switch x := in.(type) {
			case *ssa.Store:
				addr := x.Addr
				// element of a slice held in a field: attribute to the field
				if ia, ok := addr.(*ssa.IndexAddr); ok {
					if n, f, base, ok := fieldOfLoad(ia.X); ok && isCSType(n) {
						out = append(out, csEffect{in, n, f, base, "store"})
					}
					continue
				}
				if fa, ok := addr.(*ssa.FieldAddr); ok {
					n, f := fieldOf(fa.X.Type(), fa.Field)
					if f != nil && isCSType(n) {
						out = append(out, csEffect{in, n, f.Name(), fa.X, "store"})
					}
				}
			case *ssa.MapUpdate:
				if n, f, base, ok := fieldOfLoad(x.Map); ok && isCSType(n) {
					out = append(out, csEffect{in, n, f, base, "mapupdate"})
				}
			case ssa.CallInstruction:
				c := x.Common()
				if f := c.StaticCallee(); f != nil && w.FuncPkgPath(f) == "sort" && len(c.Args) > 0 {
					if n, fld, base, ok := fieldOfLoad(c.Args[0]); ok && isCSType(n) {
						out = append(out, csEffect{in, n, fld, base, "sort"})
					}
				}
				if bi, ok := c.Value.(*ssa.Builtin); ok && bi.Name() == "delete" && len(c.Args) > 0 {
					if n, fld, base, ok := fieldOfLoad(c.Args[0]); ok && isCSType(n) {
						out = append(out, csEffect{in, n, fld, base, "mapupdate"})
					}
				}
				// an in-place 256-bit update of a value held in a field (the block's fee sum)
				if dest, ok := mutatesZ(c); ok {
					if n, fld, base, ok := fieldOfLoad(dest); ok && isCSType(n) {
						out = append(out, csEffect{in, n, fld, base, "zupdate"})
					}
				}
			}
		}
	}
	return out
}

func inLedgerPkg(w *World, fn *ssa.Function) bool {
	return w.FuncPkgPath(fn) == absPkg(pkgLedger)
}

func checkC06(w *World, r *Report) {
	r.Explanation = "Structural clause of C06: with every program point of every module function reachable from an ABCI entry labelled T (consensus), F (CheckTx), Q (Query) or ⊤ (shared) — from the entry it is reached from, refined by dominating tests of the exec flag (TrxContext.Exec, StateDBWrapper.exec, bool parameters that receive it) — (X-1a) every consensus-overlay ledger method on a live ledger is called at a T point and (X-1b) every mempool-overlay method at an F point, including both arms of the `fn := L.Get; if exec { fn = L.GetFinality }` idiom which must name the same ledger; (X-1c) every argument bound to a parameter that receives the exec flag, and every store to TrxContext.Exec / StateDBWrapper.exec, is the flag itself or a constant that agrees with the context of the call; (X-2) no in-memory controller state is written at a point that is not T (the query's scratch StateDBWrapper excepted); (X-3) every success return of FinalityLedger.Commit resets the mempool overlay; (X-4) the live EVM state is touched only at T points; (X-5) inside the ledger package, mempool-overlay operations never change what the consensus overlay reads or what a commit writes, and a commit discards the mempool overlay (the abstract interpretation of C18 L-1). (X-8) no object reachable from a package-level variable of the module is changed in place (a store through it, a 256-bit / big-integer operation with it as destination) at a point that can run in a CheckTx or Query context: such an object is shared by every caller, block execution included. (X-7) the readers of the committed tree that block execution iterates with consult no overlay container (C18 L-2): the plain ledger's overlay is fed by CheckTx. (X-9) the validation step that every CheckTx runs changes nothing, also not through module functions it hands controller objects to (C05 A-2). X-8 also covers assignments to module package-level variables, map updates on them and the mutators of a sync.Map kept in one."
	r.NotCovered = "interleavings below ABCI-call granularity (Query takes no application mutex); equality of results as such; internals of iavl/go-ethereum caches."

	x := NewExecCtx(w)
	r.Extra["context_functions"] = len(x.funcs)
	if len(x.funcs) < 250 {
		r.Undecided("X-0", "scope", fmt.Sprintf("only %d functions reachable from the ABCI entries (floor 250)", len(x.funcs)))
	}
	nShared := 0
	for _, f := range x.funcs {
		if e := x.entry[f]; e != polT && e != polF && e != polQ {
			nShared++
		}
	}
	r.Extra["shared_functions"] = nShared

	x1(w, r, x)
	x1c(w, r, x)
	x2(w, r, x)
	x3(w, r)
	x4(w, r, x)
	// X-5: inside the ledger, mempool-overlay operations never change what the
	// consensus overlay reads or commits (C18 L-1, decided by abstract interpretation)
	x6(w, r, "X-6", x.funcs)
	if r.importObs(w, func(t *Report) { l1(w, t) }, "L-1", "X-5") == 0 {
		r.Undecided("X-5", "ledger-isolation", "the ledger's overlay semantics could not be evaluated")
	}

	// X-7: the readers of the committed tree that block execution iterates with
	// consult no overlay: the mempool overlay is written by CheckTx, so a tree
	// iterator filtered by it lets unconfirmed transactions steer a block (C18 L-2)
	if r.importTreeReadOnly(w, "X-7") < 2 {
		r.Undecided("X-7", "tree-iterators", "the committed-tree readers of the ledger package were not found")
	}
	x8(w, r, x)
	// X-9: the validation that CheckTx runs is the same code DeliverTx runs first:
	// it changes nothing — no ledger, no controller state, no object it was not
	// handed as scratch (C05 A-2). A write there is made by every CheckTx.
	if r.importObs(w, func(t *Report) { a2(w, t) }, "A-2", "X-9") < 3 {
		r.Undecided("X-9", "validation-purity", "the validation purity rules (C05 A-2) matched fewer than 3 constructs")
	}
	r.Floor("X-1a", 20, "consensus-overlay call arms on live ledgers")
	r.Floor("X-1b", 12, "mempool-overlay call arms on live ledgers")
	r.Floor("X-1c", 15, "exec-flag arguments")
	r.Floor("X-2", 15, "controller-state writes")
	r.Floor("X-3", 1, "reset on commit")
	r.Floor("X-4", 5, "live EVM state accesses")
	r.Floor("X-5", 2, "ledger-internal isolation")
}

func armPol(x *ExecCtx, a ledgerArm) pol {
	if a.Pred != nil {
		return x.PolOnEdge(a.Pred, a.PhiBlk)
	}
	if a.At != nil {
		return x.PolAt(a.At.Block())
	}
	return x.PolAt(a.Site.Block())
}

func x1(w *World, r *Report, x *ExecCtx) {
	for _, fn := range x.funcs {
		if inLedgerPkg(w, fn) {
			continue // the ledger's own internals are decided under C18
		}
		name := w.FName(fn)
		for _, c := range CallsIn(fn) {
			arms := w.ledgerArms(c)
			if arms == nil {
				continue
			}
			// arms of one idiom must address the same ledger
			if len(arms) > 1 {
				r0 := w.Canon(ledgerRoot(arms[0].Recv))
				same := true
				for _, a := range arms[1:] {
					if w.Canon(ledgerRoot(a.Recv)) != r0 {
						same = false
					}
				}
				if !same {
					r.Violate("X-1a", name+":arms-same-ledger:"+r0, "the exec-selected method values belong to different ledgers", nil, site(w, c))
				}
			}
			for _, a := range arms {
				kind, desc := w.ledgerKind(a.Recv)
				p := armPol(x, a)
				key := fmt.Sprintf("%s:%s.%s", name, desc, a.Method)
				switch {
				case treeRead[a.Method] || a.Method == "Close" || a.Method == "Clone":
					continue
				case kind == "scratch":
					continue
				case kind != "live":
					r.Undecided("X-1a", key, "cannot tell whether this ledger value is the node's live store or a scratch ledger", site(w, c))
				case consensusOverlay[a.Method]:
					if p.within(polT) {
						r.OK("X-1a", key, "consensus-overlay method at a consensus-only point", site(w, c))
					} else {
						r.Violate("X-1a", key, fmt.Sprintf("consensus-overlay method %s called at a point with context %s (reachable outside block execution)", a.Method, p), map[string]interface{}{"context": p.String(), "path": x.reachAll.Path(fn)}, site(w, c))
					}
				case mempoolOverlay[a.Method]:
					if p.within(polF | polQ) {
						r.OK("X-1b", key, "mempool-overlay method at a point never reached by block execution", site(w, c))
					} else {
						r.Violate("X-1b", key, fmt.Sprintf("mempool-overlay method %s called at a point with context %s (block execution would read or write the mempool's scratch view)", a.Method, p), map[string]interface{}{"context": p.String(), "path": x.reachAll.Path(fn)}, site(w, c))
					}
				default:
					r.Undecided("X-1a", key, "ledger method not classified as consensus overlay, mempool overlay or tree read", site(w, c))
				}
			}
		}
	}
}

func x1c(w *World, r *Report, x *ExecCtx) {
	checkVal := func(v ssa.Value, at *ssa.BasicBlock, key, what string, in ssa.Instruction) {
		if ok, neg := x.execVal(v); ok {
			if neg {
				r.Violate("X-1c", key, what+" is the negation of the exec flag", nil, site(w, in))
			} else {
				r.OK("X-1c", key, what+" is the exec flag itself", site(w, in))
			}
			return
		}
		if b, isC := constBool(v); isC {
			p := x.PolAt(at)
			good := b && p.within(polT) || !b && p.within(polF|polQ)
			if good {
				r.OK("X-1c", key, fmt.Sprintf("%s is the constant %v in a context %s", what, b, p), site(w, in))
			} else {
				r.Violate("X-1c", key, fmt.Sprintf("%s is the constant %v but the call is made in context %s", what, b, p), map[string]interface{}{"path": x.reachAll.Path(at.Parent())}, site(w, in))
			}
			return
		}
		r.Violate("X-1c", key, what+" is neither the exec flag nor a constant: "+w.Canon(v), nil, site(w, in))
	}
	for _, fn := range x.funcs {
		name := w.FName(fn)
		for _, c := range CallsIn(fn) {
			seen := map[int]bool{}
			for _, cal := range w.Callees(c) {
				eps := x.execParam[cal]
				if eps == nil {
					continue
				}
				for pi := range eps {
					ai := pi
					if c.Common().IsInvoke() {
						ai = pi - 1
					}
					if ai < 0 || ai >= len(c.Common().Args) || seen[ai] {
						continue
					}
					seen[ai] = true
					key := fmt.Sprintf("%s->%s#%d", name, callName(c.Common()), ai)
					checkVal(c.Common().Args[ai], c.Block(), key, "the exec argument", c)
				}
			}
		}
		for _, fs := range w.fieldStores(fn) {
			isFlag := fs.Field.Name() == "Exec" && namedIs(fs.Owner, absPkg(pkgCT), "TrxContext") ||
				fs.Field.Name() == "exec" && namedIs(fs.Owner, absPkg("ctrlers/vm/evm"), "StateDBWrapper")
			if !isFlag {
				continue
			}
			// the store itself defines the flag: the value must be an exec parameter / flag / consistent constant
			v := fs.Val
			if p, isP := v.(*ssa.Parameter); isP {
				// a parameter stored into the flag is an exec parameter by definition
				pfn := p.Parent()
				for i, q := range pfn.Params {
					if q == p {
						if x.execParam[pfn] == nil {
							x.execParam[pfn] = map[int]bool{}
						}
						x.execParam[pfn][i] = true
					}
				}
			}
			checkVal(v, fs.In.Block(), name+":store:"+fs.Owner.Obj().Name()+"."+fs.Field.Name(), "the stored flag", fs.In)
		}
	}
	// parameters that were promoted by a flag store: re-check their call sites
	for _, fn := range x.funcs {
		for _, c := range CallsIn(fn) {
			for _, cal := range w.Callees(c) {
				if cal.Name() != "NewTrxContext" && cal.Name() != "Prepare" {
					continue
				}
				for pi := range x.execParam[cal] {
					ai := pi
					if c.Common().IsInvoke() {
						ai = pi - 1
					}
					if ai < 0 || ai >= len(c.Common().Args) {
						continue
					}
					key := fmt.Sprintf("%s->%s#%d", w.FName(fn), callName(c.Common()), ai)
					if r.seen["X-1c:"+key] {
						continue
					}
					checkVal(c.Common().Args[ai], c.Block(), key, "the exec argument", c)
				}
			}
		}
	}
}

func x2(w *World, r *Report, x *ExecCtx) {
	for _, fn := range x.funcs {
		name := w.FName(fn)
		for _, e := range w.csEffects(fn) {
			if baseFresh(e.Base) {
				continue
			}
			p := x.PolAt(e.In.Block())
			key := fmt.Sprintf("%s:%s:%s.%s", name, e.Kind, e.Owner.Obj().Name(), e.Field)
			switch {
			case p.within(polT):
				r.OK("X-2", key, "controller state written at a consensus-only point", site(w, e.In))
			case p.within(polT|polQ) && e.Owner.Obj().Name() == "StateDBWrapper" && w.Canon(e.Base) == "recv":
				r.OK("X-2", key, "write to the receiver of a StateDBWrapper method in query context: the only wrapper a query can hold is the scratch one built by ImmutableStateAt (no query-context access to EVMCtrler.stateDBWrapper: X-4; construction: C17 E-5)", site(w, e.In))
			default:
				r.Violate("X-2", key, fmt.Sprintf("in-memory controller state is written at a point with context %s (a CheckTx or Query would change what block execution later reads)", p), map[string]interface{}{"context": p.String(), "path": x.reachAll.Path(fn)}, site(w, e.In))
			}
		}
	}
}

func x3(w *World, r *Report) {
	fn := needFn(r, "X-3", w, fref{pkgLedger, "FinalityLedger", "Commit"})
	if fn == nil {
		return
	}
	var resets []ssa.Instruction
	for _, c := range CallsIn(fn) {
		if callName(c.Common()) == "reset" && strings.HasSuffix(w.Canon(c.Common().Args[0]), ".cachedItems") {
			resets = append(resets, c)
		}
	}
	bad := ""
	// every successful path of Commit (helpers expanded) resets the mempool overlay
	{
		resetEv := func(in ssa.Instruction) string {
			if c, ok := in.(ssa.CallInstruction); ok && callName(c.Common()) == "reset" && strings.HasSuffix(w.Canon(c.Common().Args[0]), ".cachedItems") {
				return "RESET"
			}
			return ""
		}
		paths, complete := w.enumPaths(fn, func(ssa.Value) (bool, bool) { return false, false }, resetEv, 4000)
		if !complete {
			bad = "path enumeration incomplete"
		}
		nOK := 0
		for _, p := range paths {
			if p.Term == "ok" {
				nOK++
				if len(p.Events) == 0 {
					bad = "a success return without reset"
					if p.Ret != nil {
						bad = site(w, p.Ret)
					}
				}
			}
		}
		if nOK == 0 {
			bad = "no success path"
		}
	}
	var sites []string
	for _, rs := range resets {
		sites = append(sites, site(w, rs))
	}
	r.Check(bad == "", "X-3", "FinalityLedger.Commit:cachedItems.reset", "every success return of Commit discards the mempool overlay", "a success return of FinalityLedger.Commit leaves the mempool overlay in place: "+bad, sites...)
}

func x4(w *World, r *Report, x *ExecCtx) {
	live := map[string]bool{"stateDBWrapper": true, "vmevm": true, "blockGasPool": true}
	for _, fn := range x.funcs {
		for _, b := range fn.Blocks {
			for _, in := range b.Instrs {
				fa, ok := in.(*ssa.FieldAddr)
				if !ok {
					continue
				}
				n, f := fieldOf(fa.X.Type(), fa.Field)
				if f == nil || n == nil || n.Obj().Name() != "EVMCtrler" || !live[f.Name()] {
					continue
				}
				p := x.PolAt(b)
				key := fmt.Sprintf("%s:EVMCtrler.%s", w.FName(fn), f.Name())
				if p.within(polT) {
					r.OK("X-4", key, "live EVM state touched at a consensus-only point", site(w, in))
				} else {
					r.Violate("X-4", key, fmt.Sprintf("the live EVM state is touched in context %s (contract transactions must not run on the check/query path against it)", p), map[string]interface{}{"path": x.reachAll.Path(fn)}, site(w, in))
				}
			}
		}
	}
}

// ---- X-6: no in-place arithmetic on an object that IS shared state

// x6: a 256-bit value handed out by an accessor may be the stored object itself
// (GovParams.MinValidatorStake() returns the field, GasPrice() a copy). The
// three-address arithmetic of holiman/uint256 writes into its destination, so a
// destination whose provenance is a field of the governance parameters or of a
// controller is a write to that state — from wherever it is made (a mempool
// check, a query, an error message). Item types (Account, Stake, Reward, …) are
// excluded: their fields are mutated in place by design and tracked as item effects.
func x6(w *World, r *Report, rule string, fns []*ssa.Function) {
	n := 0
	for _, fn := range fns {
		if inLedgerPkg(w, fn) {
			continue
		}
		for _, c := range CallsIn(fn) {
			dest, ok := mutatesZ(c.Common())
			if !ok {
				continue
			}
			n++
			var roots []rootVal
			w.rootsOf(dest, &vframe{fn: fn}, 0, &roots, map[ssa.Value]bool{})
			for _, rt := range roots {
				ld, isLd := rt.v.(*ssa.UnOp)
				if !isLd || ld.Op != token.MUL {
					continue
				}
				fa, isFA := ld.X.(*ssa.FieldAddr)
				if !isFA || baseFresh(fa.X) {
					continue
				}
				owner, f := fieldOf(fa.X.Type(), fa.Field)
				if owner == nil || f == nil || owner.Obj().Pkg() == nil {
					continue
				}
				if !(isCSType(owner) || owner.Obj().Name() == "GovParams") {
					continue
				}
				// the owner's own methods are its primitives (who may call them is decided elsewhere)
				if rt.fr != nil && rt.fr.fn == fn && fn.Signature.Recv() != nil {
					if rn, _ := deref(fn.Signature.Recv().Type()).(*types.Named); rn != nil && rn.Obj() == owner.Obj() {
						continue
					}
				}
				key := fmt.Sprintf("%s:%s.%s", w.FName(fn), owner.Obj().Name(), f.Name())
				r.Violate(rule, "in-place:"+key, fmt.Sprintf("an in-place 256-bit operation writes into %s.%s itself (the value was handed out by an accessor that returns the stored object, not a copy): shared state changes outside its owner", owner.Obj().Name(), f.Name()), nil, site(w, c))
			}
		}
	}
	r.OK(rule, "in-place:scanned", fmt.Sprintf("%d in-place 256-bit operations scanned: none writes into a governance parameter or a controller field", n))
}

// ---- X-8: package-level objects are not changed in place on a request path
//
// A value copied out of a package-level variable still shares what its pointer
// fields point to. A query or a mempool check that updates such an object in place
// (`ctx := template; ctx.Number.SetInt64(h)`) changes what block execution reads.
func x8(w *World, r *Report, x *ExecCtx) {
	n := 0
	var fromGlobal func(v ssa.Value, d int, seen map[ssa.Value]bool) *ssa.Global
	fromGlobal = func(v ssa.Value, d int, seen map[ssa.Value]bool) *ssa.Global {
		if v == nil || d > 6 || seen[v] {
			return nil
		}
		seen[v] = true
		switch y := stripConv(v).(type) {
		case *ssa.Global:
			if y.Pkg != nil && w.InModulePkg(y.Pkg.Pkg.Path()) {
				return y
			}
		case *ssa.UnOp:
			if y.Op == token.MUL {
				return fromGlobal(y.X, d+1, seen)
			}
		case *ssa.FieldAddr:
			return fromGlobal(y.X, d+1, seen)
		case *ssa.IndexAddr:
			return fromGlobal(y.X, d+1, seen)
		case *ssa.Field:
			return fromGlobal(y.X, d+1, seen)
		case *ssa.Alloc:
			// a local copy: what was stored into it
			if refs := y.Referrers(); refs != nil {
				for _, ref := range *refs {
					if st, ok := ref.(*ssa.Store); ok && st.Addr == ssa.Value(y) {
						if g := fromGlobal(st.Val, d+1, seen); g != nil {
							return g
						}
					}
				}
			}
		case *ssa.Phi:
			for _, e := range y.Edges {
				if g := fromGlobal(e, d+1, seen); g != nil {
					return g
				}
			}
		}
		return nil
	}
	for _, fn := range x.funcs {
		if fn.Blocks == nil || isPkgInit(fn) {
			continue
		}
		for _, b := range fn.Blocks {
			for _, in := range b.Instrs {
				var dest ssa.Value
				what := ""
				switch y := in.(type) {
				case ssa.CallInstruction:
					if d, ok := mutatesZ(y.Common()); ok {
						dest, what = d, callName(y.Common())
					}
					// a concurrent container kept in a package-level variable (sync.Map)
					if cal := y.Common().StaticCallee(); cal != nil && cal.Pkg != nil && cal.Pkg.Pkg.Path() == "sync" && cal.Signature.Recv() != nil && len(y.Common().Args) > 0 {
						switch cal.Name() {
						case "Store", "LoadOrStore", "LoadAndDelete", "Delete", "Swap", "CompareAndSwap", "CompareAndDelete":
							if strings.Contains(cal.Signature.Recv().Type().String(), "sync.Map") {
								dest, what = y.Common().Args[0], "sync.Map."+cal.Name()
							}
						}
					}
				case *ssa.MapUpdate:
					dest, what = y.Map, "map-update"
				case *ssa.Store:
					// the package-level variable itself is assigned
					if gv, isG := y.Addr.(*ssa.Global); isG {
						dest, what = gv, "assign"
					}
					// a store through a pointer held by the package-level object (not into the local copy itself)
					switch a := y.Addr.(type) {
					case *ssa.FieldAddr:
						if ld, isLd := a.X.(*ssa.UnOp); isLd && ld.Op == token.MUL {
							dest, what = ld, "store"
						}
					case *ssa.IndexAddr:
						if ld, isLd := a.X.(*ssa.UnOp); isLd && ld.Op == token.MUL {
							dest, what = ld, "store"
						}
					}
				}
				if dest == nil {
					continue
				}
				g := fromGlobal(dest, 0, map[ssa.Value]bool{})
				if g == nil {
					continue
				}
				// the pointer itself must come out of the global (a load of a pointer-typed field
				// or element of it), not be the address of the package variable's own storage in a
				// function that only block execution reaches
				n++
				p := x.PolAt(b)
				key := fmt.Sprintf("%s:%s:%s", w.FName(fn), g.Name(), what)
				if p&(polF|polQ) != 0 {
					r.Violate("X-8", "global-in-place:"+key, fmt.Sprintf("an object reachable from the package-level variable %s is changed in place at a point that can run for a mempool check or a query: every other user of that object — block execution included — sees the change", g.Name()), nil, site(w, in))
				} else {
					r.OK("X-8", "global-in-place:"+key, "changed only at consensus-only points", site(w, in))
				}
			}
		}
	}
	r.OK("X-8", "scanned", fmt.Sprintf("%d in-place change(s) of objects reachable from package-level variables on the request and block paths", n))
}
